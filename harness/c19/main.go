// C19: published events are delivered once, in order, flushed on shutdown.
// Real KafkaWriter + FifoBuffer (instrumented), injected write function.
package main

import (
	"fmt"
	"io"
	"sort"
	"strings"
	"time"

	"github.com/AliceO2Group/Control/common/event"
	"github.com/AliceO2Group/Control/common/event/topic"
	pb "github.com/AliceO2Group/Control/common/protos"
	"github.com/AliceO2Group/Control/core/the"
	vrt "github.com/AliceO2Group/Control/verif_vrt"
	"github.com/segmentio/kafka-go"
	"github.com/sirupsen/logrus"
	"github.com/spf13/viper"
	"google.golang.org/protobuf/proto"
)

type params struct {
	producers, events int
	hold              bool // broker holds every batch until all producers returned
	taskEvents        bool
	// --- added in the gap pass
	kinds     bool          // the j-th event of a producer is of the j-th kind of allKinds (every payload type of events.proto)
	latency   time.Duration // >0: the broker needs that much (virtual) time per batch
	holdClose bool          // burst, the broker sits on the first batch, second burst, Close(): the broker answers only once Close() has been entered (shutdown while a write is in flight and more is queued)
	idle      bool          // burst, quiet period, second burst: what was published must have reached the broker in the quiet period, without any shutdown
}

// every payload type internalEventToKafkaEvent knows; "env" = the event is about an environment
var allKinds = []string{"EnvironmentEvent", "RoleEvent", "CallEvent", "IntegratedServiceEvent", "RunEvent", "TaskEvent", "CoreStart", "FrameworkEvent", "MesosHeartbeat"}

// mkEvent builds the event of the given kind tagged msg about environment env; want is the
// partition key the statement / mechanism asks for ("" = not about an environment: not judged)
func mkEvent(kind, msg, env string) (e interface{}, id, want string) {
	switch kind {
	case "EnvironmentEvent":
		return &pb.Ev_EnvironmentEvent{EnvironmentId: env, Message: msg}, msg + "@" + env, env
	case "RoleEvent":
		return &pb.Ev_RoleEvent{EnvironmentId: env, Name: msg, RolePath: "wf.role-" + msg}, msg + "@" + env, env
	case "CallEvent":
		return &pb.Ev_CallEvent{EnvironmentId: env, Func: msg, Path: "wf.call-" + msg}, msg + "@" + env, env
	case "IntegratedServiceEvent":
		return &pb.Ev_IntegratedServiceEvent{EnvironmentId: env, Name: msg, OperationName: "op-" + msg}, msg + "@" + env, env
	case "RunEvent":
		return &pb.Ev_RunEvent{EnvironmentId: env, State: msg, RunNumber: 7}, msg + "@" + env, env
	case "TaskEvent":
		return &pb.Ev_TaskEvent{Name: msg, Taskid: "task7", EnvironmentId: env}, msg + "@task7", "task7"
	case "CoreStart":
		return &pb.Ev_MetaEvent_CoreStart{FrameworkId: msg}, msg + "@", ""
	case "FrameworkEvent":
		return &pb.Ev_MetaEvent_FrameworkEvent{FrameworkId: "fw", Message: msg}, msg + "@", ""
	}
	return &pb.Ev_MetaEvent_MesosHeartbeat{}, "heartbeat@", ""
}

func decode(m kafka.Message) (id string, key string) {
	id, key, _ = decodeKind(m)
	return
}

func decodeKind(m kafka.Message) (id string, key string, kind string) {
	var ev pb.Event
	if err := proto.Unmarshal(m.Value, &ev); err != nil {
		return "undecodable", string(m.Key), "?"
	}
	if e := ev.GetEnvironmentEvent(); e != nil {
		return e.Message + "@" + e.EnvironmentId, string(m.Key), "EnvironmentEvent"
	}
	if e := ev.GetTaskEvent(); e != nil {
		return e.Name + "@" + e.Taskid, string(m.Key), "TaskEvent"
	}
	if e := ev.GetRoleEvent(); e != nil {
		return e.Name + "@" + e.EnvironmentId, string(m.Key), "RoleEvent"
	}
	if e := ev.GetCallEvent(); e != nil {
		return e.Func + "@" + e.EnvironmentId, string(m.Key), "CallEvent"
	}
	if e := ev.GetIntegratedServiceEvent(); e != nil {
		return e.Name + "@" + e.EnvironmentId, string(m.Key), "IntegratedServiceEvent"
	}
	if e := ev.GetRunEvent(); e != nil {
		return e.State + "@" + e.EnvironmentId, string(m.Key), "RunEvent"
	}
	if e := ev.GetCoreStartEvent(); e != nil {
		return e.FrameworkId + "@", string(m.Key), "CoreStart"
	}
	if e := ev.GetFrameworkEvent(); e != nil {
		return e.Message + "@", string(m.Key), "FrameworkEvent"
	}
	if e := ev.GetMesosHeartbeatEvent(); e != nil {
		return "heartbeat@", string(m.Key), "MesosHeartbeat"
	}
	return "other", string(m.Key), "?"
}

func scenario(name string, p params, q, t vrt.Bounds) *vrt.Scenario {
	var batches [][]string // decoded ids per batch
	var keys map[string]string
	var kindOf map[string]string
	var published [][]string // per producer, in publication order
	var closed bool
	var atClose, ackedAtClose int
	var atIdle, publishedAtIdle int
	var producerTook []time.Duration // virtual time a producer spent publishing one burst
	producersDone := 0
	closing := false
	body := func() {
		batches, keys, kindOf, published, closed, producersDone = nil, map[string]string{}, map[string]string{}, make([][]string, p.producers), false, 0
		closing, atIdle, publishedAtIdle, producerTook = false, -1, 0, nil
		handed, acked := 0, 0
		w := event.NewKafkaWriterForVerif(func(ms []kafka.Message) {
			handed += len(ms) // the broker's write function has been called with them
			var b []string
			for _, m := range ms {
				id, key, kind := decodeKind(m)
				b = append(b, id)
				keys[id] = key
				kindOf[id] = kind
			}
			switch {
			case p.hold:
				vrt.WaitUntil("broker-hold", func() bool { return producersDone == p.producers })
			case p.holdClose:
				vrt.WaitUntil("broker-hold-until-closing", func() bool { return closing })
			case p.latency > 0:
				vrt.Sleep(p.latency)
			default:
				vrt.Yield("broker-latency")
			}
			batches = append(batches, b)
			acked += len(ms) // the write call has returned: the broker has them
			vrt.Logf("batch %v", b)
		})
		burst := func(phase int) {
			var wg vrt.WaitGroup
			wg.Add(p.producers)
			for i := 0; i < p.producers; i++ {
				i := i
				vrt.GoFG(fmt.Sprintf("producer%d", i), func() {
					t0 := vrt.VNow()
					for j := phase * p.events; j < (phase+1)*p.events; j++ {
						env := fmt.Sprintf("env%d", (i+j)%2)
						msg := fmt.Sprintf("p%d-e%d", i, j)
						switch {
						case p.kinds:
							kind := allKinds[j%len(allKinds)]
							if kind == "MesosHeartbeat" && i > 0 {
								kind = "CoreStart" // a heartbeat carries nothing to tell two of them apart
							}
							e, id, _ := mkEvent(kind, msg, env)
							w.WriteEvent(e)
							published[i] = append(published[i], id)
						case p.taskEvents && j%2 == 1:
							w.WriteEvent(&pb.Ev_TaskEvent{Name: msg, Taskid: "task7"})
							published[i] = append(published[i], msg+"@task7")
						default:
							w.WriteEvent(&pb.Ev_EnvironmentEvent{EnvironmentId: env, Message: msg})
							published[i] = append(published[i], msg+"@"+env)
						}
					}
					producerTook = append(producerTook, vrt.VNow()-t0)
					producersDone++
					wg.Done()
				})
			}
			wg.Wait()
		}
		burst(0)
		if p.idle || p.holdClose {
			vrt.Quiesce("quiet-period")
			if p.idle {
				// nobody shuts anything down: when the system has gone quiet, what was published is with the broker
				for _, pp := range published {
					publishedAtIdle += len(pp)
				}
				atIdle = acked
			}
			// holdClose: the broker is now sitting on the first batch; the second burst queues up behind it
			vrt.Logf("quiet")
			producersDone = 0
			burst(1)
		}
		closing = true
		w.Close()
		closed = true
		// "every event accepted before shutdown is handed to the broker before shutdown completes":
		// what the broker holds at the instant Close() returns
		atClose, ackedAtClose = handed, acked
		vrt.Logf("closed")
	}
	check := func(x *vrt.Exec) (out []vrt.Violation) {
		if p.idle && atIdle >= 0 && atIdle < publishedAtIdle {
			out = append(out, vrt.Violation{Clause: "not-delivered-before-shutdown", Detail: fmt.Sprintf("%d events were published, then nothing could run any more and no shutdown was requested: the broker had received %d of them; batches at the end=%v", publishedAtIdle, atIdle, batches)})
		}
		if !closed {
			return out // deadlock is reported by the engine under the deadlock clause
		}
		nPub := 0
		for _, p := range published {
			nPub += len(p)
		}
		if atClose < nPub {
			out = append(out, vrt.Violation{Clause: "handed-to-the-broker-only-after-shutdown-completed", Detail: fmt.Sprintf("%d events were accepted before Close(), the broker held %d of them when Close() returned; batches at the end=%v", nPub, atClose, batches)})
		} else if ackedAtClose < nPub {
			out = append(out, vrt.Violation{Clause: "handed-to-the-broker-only-after-shutdown-completed", Detail: fmt.Sprintf("%d events were accepted before Close(); when Close() returned the write calls for only %d of them had returned (%d were inside a write call still in flight)", nPub, ackedAtClose, atClose-ackedAtClose)})
		}
		// "without the producers ever waiting for the broker": a broker that needs (virtual) time per
		// batch must not cost the producers any
		if p.latency > 0 {
			for i, d := range producerTook {
				if d >= p.latency {
					out = append(out, vrt.Violation{Clause: "producer-waited-for-broker", Detail: fmt.Sprintf("the broker needs %s per batch; a producer (#%d to finish) needed %s of virtual time to publish %d events", p.latency, i, d, p.events)})
					break
				}
			}
		}
		var flat []string
		for _, b := range batches {
			if len(b) > 100 {
				out = append(out, vrt.Violation{Clause: "batch-too-large", Detail: fmt.Sprintf("batch of %d", len(b))})
			}
			flat = append(flat, b...)
		}
		count := map[string]int{}
		for _, id := range flat {
			count[id]++
		}
		for i := range published {
			for _, id := range published[i] {
				switch c := count[id]; {
				case c == 0:
					out = append(out, vrt.Violation{Clause: "lost-at-shutdown", Detail: fmt.Sprintf("event %s was accepted before Close() but never handed to the broker; batches=%v", id, batches)})
				case c > 1:
					out = append(out, vrt.Violation{Clause: "duplicate-delivery", Detail: fmt.Sprintf("event %s delivered %d times", id, c)})
				}
			}
			// per-producer order
			pos := -1
			for _, id := range published[i] {
				for k, f := range flat {
					if f == id {
						if k < pos {
							out = append(out, vrt.Violation{Clause: "order", Detail: fmt.Sprintf("producer %d: %s delivered before its predecessor; flat=%v", i, id, flat)})
						}
						pos = k
						break
					}
				}
			}
		}
		if len(flat) > 0 {
			n := 0
			for _, p := range published {
				n += len(p)
			}
			if len(flat) > n {
				out = append(out, vrt.Violation{Clause: "invented", Detail: fmt.Sprintf("%d delivered, %d published", len(flat), n)})
			}
		}
		for id, key := range keys {
			want := id[strings.Index(id, "@")+1:]
			if want == "" {
				continue // not about an environment or a task: the statement says nothing about its key
			}
			if key != want {
				clause := "partition-key"
				if k := kindOf[id]; k != "EnvironmentEvent" && k != "TaskEvent" {
					clause += ":" + k
				}
				out = append(out, vrt.Violation{Clause: clause, Detail: fmt.Sprintf("event %s (%s) has key %q, want %q", id, kindOf[id], key, want)})
			}
		}
		return out
	}
	dc := "close-hangs"
	if p.hold {
		dc = "producer-waits-for-broker-or-close-hangs"
	}
	doc := fmt.Sprintf("%d producers x %d events, hold=%v", p.producers, p.events, p.hold)
	switch {
	case p.kinds:
		doc += ", every payload type of events.proto in turn, two environments"
	case p.latency > 0:
		doc += fmt.Sprintf(", the broker needs %s of virtual time per batch", p.latency)
	case p.holdClose:
		doc += ", the broker sits on the first batch while as many events again are published and answers only once Close() has been entered"
	case p.idle:
		doc += ", then a quiet period without shutdown (everything published must be with the broker), then as many again and Close()"
	}
	return &vrt.Scenario{Name: name, Prop: "C19", Body: body, Check: check, Quick: q, Thorough: t, DeadlockClause: dc, PanicClause: "panic",
		Setup: func() { logrus.SetOutput(io.Discard) },
		NonTrivial: func(x *vrt.Exec) bool { return len(batches) > 0 || p.events == 0 },
		Doc:        doc}
}

// topics: the writers the core keeps per topic (core/the/eventwriter.go). Events are published through
// the.EventWriter() / the.EventWriterWithTopic(); the core's shutdown is the.ClearEventWriters(), which
// must hand everything accepted on every topic to the broker before it returns.
func topics(name string, topicNames []topic.Topic, events int, q, t vrt.Bounds) *vrt.Scenario {
	var published map[topic.Topic][]string
	var delivered map[topic.Topic][]string
	var ackedAtClear, nPub int
	var cleared, sameWriter bool
	body := func() {
		published, delivered = map[topic.Topic][]string{}, map[topic.Topic][]string{}
		cleared, sameWriter, ackedAtClear, nPub = false, true, 0, 0
		acked := 0
		the.ResetEventWritersForVerif()
		for _, tn := range topicNames {
			tn := tn
			the.SetEventWriterForVerif(tn, event.NewKafkaWriterForVerif(func(ms []kafka.Message) {
				vrt.Yield("broker-latency")
				for _, m := range ms {
					id, _ := decode(m)
					delivered[tn] = append(delivered[tn], id)
				}
				acked += len(ms)
				vrt.Logf("batch on %s: %d", tn, len(ms))
			}))
		}
		var wg vrt.WaitGroup
		wg.Add(len(topicNames))
		for i, tn := range topicNames {
			i, tn := i, tn
			vrt.GoFG(fmt.Sprintf("producer-%s", tn), func() {
				for j := 0; j < events; j++ {
					w := the.EventWriterWithTopic(tn)
					if tn == topic.Root {
						w = the.EventWriter()
					}
					if j > 0 && w != the.EventWriterWithTopic(tn) {
						sameWriter = false
					}
					msg := fmt.Sprintf("t%d-e%d", i, j)
					w.WriteEvent(&pb.Ev_EnvironmentEvent{EnvironmentId: "envA", Message: msg})
					published[tn] = append(published[tn], msg+"@envA")
				}
				wg.Done()
			})
		}
		wg.Wait()
		the.ClearEventWriters()
		cleared = true
		ackedAtClear = acked
		for _, ids := range published {
			nPub += len(ids)
		}
		vrt.Logf("cleared")
	}
	check := func(x *vrt.Exec) (out []vrt.Violation) {
		if !cleared {
			return nil
		}
		if ackedAtClear < nPub {
			out = append(out, vrt.Violation{Clause: "topic-writers-not-flushed-at-shutdown", Detail: fmt.Sprintf("%d events were accepted on %d topics before ClearEventWriters(); the broker held %d of them when it returned; delivered at the end=%v", nPub, len(topicNames), ackedAtClear, delivered)})
		}
		if !sameWriter {
			out = append(out, vrt.Violation{Clause: "topic-writer-not-stable", Detail: "two look-ups of the writer of one topic returned different writers (per-producer order across them is nobody's)"})
		}
		for tn, ids := range published {
			got := delivered[tn]
			if len(got) > len(ids) {
				out = append(out, vrt.Violation{Clause: "duplicate-delivery", Detail: fmt.Sprintf("topic %s: published %v, delivered %v", tn, ids, got)})
				continue
			}
			for k, id := range got {
				if id != ids[k] {
					out = append(out, vrt.Violation{Clause: "order", Detail: fmt.Sprintf("topic %s: published %v, delivered %v", tn, ids, got)})
					break
				}
			}
			if len(got) < len(ids) {
				out = append(out, vrt.Violation{Clause: "lost-at-shutdown", Detail: fmt.Sprintf("topic %s: published %v, delivered %v", tn, ids, got)})
			}
		}
		return out
	}
	return &vrt.Scenario{Name: name, Prop: "C19", Body: body, Check: check, Quick: q, Thorough: t, DeadlockClause: "close-hangs", PanicClause: "panic",
		Setup: func() { logrus.SetOutput(io.Discard) },
		NonTrivial: func(x *vrt.Exec) bool { return len(delivered) > 0 },
		Doc:        fmt.Sprintf("%d topics of the core's writer table (the.EventWriterWithTopic) x %d events, shutdown = the.ClearEventWriters()", len(topicNames), events)}
}

// topicsFirstUse: nothing is installed beforehand; the writers are created by the core's own table on the
// first use of a topic (enableKafka), by several producers at once - per topic `prodPerTopic` of them.
func topicsFirstUse(name string, topicNames []topic.Topic, prodPerTopic, events int, q, t vrt.Bounds) *vrt.Scenario {
	var published map[string][]string // per producer
	var topicOf map[string]topic.Topic
	var delivered map[topic.Topic][]string
	var ackedAtClear, nPub, created int
	var cleared, sameWriter bool
	body := func() {
		published, delivered, topicOf = map[string][]string{}, map[topic.Topic][]string{}, map[string]topic.Topic{}
		cleared, sameWriter, ackedAtClear, nPub, created = false, true, 0, 0, 0
		acked := 0
		the.ResetEventWritersForVerif()
		viper.Set("enableKafka", true)
		vrt.AtExit(func() { viper.Set("enableKafka", false); event.WriterFactoryForVerif = nil })
		event.WriterFactoryForVerif = func(tn topic.Topic) *event.KafkaWriter {
			created++
			return event.NewKafkaWriterForVerif(func(ms []kafka.Message) {
				vrt.Yield("broker-latency")
				for _, m := range ms {
					id, _ := decode(m)
					delivered[tn] = append(delivered[tn], id)
				}
				acked += len(ms)
				vrt.Logf("batch on %s: %d", tn, len(ms))
			})
		}
		var wg vrt.WaitGroup
		wg.Add(len(topicNames) * prodPerTopic)
		for i, tn := range topicNames {
			for p := 0; p < prodPerTopic; p++ {
				i, tn, p := i, tn, p
				me := fmt.Sprintf("t%dp%d", i, p)
				topicOf[me] = tn
				vrt.GoFG("producer-"+me, func() {
					var first event.Writer
					for j := 0; j < events; j++ {
						w := the.EventWriterWithTopic(tn)
						if tn == topic.Root {
							w = the.EventWriter()
						}
						if first == nil {
							first = w
						} else if w != first {
							sameWriter = false
						}
						msg := fmt.Sprintf("%s-e%d", me, j)
						w.WriteEvent(&pb.Ev_EnvironmentEvent{EnvironmentId: "envA", Message: msg})
						published[me] = append(published[me], msg+"@envA")
					}
					wg.Done()
				})
			}
		}
		wg.Wait()
		the.ClearEventWriters()
		cleared = true
		ackedAtClear = acked
		for _, ids := range published {
			nPub += len(ids)
		}
		vrt.Logf("cleared: writers created=%d", created)
	}
	check := func(x *vrt.Exec) (out []vrt.Violation) {
		if !cleared {
			return nil
		}
		if ackedAtClear < nPub {
			out = append(out, vrt.Violation{Clause: "topic-writers-not-flushed-at-shutdown", Detail: fmt.Sprintf("%d events were accepted on %d topics before ClearEventWriters(); the broker held %d of them when it returned (%d writers were created); delivered at the end=%v", nPub, len(topicNames), ackedAtClear, created, delivered)})
		}
		if !sameWriter {
			out = append(out, vrt.Violation{Clause: "topic-writer-not-stable", Detail: "two look-ups of the writer of one topic by one producer returned different writers (its order across them is nobody's)"})
		}
		count := map[string]int{}
		for _, ids := range delivered {
			for _, id := range ids {
				count[id]++
			}
		}
		var producers []string
		for me := range published {
			producers = append(producers, me)
		}
		sort.Strings(producers)
		for _, me := range producers {
			ids, got := published[me], []string{}
			for _, id := range delivered[topicOf[me]] {
				if strings.HasPrefix(id, me+"-") {
					got = append(got, id)
				}
			}
			for _, id := range ids {
				if count[id] > 1 {
					out = append(out, vrt.Violation{Clause: "duplicate-delivery", Detail: fmt.Sprintf("producer %s: %s delivered %d times", me, id, count[id])})
					break
				}
			}
			if len(got) < len(ids) {
				out = append(out, vrt.Violation{Clause: "lost-at-shutdown", Detail: fmt.Sprintf("producer %s on %s: published %v, delivered %v", me, topicOf[me], ids, got)})
				continue
			}
			for k := range ids {
				if k < len(got) && got[k] != ids[k] {
					out = append(out, vrt.Violation{Clause: "order", Detail: fmt.Sprintf("producer %s on %s: published %v, delivered %v", me, topicOf[me], ids, got)})
					break
				}
			}
		}
		return out
	}
	return &vrt.Scenario{Name: name, Prop: "C19", Body: body, Check: check, Quick: q, Thorough: t, DeadlockClause: "close-hangs", PanicClause: "panic",
		Setup: func() { logrus.SetOutput(io.Discard) },
		NonTrivial: func(x *vrt.Exec) bool { return len(delivered) > 0 },
		Doc:        fmt.Sprintf("%d topics x %d producers each x %d events, writers created by the core's table on first use (the.EventWriterWithTopic, enableKafka), shutdown = the.ClearEventWriters()", len(topicNames), prodPerTopic, events)}
}

// costly: every departure from the default schedule costs a deviation, also the choice of the next thread
// when the running one blocks (otherwise bound 0 alone is every wake-up order of all the loops)
func costly(sc *vrt.Scenario) *vrt.Scenario {
	sc.Cfg = vrt.Config{FreeSwitchCost: true}
	sc.Doc += "; every departure from the default schedule counts as a deviation"
	return sc
}

func main() {
	vrt.Main([]*vrt.Scenario{
		scenario("empty", params{producers: 1, events: 0}, vrt.Bounds{Dev: 2, Seconds: 60}, vrt.Bounds{Dev: 4, Seconds: 300}),
		scenario("p1e2", params{producers: 1, events: 2}, vrt.Bounds{Dev: 2, Seconds: 60}, vrt.Bounds{Dev: 4, Seconds: 300}),
		scenario("p2e2", params{producers: 2, events: 2, taskEvents: true}, vrt.Bounds{Dev: 2, Seconds: 120}, vrt.Bounds{Dev: 3, Seconds: 1800}),
		scenario("p3e1", params{producers: 3, events: 1}, vrt.Bounds{Dev: 1, Seconds: 90}, vrt.Bounds{Dev: 2, Seconds: 900}),
		scenario("hold", params{producers: 2, events: 2, hold: true}, vrt.Bounds{Dev: 1, Seconds: 60}, vrt.Bounds{Dev: 2, Seconds: 300}),
		scenario("batch205", params{producers: 1, events: 205}, vrt.Bounds{Dev: 0, Seconds: 60}, vrt.Bounds{Dev: 1, Seconds: 300}),
		// more events than the writer's input channel holds (10000): the producer must block, not reorder or drop
		scenario("burst10050", params{producers: 1, events: 10050}, vrt.Bounds{Dev: 0, Seconds: 120}, vrt.Bounds{Dev: 0, Seconds: 300}),
		scenario("burst2x5010", params{producers: 2, events: 5010}, vrt.Bounds{Dev: 0, Seconds: 120}, vrt.Bounds{Dev: 0, Seconds: 300}),
		// --- gap pass: input kinds, broker latency in virtual time, shutdown instants, bursts separated by quiet periods, the core's writer table
		scenario("kinds", params{producers: 2, events: 9, kinds: true}, vrt.Bounds{Dev: 0, Seconds: 60}, vrt.Bounds{Dev: 1, Seconds: 300}),
		scenario("slow205", params{producers: 1, events: 205, latency: 5 * time.Second}, vrt.Bounds{Dev: 0, Seconds: 60}, vrt.Bounds{Dev: 1, Seconds: 300}),
		costly(scenario("slow-p2e2", params{producers: 2, events: 2, latency: 5 * time.Second}, vrt.Bounds{Dev: 2, Seconds: 60}, vrt.Bounds{Dev: 3, Seconds: 600})),
		scenario("hold-close", params{producers: 1, events: 3, holdClose: true}, vrt.Bounds{Dev: 1, Seconds: 60}, vrt.Bounds{Dev: 3, Seconds: 300}),
		costly(scenario("hold-close205", params{producers: 1, events: 205, holdClose: true}, vrt.Bounds{Dev: 0, Seconds: 60}, vrt.Bounds{Dev: 1, Seconds: 300})),
		scenario("quiet-p1e2", params{producers: 1, events: 2, idle: true}, vrt.Bounds{Dev: 1, Seconds: 60}, vrt.Bounds{Dev: 3, Seconds: 600}),
		costly(scenario("quiet-p2e1", params{producers: 2, events: 1, idle: true}, vrt.Bounds{Dev: 2, Seconds: 60}, vrt.Bounds{Dev: 3, Seconds: 900})),
		// held broker and twice as many events as the input channel holds: the buffer between the loops must take them all
		costly(scenario("hold-burst21000", params{producers: 1, events: 21000, hold: true}, vrt.Bounds{Dev: 0, Seconds: 120}, vrt.Bounds{Dev: 0, Seconds: 300})),
		costly(topics("topics2", []topic.Topic{topic.Root, topic.Environment}, 2, vrt.Bounds{Dev: 1, Seconds: 60}, vrt.Bounds{Dev: 3, Seconds: 900})),
		costly(topicsFirstUse("topics-first-use", []topic.Topic{topic.Root, topic.Environment}, 2, 2, vrt.Bounds{Dev: 1, Seconds: 60}, vrt.Bounds{Dev: 2, Seconds: 600})),
		costly(topics("topics3x120", []topic.Topic{topic.Root, topic.Environment, topic.Task}, 120, vrt.Bounds{Dev: 0, Seconds: 60}, vrt.Bounds{Dev: 1, Seconds: 300})),
	})
}

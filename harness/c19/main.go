// C19: published events are delivered once, in order, flushed on shutdown.
// Real KafkaWriter + FifoBuffer (instrumented), injected write function.
package main

import (
	"fmt"
	"io"
	"strings"

	"github.com/AliceO2Group/Control/common/event"
	pb "github.com/AliceO2Group/Control/common/protos"
	vrt "github.com/AliceO2Group/Control/verif_vrt"
	"github.com/segmentio/kafka-go"
	"github.com/sirupsen/logrus"
	"google.golang.org/protobuf/proto"
)

type params struct {
	producers, events int
	hold              bool // broker holds every batch until all producers returned
	taskEvents        bool
}

func decode(m kafka.Message) (id string, key string) {
	var ev pb.Event
	if err := proto.Unmarshal(m.Value, &ev); err != nil {
		return "undecodable", string(m.Key)
	}
	if e := ev.GetEnvironmentEvent(); e != nil {
		return e.Message + "@" + e.EnvironmentId, string(m.Key)
	}
	if e := ev.GetTaskEvent(); e != nil {
		return e.Name + "@" + e.Taskid, string(m.Key)
	}
	return "other", string(m.Key)
}

func scenario(name string, p params, q, t vrt.Bounds) *vrt.Scenario {
	var batches [][]string // decoded ids per batch
	var keys map[string]string
	var published [][]string // per producer, in publication order
	var closed bool
	var atClose int
	producersDone := 0
	body := func() {
		batches, keys, published, closed, producersDone = nil, map[string]string{}, make([][]string, p.producers), false, 0
		handed := 0
		w := event.NewKafkaWriterForVerif(func(ms []kafka.Message) {
			handed += len(ms) // the broker's write function has been called with them
			var b []string
			for _, m := range ms {
				id, key := decode(m)
				b = append(b, id)
				keys[id] = key
			}
			if p.hold {
				vrt.WaitUntil("broker-hold", func() bool { return producersDone == p.producers })
			} else {
				vrt.Yield("broker-latency")
			}
			batches = append(batches, b)
			vrt.Logf("batch %v", b)
		})
		var wg vrt.WaitGroup
		wg.Add(p.producers)
		for i := 0; i < p.producers; i++ {
			i := i
			vrt.GoFG(fmt.Sprintf("producer%d", i), func() {
				for j := 0; j < p.events; j++ {
					env := fmt.Sprintf("env%d", (i+j)%2)
					msg := fmt.Sprintf("p%d-e%d", i, j)
					if p.taskEvents && j%2 == 1 {
						w.WriteEvent(&pb.Ev_TaskEvent{Name: msg, Taskid: "task7"})
						published[i] = append(published[i], msg+"@task7")
					} else {
						w.WriteEvent(&pb.Ev_EnvironmentEvent{EnvironmentId: env, Message: msg})
						published[i] = append(published[i], msg+"@"+env)
					}
				}
				producersDone++
				wg.Done()
			})
		}
		wg.Wait()
		w.Close()
		closed = true
		// "every event accepted before shutdown is handed to the broker before shutdown completes":
		// what the broker holds at the instant Close() returns
		atClose = handed
		vrt.Logf("closed")
	}
	check := func(x *vrt.Exec) (out []vrt.Violation) {
		if !closed {
			return nil // deadlock is reported by the engine under the deadlock clause
		}
		nPub := 0
		for _, p := range published {
			nPub += len(p)
		}
		if atClose < nPub {
			out = append(out, vrt.Violation{Clause: "handed-to-the-broker-only-after-shutdown-completed", Detail: fmt.Sprintf("%d events were accepted before Close(), the broker held %d of them when Close() returned; batches at the end=%v", nPub, atClose, batches)})
		}
		var flat []string
		for _, b := range batches {
			if len(b) > 100 {
				out = append(out, vrt.Violation{Clause: "batch-too-large", Detail: fmt.Sprintf("batch of %d", len(b))})
			}
			flat = append(flat, b...)
		}
		count := map[string]int{}
		for _, id := range flat {
			count[id]++
		}
		for i := range published {
			for _, id := range published[i] {
				switch c := count[id]; {
				case c == 0:
					out = append(out, vrt.Violation{Clause: "lost-at-shutdown", Detail: fmt.Sprintf("event %s was accepted before Close() but never handed to the broker; batches=%v", id, batches)})
				case c > 1:
					out = append(out, vrt.Violation{Clause: "duplicate-delivery", Detail: fmt.Sprintf("event %s delivered %d times", id, c)})
				}
			}
			// per-producer order
			pos := -1
			for _, id := range published[i] {
				for k, f := range flat {
					if f == id {
						if k < pos {
							out = append(out, vrt.Violation{Clause: "order", Detail: fmt.Sprintf("producer %d: %s delivered before its predecessor; flat=%v", i, id, flat)})
						}
						pos = k
						break
					}
				}
			}
		}
		if len(flat) > 0 {
			n := 0
			for _, p := range published {
				n += len(p)
			}
			if len(flat) > n {
				out = append(out, vrt.Violation{Clause: "invented", Detail: fmt.Sprintf("%d delivered, %d published", len(flat), n)})
			}
		}
		for id, key := range keys {
			want := id[strings.Index(id, "@")+1:]
			if key != want {
				out = append(out, vrt.Violation{Clause: "partition-key", Detail: fmt.Sprintf("event %s has key %q, want %q", id, key, want)})
			}
		}
		return out
	}
	dc := "close-hangs"
	if p.hold {
		dc = "producer-waits-for-broker-or-close-hangs"
	}
	return &vrt.Scenario{Name: name, Prop: "C19", Body: body, Check: check, Quick: q, Thorough: t, DeadlockClause: dc, PanicClause: "panic",
		Setup: func() { logrus.SetOutput(io.Discard) },
		NonTrivial: func(x *vrt.Exec) bool { return len(batches) > 0 || p.events == 0 },
		Doc:        fmt.Sprintf("%d producers x %d events, hold=%v", p.producers, p.events, p.hold)}
}

func main() {
	vrt.Main([]*vrt.Scenario{
		scenario("empty", params{producers: 1, events: 0}, vrt.Bounds{Dev: 2, Seconds: 60}, vrt.Bounds{Dev: 4, Seconds: 300}),
		scenario("p1e2", params{producers: 1, events: 2}, vrt.Bounds{Dev: 2, Seconds: 60}, vrt.Bounds{Dev: 4, Seconds: 300}),
		scenario("p2e2", params{producers: 2, events: 2, taskEvents: true}, vrt.Bounds{Dev: 2, Seconds: 120}, vrt.Bounds{Dev: 3, Seconds: 1800}),
		scenario("p3e1", params{producers: 3, events: 1}, vrt.Bounds{Dev: 1, Seconds: 90}, vrt.Bounds{Dev: 2, Seconds: 900}),
		scenario("hold", params{producers: 2, events: 2, hold: true}, vrt.Bounds{Dev: 1, Seconds: 60}, vrt.Bounds{Dev: 2, Seconds: 300}),
		scenario("batch205", params{producers: 1, events: 205}, vrt.Bounds{Dev: 0, Seconds: 60}, vrt.Bounds{Dev: 1, Seconds: 300}),
		// more events than the writer's input channel holds (10000): the producer must block, not reorder or drop
		scenario("burst10050", params{producers: 1, events: 10050}, vrt.Bounds{Dev: 0, Seconds: 120}, vrt.Bounds{Dev: 0, Seconds: 300}),
		scenario("burst2x5010", params{producers: 2, events: 5010}, vrt.Bounds{Dev: 0, Seconds: 120}, vrt.Bounds{Dev: 0, Seconds: 300}),
	})
}

// C08 (hooks fire at their moment, by weight, awaited where declared) and
// C09 (only critical hook failures matter, exactly as documented).
// Real Environment + real looplab/fsm (instrumented copy) + real callable.Call,
// probe plugin, scripted transition bodies (package envsim).
//
// Scenario families (suffix): A/B/C/D = hooks of the first transition of [CONFIGURE], [CONFIGURE,START,STOP],
// [CONFIGURE,RESET], [CONFIGURE(fails),CONFIGURE]; W = weights with several digits, unsigned weight 0;
// X = await points at another weight than the trigger's; E / R = hooks of every transition of
// [START, STOP(fails), GO_ERROR, RECOVER, EXIT] / [CONFIGURE, START, STOP]; K = calls failing by an error
// returned from their function. Hook tasks: harness c09t; the core's own teardown: harness c08t.
package main

import (
	"fmt"
	"strings"

	"github.com/AliceO2Group/Control/core/environment"
	"github.com/AliceO2Group/Control/verif_h/envsim"
	vrt "github.com/AliceO2Group/Control/verif_vrt"
)

// ---- reference timeline (written from docs/handbook/configuration.md, operation_order.md) ----

type attempt struct {
	event, src, dst string
	bodyFail        bool
	// srcs: every state the event is legal in (nil = src only); src is then the state the
	// sequence reaches it in when nothing fails (it names the leave_ moment of the hook triggers),
	// the reference uses the state the environment is really in
	srcs []string
}

var edges = map[string][2]string{
	"CONFIGURE":      {"DEPLOYED", "CONFIGURED"},
	"START_ACTIVITY": {"CONFIGURED", "RUNNING"},
	"STOP_ACTIVITY":  {"RUNNING", "CONFIGURED"},
	"RESET":          {"CONFIGURED", "DEPLOYED"},
	"RECOVER":        {"ERROR", "DEPLOYED"},
	"DEPLOY":         {"STANDBY", "DEPLOYED"},
}

func mk(event string, fail bool) attempt {
	e := edges[event]
	return attempt{event: event, src: e[0], dst: e[1], bodyFail: fail}
}

// mkFrom: an event that is legal in several states (GO_ERROR, EXIT), reached in state src.
func mkFrom(event, src, dst string, srcs ...string) attempt {
	return attempt{event: event, src: src, dst: dst, srcs: srcs}
}

func (a attempt) legalIn(state string) bool {
	if a.srcs == nil {
		return state == a.src
	}
	for _, s := range a.srcs {
		if s == state {
			return true
		}
	}
	return false
}

// moment names of an attempt, index 0,1,3,4 (2 = the task transition itself)
func (a attempt) name(m int) string {
	switch m {
	case 0:
		return "before_" + a.event
	case 1:
		return "leave_" + a.src
	case 3:
		return "enter_" + a.dst
	case 4:
		return "after_" + a.event
	}
	return "BODY"
}

type point struct{ a, m, w int }

func (p point) less(q point) bool {
	if p.a != q.a {
		return p.a < q.a
	}
	if p.m != q.m {
		return p.m < q.m
	}
	return p.w < q.w
}

func parseTrig(s string) (string, int) {
	i := strings.LastIndexAny(s, "+-")
	if i < 0 {
		return s, 0
	}
	var w int
	fmt.Sscanf(s[i:], "%d", &w)
	return s[:i], w
}

// ---- hook-set generation ----------------------------------------------------------

type hookCfg struct {
	a int // attempt of the sequence whose moments the trigger refers to
	m int // trigger moment of that attempt: 0,1,3,4
	w int // weight
	// await: 0 same, 1 next moment of the same transition (+0), 2 a moment of the next transition, 3 never,
	// 4 the next weight of the same moment (w+1), 5 the next moment of the same transition at weight -1
	await int
	crit  bool
	fail  bool
	plain bool // a weight of 0 is written without "+0" (the form the handbook uses: `after_RESET`)
	kind  int  // how a failing call fails: 0 = __call_error in its var stack, 1 = the function returns an error
}

// spell writes a trigger / await expression.
func spell(name string, w int, plain bool) string {
	if w == 0 && plain {
		return name
	}
	return fmt.Sprintf("%s%+d", name, w)
}

func (c hookCfg) build(id string, seq []attempt) envsim.Hook {
	a0 := seq[c.a]
	trig := spell(a0.name(c.m), c.w, c.plain)
	nm := c.m + 1
	if nm == 2 {
		nm = 3
	}
	aw := ""
	switch c.await {
	case 1:
		aw = spell(a0.name(nm), 0, c.plain)
	case 2:
		if len(seq) > c.a+1 {
			aw = spell(seq[c.a+1].name(0), 0, c.plain)
		} else {
			aw = "before_NEVERHAPPENS+0"
		}
	case 3:
		aw = "after_NEVERHAPPENS+0"
	case 4:
		aw = spell(a0.name(c.m), c.w+1, c.plain)
	case 5:
		aw = a0.name(nm) + "-1"
	}
	return envsim.Hook{ID: id, Trigger: trig, Await: aw, Critical: c.crit, Fail: c.fail, ErrKind: c.kind}
}

var moments = []int{0, 1, 3, 4}
var weights = []int{-1, 0, 1}

// all hook configs for the ordering scenarios (no failures)
func orderCfgs() (out []hookCfg) {
	for _, m := range moments {
		for _, w := range weights {
			for aw := 0; aw < 4; aw++ {
				if aw == 1 && m == 4 {
					continue
				}
				out = append(out, hookCfg{m: m, w: w, await: aw, crit: true})
			}
		}
	}
	return
}

// all hook configs for the failure scenarios
func failCfgs() (out []hookCfg) {
	for _, m := range moments {
		for _, w := range weights {
			for _, aw := range []int{0, 1} {
				if aw == 1 && m == 4 {
					continue
				}
				for _, crit := range []bool{true, false} {
					for _, fail := range []bool{true, false} {
						out = append(out, hookCfg{m: m, w: w, await: aw, crit: crit, fail: fail})
					}
				}
			}
		}
	}
	return
}

// weightCfgs: weights far from zero and with several digits (their textual order differs from the
// numeric one) and weight 0 in the handbook's spelling without "+0".
func weightCfgs() (out []hookCfg) {
	for _, m := range moments {
		for _, w := range []int{-10, -2, 0, 2, 10} {
			for _, aw := range []int{0, 1} {
				if aw == 1 && m == 4 {
					continue
				}
				out = append(out, hookCfg{m: m, w: w, await: aw, crit: true, plain: true})
			}
		}
	}
	return
}

// awaitCfgs: await points that differ from the trigger in the weight - a later weight of the trigger's
// own moment (in the same pass of the moment: -2 > -1, 0 > +1, +1 > +2; across the built-in work: -1 > +0)
// and a negative weight of the next moment.
func awaitCfgs(modes []int) (out []hookCfg) {
	for _, m := range moments {
		for _, w := range []int{-2, -1, 0, 1} {
			for _, aw := range modes {
				if aw == 5 && m == 4 {
					continue
				}
				out = append(out, hookCfg{m: m, w: w, await: aw, crit: true})
			}
		}
	}
	return
}

// seqCfgs: hooks triggered at any moment of ANY transition of the sequence (the callbacks have code of their
// own for START_ACTIVITY, STOP_ACTIVITY, GO_ERROR and for leaving RUNNING between the two passes of a moment).
func seqCfgs(seq []attempt, awaits []int, failing bool) (out []hookCfg) {
	for a := range seq {
		for _, m := range moments {
			for _, w := range weights {
				for _, aw := range awaits {
					if aw == 1 && m == 4 {
						continue
					}
					if !failing {
						out = append(out, hookCfg{a: a, m: m, w: w, await: aw, crit: true})
						continue
					}
					for _, crit := range []bool{true, false} {
						for _, fail := range []bool{true, false} {
							out = append(out, hookCfg{a: a, m: m, w: w, await: aw, crit: crit, fail: fail})
						}
					}
				}
			}
		}
	}
	return
}

// kindCfgs: the failing call fails by returning an error from its function (template execution error)
// instead of leaving __call_error in its var stack.
func kindCfgs() (out []hookCfg) {
	for _, c := range failCfgs() {
		if c.fail {
			c.kind = 1
		}
		out = append(out, c)
	}
	return
}

// chooseHooks enumerates multisets of n configs (free choices, simplest first).
func chooseHooks(cfgs []hookCfg, n int, seq []attempt) []envsim.Hook {
	var hooks []envsim.Hook
	prev := 0
	for i := 0; i < n; i++ {
		k := prev + vrt.ChooseFree(len(cfgs)-prev, "hookcfg")
		prev = k
		hooks = append(hooks, cfgs[k].build(fmt.Sprintf("h%d", i), seq))
	}
	// slot gates: calls with the same trigger point must be started together, wherever they are awaited
	// (a gated probe returns only when every call of its slot has started)
	for i := range hooks {
		var slot []string
		ni, wi := parseTrig(hooks[i].Trigger)
		for j := range hooks {
			if nj, wj := parseTrig(hooks[j].Trigger); nj == ni && wj == wi {
				slot = append(slot, hooks[j].ID)
			}
		}
		if len(slot) > 1 {
			hooks[i].Slot = slot
		}
	}
	return hooks
}

// ---- the reference: what must have happened ---------------------------------------

type inst struct {
	hook   string
	n      int   // n-th start of that hook
	ps     point // start point
	pa     point // await point
	hasA   bool
	fail   bool
	crit   bool
	awName string
}

type expectation struct {
	insts    []inst
	reached  [][5]bool // per attempt: moment reached
	errWant  []bool    // per attempt: error expected
	stateEnd []string  // per attempt: state after it
	bodyRun  []bool
	errName  []string // message of a failing critical hook the error must mention ("" = any)
	// errAll: per attempt the messages of ALL critical hooks that failed at the one failing point of the attempt
	// (they fail at the same point, so they have to be reported together)
	errAll [][]string
	ambiguous bool    // statement leaves open whether later weights of an enter_/after_ moment run after a critical failure
}

// simulate the documented semantics.
func expect(hooks []envsim.Hook, seq []attempt) expectation {
	var ex expectation
	var pending []int // indexes into ex.insts awaiting
	state := seq[0].src
	for ai, a := range seq {
		var reached [5]bool
		errWant := false
		errName := ""
		bodyRun := false
		cancelled := false
		if !a.legalIn(state) {
			// illegal request: nothing runs
			ex.reached = append(ex.reached, reached)
			ex.errWant = append(ex.errWant, true)
			ex.stateEnd = append(ex.stateEnd, state)
			ex.bodyRun = append(ex.bodyRun, false)
			ex.errName = append(ex.errName, "")
			ex.errAll = append(ex.errAll, nil)
			continue
		}
		a.src = state // the moment is named after the state that is really left
		var errAll []string
		failPoints := 0
		for _, m := range []int{0, 1, 2, 3, 4} {
			if cancelled {
				break
			}
			if m == 2 {
				bodyRun = true
				reached[2] = true
				if a.bodyFail {
					errWant = true
					cancelled = true
				}
				continue
			}
			reached[m] = true
			name := a.name(m)
			stopNeg, stopPos := false, false
			first, last := true, 0
			for {
				// the next point of this moment: the smallest weight not yet passed at which a hook is triggered or
				// a started call (also one started earlier in this very moment) is awaited
				have, w := false, 0
				cand := func(c int) {
					if (first || c > last) && (!have || c < w) {
						have, w = true, c
					}
				}
				for _, h := range hooks {
					if tn, tw := parseTrig(h.Trigger); tn == name {
						cand(tw)
					}
				}
				for _, pi := range pending {
					if an, aw := parseTrig(ex.insts[pi].awName); an == name {
						cand(aw)
					}
				}
				if !have {
					break
				}
				first, last = false, w
				if (w < 0 && stopNeg) || (w >= 0 && (stopPos || (stopNeg && m <= 1))) {
					continue
				}
				p := point{ai, m, w}
				// start
				for _, h := range hooks {
					tn, tw := parseTrig(h.Trigger)
					if tn == name && tw == w {
						n := 0
						for _, in := range ex.insts {
							if in.hook == h.ID {
								n++
							}
						}
						awn := h.Await
						if awn == "" {
							awn = h.Trigger
						}
						ex.insts = append(ex.insts, inst{hook: h.ID, n: n, ps: p, fail: h.Fail, crit: h.Critical, awName: awn})
						pending = append(pending, len(ex.insts)-1)
					}
				}
				// await
				critFail := false
				var still []int
				for _, pi := range pending {
					in := &ex.insts[pi]
					an, aw := parseTrig(in.awName)
					if an == name && aw == w {
						in.pa, in.hasA = p, true
						if in.fail && in.crit {
							critFail = true
						}
					} else {
						still = append(still, pi)
					}
				}
				pending = still
				if critFail {
					errWant = true
					failPoints++
					for _, in := range ex.insts {
						if in.hasA && in.pa == p && in.fail && in.crit {
							if errName == "" && m <= 1 {
								errName = "probe " + in.hook + " failed"
							}
							if failPoints == 1 {
								errAll = append(errAll, "probe "+in.hook+" failed")
							}
						}
					}
					if m >= 3 {
						for _, h := range hooks {
							tn, tw := parseTrig(h.Trigger)
							if tn == name && tw > w {
								ex.ambiguous = true
							}
						}
					}
					if w < 0 {
						stopNeg = true
					} else {
						stopPos = true
					}
					if m <= 1 {
						cancelled = true
					}
				}
			}
		}
		if !cancelled {
			state = a.dst
		}
		ex.reached = append(ex.reached, reached)
		ex.errWant = append(ex.errWant, errWant)
		ex.stateEnd = append(ex.stateEnd, state)
		ex.bodyRun = append(ex.bodyRun, bodyRun && (reached[2]))
		ex.errName = append(ex.errName, errName)
		if failPoints != 1 {
			errAll = nil // failures at several points of one attempt (enter_ and after_): which of them the caller sees is left open
		}
		ex.errAll = append(ex.errAll, errAll)
	}
	return ex
}

// ---- scenario ---------------------------------------------------------------------

type scen struct {
	name    string
	prop    string
	seq     []attempt
	n       int
	cfgs    []hookCfg
	failing bool
}

func (s scen) make(q, t vrt.Bounds) *vrt.Scenario {
	var w *envsim.World
	var hooks []envsim.Hook
	var rets []error
	pendBefore := 0
	body := func() {
		hooks = chooseHooks(s.cfgs, s.n, s.seq)
		w = envsim.New(hooks, s.seq[0].src)
		rets = nil
		for i, a := range s.seq {
			rets = append(rets, w.Transition(a.event, fmt.Sprintf("%d", i), a.bodyFail))
		}
		// teardown cancels whatever was never awaited
		pendBefore = w.Env.PendingAwaitForVerif()
		environment.CancelPendingForVerif(w.Env)
		vrt.Quiesce("settle")
		var desc []string
		for _, h := range hooks {
			desc = append(desc, fmt.Sprintf("%s[%s>%s c=%v f=%v]", h.ID, h.Trigger, h.Await, h.Critical, h.Fail))
		}
		vrt.Logf("hooks %s", strings.Join(desc, " "))
		vrt.Logf("recs %s", w.Summary())
	}
	check := func(x *vrt.Exec) (out []vrt.Violation) {
		if w == nil || len(rets) != len(s.seq) {
			return nil
		}
		ex := expect(hooks, s.seq)
		cfg := func() string {
			var d []string
			for _, h := range hooks {
				d = append(d, fmt.Sprintf("%s[%s>%s c=%v f=%v]", h.ID, h.Trigger, h.Await, h.Critical, h.Fail))
			}
			return strings.Join(d, " ") + " | " + w.Summary()
		}
		fail := func(clause, f string, a ...any) {
			out = append(out, vrt.Violation{Clause: clause, Detail: fmt.Sprintf(f, a...) + "\n  " + cfg()})
		}
		// per attempt: return value, state, body
		for ai, a := range s.seq {
			tag := fmt.Sprintf("%d", ai)
			ri := w.Index("ret", tag, 0)
			st := w.Recs[ri].Vars["__state"]
			if (rets[ai] != nil) != ex.errWant[ai] {
				if rets[ai] != nil {
					fail("unexpected-transition-error:"+a.event, "attempt %d (%s) returned %q, expected success", ai, a.event, rets[ai])
				} else {
					fail("failure-not-reported:"+a.event, "attempt %d (%s) returned nil although a critical hook (or the task transition) failed", ai, a.event)
				}
			}
			if st != ex.stateEnd[ai] {
				fail("wrong-state-after:"+a.event+":"+a.name(firstFailMoment(ex, ai)), "attempt %d (%s): state %s, expected %s", ai, a.event, st, ex.stateEnd[ai])
			}
			if ex.errWant[ai] && rets[ai] != nil && ex.errName[ai] != "" && !strings.Contains(rets[ai].Error(), ex.errName[ai]) {
				fail("error-does-not-name-failure", "attempt %d: error %q does not name %s", ai, rets[ai], ex.errName[ai])
			}
			if all := ex.errAll[ai]; len(all) > 1 && rets[ai] != nil {
				// several critical hooks failed at the same point: reported together - every one of them is named,
				// or at least the caller is told how many failed
				named := 0
				for _, n := range all {
					if strings.Contains(rets[ai].Error(), n) {
						named++
					}
				}
				if named < len(all) && !strings.Contains(rets[ai].Error(), fmt.Sprintf("%d ", len(all))) {
					fail(fmt.Sprintf("simultaneous-failures-not-reported-together:%d-of-%d-named", named, len(all)), "attempt %d: error %q, failed at the same point: %v", ai, rets[ai], all)
				}
			}
			nb := w.Count("body", tag)
			want := 0
			if ex.bodyRun[ai] {
				want = 1
			}
			if nb != want {
				fail(fmt.Sprintf("task-transition-ran-%d-times-want-%d:%s", nb, want, a.event), "attempt %d", ai)
			}
		}
		if ex.ambiguous {
			return
		}
		// starts: exactly the expected instances
		nInst := map[string]int{}
		for _, in := range ex.insts {
			nInst[in.hook]++
		}
		for _, h := range hooks {
			if got := w.Count("start", h.ID); got != nInst[h.ID] {
				tn, _ := parseTrig(h.Trigger)
				fail(fmt.Sprintf("hook-started-%d-times-want-%d:%s", got, nInst[h.ID], tn), "hook %s", h.ID)
				return
			}
		}
		// an await point at a later weight of the trigger's own moment and pass (both negative or both
		// non-negative) at which no hook is triggered and nothing else is awaited: gets a clause of its own
		laterWeight := func(in inst) string {
			if !in.hasA || in.pa.a != in.ps.a || in.pa.m != in.ps.m || in.pa.w <= in.ps.w || (in.pa.w < 0) != (in.ps.w < 0) {
				return ""
			}
			for _, o := range ex.insts {
				samePass := o.ps.a == in.ps.a && o.ps.m == in.ps.m && (o.ps.w < 0) == (in.ps.w < 0)
				if o.ps == in.pa || (o.hasA && o.pa == in.pa && !samePass) {
					return "" // a hook is triggered at that point, or a call started before this pass is awaited there
				}
			}
			return ":await-at-a-later-weight-of-the-trigger-pass-where-nothing-is-triggered"
		}
		idxS := func(in inst) int { return w.SpawnIndex(in.hook, in.n) }
		idxE := func(in inst) int { _, _, e := w.Instance(in.hook, in.n); return e }
		for _, a := range ex.insts {
			ia := idxS(a)
			// after the previous attempt returned, before this one returns
			if a.ps.a > 0 {
				if r := w.Index("ret", fmt.Sprint(a.ps.a-1), 0); ia < r {
					fail("started-before-trigger", "%s started before attempt %d began", a.hook, a.ps.a)
				}
			}
			if r := w.Index("ret", fmt.Sprint(a.ps.a), 0); ia > r {
				fail("started-after-its-transition", "%s", a.hook)
			}
			// body position
			if b := w.Index("body", fmt.Sprint(a.ps.a), 0); b >= 0 {
				if a.ps.m < 2 && ia > b {
					fail("moment-order:hook-after-task-transition", "%s (trigger before the task transition) started after it", a.hook)
				}
				if a.ps.m > 2 && ia < b {
					fail("moment-order:hook-before-task-transition", "%s (trigger after the task transition) started before it", a.hook)
				}
			}
			for _, b := range ex.insts {
				if a.ps.less(b.ps) && idxS(b) < ia {
					fail("weight-or-moment-order", "%s (point %v) started after %s (point %v)", a.hook, a.ps, b.hook, b.ps)
				}
				// await: b is awaited strictly before a's start point => b ended before a started
				if b.hasA && b.pa.less(a.ps) {
					if e := idxE(b); e < 0 || e > ia {
						fail("moved-past-await-point"+laterWeight(b), "%s started at %v before %s (await %v) had returned", a.hook, a.ps, b.hook, b.pa)
					}
				}
			}
			if a.hasA {
				e := idxE(a)
				if e < 0 {
					fail("awaited-call-never-ended", "%s", a.hook)
					continue
				}
				// the FSM may not pass the await point before the call returned:
				// task transition / transition return that lie after the await point come after end
				if a.pa.m < 2 {
					if b := w.Index("body", fmt.Sprint(a.pa.a), 0); b >= 0 && b < e {
						fail("moved-past-await-point:task-transition"+laterWeight(a), "task transition of attempt %d ran before %s (await %v) returned", a.pa.a, a.hook, a.pa)
					}
				}
				if r := w.Index("ret", fmt.Sprint(a.pa.a), 0); r < e {
					fail("moved-past-await-point:return"+laterWeight(a), "attempt %d returned before %s (await %v) returned", a.pa.a, a.hook, a.pa)
				}
			}
		}
		// every started call collected exactly once or cancelled: no call goroutine may be left blocked
		if l := envsim.LeakedCalls(x); len(l) > 0 {
			twice := false
			for _, n := range nInst {
				if n > 1 {
					twice = true
				}
			}
			cl := "call-neither-collected-nor-cancelled"
			if twice {
				cl += ":trigger-reached-twice-before-await"
			}
			fail(cl, "blocked call goroutines at the end: %v", l)
		}
		// collected exactly once: when the last transition has returned, the calls still filed as "started, not yet
		// collected" are exactly the ones whose await point was not reached
		wantPend, lw := 0, ""
		for _, in := range ex.insts {
			if !in.hasA {
				wantPend++
			}
			if s := laterWeight(in); s != "" {
				lw = s
			}
		}
		if pendBefore != wantPend {
			fail(fmt.Sprintf("calls-filed-as-not-yet-collected:%d-want-%d%s", pendBefore, wantPend, lw), "after the last transition")
		}
		return
	}
	return &vrt.Scenario{Name: s.name, Prop: s.prop, Body: body, Check: check, Quick: q, Thorough: t,
		Setup:          envsim.SetupExec,
		Cfg:            vrt.Config{Preempt: envsim.InterComponent, NoLockPoints: true, FreeSwitchCost: true},
		DeadlockClause: "hang(not-started-together-or-lost-wakeup)", PanicClause: "panic-or-fatal",
		NonTrivial: func(x *vrt.Exec) bool { return w != nil && w.Count("start", "h0") > 0 },
		Doc:        fmt.Sprintf("%d hooks, %d transitions", s.n, len(s.seq))}
}

func firstFailMoment(ex expectation, ai int) int {
	for m := 0; m < 5; m++ {
		if !ex.reached[ai][m] {
			return m
		}
	}
	return 4
}

func main() {
	envsim.GlobalSetup()
	seqA := []attempt{mk("CONFIGURE", false)}
	seqB := []attempt{mk("CONFIGURE", false), mk("START_ACTIVITY", false), mk("STOP_ACTIVITY", false)}
	seqC := []attempt{mk("CONFIGURE", false), mk("RESET", false)}
	seqD := []attempt{mk("CONFIGURE", true), mk("CONFIGURE", false)}
	// a run and its ends: START, a STOP whose task transition fails, GO_ERROR out of RUNNING, RECOVER, EXIT
	anyLive := []string{"STANDBY", "DEPLOYED", "CONFIGURED", "RUNNING"}
	seqE := []attempt{mk("START_ACTIVITY", false), mk("STOP_ACTIVITY", true), mkFrom("GO_ERROR", "RUNNING", "ERROR", anyLive...),
		mk("RECOVER", false), mkFrom("EXIT", "DEPLOYED", "DONE", "STANDBY", "DEPLOYED", "CONFIGURED")}
	oc, fc := orderCfgs(), failCfgs()
	b := func(d, s int) vrt.Bounds { return vrt.Bounds{Dev: d, Seconds: s} }
	vrt.Main([]*vrt.Scenario{
		scen{"order1-A", "C08", seqA, 1, oc, false}.make(b(2, 60), b(3, 300)),
		scen{"order2-A", "C08", seqA, 2, oc, false}.make(b(1, 100), b(2, 900)),
		scen{"order2-B", "C08", seqB, 2, oc, false}.make(b(0, 100), b(1, 900)),
		scen{"order2-C", "C08", seqC, 2, oc, false}.make(b(0, 100), b(1, 900)),
		scen{"order1-D", "C08", seqD, 1, oc, false}.make(b(1, 60), b(2, 300)),
		scen{"order2-D", "C08", seqD, 2, oc, false}.make(b(0, 100), b(1, 900)),
		scen{"order3-A", "C08", seqA, 3, oc, false}.make(b(0, 150), b(1, 1500)),
		// weights with several digits and unsigned weight 0; await points at another weight than the trigger's;
		// hooks of every transition of a run
		scen{"order2-W", "C08", seqA, 2, weightCfgs(), false}.make(b(1, 100), b(2, 900)),
		scen{"order1-X", "C08", seqA, 1, awaitCfgs([]int{4, 5}), false}.make(b(2, 60), b(3, 300)),
		scen{"order2-X", "C08", seqA, 2, awaitCfgs([]int{0, 4, 5}), false}.make(b(0, 100), b(1, 900)),
		scen{"order1-E", "C08", seqE, 1, seqCfgs(seqE, []int{0, 1, 2, 3}, false), false}.make(b(1, 100), b(2, 900)),
		scen{"order2-E", "C08", seqE, 2, seqCfgs(seqE, []int{0, 2}, false), false}.make(b(0, 150), b(1, 1500)),
		scen{"order1-R", "C08", seqB, 1, seqCfgs(seqB, []int{0, 1, 2, 3}, false), false}.make(b(1, 100), b(2, 900)),
		scen{"fail1-A", "C09", seqA, 1, fc, true}.make(b(2, 60), b(3, 300)),
		scen{"fail2-A", "C09", seqA, 2, fc, true}.make(b(1, 100), b(2, 900)),
		scen{"fail2-B", "C09", seqB, 2, fc, true}.make(b(0, 100), b(1, 900)),
		scen{"fail3-A", "C09", seqA, 3, fc, true}.make(b(0, 100), b(0, 1500)),
		// the failing call returns an error from its function; failing hooks of every transition of a run
		scen{"fail1-K", "C09", seqA, 1, kindCfgs(), true}.make(b(1, 60), b(2, 300)),
		scen{"fail2-K", "C09", seqA, 2, kindCfgs(), true}.make(b(0, 100), b(1, 900)),
		scen{"fail1-E", "C09", seqE, 1, seqCfgs(seqE, []int{0, 1, 2}, true), true}.make(b(1, 100), b(2, 900)),
		scen{"fail2-E", "C09", seqE, 2, seqCfgs(seqE, []int{0}, true), true}.make(b(0, 150), b(1, 1500)),
		scen{"fail1-R", "C09", seqB, 1, seqCfgs(seqB, []int{0, 1, 2}, true), true}.make(b(1, 100), b(2, 900)),
	})
}

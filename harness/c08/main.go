// C08 (hooks fire at their moment, by weight, awaited where declared) and
// C09 (only critical hook failures matter, exactly as documented).
// Real Environment + real looplab/fsm (instrumented copy) + real callable.Call,
// probe plugin, scripted transition bodies (package envsim).
package main

import (
	"fmt"
	"sort"
	"strings"

	"github.com/AliceO2Group/Control/core/environment"
	"github.com/AliceO2Group/Control/verif_h/envsim"
	vrt "github.com/AliceO2Group/Control/verif_vrt"
)

// ---- reference timeline (written from docs/handbook/configuration.md, operation_order.md) ----

type attempt struct {
	event, src, dst string
	bodyFail        bool
}

var edges = map[string][2]string{
	"CONFIGURE":      {"DEPLOYED", "CONFIGURED"},
	"START_ACTIVITY": {"CONFIGURED", "RUNNING"},
	"STOP_ACTIVITY":  {"RUNNING", "CONFIGURED"},
	"RESET":          {"CONFIGURED", "DEPLOYED"},
}

func mk(event string, fail bool) attempt {
	e := edges[event]
	return attempt{event, e[0], e[1], fail}
}

// moment names of an attempt, index 0,1,3,4 (2 = the task transition itself)
func (a attempt) name(m int) string {
	switch m {
	case 0:
		return "before_" + a.event
	case 1:
		return "leave_" + a.src
	case 3:
		return "enter_" + a.dst
	case 4:
		return "after_" + a.event
	}
	return "BODY"
}

type point struct{ a, m, w int }

func (p point) less(q point) bool {
	if p.a != q.a {
		return p.a < q.a
	}
	if p.m != q.m {
		return p.m < q.m
	}
	return p.w < q.w
}

func parseTrig(s string) (string, int) {
	i := strings.LastIndexAny(s, "+-")
	if i < 0 {
		return s, 0
	}
	var w int
	fmt.Sscanf(s[i:], "%d", &w)
	return s[:i], w
}

// ---- hook-set generation ----------------------------------------------------------

type hookCfg struct {
	m     int // trigger moment of attempt 0: 0,1,3,4
	w     int // -1,0,1
	await int // 0 same, 1 next moment of the same transition (+0), 2 a moment of the next transition, 3 never
	crit  bool
	fail  bool
}

func (c hookCfg) build(id string, seq []attempt) envsim.Hook {
	a0 := seq[0]
	trig := fmt.Sprintf("%s%+d", a0.name(c.m), c.w)
	aw := ""
	switch c.await {
	case 1:
		nm := c.m + 1
		if nm == 2 {
			nm = 3
		}
		aw = a0.name(nm) + "+0"
	case 2:
		if len(seq) > 1 {
			aw = seq[1].name(0) + "+0"
		} else {
			aw = "before_NEVERHAPPENS+0"
		}
	case 3:
		aw = "after_NEVERHAPPENS+0"
	}
	return envsim.Hook{ID: id, Trigger: trig, Await: aw, Critical: c.crit, Fail: c.fail}
}

var moments = []int{0, 1, 3, 4}
var weights = []int{-1, 0, 1}

// all hook configs for the ordering scenarios (no failures)
func orderCfgs() (out []hookCfg) {
	for _, m := range moments {
		for _, w := range weights {
			for aw := 0; aw < 4; aw++ {
				if aw == 1 && m == 4 {
					continue
				}
				out = append(out, hookCfg{m: m, w: w, await: aw, crit: true})
			}
		}
	}
	return
}

// all hook configs for the failure scenarios
func failCfgs() (out []hookCfg) {
	for _, m := range moments {
		for _, w := range weights {
			for _, aw := range []int{0, 1} {
				if aw == 1 && m == 4 {
					continue
				}
				for _, crit := range []bool{true, false} {
					for _, fail := range []bool{true, false} {
						out = append(out, hookCfg{m: m, w: w, await: aw, crit: crit, fail: fail})
					}
				}
			}
		}
	}
	return
}

// chooseHooks enumerates multisets of n configs (free choices, simplest first).
func chooseHooks(cfgs []hookCfg, n int, seq []attempt) []envsim.Hook {
	var hooks []envsim.Hook
	prev := 0
	for i := 0; i < n; i++ {
		k := prev + vrt.ChooseFree(len(cfgs)-prev, "hookcfg")
		prev = k
		hooks = append(hooks, cfgs[k].build(fmt.Sprintf("h%d", i), seq))
	}
	// slot gates: calls with identical trigger and await==trigger must be started together
	for i := range hooks {
		if hooks[i].Await != "" {
			continue
		}
		var slot []string
		for j := range hooks {
			if hooks[j].Await == "" && hooks[j].Trigger == hooks[i].Trigger {
				slot = append(slot, hooks[j].ID)
			}
		}
		if len(slot) > 1 {
			hooks[i].Slot = slot
		}
	}
	return hooks
}

// ---- the reference: what must have happened ---------------------------------------

type inst struct {
	hook   string
	n      int   // n-th start of that hook
	ps     point // start point
	pa     point // await point
	hasA   bool
	fail   bool
	crit   bool
	awName string
}

type expectation struct {
	insts    []inst
	reached  [][5]bool // per attempt: moment reached
	errWant  []bool    // per attempt: error expected
	stateEnd []string  // per attempt: state after it
	bodyRun  []bool
	errName  []string // message of a failing critical hook the error must mention ("" = any)
	ambiguous bool    // statement leaves open whether later weights of an enter_/after_ moment run after a critical failure
}

// simulate the documented semantics.
func expect(hooks []envsim.Hook, seq []attempt) expectation {
	var ex expectation
	type pend struct {
		i      int
		name   string
		weight int
	}
	var pending []int // indexes into ex.insts awaiting
	state := seq[0].src
	for ai, a := range seq {
		var reached [5]bool
		errWant := false
		errName := ""
		bodyRun := false
		cancelled := false
		if state != a.src {
			// illegal request: nothing runs (not produced by these scenarios)
			ex.reached = append(ex.reached, reached)
			ex.errWant = append(ex.errWant, true)
			ex.stateEnd = append(ex.stateEnd, state)
			ex.bodyRun = append(ex.bodyRun, false)
			ex.errName = append(ex.errName, "")
			continue
		}
		for _, m := range []int{0, 1, 2, 3, 4} {
			if cancelled {
				break
			}
			if m == 2 {
				bodyRun = true
				reached[2] = true
				if a.bodyFail {
					errWant = true
					cancelled = true
				}
				continue
			}
			reached[m] = true
			name := a.name(m)
			// weights present at this moment: triggers and pending awaits
			ws := map[int]bool{}
			for _, h := range hooks {
				tn, tw := parseTrig(h.Trigger)
				if tn == name {
					ws[tw] = true
				}
			}
			for _, pi := range pending {
				in := ex.insts[pi]
				an, aw := parseTrig(in.awName)
				if an == name {
					ws[aw] = true
				}
			}
			var wl []int
			for w := range ws {
				wl = append(wl, w)
			}
			sort.Ints(wl)
			stopNeg, stopPos := false, false
			for _, w := range wl {
				if (w < 0 && stopNeg) || (w >= 0 && (stopPos || (stopNeg && m <= 1))) {
					continue
				}
				p := point{ai, m, w}
				// start
				for _, h := range hooks {
					tn, tw := parseTrig(h.Trigger)
					if tn == name && tw == w {
						n := 0
						for _, in := range ex.insts {
							if in.hook == h.ID {
								n++
							}
						}
						awn := h.Await
						if awn == "" {
							awn = h.Trigger
						}
						ex.insts = append(ex.insts, inst{hook: h.ID, n: n, ps: p, fail: h.Fail, crit: h.Critical, awName: awn})
						pending = append(pending, len(ex.insts)-1)
					}
				}
				// await
				critFail := false
				var still []int
				for _, pi := range pending {
					in := &ex.insts[pi]
					an, aw := parseTrig(in.awName)
					if an == name && aw == w {
						in.pa, in.hasA = p, true
						if in.fail && in.crit {
							critFail = true
						}
					} else {
						still = append(still, pi)
					}
				}
				pending = still
				if critFail {
					errWant = true
					if errName == "" && m <= 1 {
						for _, in := range ex.insts {
							if in.hasA && in.pa == p && in.fail && in.crit {
								errName = "probe " + in.hook + " failed"
								break
							}
						}
					}
					if m >= 3 {
						for _, h := range hooks {
							tn, tw := parseTrig(h.Trigger)
							if tn == name && tw > w {
								ex.ambiguous = true
							}
						}
					}
					if w < 0 {
						stopNeg = true
					} else {
						stopPos = true
					}
					if m <= 1 {
						cancelled = true
					}
				}
			}
		}
		if !cancelled {
			state = a.dst
		}
		ex.reached = append(ex.reached, reached)
		ex.errWant = append(ex.errWant, errWant)
		ex.stateEnd = append(ex.stateEnd, state)
		ex.bodyRun = append(ex.bodyRun, bodyRun && (reached[2]))
		ex.errName = append(ex.errName, errName)
	}
	return ex
}

// ---- scenario ---------------------------------------------------------------------

type scen struct {
	name    string
	prop    string
	seq     []attempt
	n       int
	cfgs    []hookCfg
	failing bool
}

func (s scen) make(q, t vrt.Bounds) *vrt.Scenario {
	var w *envsim.World
	var hooks []envsim.Hook
	var rets []error
	body := func() {
		hooks = chooseHooks(s.cfgs, s.n, s.seq)
		w = envsim.New(hooks, s.seq[0].src)
		rets = nil
		for i, a := range s.seq {
			rets = append(rets, w.Transition(a.event, fmt.Sprintf("%d", i), a.bodyFail))
		}
		// teardown cancels whatever was never awaited
		environment.CancelPendingForVerif(w.Env)
		vrt.Quiesce("settle")
		var desc []string
		for _, h := range hooks {
			desc = append(desc, fmt.Sprintf("%s[%s>%s c=%v f=%v]", h.ID, h.Trigger, h.Await, h.Critical, h.Fail))
		}
		vrt.Logf("hooks %s", strings.Join(desc, " "))
		vrt.Logf("recs %s", w.Summary())
	}
	check := func(x *vrt.Exec) (out []vrt.Violation) {
		if w == nil || len(rets) != len(s.seq) {
			return nil
		}
		ex := expect(hooks, s.seq)
		cfg := func() string {
			var d []string
			for _, h := range hooks {
				d = append(d, fmt.Sprintf("%s[%s>%s c=%v f=%v]", h.ID, h.Trigger, h.Await, h.Critical, h.Fail))
			}
			return strings.Join(d, " ") + " | " + w.Summary()
		}
		fail := func(clause, f string, a ...any) {
			out = append(out, vrt.Violation{Clause: clause, Detail: fmt.Sprintf(f, a...) + "\n  " + cfg()})
		}
		// per attempt: return value, state, body
		for ai, a := range s.seq {
			tag := fmt.Sprintf("%d", ai)
			ri := w.Index("ret", tag, 0)
			st := w.Recs[ri].Vars["__state"]
			if (rets[ai] != nil) != ex.errWant[ai] {
				if rets[ai] != nil {
					fail("unexpected-transition-error:"+a.event, "attempt %d (%s) returned %q, expected success", ai, a.event, rets[ai])
				} else {
					fail("failure-not-reported:"+a.event, "attempt %d (%s) returned nil although a critical hook (or the task transition) failed", ai, a.event)
				}
			}
			if st != ex.stateEnd[ai] {
				fail("wrong-state-after:"+a.event+":"+a.name(firstFailMoment(ex, ai)), "attempt %d (%s): state %s, expected %s", ai, a.event, st, ex.stateEnd[ai])
			}
			if ex.errWant[ai] && rets[ai] != nil && ex.errName[ai] != "" && !strings.Contains(rets[ai].Error(), ex.errName[ai]) {
				fail("error-does-not-name-failure", "attempt %d: error %q does not name %s", ai, rets[ai], ex.errName[ai])
			}
			nb := w.Count("body", tag)
			want := 0
			if ex.bodyRun[ai] {
				want = 1
			}
			if nb != want {
				fail(fmt.Sprintf("task-transition-ran-%d-times-want-%d:%s", nb, want, a.event), "attempt %d", ai)
			}
		}
		if ex.ambiguous {
			return
		}
		// starts: exactly the expected instances
		nInst := map[string]int{}
		for _, in := range ex.insts {
			nInst[in.hook]++
		}
		for _, h := range hooks {
			if got := w.Count("start", h.ID); got != nInst[h.ID] {
				tn, _ := parseTrig(h.Trigger)
				fail(fmt.Sprintf("hook-started-%d-times-want-%d:%s", got, nInst[h.ID], tn), "hook %s", h.ID)
				return
			}
		}
		idxS := func(in inst) int { return w.SpawnIndex(in.hook, in.n) }
		idxE := func(in inst) int { _, _, e := w.Instance(in.hook, in.n); return e }
		for _, a := range ex.insts {
			ia := idxS(a)
			// after the previous attempt returned, before this one returns
			if a.ps.a > 0 {
				if r := w.Index("ret", fmt.Sprint(a.ps.a-1), 0); ia < r {
					fail("started-before-trigger", "%s started before attempt %d began", a.hook, a.ps.a)
				}
			}
			if r := w.Index("ret", fmt.Sprint(a.ps.a), 0); ia > r {
				fail("started-after-its-transition", "%s", a.hook)
			}
			// body position
			if b := w.Index("body", fmt.Sprint(a.ps.a), 0); b >= 0 {
				if a.ps.m < 2 && ia > b {
					fail("moment-order:hook-after-task-transition", "%s (trigger before the task transition) started after it", a.hook)
				}
				if a.ps.m > 2 && ia < b {
					fail("moment-order:hook-before-task-transition", "%s (trigger after the task transition) started before it", a.hook)
				}
			}
			for _, b := range ex.insts {
				if a.ps.less(b.ps) && idxS(b) < ia {
					fail("weight-or-moment-order", "%s (point %v) started after %s (point %v)", a.hook, a.ps, b.hook, b.ps)
				}
				// await: b is awaited strictly before a's start point => b ended before a started
				if b.hasA && b.pa.less(a.ps) {
					if e := idxE(b); e < 0 || e > ia {
						fail("moved-past-await-point", "%s started at %v before %s (await %v) had returned", a.hook, a.ps, b.hook, b.pa)
					}
				}
			}
			if a.hasA {
				e := idxE(a)
				if e < 0 {
					fail("awaited-call-never-ended", "%s", a.hook)
					continue
				}
				// the FSM may not pass the await point before the call returned:
				// task transition / transition return that lie after the await point come after end
				if a.pa.m < 2 {
					if b := w.Index("body", fmt.Sprint(a.pa.a), 0); b >= 0 && b < e {
						fail("moved-past-await-point:task-transition", "task transition of attempt %d ran before %s (await %v) returned", a.pa.a, a.hook, a.pa)
					}
				}
				if r := w.Index("ret", fmt.Sprint(a.pa.a), 0); r < e {
					fail("moved-past-await-point:return", "attempt %d returned before %s (await %v) returned", a.pa.a, a.hook, a.pa)
				}
			}
		}
		// every started call collected exactly once or cancelled: no call goroutine may be left blocked
		if l := envsim.LeakedCalls(x); len(l) > 0 {
			twice := false
			for _, n := range nInst {
				if n > 1 {
					twice = true
				}
			}
			cl := "call-neither-collected-nor-cancelled"
			if twice {
				cl += ":trigger-reached-twice-before-await"
			}
			fail(cl, "blocked call goroutines at the end: %v", l)
		}
		if n := w.Env.PendingAwaitForVerif(); n > 0 {
			// pending entries whose await point was reached must have been cleared
			for _, in := range ex.insts {
				_ = in
			}
		}
		return
	}
	return &vrt.Scenario{Name: s.name, Prop: s.prop, Body: body, Check: check, Quick: q, Thorough: t,
		Setup:          envsim.SetupExec,
		Cfg:            vrt.Config{Preempt: envsim.InterComponent, NoLockPoints: true, FreeSwitchCost: true},
		DeadlockClause: "hang(not-started-together-or-lost-wakeup)", PanicClause: "panic-or-fatal",
		NonTrivial: func(x *vrt.Exec) bool { return w != nil && w.Count("start", "h0") > 0 },
		Doc:        fmt.Sprintf("%d hooks, %d transitions", s.n, len(s.seq))}
}

func firstFailMoment(ex expectation, ai int) int {
	for m := 0; m < 5; m++ {
		if !ex.reached[ai][m] {
			return m
		}
	}
	return 4
}

func main() {
	envsim.GlobalSetup()
	seqA := []attempt{mk("CONFIGURE", false)}
	seqB := []attempt{mk("CONFIGURE", false), mk("START_ACTIVITY", false), mk("STOP_ACTIVITY", false)}
	seqC := []attempt{mk("CONFIGURE", false), mk("RESET", false)}
	seqD := []attempt{mk("CONFIGURE", true), mk("CONFIGURE", false)}
	oc, fc := orderCfgs(), failCfgs()
	b := func(d, s int) vrt.Bounds { return vrt.Bounds{Dev: d, Seconds: s} }
	vrt.Main([]*vrt.Scenario{
		scen{"order1-A", "C08", seqA, 1, oc, false}.make(b(2, 60), b(3, 300)),
		scen{"order2-A", "C08", seqA, 2, oc, false}.make(b(1, 100), b(2, 900)),
		scen{"order2-B", "C08", seqB, 2, oc, false}.make(b(0, 100), b(1, 900)),
		scen{"order2-C", "C08", seqC, 2, oc, false}.make(b(0, 100), b(1, 900)),
		scen{"order1-D", "C08", seqD, 1, oc, false}.make(b(1, 60), b(2, 300)),
		scen{"order2-D", "C08", seqD, 2, oc, false}.make(b(0, 100), b(1, 900)),
		scen{"order3-A", "C08", seqA, 3, oc, false}.make(b(0, 150), b(1, 1500)),
		scen{"fail1-A", "C09", seqA, 1, fc, true}.make(b(2, 60), b(3, 300)),
		scen{"fail2-A", "C09", seqA, 2, fc, true}.make(b(1, 100), b(2, 900)),
		scen{"fail2-B", "C09", seqB, 2, fc, true}.make(b(0, 100), b(1, 900)),
		scen{"fail3-A", "C09", seqA, 3, fc, true}.make(b(0, 100), b(0, 1500)),
	})
}

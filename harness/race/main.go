// Free-running race pass (complement of the cooperative-scheduler exploration, see DESIGN 2.x):
// the same kind of harness bodies as the model-checking scenarios, but with real goroutines,
// the real sync package and the Go race detector. The cooperative scheduler makes every hand-over
// a happens-before edge, so it cannot see two accesses that are not ordered by any synchronisation
// at all (e.g. two critical sections guarded by different mutexes); the race detector reports
// exactly those, on any execution in which both accesses occur, whatever the timing.
//
// usage: race <c19|c12|c11> <seconds>
// Prints "RACE-PASS body=<name> rounds=<n> operations=<m>"; the race detector (GORACE
// halt_on_error=1 exitcode=66) ends the process at the first report.
package main

import (
	"fmt"
	"os"
	"strconv"
	"sync"
	"sync/atomic"
	"time"

	"github.com/AliceO2Group/Control/common/event"
	"github.com/AliceO2Group/Control/common/gera"
	pb "github.com/AliceO2Group/Control/common/protos"
	"github.com/AliceO2Group/Control/common/utils/uid"
	cc "github.com/AliceO2Group/Control/core/controlcommands"
	"github.com/AliceO2Group/Control/core/task"
	"github.com/AliceO2Group/Control/core/task/sm"
	"github.com/AliceO2Group/Control/core/workflow"
	mesos "github.com/mesos/mesos-go/api/v1/lib"
	"github.com/segmentio/kafka-go"
	"github.com/sirupsen/logrus"
)

func main() {
	if len(os.Args) < 3 {
		fmt.Println("usage: race <body> <seconds>")
		os.Exit(2)
	}
	secs, _ := strconv.Atoi(os.Args[2])
	deadline := time.Now().Add(time.Duration(secs) * time.Second)
	logrus.SetLevel(logrus.PanicLevel)
	bodies := map[string]func(round int) int{"c19": bodyC19, "c11": bodyC11, "c12": bodyC12}
	b := bodies[os.Args[1]]
	if b == nil {
		fmt.Println("unknown body", os.Args[1])
		os.Exit(2)
	}
	rounds, ops := 0, 0
	for time.Now().Before(deadline) {
		ops += b(rounds)
		rounds++
	}
	fmt.Printf("RACE-PASS body=%s rounds=%d operations=%d\n", os.Args[1], rounds, ops)
}

// c19: concurrent producers in bursts, a broker with varying latency, Close at the end.
func bodyC19(round int) int {
	var handed int64
	lat := time.Duration(round%4) * 50 * time.Microsecond
	w := event.NewKafkaWriterForVerif(func(ms []kafka.Message) {
		atomic.AddInt64(&handed, int64(len(ms)))
		if lat > 0 {
			time.Sleep(lat)
		}
	})
	producers, events := 1+round%4, 40+10*(round%7)
	var wg sync.WaitGroup
	for p := 0; p < producers; p++ {
		wg.Add(1)
		go func(p int) {
			defer wg.Done()
			for j := 0; j < events; j++ {
				env := fmt.Sprintf("env%d", (p+j)%2)
				if j%3 == 1 {
					w.WriteEvent(&pb.Ev_TaskEvent{Name: fmt.Sprintf("p%d-e%d", p, j), Taskid: "task7"})
				} else {
					w.WriteEvent(&pb.Ev_EnvironmentEvent{EnvironmentId: env, Message: fmt.Sprintf("p%d-e%d", p, j)})
				}
				if j%16 == 15 {
					time.Sleep(20 * time.Microsecond) // a gap between bursts
				}
			}
		}(p)
	}
	wg.Wait()
	w.Close()
	if got := atomic.LoadInt64(&handed); got != int64(producers*events) {
		fmt.Printf("RACE-PASS-ORACLE body=c19 %d events accepted before Close(), %d handed to the broker when it returned\n", producers*events, got)
		os.Exit(67)
	}
	return producers * events
}

// c11: leaves of a role tree updated from several goroutines while others read the fold.
func bodyC11(round int) int {
	leaf := func(name string, crit bool) workflow.Role {
		return workflow.NewCallRole(name, task.Traits{Trigger: "before_START_ACTIVITY", Await: "before_START_ACTIVITY", Timeout: "1s", Critical: crit}, "x.Y()", "")
	}
	leaves := []workflow.Role{leaf("c1", true), leaf("c2", true), leaf("c3", true), leaf("c4", round%2 == 0), leaf("c5", true)}
	root := workflow.NewAggregatorRole("root", []workflow.Role{
		workflow.NewAggregatorRole("a", []workflow.Role{leaves[0], leaves[1]}),
		workflow.NewAggregatorRole("b", []workflow.Role{leaves[2], leaves[3]}),
		leaves[4]})
	envId := uid.New()
	kv := gera.MakeMap[string, string]()
	adapter := workflow.NewParentAdapter(func() uid.ID { return envId }, func() uint32 { return 0 },
		func() gera.Map[string, string] { return kv }, func() gera.Map[string, string] { return kv }, func() gera.Map[string, string] { return kv },
		func(event.Event) {})
	workflow.LinkChildrenToParents(root)
	workflow.SetRootParentForVerif(root, adapter)
	type upd interface {
		UpdateState(sm.State)
		UpdateStatus(task.Status)
	}
	states := []sm.State{sm.STANDBY, sm.CONFIGURED, sm.RUNNING, sm.ERROR, sm.CONFIGURED, sm.RUNNING}
	statuses := []task.Status{task.INACTIVE, task.ACTIVE, task.UNDEPLOYABLE, task.ACTIVE}
	var wg sync.WaitGroup
	ops := 0
	for i, l := range leaves {
		u, ok := l.(upd)
		if !ok {
			panic("leaf cannot be updated")
		}
		wg.Add(1)
		ops += len(states) + len(statuses)
		go func(i int, u upd) {
			defer wg.Done()
			for k := range states {
				u.UpdateState(states[(k+i+round)%len(states)])
				if k < len(statuses) {
					u.UpdateStatus(statuses[(k+i)%len(statuses)])
				}
			}
		}(i, u)
	}
	stop := make(chan struct{})
	var rg sync.WaitGroup
	for r := 0; r < 2; r++ {
		rg.Add(1)
		go func() {
			defer rg.Done()
			for {
				select {
				case <-stop:
					return
				default:
					_ = root.GetState()
					_ = root.GetStatus()
					for _, c := range root.GetRoles() {
						_ = c.GetState()
						_ = c.GetStatus()
					}
				}
			}
		}()
	}
	wg.Wait()
	close(stop)
	rg.Wait()
	return ops
}

// c12: commands to several targets through the real CommandQueue and Servent; the stub executors
// answer at once, late, at the timeout, twice, not at all, or the send fails after the reply left.
func bodyC12(round int) int {
	mk := func(i int) cc.MesosCommandTarget {
		n := fmt.Sprint(i)
		return cc.MesosCommandTarget{AgentId: mesos.AgentID{Value: "agent" + n}, ExecutorId: mesos.ExecutorID{Value: "exec" + n}, TaskId: mesos.TaskID{Value: "task" + n}}
	}
	targets := []cc.MesosCommandTarget{mk(0), mk(1), mk(2)}
	timeout := 3 * time.Millisecond
	var servent *cc.Servent
	var hw sync.WaitGroup
	reply := func(cmd cc.MesosCommand, rcv cc.MesosCommandTarget, delay time.Duration) {
		obj := &cc.MesosCommandResponse_Transition{MesosCommandResponseBase: cc.MesosCommandResponseBase{CommandName: cmd.GetName(), CommandId: cmd.GetId(),
			EnvironmentId: cmd.GetEnvironmentId(), MessageType: "MesosCommandResponse"}, CurrentState: "CONFIGURED", TaskId: rcv.TaskId.Value}
		hw.Add(1)
		go func() {
			defer hw.Done()
			if delay > 0 {
				time.Sleep(delay)
			}
			done := make(chan struct{})
			go func() { servent.ProcessResponse(obj, rcv); close(done) }()
			select {
			case <-done:
			case <-time.After(200 * time.Millisecond): // a handler may stay parked on a call that gave up; not this pass's business
			}
		}()
	}
	servent = cc.NewServent(func(cmd cc.MesosCommand, rcv cc.MesosCommandTarget) error {
		k := 0
		for i, t := range targets {
			if t == rcv {
				k = i
			}
		}
		switch (round + k) % 6 {
		case 0:
			reply(cmd, rcv, 0)
		case 1:
			reply(cmd, rcv, timeout) // at the deadline
		case 2:
			reply(cmd, rcv, 0)
			reply(cmd, rcv, timeout/2)
		case 3: // silent
		case 4:
			reply(cmd, rcv, 0)
			return fmt.Errorf("send failed after the message left")
		case 5:
			reply(cmd, rcv, 2*timeout)
		}
		return nil
	})
	q := cc.NewCommandQueue(servent)
	q.Start()
	var wg sync.WaitGroup
	for c := 0; c < 2; c++ {
		wg.Add(1)
		go func(c int) {
			defer wg.Done()
			cmd := cc.NewMesosCommand_Transition(uid.New(), targets[c:c+2], "STANDBY", "CONFIGURE", "CONFIGURED", nil)
			cmd.ResponseTimeout = timeout
			notify := make(chan cc.MesosCommandResponse)
			if err := q.Enqueue(cmd, notify); err != nil {
				return
			}
			select {
			case r := <-notify:
				if r != nil {
					_ = r.Err()
					_ = r.Errors()
				}
			case <-time.After(2 * time.Second):
				fmt.Println("RACE-PASS-ORACLE body=c12 a command never completed")
				os.Exit(67)
			}
		}(c)
	}
	wg.Wait()
	hw.Wait()
	q.Stop()
	return 4
}

#!/bin/bash
# Detection demo for C07: applies each patch of mutants/C07 to a scratch copy of the
# repository (never to /repo itself) and runs the quick check against that copy.
# usage: harness/c07/mutants.sh [repo=/repo]      (from the framework root)
set -u
V=$(cd "$(dirname "$0")/../.." && pwd)
SRC=${1:-/repo}
S=/tmp/repo-c07
export VERIF_WORK=${VERIF_WORK_MUT:-/tmp/vw-c07m} GOFLAGS=-mod=mod GOPROXY=off GOSUMDB=off GOTOOLCHAIN=local
rm -rf "$S"; cp -r "$SRC" "$S"
rc=0
for p in "$V"/mutants/C07/*.patch; do
  n=$(basename "$p" .patch)
  (cd "$S" && git checkout -q . && git apply "$p") || { echo "MUTANT $n: patch does not apply"; rc=2; continue; }
  out=$(cd "$V" && VERIF_REPO="$S" ./check C07 2>&1); e=$?
  echo "== MUTANT $n: check exit $e"
  echo "$out" | grep -E "^  [a-z0-9-]+:|^C07 |ENGINE|KNOWN" | sed 's/^/   /' | cut -c1-260
  # detected = at least one violation other than the one the unchanged tree already shows
  if echo "$out" | grep -E "^  [a-z0-9-]+:" | grep -qv "values:wraparound"; then echo "   => DETECTED"; else echo "   => NOT DETECTED"; rc=1; fi
done
(cd "$S" && git checkout -q .)
rm -rf "$S" "$V"/replays/C07-*.json
exit $rc

// C07: run numbers are unique and strictly increasing.
//
// Real apricot/local.Service.NewRunNumber -> real cfgbackend.ConsulSource.GetNextUInt32
// -> real github.com/hashicorp/consul/api client, whose http.Client runs over a
// simulated Consul KV store (type world, an http.RoundTripper). Every request is one
// scheduling point (vrt.Yield at its start) and is served atomically afterwards, so a
// call of the code under test is "read step, compare-and-set step". The explorer
// enumerates every interleaving of those steps of all callers and foreign writers
// (no preemption bound: Dev is far above the number of scheduling points and the
// report says so), every injected fault/crash point up to the stated fault budget, and
// a final call from a fresh Service ("restart of the core").
//
// The simulator is written from the public Consul KV HTTP API documentation
// (GET -> 200 [{Key,Value(base64),CreateIndex,ModifyIndex,...}] / 404; PUT -> "true";
// PUT ?cas=N -> applied iff N==ModifyIndex, N==0 means "only if absent"; every applied
// write takes the next Raft index as ModifyIndex; a failed CAS changes nothing).
// The oracle is written from the property statement only; it knows nothing of the code.
package main

import (
	"encoding/base64"
	"errors"
	"fmt"
	"io"
	"math/big"
	"net/http"
	"os"
	"regexp"
	"sort"
	"strconv"
	"strings"

	"github.com/AliceO2Group/Control/apricot"
	"github.com/AliceO2Group/Control/apricot/local"
	"github.com/AliceO2Group/Control/core/environment"
	vrt "github.com/AliceO2Group/Control/verif_vrt"
	"github.com/sirupsen/logrus"
	"github.com/spf13/viper"
)

const prop = "C07"

// ---------------------------------------------------------------- simulated Consul

type kvEntry struct {
	exists         bool
	value          string
	create, modify uint64
}

type readRec struct {
	t        int
	answered string // "200", "404", "neterr", "http500", "crash"
	found    bool
	modify   uint64
	value    string
	stale    bool
}

type putRec struct {
	t           int
	hasCas      bool
	cas         uint64
	value       string
	applied     bool
	answered    string // "true", "false", "neterr-before", "http500", "lost-reply", "crash-before", "crash-after"
	matchedRead bool   // at serve time the key was in the state this call's last read returned
	readKnown   bool
	readFound   bool
	readModify  uint64
}

type callRec struct {
	caller     string
	seq        int
	start, end int
	num        uint32
	err        error
	crashed    bool
	faultable  bool
	faults     []string
	reads      []readRec
	puts       []putRec
	unexpected []string
}

func (c *callRec) id() string { return fmt.Sprintf("%s%d", c.caller, c.seq) }

// giving: a number that somebody was given / declared used.
type giving struct {
	who, kind  string // kind: call | peer | foreign-put
	num        uint64
	start, end int
}

type crashed struct{}

type world struct {
	key        string // the counter key (learned, see learnKey)
	clock      int
	index      uint64
	kv         map[string]*kvEntry
	hist       []kvEntry // older versions of the counter key, newest last (stale reads)
	calls      []*callRec
	active     map[int]*callRec
	solo       *callRec // Direct scenarios: the one call in progress
	direct     bool     // Direct scenarios: no threads, calls are sequential
	faultsLeft int
	others     []giving
	foreignLog []string
	keysSeen   map[string]bool
	aux        bool // environment scenarios: requests outside a start attempt (defaults, vars) are answered "nothing there"
	envViol    []vrt.Violation
}

func newWorld(key string, present bool, value string, faults int) *world {
	w := &world{key: key, kv: map[string]*kvEntry{}, active: map[int]*callRec{}, faultsLeft: faults, keysSeen: map[string]bool{}}
	// indices deliberately not contiguous: the Raft index is global, a key's ModifyIndex is older
	w.index = 23
	if present {
		w.kv[key] = &kvEntry{exists: true, value: value, create: 11, modify: 17}
	}
	return w
}

func (w *world) tick() int { w.clock++; return w.clock }

func (w *world) cur(key string) kvEntry {
	if e := w.kv[key]; e != nil && e.exists {
		return *e
	}
	return kvEntry{}
}

func (w *world) store(key, value string) {
	w.index++
	if key == w.key {
		w.hist = append(w.hist, w.cur(key))
		if len(w.hist) > 2 {
			w.hist = w.hist[len(w.hist)-2:]
		}
	}
	e := w.kv[key]
	if e == nil || !e.exists {
		w.kv[key] = &kvEntry{exists: true, value: value, create: w.index, modify: w.index}
		return
	}
	e.value, e.modify = value, w.index
}

func (w *world) remove(key string) {
	if e := w.kv[key]; e != nil && e.exists {
		w.index++
		if key == w.key {
			w.hist = append(w.hist, *e)
		}
		e.exists = false
	}
}

func response(req *http.Request, code int, body string, index uint64) *http.Response {
	h := http.Header{}
	h.Set("Content-Type", "application/json")
	h.Set("X-Consul-Index", strconv.FormatUint(index, 10))
	h.Set("X-Consul-Knownleader", "true")
	h.Set("X-Consul-Lastcontact", "0")
	return &http.Response{StatusCode: code, Status: fmt.Sprintf("%d %s", code, http.StatusText(code)), Proto: "HTTP/1.1", ProtoMajor: 1, ProtoMinor: 1,
		Header: h, Body: io.NopCloser(strings.NewReader(body)), ContentLength: int64(len(body)), Request: req}
}

var getFaults = []string{"", "crash", "neterr", "http500"}
var putFaults = []string{"", "crash-before", "neterr-before", "http500", "lost-reply", "crash-after"}

func (w *world) chooseFault(c *callRec, opts []string, label string) string {
	if c == nil || !c.faultable || w.faultsLeft <= 0 {
		return ""
	}
	k := vrt.Choose(len(opts), label)
	if k != 0 {
		w.faultsLeft--
		c.faults = append(c.faults, opts[k])
	}
	return opts[k]
}

// RoundTrip serves one request of the real consul/api client.
func (w *world) RoundTrip(req *http.Request) (*http.Response, error) {
	c := w.solo
	if c == nil {
		c = w.active[vrt.ThreadID()]
	}
	var body []byte
	if req.Body != nil {
		body, _ = io.ReadAll(req.Body)
		req.Body.Close()
	}
	key := strings.TrimPrefix(req.URL.Path, "/v1/kv/")
	q := req.URL.Query()
	if c == nil {
		if w.aux && req.Method == "GET" {
			return response(req, 404, "", w.index), nil
		}
		return response(req, 500, "request outside a call", w.index), nil
	}
	vrt.Yield("consul:" + req.Method) // the request is in flight: anybody else may act first
	if !strings.HasPrefix(req.URL.Path, "/v1/kv/") || q.Has("recurse") || q.Has("keys") || q.Has("acquire") || q.Has("release") ||
		(req.Method != "GET" && req.Method != "PUT") {
		c.unexpected = append(c.unexpected, req.Method+" "+req.URL.Path+"?"+req.URL.RawQuery)
		return response(req, 500, "not simulated", w.index), nil
	}
	w.keysSeen[key] = true
	switch req.Method {
	case "GET":
		f := w.chooseFault(c, getFaults, "fault:GET")
		r := readRec{t: w.tick()}
		switch f {
		case "crash":
			r.answered = f
			c.reads = append(c.reads, r)
			panic(crashed{})
		case "neterr":
			r.answered = f
			c.reads = append(c.reads, r)
			return nil, errors.New("simconsul: connection reset by peer")
		case "http500":
			r.answered = f
			c.reads = append(c.reads, r)
			return response(req, 500, "rpc error: No cluster leader", w.index), nil
		}
		e := w.cur(key)
		if !q.Has("consistent") && key == w.key && len(w.hist) > 0 {
			// a read that does not ask for consistency may be served an older version
			if k := vrt.Choose(len(w.hist)+1, "stale-read"); k > 0 {
				e = w.hist[len(w.hist)-k]
				r.stale = true
			}
		}
		r.found, r.modify, r.value = e.exists, e.modify, e.value
		if !e.exists {
			r.answered = "404"
			c.reads = append(c.reads, r)
			return response(req, 404, "", w.index), nil
		}
		r.answered = "200"
		c.reads = append(c.reads, r)
		js := fmt.Sprintf(`[{"LockIndex":0,"Key":%q,"Flags":0,"Value":%q,"CreateIndex":%d,"ModifyIndex":%d}]`,
			key, base64.StdEncoding.EncodeToString([]byte(e.value)), e.create, e.modify)
		return response(req, 200, js, e.modify), nil
	default: // PUT
		p := putRec{value: string(body)}
		if q.Has("cas") {
			p.hasCas = true
			p.cas, _ = strconv.ParseUint(q.Get("cas"), 10, 64)
		}
		for i := len(c.reads) - 1; i >= 0; i-- {
			if a := c.reads[i].answered; a == "200" || a == "404" {
				p.readKnown, p.readFound, p.readModify = true, c.reads[i].found, c.reads[i].modify
				break
			}
		}
		f := w.chooseFault(c, putFaults, "fault:PUT")
		p.t = w.tick()
		e := w.cur(key)
		p.matchedRead = p.readKnown && e.exists == p.readFound && (!e.exists || e.modify == p.readModify)
		switch f {
		case "crash-before", "neterr-before", "http500":
			p.answered = f
			c.puts = append(c.puts, p)
			if f == "crash-before" {
				panic(crashed{})
			}
			if f == "http500" {
				return response(req, 500, "rpc error: No cluster leader", w.index), nil
			}
			return nil, errors.New("simconsul: connection refused")
		}
		ok := true
		if p.hasCas {
			if p.cas == 0 {
				ok = !e.exists
			} else {
				ok = e.exists && e.modify == p.cas
			}
		}
		if ok {
			w.store(key, p.value)
			p.applied = true
		}
		p.answered = strconv.FormatBool(ok)
		if f != "" {
			p.answered = f
		}
		c.puts = append(c.puts, p)
		switch f {
		case "lost-reply":
			return nil, errors.New("simconsul: EOF while reading the response")
		case "crash-after":
			panic(crashed{})
		}
		return response(req, 200, strconv.FormatBool(ok), w.index), nil
	}
}

// ---- foreign actors (not the code under test; they act directly on the store)

func (w *world) foreign(action string) {
	switch action {
	case "rawput": // somebody declares all numbers up to 1000 used: unconditional PUT of a larger value
		vrt.Yield("foreign:put")
		w.store(w.key, "1000")
		t := w.tick()
		w.others = append(w.others, giving{who: "foreign", kind: "foreign-put", num: 1000, start: t, end: t})
		w.foreignLog = append(w.foreignLog, "rawput")
	case "recreate": // delete and re-create atomically with the same value (fresh Create/ModifyIndex)
		vrt.Yield("foreign:recreate")
		if e := w.cur(w.key); e.exists {
			w.remove(w.key)
			w.store(w.key, e.value)
			w.tick()
			w.foreignLog = append(w.foreignLog, "recreate")
		}
	case "otherkey": // a write to an unrelated key: only the global index moves
		vrt.Yield("foreign:otherkey")
		w.store("o2/unrelated", "x")
		w.tick()
	case "peer": // another core following the documented protocol: read, then compare-and-set
		vrt.Yield("peer:read")
		start := w.tick()
		e := w.cur(w.key)
		v := uint64(0)
		if e.exists {
			v, _ = strconv.ParseUint(e.value, 10, 64)
		}
		vrt.Yield("peer:cas")
		now := w.cur(w.key)
		if now.exists == e.exists && (!e.exists || now.modify == e.modify) {
			w.store(w.key, strconv.FormatUint(v+1, 10))
			w.others = append(w.others, giving{who: "peer", kind: "peer", num: v + 1, start: start, end: w.tick()})
			w.foreignLog = append(w.foreignLog, fmt.Sprintf("peer=%d", v+1))
		} else {
			w.tick()
			w.foreignLog = append(w.foreignLog, "peer=err")
		}
	default:
		panic("unknown foreign action " + action)
	}
}

// ---------------------------------------------------------------- driving the real code

func newService(w *world) *local.Service {
	svc, err := local.NewServiceOverHTTPForVerif("consul://simconsul:8500", &http.Client{Transport: w})
	if err != nil {
		panic("cannot build Service: " + err.Error())
	}
	return svc
}

func (w *world) call(name string, seq int, svc *local.Service, faultable bool) *callRec {
	c := &callRec{caller: name, seq: seq, start: w.tick(), end: -1, faultable: faultable}
	w.calls = append(w.calls, c)
	if w.direct {
		w.solo = c
		defer func() { w.solo = nil }()
	} else {
		tid := vrt.ThreadID()
		w.active[tid] = c
		defer delete(w.active, tid)
	}
	defer func() {
		if r := recover(); r != nil {
			if _, ok := r.(crashed); ok {
				c.crashed = true
			}
			panic(r)
		}
	}()
	n, err := svc.NewRunNumber()
	c.num, c.err, c.end = n, err, w.tick()
	return c
}

var learnedKey string

// learnKey finds out which key the code under test uses for the counter (one call
// against an empty store), so that foreign writers and the oracle need not know it.
func learnKey() string {
	if learnedKey != "" {
		return learnedKey
	}
	w := newWorld("", false, "", 0)
	w.direct = true
	w.call("probe", 0, newService(w), false)
	var keys []string
	for k := range w.keysSeen {
		keys = append(keys, k)
	}
	sort.Strings(keys)
	switch {
	case len(keys) == 0:
		// the code sent nothing at all: every scenario will report that as a spurious failure
		keys = []string{"(no request seen)"}
	case len(keys) > 1:
		// more than one key touched: the counter is the one that was written
		for _, k := range keys {
			if e := w.kv[k]; e != nil && e.exists {
				keys = []string{k}
				break
			}
		}
	}
	learnedKey = keys[0]
	return learnedKey
}

// ---------------------------------------------------------------- oracle (from the statement)

func pair(a, b string) string {
	if a > b {
		a, b = b, a
	}
	return a + "/" + b
}

func (w *world) givings() []giving {
	var g []giving
	for _, c := range w.calls {
		if !c.crashed && c.end >= 0 && c.err == nil {
			g = append(g, giving{who: c.id(), kind: "call", num: uint64(c.num), start: c.start, end: c.end})
		}
	}
	return append(g, w.others...)
}

// check evaluates the oracle on a finished history. perCallOnly skips the clauses that
// compare different givings (the sequential grid checks those itself, with the initial
// content of the counter as an additional lower bound).
func (w *world) check(perCallOnly bool) (out []vrt.Violation) {
	add := func(clause, f string, a ...any) {
		out = append(out, vrt.Violation{Clause: clause, Detail: fmt.Sprintf(f, a...) + "\n" + w.describe()})
	}
	g := w.givings()
	if perCallOnly {
		g = nil
	}
	for i := range g {
		for j := i + 1; j < len(g); j++ {
			if g[i].num == g[j].num {
				add("duplicate-number:"+pair(g[i].kind, g[j].kind), "%s and %s were both given run number %d", g[i].who, g[j].who, g[i].num)
			}
		}
		for j := range g {
			if g[i].end < g[j].start && g[j].num < g[i].num {
				add("not-increasing:"+g[j].kind+"-after-"+g[i].kind, "%s got %d after %s had already got %d", g[j].who, g[j].num, g[i].who, g[i].num)
			}
		}
	}
	for _, c := range w.calls {
		for _, u := range c.unexpected {
			add("unexpected-request:"+strings.SplitN(u, " ", 2)[0], "%s sent %s", c.id(), u)
		}
		for _, p := range c.puts {
			switch {
			case !p.hasCas:
				add("non-atomic-advance:unconditional-write", "%s wrote %q without cas", c.id(), p.value)
			case !p.readKnown:
				add("non-atomic-advance:write-without-read", "%s wrote %q (cas=%d) without having read the key", c.id(), p.value, p.cas)
			case (p.readFound && p.cas != p.readModify) || (!p.readFound && p.cas != 0):
				add("non-atomic-advance:cas-index-not-the-one-read", "%s read found=%v ModifyIndex=%d but wrote with cas=%d", c.id(), p.readFound, p.readModify, p.cas)
			}
		}
		if c.crashed || c.end < 0 {
			continue
		}
		if c.err == nil {
			// the number must be the result of this call's own atomic advance
			want := strconv.FormatUint(uint64(c.num), 10)
			okWrite, rejected, unapplied := false, false, false
			for _, p := range c.puts {
				if p.value == want {
					if p.applied {
						okWrite = true
					} else {
						unapplied = true
					}
				}
				if p.answered == "false" {
					rejected = true
				}
			}
			switch {
			case okWrite:
			case rejected:
				add("number-without-advance:after-rejected-cas", "%s returned %d although its compare-and-set was rejected", c.id(), c.num)
			case len(c.puts) == 0:
				add("number-without-advance:no-write", "%s returned %d without writing the counter", c.id(), c.num)
			case unapplied:
				add("number-without-advance:write-never-applied", "%s returned %d although its write never reached the store (%s)", c.id(), c.num, c.puts[len(c.puts)-1].answered)
			default:
				add("number-without-advance:not-the-stored-value", "%s returned %d but stored %q", c.id(), c.num, c.puts[len(c.puts)-1].value)
			}
			continue
		}
		// the call failed: allowed only if the counter could not be advanced atomically
		if len(c.faults) > 0 {
			continue
		}
		switch {
		case len(c.puts) == 0:
			if len(c.reads) > 0 {
				r := c.reads[len(c.reads)-1]
				if !r.found || canonical(r.value) == "small" {
					add("spurious-failure:no-cas-attempted", "%s failed (%v) after reading found=%v value=%q, without trying to advance", c.id(), c.err, r.found, r.value)
				}
			} else {
				add("spurious-failure:nothing-attempted", "%s failed (%v) without any request", c.id(), c.err)
			}
		default:
			p := c.puts[len(c.puts)-1]
			if p.answered == "true" {
				add("spurious-failure:after-successful-cas", "%s failed (%v) although its compare-and-set was applied", c.id(), c.err)
			} else if p.answered == "false" && p.matchedRead {
				add("spurious-failure:cas-rejected-without-conflict", "%s failed (%v): nobody touched the key between its read and its write (cas=%d, read ModifyIndex=%d)", c.id(), c.err, p.cas, p.readModify)
			}
		}
	}
	return dedup(out)
}

func dedup(v []vrt.Violation) []vrt.Violation {
	seen := map[string]bool{}
	var out []vrt.Violation
	for _, x := range v {
		if !seen[x.Clause] {
			seen[x.Clause] = true
			out = append(out, x)
		}
	}
	return out
}

func (c *callRec) outcome() string {
	switch {
	case c.crashed:
		return c.id() + "=crash"
	case c.end < 0:
		return c.id() + "=unfinished"
	case c.err != nil:
		return c.id() + "=err"
	}
	return fmt.Sprintf("%s=%d", c.id(), c.num)
}

func (w *world) describe() string {
	var b strings.Builder
	for _, c := range w.calls {
		fmt.Fprintf(&b, "  call %s [%d..%d] %s faults=%v", c.id(), c.start, c.end, c.outcome(), c.faults)
		if c.err != nil {
			fmt.Fprintf(&b, " err=%q", c.err.Error())
		}
		for _, r := range c.reads {
			fmt.Fprintf(&b, " | t%d GET->%s found=%v idx=%d val=%q stale=%v", r.t, r.answered, r.found, r.modify, r.value, r.stale)
		}
		for _, p := range c.puts {
			fmt.Fprintf(&b, " | t%d PUT %q cas=%v/%d applied=%v ->%s", p.t, p.value, p.hasCas, p.cas, p.applied, p.answered)
		}
		b.WriteByte('\n')
	}
	for _, o := range w.others {
		fmt.Fprintf(&b, "  %s [%d..%d] stored %d\n", o.who, o.start, o.end, o.num)
	}
	e := w.cur(w.key)
	fmt.Fprintf(&b, "  final: key %q exists=%v value=%q ModifyIndex=%d raft index=%d", w.key, e.exists, e.value, e.modify, w.index)
	return b.String()
}

// ---------------------------------------------------------------- schedule scenarios

type callerSpec struct {
	name  string
	svc   int // callers with the same svc share one Service (environments of one core)
	calls int
}

type spec struct {
	name     string
	present  bool // counter key exists initially (value 41)
	callers  []callerSpec
	foreign  []string
	faultsQ  int // fault budget per execution, quick / thorough
	faultsT  int
	secondsQ int
	secondsT int
	quickToo bool
}

// devBound returns a deviation bound that cuts nothing: a deviation needs its own costly
// choice point with a non-default pick, and the only costly choice points are the thread
// choice at each request / foreign step of the concurrent phase (one per vrt.Yield) and
// the fault choices, of which at most `faults` are non-default. +1 slack.
func (sp spec) devBound(faults int) int {
	y := 0
	for _, c := range sp.callers {
		y += 2 * c.calls
	}
	for _, f := range sp.foreign {
		y++
		if f == "peer" {
			y++
		}
	}
	return y + faults + 1
}

var cutWarned bool

func schedScenario(sp spec) *vrt.Scenario {
	var w *world
	tier := "quick"
	body := func() {
		faults := sp.faultsQ
		if tier == "thorough" {
			faults = sp.faultsT
		}
		w = newWorld(learnKey(), sp.present, "41", faults)
		svcs := map[int]*local.Service{}
		done, total := 0, len(sp.callers)
		for _, cs := range sp.callers {
			cs := cs
			if svcs[cs.svc] == nil {
				svcs[cs.svc] = newService(w)
			}
			svc := svcs[cs.svc]
			vrt.GoFG("caller"+cs.name, func() {
				defer func() {
					done++
					if r := recover(); r != nil {
						if _, ok := r.(crashed); !ok {
							panic(r)
						}
					}
				}()
				for j := 0; j < cs.calls; j++ {
					w.call(cs.name, j, svc, true)
				}
			})
		}
		if len(sp.foreign) > 0 {
			total++
			vrt.GoFG("foreign", func() {
				defer func() { done++ }()
				for _, a := range sp.foreign {
					w.foreign(a)
				}
			})
		}
		vrt.WaitUntil("join", func() bool { return done == total })
		// restart of the core: a fresh Service, one more start, nobody else around
		w.call("R", 0, newService(w), false)
		var o []string
		for _, c := range w.calls {
			o = append(o, c.outcome())
		}
		sort.Strings(o)
		e := w.cur(w.key)
		vrt.Logf("%s foreign=%v stored=%q", strings.Join(o, " "), w.foreignLog, e.value)
	}
	doc := fmt.Sprintf("key present=%v; callers=%v (name,service,calls); foreign=%v; fault budget %d/%d (quick/thorough); then one call from a fresh Service; all interleavings (deviation bound %d/%d cuts nothing)",
		sp.present, sp.callers, sp.foreign, sp.faultsQ, sp.faultsT, sp.devBound(sp.faultsQ), sp.devBound(sp.faultsT))
	return &vrt.Scenario{
		Name: sp.name, Prop: prop, Doc: doc, Body: body,
		Cfg: vrt.Config{Preempt: func(k vrt.OpKind, site string) bool { return k == vrt.OpYield }},
		Setup: func() {
			logrus.SetOutput(io.Discard)
			learnKey()
			tier = currentTier
		},
		Check: func(x *vrt.Exec) []vrt.Violation {
			if w == nil {
				return nil
			}
			nz, yields := 0, 0
			for _, c := range x.Trace {
				if c.Cost && c.Thread {
					yields++
				} else if c.Cost && c.Pick != 0 {
					nz++
				}
			}
			max := sp.devBound(sp.faultsQ)
			if tier == "thorough" {
				max = sp.devBound(sp.faultsT)
			}
			if yields+nz > max && !cutWarned {
				cutWarned = true
				fmt.Fprintf(os.Stderr, "ENGINE-NOTE c07/%s: an execution has %d costly choice points > deviation bound %d (the code under test sends more requests than 2 per call, or reads without ?consistent); this scenario is then NOT exhaustive over interleavings\n", sp.name, yields+nz, max)
			}
			return w.check(false)
		},
		NonTrivial: func(x *vrt.Exec) bool {
			if w == nil {
				return false
			}
			n := 0
			for _, c := range w.calls {
				if c.err == nil && c.end >= 0 {
					n++
				}
			}
			return n > 0
		},
		Quick: vrt.Bounds{Dev: sp.devBound(sp.faultsQ), Seconds: sp.secondsQ}, Thorough: vrt.Bounds{Dev: sp.devBound(sp.faultsT), Seconds: sp.secondsT},
		DeadlockClause: "start-hangs", PanicClause: "panic",
	}
}

// ---------------------------------------------------------------- environment level

// The core's configuration service (the.ConfSvc() == apricot.Instance()) is built once per
// process by the real code from the consul:// URI; its Consul client is routed to the
// simulated store of the current execution through coreRT.
type switchRT struct{ w *world }

func (s *switchRT) RoundTrip(r *http.Request) (*http.Response, error) { return s.w.RoundTrip(r) }

var coreRT = &switchRT{}
var coreReady bool

func coreSetup() {
	if coreReady {
		return
	}
	coreReady = true
	viper.Set("configServiceUri", "consul://simconsul:8500")
	svc, ok := apricot.Instance().(*local.Service)
	if !ok {
		panic("the core's configuration service is not an embedded apricot/local.Service")
	}
	if err := svc.UseHTTPClientForVerif(&http.Client{Transport: coreRT}); err != nil {
		panic(err)
	}
}

// start fires START_ACTIVITY on a real Environment and records what an operator sees:
// whether the environment is RUNNING afterwards and which run number it reports.
func (w *world) start(name string, seq int, env *environment.Environment) *callRec {
	c := &callRec{caller: name, seq: seq, start: w.tick(), end: -1, faultable: true}
	w.calls = append(w.calls, c)
	tid := vrt.ThreadID()
	w.active[tid] = c
	defer delete(w.active, tid)
	defer func() {
		if r := recover(); r != nil {
			if _, ok := r.(crashed); ok {
				c.crashed = true
			}
			panic(r)
		}
	}()
	before := env.GetCurrentRunNumber()
	err := env.FireC07("START_ACTIVITY")
	state, rn := env.Sm.Current(), env.GetCurrentRunNumber()
	v, has := env.RunNumberVarC07()
	c.end = w.tick()
	fail := func(clause, f string, a ...any) {
		w.envViol = append(w.envViol, vrt.Violation{Clause: clause, Detail: fmt.Sprintf(f, a...)})
	}
	if state == "RUNNING" {
		c.num = rn
		if err != nil {
			fail("env:start-reported-failed-but-running", "%s: START_ACTIVITY returned %v, yet the environment is RUNNING with run number %d", c.id(), err, rn)
		}
		if !has || v != strconv.FormatUint(uint64(rn), 10) {
			fail("env:run-number-variable-differs", "%s: environment reports run %d, workflow variable run_number=%q (set=%v)", c.id(), rn, v, has)
		}
		return c
	}
	c.err = err
	if err == nil {
		c.err = errors.New("START_ACTIVITY returned no error but the environment is " + state)
		fail("env:start-neither-failed-nor-running:"+state, "%s: %v", c.id(), c.err)
	}
	if state != "CONFIGURED" {
		fail("env:failed-start-not-cancelled:"+state, "%s: START_ACTIVITY failed (%v) and left the environment in %s", c.id(), err, state)
	}
	if rn != before || has {
		fail("env:run-number-visible-after-failed-start", "%s: START_ACTIVITY failed (%v) but the environment reports run %d (before: %d), run_number variable %q set=%v", c.id(), err, rn, before, v, has)
	}
	return c
}

type envSpec struct {
	name               string
	envs               int  // environments of this core starting concurrently
	restartRun         bool // environment 1 does START, STOP, START
	other              bool // a Service of another core makes one call as well
	foreign            []string
	faultsQ, faultsT   int
	secondsQ, secondsT int
}

func envScenario(sp envSpec) *vrt.Scenario {
	var w *world
	tier := "quick"
	sched := spec{foreign: sp.foreign}
	for i := 0; i < sp.envs; i++ {
		n := 1
		if i == 0 && sp.restartRun {
			n = 2
		}
		sched.callers = append(sched.callers, callerSpec{fmt.Sprintf("E%d", i+1), 0, n})
	}
	if sp.other {
		sched.callers = append(sched.callers, callerSpec{"C", 1, 1})
	}
	body := func() {
		faults := sp.faultsQ
		if tier == "thorough" {
			faults = sp.faultsT
		}
		w = newWorld(learnKey(), true, "41", faults)
		w.aux = true
		coreRT.w = w
		done, total := 0, len(sched.callers)
		for _, cs := range sched.callers {
			cs := cs
			var env *environment.Environment
			var svc *local.Service
			if cs.svc == 0 {
				var err error
				if env, err = environment.NewConfiguredEnvC07(); err != nil {
					panic("cannot build environment: " + err.Error())
				}
			} else {
				svc = newService(w)
			}
			vrt.GoFG("starter"+cs.name, func() {
				defer func() {
					done++
					if r := recover(); r != nil {
						if _, ok := r.(crashed); !ok {
							panic(r)
						}
					}
				}()
				if env == nil {
					w.call(cs.name, 0, svc, true)
					return
				}
				for j := 0; j < cs.calls; j++ {
					c := w.start(cs.name, j, env)
					if j+1 < cs.calls {
						if c.err != nil {
							return
						}
						if err := env.FireC07("STOP_ACTIVITY"); err != nil || env.Sm.Current() != "CONFIGURED" {
							panic(fmt.Sprintf("harness: STOP_ACTIVITY did not bring the environment back to CONFIGURED: %v / %s", err, env.Sm.Current()))
						}
						if rn := env.GetCurrentRunNumber(); rn != 0 {
							w.envViol = append(w.envViol, vrt.Violation{Clause: "env:run-number-survives-stop", Detail: fmt.Sprintf("%s still reports run %d after STOP_ACTIVITY", cs.name, rn)})
						}
					}
				}
			})
		}
		if len(sp.foreign) > 0 {
			total++
			vrt.GoFG("foreign", func() {
				defer func() { done++ }()
				for _, a := range sp.foreign {
					w.foreign(a)
				}
			})
		}
		vrt.WaitUntil("join", func() bool { return done == total })
		w.call("R", 0, newService(w), false)
		var o []string
		for _, c := range w.calls {
			o = append(o, c.outcome())
		}
		sort.Strings(o)
		vrt.Logf("%s foreign=%v stored=%q", strings.Join(o, " "), w.foreignLog, w.cur(w.key).value)
	}
	dq, dt := sched.devBound(sp.faultsQ), sched.devBound(sp.faultsT)
	return &vrt.Scenario{
		Name: sp.name, Prop: prop, Body: body,
		Doc: fmt.Sprintf("real Environment FSM: %d environment(s) of one core fire START_ACTIVITY concurrently (first one START,STOP,START=%v), other core calling=%v, foreign=%v, fault budget %d/%d; observed: state and run number the environment reports; all interleavings of the Consul requests (deviation bound %d/%d)",
			sp.envs, sp.restartRun, sp.other, sp.foreign, sp.faultsQ, sp.faultsT, dq, dt),
		Cfg: vrt.Config{Preempt: func(k vrt.OpKind, site string) bool { return k == vrt.OpYield }},
		Setup: func() {
			logrus.SetOutput(io.Discard)
			logrus.SetLevel(logrus.FatalLevel) // the environment logs a lot; formatting it is most of the run time
			learnKey()
			coreSetup()
			tier = currentTier
		},
		Check: func(x *vrt.Exec) []vrt.Violation {
			if w == nil {
				return nil
			}
			return dedup(append(append([]vrt.Violation{}, w.envViol...), w.check(false)...))
		},
		NonTrivial: func(x *vrt.Exec) bool {
			if w == nil {
				return false
			}
			for _, c := range w.calls {
				if c.err == nil && c.end >= 0 && strings.HasPrefix(c.caller, "E") {
					return true
				}
			}
			return false
		},
		Quick: vrt.Bounds{Dev: dq, Seconds: sp.secondsQ}, Thorough: vrt.Bounds{Dev: dt, Seconds: sp.secondsT},
		DeadlockClause: "start-hangs", PanicClause: "panic",
	}
}

// ---------------------------------------------------------------- stored-value grid (Direct)

var canonRe = regexp.MustCompile(`^(0|[1-9][0-9]*)$`)

// canonical classifies a stored counter value.
func canonical(s string) string {
	if !canonRe.MatchString(s) {
		return "garbage"
	}
	v, _ := new(big.Int).SetString(s, 10)
	max := big.NewInt(4294967295)
	switch v.Cmp(max) {
	case 0:
		return "max"
	case 1:
		return "beyond-uint32"
	}
	return "small"
}

var valueGrid = []struct {
	present bool
	value   string
}{
	{false, ""}, {true, "0"}, {true, "1"}, {true, "41"}, {true, "999999"}, {true, "2147483647"}, {true, "2147483648"},
	{true, "4294967295"}, {true, "4294967294"}, {true, "4294967293"}, {true, "4294967292"}, {true, "4294967296"},
	{true, "18446744073709551615"}, {true, "18446744073709551616"},
	{true, ""}, {true, "abc"}, {true, "-1"}, {true, "+5"}, {true, " 5"}, {true, "5 "}, {true, "5\n"}, {true, "0x10"}, {true, "1e3"}, {true, "4.0"}, {true, "007"},
}

// runGrid: for every initial content of the counter, 4 consecutive calls of the real code
// from one Service; reference: a stored canonical decimal v < 2^32-1 -> the call succeeds
// with a number larger than v and than every number given before, and the counter then
// holds that number; v = 2^32-1 (no larger number exists) or beyond -> the call must fail
// rather than hand out a number that is not larger; garbage -> failing is fine, a number
// is fine only if it is larger than what the content can be read as.
func runGrid(count func(class string), failf func(clause, f string, a ...any), sample func(string)) {
	key := learnKey()
	seen := map[string]bool{}
	fail := func(clause, f string, a ...any) { // one witness per clause
		if !seen[clause] {
			seen[clause] = true
			failf(clause, f, a...)
		}
	}
	for _, in := range valueGrid {
		w := newWorld(key, in.present, in.value, 0)
		w.direct = true
		svc := newService(w)
		class := "absent"
		if in.present {
			class = canonical(in.value)
		}
		var floor *big.Int // every number given must be larger than this
		switch class {
		case "small", "max", "beyond-uint32":
			floor, _ = new(big.Int).SetString(in.value, 10)
		case "garbage":
			if v, ok := new(big.Int).SetString(strings.TrimSpace(in.value), 10); ok {
				floor = v
			}
		}
		var seq []string
		for i := 0; i < 4; i++ {
			before := w.cur(key)
			c := w.call("S", i, svc, false)
			after := w.cur(key)
			bclass := "absent"
			if before.exists {
				bclass = canonical(before.value)
			}
			verdict := "number"
			if c.err != nil {
				verdict = "error"
			}
			count(bclass + "," + verdict)
			seq = append(seq, c.outcome())
			wit := "stored=" + bclass
			if bclass == "max" {
				wit = "stored=" + before.value
			}
			if c.err != nil {
				if bclass == "absent" || bclass == "small" {
					fail("spurious-failure:"+wit, "start %d with counter %q (exists=%v) failed: %v", i, before.value, before.exists, c.err)
				}
				continue
			}
			n := new(big.Int).SetUint64(uint64(c.num))
			if floor != nil && n.Cmp(floor) <= 0 {
				cl := "not-increasing:"
				if bclass == "max" {
					cl = "wraparound:"
				}
				fail(cl+wit, "start %d with the counter at %q was given run number %d, which is not larger than numbers given before (%s); the counter now holds %q", i, before.value, c.num, floor, after.value)
				break // everything after a reuse is a consequence of it
			}
			if !after.exists || after.value != n.String() {
				fail("number-without-advance:"+wit, "start %d returned %d but the counter now holds %q (exists=%v)", i, c.num, after.value, after.exists)
			}
			floor = n
		}
		for _, v := range w.check(true) {
			fail(v.Clause+":values", "%s", v.Detail)
		}
		sample(fmt.Sprintf("values: initial present=%v value=%q -> %s", in.present, in.value, strings.Join(seq, " ")))
	}
}

func valuesScenario() *vrt.Scenario {
	return &vrt.Scenario{Name: "values", Prop: prop,
		Doc: "sequential: every initial content of the counter key from a grid (absent, small, around 2^31 and 2^32, beyond, garbage) x 4 consecutive starts from one Service",
		Direct: func(r *vrt.DirectReport, tier string) {
			logrus.SetOutput(io.Discard)
			runGrid(r.Count, r.Fail, func(s string) {
				if len(r.Samples) < 9 {
					r.Samples = append(r.Samples, s)
				}
			})
			r.Notes = append(r.Notes, fmt.Sprintf("grid: %d initial contents x 4 consecutive calls, no concurrency, no faults; counter key learned from the code: %q", len(valueGrid), learnKey()))
		},
		// Body is only used by `check replay`: the same grid inside one controlled execution.
		Setup: func() { logrus.SetOutput(io.Discard); learnKey() },
		Body: func() {
			runGrid(func(string) {}, vrt.Fail, func(s string) { vrt.Logf("%s", s) })
		},
	}
}

// ---------------------------------------------------------------- stored-value grid, file-backed counter

// The same Service.NewRunNumber keeps the counter in <coreWorkingDir>/runcounter.txt when the
// configuration backend is not Consul (mock:// and file:// backends: test and single-node
// set-ups; it is the counter every environment-level harness of this framework runs on). There are
// no concurrent steps to interleave (the code says so itself: "unsafe check-and-set"), but the
// statement's "larger than every number given before, or the start fails" holds for it as well:
// the grid of stored contents x 4 consecutive starts x one start from a fresh Service.
func runFileGrid(count func(class string), failf func(clause, f string, a ...any), sample func(string)) {
	seen := map[string]bool{}
	fail := func(clause, f string, a ...any) { // one witness per clause
		if !seen[clause] {
			seen[clause] = true
			failf(clause, f, a...)
		}
	}
	dir, err := os.MkdirTemp(os.Getenv("VERIF_WORK"), "c07file-")
	if err != nil {
		dir, _ = os.MkdirTemp("", "c07file-")
	}
	defer os.RemoveAll(dir)
	old := viper.GetString("coreWorkingDir")
	viper.Set("coreWorkingDir", dir)
	defer viper.Set("coreWorkingDir", old)
	file := dir + "/runcounter.txt"
	stored := func() (string, bool) {
		b, err := os.ReadFile(file)
		return string(b), err == nil
	}
	for _, in := range valueGrid {
		os.Remove(file)
		if in.present {
			os.WriteFile(file, []byte(in.value), 0o644)
		}
		svc, err := local.NewService("mock://")
		if err != nil {
			panic("cannot build a mock:// Service: " + err.Error())
		}
		class := "absent"
		if in.present {
			class = canonical(in.value)
		}
		var floor *big.Int // every number given must be larger than this
		switch class {
		case "small", "max", "beyond-uint32":
			floor, _ = new(big.Int).SetString(in.value, 10)
		case "garbage":
			if v, ok := new(big.Int).SetString(strings.TrimSpace(in.value), 10); ok {
				floor = v
			}
		}
		var seq []string
		for i := 0; i < 5; i++ {
			if i == 4 {
				svc, _ = local.NewService("mock://") // restart of the core
			}
			before, bex := stored()
			n32, cerr := svc.NewRunNumber()
			after, aex := stored()
			bclass := "absent"
			if bex {
				bclass = canonical(before)
			}
			verdict := "number"
			if cerr != nil {
				verdict = "error"
			}
			count("file:" + bclass + "," + verdict)
			wit := "stored=" + bclass
			if bclass == "max" {
				wit = "stored=" + before
			}
			if cerr != nil {
				seq = append(seq, "err")
				if bclass == "absent" || bclass == "small" {
					fail("spurious-failure:file-backend:"+wit, "start %d with the counter file holding %q (exists=%v) failed: %v", i, before, bex, cerr)
				}
				continue
			}
			seq = append(seq, fmt.Sprint(n32))
			n := new(big.Int).SetUint64(uint64(n32))
			if floor != nil && n.Cmp(floor) <= 0 {
				cl := "not-increasing:file-backend:"
				if bclass == "max" {
					cl = "wraparound:file-backend:"
				}
				fail(cl+wit, "start %d with the counter file holding %q was given run number %d, which is not larger than numbers given before (%s); the file now holds %q", i, before, n32, floor, after)
				break // everything after a reuse is a consequence of it
			}
			if !aex || after != n.String() {
				fail("number-without-advance:file-backend:"+wit, "start %d returned %d but the counter file now holds %q (exists=%v)", i, n32, after, aex)
			}
			floor = n
		}
		sample(fmt.Sprintf("values-file: initial present=%v value=%q -> %s", in.present, in.value, strings.Join(seq, " ")))
	}
}

func valuesFileScenario() *vrt.Scenario {
	return &vrt.Scenario{Name: "values-file", Prop: prop,
		Doc: "sequential, file-backed counter (mock:// backend): every initial content of runcounter.txt from the grid x 4 consecutive starts from one Service + 1 from a fresh Service",
		Direct: func(r *vrt.DirectReport, tier string) {
			logrus.SetOutput(io.Discard)
			runFileGrid(r.Count, r.Fail, func(s string) {
				if len(r.Samples) < 9 {
					r.Samples = append(r.Samples, s)
				}
			})
			r.Notes = append(r.Notes, fmt.Sprintf("file-backed counter: %d initial contents x 5 calls (the last from a fresh Service), no concurrency", len(valueGrid)))
		},
		Setup: func() { logrus.SetOutput(io.Discard) },
		Body: func() {
			runFileGrid(func(string) {}, vrt.Fail, func(s string) { vrt.Logf("%s", s) })
		},
	}
}

var currentTier = "quick"

func main() {
	for i, a := range os.Args {
		if a == "-tier" && i+1 < len(os.Args) {
			currentTier = os.Args[i+1]
		}
		if strings.HasPrefix(a, "-tier=") {
			currentTier = strings.TrimPrefix(a, "-tier=")
		}
	}
	A := func(n int) callerSpec { return callerSpec{"A", 0, n} }
	B := func(n int) callerSpec { return callerSpec{"B", 0, n} } // same core as A
	C := func(n int) callerSpec { return callerSpec{"C", 1, n} } // another core
	vrt.Main([]*vrt.Scenario{
		valuesScenario(),
		valuesFileScenario(),
		// quick and thorough (thorough with a larger fault budget)
		schedScenario(spec{name: "create-race", present: false, callers: []callerSpec{A(1), B(1), C(1)}, faultsQ: 1, faultsT: 2, secondsQ: 100, secondsT: 600}),
		schedScenario(spec{name: "two-cores-2x2", present: true, callers: []callerSpec{A(2), C(2)}, foreign: []string{"otherkey"}, faultsQ: 0, faultsT: 1, secondsQ: 100, secondsT: 600}),
		schedScenario(spec{name: "rawput", present: true, callers: []callerSpec{A(1), C(1)}, foreign: []string{"rawput"}, faultsQ: 1, faultsT: 2, secondsQ: 100, secondsT: 600}),
		schedScenario(spec{name: "recreate", present: true, callers: []callerSpec{A(1), B(1)}, foreign: []string{"recreate"}, faultsQ: 1, faultsT: 2, secondsQ: 100, secondsT: 600}),
		schedScenario(spec{name: "peer", present: true, callers: []callerSpec{A(1), C(1)}, foreign: []string{"peer"}, faultsQ: 1, faultsT: 2, secondsQ: 100, secondsT: 600}),
		envScenario(envSpec{name: "env-2starts", envs: 2, faultsQ: 1, faultsT: 2, secondsQ: 100, secondsT: 600}),
		envScenario(envSpec{name: "env-restart-run", envs: 2, restartRun: true, foreign: []string{"rawput"}, faultsQ: 0, faultsT: 1, secondsQ: 100, secondsT: 600}),
		// thorough only
		envScenario(envSpec{name: "env-2starts-other-core", envs: 2, other: true, faultsQ: 1, faultsT: 1, secondsQ: 100, secondsT: 600}),
		schedScenario(spec{name: "rawput-2", present: true, callers: []callerSpec{A(1), C(2)}, foreign: []string{"rawput"}, faultsQ: 1, faultsT: 1, secondsQ: 100, secondsT: 600}),
		schedScenario(spec{name: "create-2x2", present: false, callers: []callerSpec{A(2), C(2)}, faultsQ: 1, faultsT: 1, secondsQ: 100, secondsT: 600}),
		schedScenario(spec{name: "three-221", present: true, callers: []callerSpec{A(2), B(2), C(1)}, faultsQ: 0, faultsT: 0, secondsQ: 100, secondsT: 600}),
		schedScenario(spec{name: "three-peer", present: true, callers: []callerSpec{A(1), B(1), C(1)}, foreign: []string{"peer"}, faultsQ: 0, faultsT: 0, secondsQ: 100, secondsT: 900}),
		// extended (in no tier; run by hand: ./check C07 --tier thorough --scenario three-2x,three-peer-rawput ; about 8 min each)
		schedScenario(spec{name: "three-2x", present: true, callers: []callerSpec{A(2), B(2), C(2)}, faultsQ: 0, faultsT: 0, secondsQ: 1500, secondsT: 1500}),
		schedScenario(spec{name: "three-peer-rawput", present: true, callers: []callerSpec{A(1), B(1), C(1)}, foreign: []string{"peer", "rawput"}, faultsQ: 0, faultsT: 0, secondsQ: 1500, secondsT: 1500}),
	})
}

// C14: variables resolve by documented precedence at every role.
//
// Bounded-exhaustive product enumeration over key distributions
// (absent / value / empty at every level x kind) on the REAL code:
//   - environment created by the real newEnvironment, global defaults/vars read by
//     the real apricot local service from a file-backed configuration store,
//   - role trees built by the real YAML unmarshallers and Role.ProcessTemplates,
//   - values observed through ConsolidatedVarStack/ConsolidatedVarMaps, gera
//     Get/FlattenStack, role names, constraints, iterator ranges, the launched
//     task's command line and property map, and an integrated-service call.
//
// The oracle (model.go part of this file) is written from the property statement,
// the handbook (docs/handbook/configuration.md) and the documented stage table:
// user-supplied > vars > defaults; within a kind the nearest level wins; the
// environment is the outermost ancestor; empty is a definition; task-template
// defaults/vars rank below everything from the workflow; stage s sees the parent
// stack plus own defaults (s>=2), own vars (s>=3), own user vars (s>=4).
package main

import (
	"bytes"
	"encoding/json"
	"fmt"
	"io"
	"os"
	"path/filepath"
	"strings"

	"github.com/AliceO2Group/Control/common/gera"
	"github.com/AliceO2Group/Control/core/environment"
	"github.com/AliceO2Group/Control/core/task"
	"github.com/AliceO2Group/Control/core/task/taskclass"
	"github.com/AliceO2Group/Control/core/workflow"
	vrt "github.com/AliceO2Group/Control/verif_vrt"
	"github.com/sirupsen/logrus"
	"github.com/spf13/viper"
	"gopkg.in/yaml.v3"
)

// ---------------------------------------------------------------------------
// model (independent of the code under test)

const (
	kD = 0 // defaults
	kV = 1 // vars
	kU = 2 // user-supplied
)
const (
	stA = 0 // absent
	stV = 1 // a non-empty value, unique per slot
	stE = 2 // defined as the empty string
	stR = 3 // (refs scenario) a template referring to the same key: "r<slot>({{ k }})"
)

var kindName = [3]string{"defaults", "vars", "user"}

const kindLetter = "dvu"

// rank order of the kinds, highest first
var kindRank = [3]int{kU, kV, kD}

// combo is one distribution of the key: slot (level, kind) -> state. Level 0 is the
// environment (global defaults, global vars, user-supplied variables).
type combo struct {
	L int // deepest role level
	s []int8
	// local: an iterator variable bound at this level (0 = none) with this value
	localLevel int
	localVal   string
}

func newCombo(L int) *combo { return &combo{L: L, s: make([]int8, 3*(L+1))} }
func (c *combo) at(l, k int) int8 {
	return c.s[3*l+k]
}
func (c *combo) set(l, k int, st int8) { c.s[3*l+k] = st }
func (c *combo) String() string {
	var b strings.Builder
	for l := 0; l <= c.L; l++ {
		if l > 0 {
			b.WriteByte(' ')
		}
		fmt.Fprintf(&b, "L%d[", l)
		for k := 0; k < 3; k++ {
			b.WriteByte("-VER"[c.at(l, k)])
		}
		b.WriteByte(']')
	}
	if c.localLevel > 0 {
		fmt.Fprintf(&b, " local@L%d=%q", c.localLevel, c.localVal)
	}
	return b.String() + " (per level: defaults,vars,user; -=absent V=value E=empty R=reference)"
}
func (c *combo) weight() int {
	w := 0
	for _, x := range c.s {
		if x != stA {
			w++
		}
	}
	return w
}

func slotValue(l, k int) string { return fmt.Sprintf("v%d%c", l, kindLetter[k]) }

// src names a source of a value.
type src struct {
	l, k  int  // slot; l == -1: undefined
	local bool // iterator variable
}

var undefinedSrc = src{l: -1, k: -1}

func (s src) defined() bool { return s.l >= 0 || s.local }

// ownVisible tells which of the role's OWN maps a template evaluation stage can
// see (the ancestors' maps are always all visible).
func ownVisible(stage int) [3]bool {
	switch {
	case stage <= 1:
		return [3]bool{false, false, false}
	case stage == 2:
		return [3]bool{true, false, false}
	case stage == 3:
		return [3]bool{true, true, false}
	}
	return [3]bool{true, true, true}
}

var allOwn = [3]bool{true, true, true}

// resolve: the source a role at level l sees, given which of its own maps count.
// localTop: the role's own iterator variable is visible (stages 1-5 of the
// generated role); for descendants the iterator variable is a var of that level.
func (c *combo) resolve(l int, own [3]bool, localTop bool) src {
	if localTop && c.localLevel > 0 && c.localLevel == l {
		return src{l: l, k: kV, local: true}
	}
	for _, k := range kindRank {
		start := l
		if !own[k] {
			start = l - 1
		}
		for j := start; j >= 0; j-- {
			if k == kV && c.localLevel > 0 && c.localLevel == j && j < l {
				return src{l: j, k: kV, local: true}
			}
			if c.at(j, k) != stA {
				return src{l: j, k: k}
			}
		}
	}
	return undefinedSrc
}

// nearest definition within one kind
func (c *combo) resolveKind(l, k int) src {
	for j := l; j >= 0; j-- {
		if c.at(j, k) != stA {
			return src{l: j, k: k}
		}
	}
	return undefinedSrc
}

func (c *combo) value(s src) string {
	if s.local {
		return c.localVal
	}
	if c.at(s.l, s.k) == stE {
		return ""
	}
	return slotValue(s.l, s.k)
}

func rel(level, observer int) string {
	switch {
	case level == 0:
		return "env"
	case level == observer:
		return "own"
	case level == observer-1:
		return "parent"
	case level < observer:
		return "ancestor"
	}
	return "descendant"
}

// name of a wanted source relative to the observing level
func (c *combo) srcName(s src, observer int) string {
	if !s.defined() {
		return "undefined"
	}
	if s.local {
		return "iterator-local@" + rel(s.l, observer)
	}
	n := kindName[s.k] + "@" + rel(s.l, observer)
	if c.at(s.l, s.k) == stE {
		n += "(empty)"
	}
	return n
}

// classification of an observed string
func gotName(got string, observer int) string {
	if g, ok := parseSlot(got); ok {
		return kindName[g.k] + "@" + rel(g.l, observer)
	}
	switch got {
	case "":
		return "empty-string"
	case "cd":
		return "class-defaults"
	case "cv":
		return "class-vars"
	case obsUndefined:
		return "undefined"
	case obsError:
		return "error"
	case "0", "1":
		return "iterator-local"
	}
	if len(got) > 24 {
		got = got[:24]
	}
	return "other(" + got + ")"
}

// parseSlot recognises a slot value "v<level><kind letter>".
func parseSlot(got string) (src, bool) {
	var l int
	var kc byte
	if n, _ := fmt.Sscanf(got, "v%d%c", &l, &kc); n == 2 && got == fmt.Sprintf("v%d%c", l, kc) {
		if k := strings.IndexByte(kindLetter, kc); k >= 0 {
			return src{l: l, k: k}, true
		}
	}
	return undefinedSrc, false
}

// relation is the stable part of a violation clause: which ranking rule the
// observed value breaks (levels and concrete values go to the detail).
func relation(c *combo, want src, got string) string {
	wk := "nothing"
	if want.local {
		wk = "iterator-variable"
	} else if want.defined() {
		wk = kindName[want.k]
		if c.at(want.l, want.k) == stE {
			wk += "(empty)"
		}
	}
	switch got {
	case obsUndefined:
		return wk + " definition not seen (undefined)"
	case obsError:
		return wk + " definition not seen (error)"
	case "":
		return wk + " loses to an empty definition of a lower-ranking source"
	case "cd":
		return "class-defaults outrank " + wk
	case "cv":
		return "class-vars outrank " + wk
	}
	if g, ok := parseSlot(got); ok {
		switch {
		case !want.defined():
			return "sees " + kindName[g.k] + " definition that must not be visible here"
		case want.local:
			return kindName[g.k] + " outranks iterator-variable"
		case g.k != want.k:
			return kindName[g.k] + " outranks " + wk
		case g.l < want.l:
			return "farther " + kindName[g.k] + " definition outranks nearer " + wk
		default:
			return "sees own/nearer " + kindName[g.k] + " definition that must not be visible here instead of " + wk
		}
	}
	if c.localLevel > 0 && got == c.localVal {
		return "iterator-variable outranks " + wk
	}
	g := got
	if len(g) > 32 {
		g = g[:32]
	}
	if !strings.HasPrefix(g, "other(") {
		g = "other(" + g + ")"
	}
	return "want " + wk + " got " + g
}

const (
	obsUndefined = "\x00undefined"
	obsError     = "\x00error"
)

// ---------------------------------------------------------------------------
// bookkeeping

type book struct {
	r      *vrt.DirectReport
	seen   map[string]bool
	counts map[ckey]int64
}

// ckey: (observation, wanted source class, verdict)
type ckey struct {
	obs          string
	kind, rel    int8
	empty, local bool
	ok           bool
}

func newBook(r *vrt.DirectReport) *book {
	return &book{r: r, seen: map[string]bool{}, counts: map[ckey]int64{}}
}

func relCode(level, observer int) int8 {
	switch {
	case level < 0:
		return -1
	case level == 0:
		return 0
	case level == observer:
		return 1
	case level == observer-1:
		return 2
	}
	return 3
}

func (b *book) check(obs string, c *combo, observer int, want src, got string) bool {
	wantStr := obsUndefined
	if want.defined() {
		wantStr = c.value(want)
	}
	ok := got == wantStr || (!want.defined() && got == obsError)
	ck := ckey{obs: obs, kind: int8(want.k), rel: relCode(want.l, observer), local: want.local, ok: ok}
	if want.defined() && !want.local {
		ck.empty = c.at(want.l, want.k) == stE
	}
	b.counts[ck]++
	if !ok {
		wn := c.srcName(want, observer)
		co := obs
		if i := strings.Index(co, " (class{"); i >= 0 {
			co = co[:i]
		}
		if strings.HasPrefix(co, "command-line ") {
			co = "command-line"
		}
		clause := co + ": " + relation(c, want, got)
		if b.seen[strings.Replace(clause, "(empty)", "", 1)] {
			return ok // the same broken rule is already reported with a non-empty value
		}
		b.fail(clause,
			"%s: key distribution %s; observing level %d; expected %q from %s, observed %q (%s)", obs, c, observer, printable(wantStr), wn, printable(got), gotName(got, observer))
	}
	return ok
}

// flush turns the counters into (input class, verdict) classes of the report.
func (b *book) flush() {
	for ck, n := range b.counts {
		wn := "undefined"
		if ck.local {
			wn = "iterator-local@" + [...]string{"env", "own", "parent", "ancestor"}[ck.rel]
		} else if ck.rel >= 0 {
			wn = kindName[ck.kind] + "@" + [...]string{"env", "own", "parent", "ancestor"}[ck.rel]
			if ck.empty {
				wn += "(empty)"
			}
		}
		verdict := "ok"
		if !ck.ok {
			verdict = "VIOLATION"
		}
		if b.r.Distinct == nil {
			b.r.Distinct = map[string]int64{}
		}
		b.r.Distinct[ck.obs+" want "+wn+" -> "+verdict] += n
		b.r.Evaluations += n
	}
	b.counts = map[ckey]int64{}
}

func (b *book) fail(clause, format string, a ...any) {
	if b.seen[clause] {
		return
	}
	b.seen[clause] = true
	b.r.Fail(clause, format, a...)
}

func printable(s string) string {
	switch s {
	case obsUndefined:
		return "<undefined>"
	case obsError:
		return "<error>"
	}
	return s
}

// ---------------------------------------------------------------------------
// the world: configuration store file, environment, fake repo

type fakeRepo struct{}

func (fakeRepo) GetIdentifier() string                                { return "verif/repo" }
func (fakeRepo) GetCloneDir() string                                  { return "/nonexistent" }
func (fakeRepo) ResolveTaskClassIdentifier(s string) string           { return s }
func (fakeRepo) ResolveSubworkflowTemplateIdentifier(s string) string { return s }
func (fakeRepo) GetProtocol() string                                  { return "local" }
func (fakeRepo) GetHash() string                                      { return "0" }
func (fakeRepo) GetRevisions() []string                               { return nil }
func (fakeRepo) GetDefaultRevision() string                           { return "main" }
func (fakeRepo) IsDefault() bool                                      { return true }
func (fakeRepo) GetTaskTemplatePath(s string) string                  { return s }
func (fakeRepo) GetDplCommand(string) (string, error)                 { return "", nil }

var cfgFile string

func setupOnce() {
	if cfgFile != "" {
		return
	}
	logrus.SetOutput(io.Discard)
	logrus.SetLevel(logrus.PanicLevel)
	dir, err := os.MkdirTemp("", "verif-c14-")
	if err != nil {
		panic(err)
	}
	cfgFile = dir + "/store.yaml"
	writeStore("", false, "", false)
	viper.Set("configServiceUri", "file://"+cfgFile)
	viper.Set("concurrentWorkflowTemplateProcessing", false)
	viper.Set("concurrentWorkflowTemplateIteratorProcessing", false)
	viper.Set("concurrentIteratorRoleExpansion", false)
	viper.Set("enableKafka", false)
}

// writeStore rewrites the configuration store: o2/runtime/aliecs/{defaults,vars}.
func writeStore(d string, dDef bool, v string, vDef bool) {
	var b strings.Builder
	b.WriteString("o2:\n  runtime:\n    aliecs:\n      defaults:\n        store_filler_d: fd\n")
	if dDef {
		fmt.Fprintf(&b, "        %s: %q\n", key, d)
	}
	b.WriteString("      vars:\n        store_filler_v: fv\n")
	if vDef {
		fmt.Fprintf(&b, "        %s: %q\n", key, v)
	}
	if err := os.WriteFile(cfgFile, []byte(b.String()), 0o644); err != nil {
		panic(err)
	}
}

var key = "k"

type world struct {
	parent workflow.Updatable
	base   map[string]string
}

// newWorld: environment whose three maps carry the level-0 slots of c.
func newWorld(c *combo) *world {
	setupOnce()
	writeStore(c.value0(kD), c.at(0, kD) != stA, c.value0(kV), c.at(0, kV) != stA)
	uv := map[string]string{"user_filler": "fu"}
	if c.at(0, kU) != stA {
		uv[key] = c.value0(kU)
	}
	p, base, err := environment.NewEnvironmentParentForVerifC14(uv)
	if err != nil {
		panic(fmt.Sprintf("cannot create environment: %v", err))
	}
	return &world{parent: p, base: base}
}

func (c *combo) value0(k int) string {
	if c.at(0, k) == stV {
		return slotValue(0, k)
	}
	return ""
}

// ---------------------------------------------------------------------------
// tree construction (JSON is YAML)

type probe struct{ level, stage int }

type treeSpec struct {
	L         int
	leaf      string // "task" | "call"
	iterAt    int    // level generated by an iterator (0 = none)
	iterMode  string // "for" (begin 0 end 1) | "range" (one element: x{{ k }}y)
	inYAML    bool   // role-level defaults/vars come from the document (else set through the API later)
	includeAt int    // this level is an include role; the next level is the root of the included document "sub"
	tagged    bool   // defaults/vars entries of the key are written as `!public {value: ..}` mappings (input widget metadata)
}

// publicMark prefixes a value that docFrom turns into a `!public` mapping after JSON encoding.
const publicMark = "\x01PUBLIC:"

const probeText = "x{{ %s }}y"

func probeKey(p probe) string { return fmt.Sprintf("p%d_%d", p.stage, p.level) }

func slotText(c *combo, l, k int) (string, bool) {
	switch c.at(l, k) {
	case stV:
		return slotValue(l, k), true
	case stE:
		return "", true
	case stR:
		return fmt.Sprintf("r%d%c({{ %s }})", l, kindLetter[k], key), true
	}
	return "", false
}

func (ts *treeSpec) doc(c *combo, mask map[probe]bool, s0want map[int]string) []byte {
	return ts.docFrom(1, c, mask, s0want)
}

// subDoc: the document an include role at level includeAt pulls in.
func (ts *treeSpec) subDoc(c *combo, mask map[probe]bool) []byte {
	return ts.docFrom(ts.includeAt+1, c, mask, nil)
}

func (ts *treeSpec) docFrom(top int, c *combo, mask map[probe]bool, s0want map[int]string) []byte {
	var role func(l int) map[string]any
	role = func(l int) map[string]any {
		m := map[string]any{}
		name := fmt.Sprintf("n%d", l)
		if ts.iterAt == l {
			if ts.iterMode == "for" {
				name += "-{{ it }}"
				m["for"] = map[string]string{"begin": "0", "end": "1", "var": "it"}
			} else {
				name += "-{{ it }}"
				m["for"] = map[string]string{"range": fmt.Sprintf("[\"x{{ %s }}y\"]", key), "var": "it"}
			}
		}
		if mask[probe{l, 4}] {
			name += fmt.Sprintf("-"+probeText, key)
		}
		m["name"] = name
		if mask[probe{l, 0}] {
			m["enabled"] = fmt.Sprintf("{{ %s == '%s' }}", key, s0want[l])
		}
		d := map[string]string{}
		v := map[string]string{}
		if ts.inYAML {
			mark := ""
			if ts.tagged {
				mark = publicMark
			}
			if t, ok := slotText(c, l, kD); ok {
				d[key] = mark + t
			}
			if t, ok := slotText(c, l, kV); ok {
				v[key] = mark + t
			}
		}
		if mask[probe{l, 1}] {
			d[probeKey(probe{l, 1})] = fmt.Sprintf(probeText, key)
		}
		if mask[probe{l, 2}] {
			v[probeKey(probe{l, 2})] = fmt.Sprintf(probeText, key)
		}
		if len(d) > 0 {
			m["defaults"] = d
		}
		if len(v) > 0 {
			m["vars"] = v
		}
		if mask[probe{l, 5}] {
			m["constraints"] = []map[string]string{{"attribute": fmt.Sprintf("c%d", l), "value": fmt.Sprintf(probeText, key)}}
		}
		if l == ts.includeAt {
			m["include"] = "sub"
		} else if l < ts.L {
			m["roles"] = []any{role(l + 1)}
		} else if ts.leaf == "call" {
			m["call"] = map[string]any{"func": key, "return": "ret", "trigger": "before_CONFIGURE"}
		} else {
			m["task"] = map[string]any{"load": "cls"}
		}
		return m
	}
	var buf bytes.Buffer
	enc := json.NewEncoder(&buf)
	enc.SetEscapeHTML(false)
	if err := enc.Encode(role(top)); err != nil {
		panic(err)
	}
	if ts.tagged {
		// "k":"\u0001PUBLIC:<text>"  ->  "k": !public {"value":"<text>","type":"string","label":"widget"}  (flow-style YAML)
		out := buf.String()
		const open = "\"\\u0001PUBLIC:"
		for {
			i := strings.Index(out, open)
			if i < 0 {
				break
			}
			j := i + len(open)
			e := j
			for out[e] != '"' || out[e-1] == '\\' {
				e++
			}
			out = out[:i] + " !public {\"value\":\"" + out[j:e] + "\",\"type\":\"string\",\"label\":\"widget\"}" + out[e+1:]
		}
		return []byte(out)
	}
	return buf.Bytes()
}

// chain returns, for every level 1..L, the roles at that level along the (only)
// path; an iterator level has one role per generated instance.
func (ts *treeSpec) chains(root workflow.Role) [][]workflow.Role {
	var out [][]workflow.Role
	var walk func(r workflow.Role, l int, acc []workflow.Role)
	walk = func(r workflow.Role, l int, acc []workflow.Role) {
		acc = append(append([]workflow.Role{}, acc...), r)
		if l == ts.L {
			out = append(out, acc)
			return
		}
		for _, ch := range r.GetRoles() { // GetRoles flattens iterators into their generated roles
			walk(ch, l+1, acc)
		}
	}
	walk(root, 1, nil)
	return out
}

// preChain: the roles as unmarshalled (before template processing); at the
// iterator level the iterator role itself (runtime vars go to its template).
func (ts *treeSpec) preChain(root workflow.Role) []workflow.Role {
	out := []workflow.Role{root}
	r := root
	for l := 2; l <= ts.L; l++ {
		ch := workflow.RawRolesForVerifC14(r)
		if len(ch) != 1 {
			panic(fmt.Sprintf("unexpected tree shape at level %d: %d children", l, len(ch)))
		}
		r = ch[0]
		out = append(out, r)
	}
	return out
}

// applyAPI sets the role-level slots through the public API of the real roles.
func applyAPI(c *combo, roles []workflow.Role, kinds [3]bool) {
	for i, r := range roles {
		l := i + 1
		for k := 0; k < 3; k++ {
			if !kinds[k] {
				continue
			}
			t, ok := slotText(c, l, k)
			switch k {
			case kD:
				if ok {
					r.GetDefaults().Set(key, t)
				} else {
					r.GetDefaults().Del(key)
				}
			case kV:
				if ok {
					r.GetVars().Set(key, t)
				} else {
					r.GetVars().Del(key)
				}
			case kU:
				if ok {
					r.SetRuntimeVar(key, t)
				} else {
					r.DeleteRuntimeVar(key)
				}
			}
		}
	}
}

func get(m map[string]string, k string) string {
	if v, ok := m[k]; ok {
		return v
	}
	return obsUndefined
}

// ---------------------------------------------------------------------------
// enumeration helpers

// slots: list of (level,kind) that vary, each with its alphabet
type axis struct {
	l, k   int
	states []int8
}

func axes(levels []int, kinds []int, states []int8) []axis {
	var out []axis
	for _, l := range levels {
		for _, k := range kinds {
			out = append(out, axis{l, k, states})
		}
	}
	return out
}

// forEach enumerates the product, simplest (fewest defined slots) first.
func forEach(L int, ax []axis, f func(c *combo)) int {
	total := 1
	for _, a := range ax {
		total *= len(a.states)
	}
	c := newCombo(L)
	n := 0
	for w := 0; w <= len(ax); w++ {
		for i := 0; i < total; i++ {
			x := i
			cnt := 0
			for _, a := range ax {
				st := a.states[x%len(a.states)]
				x /= len(a.states)
				c.set(a.l, a.k, st)
				if st != stA {
					cnt++
				}
			}
			if cnt != w {
				continue
			}
			n++
			f(c)
		}
	}
	return n
}

var (
	avE  = []int8{stA, stV, stE}
	av   = []int8{stA, stV}
	avR  = []int8{stA, stV, stR}
	allK = []int{kD, kV, kU}
)

func describeAxes(ax []axis) string {
	var parts []string
	for _, a := range ax {
		parts = append(parts, fmt.Sprintf("L%d.%s:%d", a.l, kindName[a.k], len(a.states)))
	}
	return strings.Join(parts, " ")
}

// ---------------------------------------------------------------------------
// scenario "stack": consolidated stacks / maps / gera access at every role

type stackGrid struct {
	L       int
	noEmpty int // levels 0..noEmpty-1 vary over absent/value only (the others over absent/value/empty)
}

func scenarioStack() func(r *vrt.DirectReport, tier string) {
	return func(r *vrt.DirectReport, tier string) {
		b := newBook(r)
		defer b.flush()
		grids := []stackGrid{{L: 2}, {L: 3, noEmpty: 1}}
		if tier == "thorough" {
			grids = []stackGrid{{L: 3}, {L: 4, noEmpty: 3}}
		}
		for _, g := range grids {
			L := g.L
			ts := &treeSpec{L: L, leaf: "task"}
			states := func(l int) []int8 {
				if l < g.noEmpty {
					return av
				}
				return avE
			}
			envAx := axes([]int{0}, allK, states(0))
			var roleAx []axis
			for l := 1; l <= L; l++ {
				roleAx = append(roleAx, axes([]int{l}, allK, states(l))...)
			}
			evals := 0
			forEach(L, envAx, func(ec *combo) {
				w := newWorld(ec)
				// the environment's flattened view of the configuration store (handed to every template stage, read
				// back by START_ACTIVITY and by integration plugins): vars over defaults, an empty value is a definition
				wantDef, want := false, ""
				if ec.at(0, kV) != stA {
					wantDef, want = true, ec.value0(kV)
				} else if ec.at(0, kD) != stA {
					wantDef, want = true, ec.value0(kD)
				}
				if got, ok := w.base[key]; ok != wantDef || got != want {
					b.fail("BaseConfigStack:store-vars-over-defaults", "configuration store %s: the environment's base config stack has %q (defined=%v), want %q (defined=%v)", ec, got, ok, want, wantDef)
				}
				root, err := workflow.LoadFromYAMLForVerifC14(ts.doc(newCombo(L), nil, nil), w.parent)
				if err != nil {
					panic(err)
				}
				if err = root.ProcessTemplates(fakeRepo{}, nil, w.base); err != nil {
					panic(err)
				}
				ch := ts.chains(root)
				if len(ch) != 1 {
					panic("tree lost roles")
				}
				roles := ch[0]
				forEach(L, roleAx, func(c *combo) {
					copy(c.s[:3], ec.s[:3])
					applyAPI(c, roles, allOwn)
					evals++
					for i, role := range roles {
						l := i + 1
						vs, err := role.ConsolidatedVarStack()
						got := obsError
						if err == nil {
							got = get(vs, key)
						}
						b.check("ConsolidatedVarStack", c, l, c.resolve(l, allOwn, false), got)
						d, v, u, err := role.ConsolidatedVarMaps()
						for k, m := range []map[string]string{d, v, u} {
							got = obsError
							if err == nil {
								got = get(m, key)
							}
							b.check("ConsolidatedVarMaps."+kindName[k], c, l, c.resolveKind(l, k), got)
						}
						for k, m := range []gera.Map[string, string]{role.GetDefaults(), role.GetVars(), role.GetUserVars()} {
							got = obsUndefined
							if x, ok := m.Get(key); ok {
								got = x
							}
							b.check("gera.Get."+kindName[k], c, l, c.resolveKind(l, k), got)
						}
						fs, err := gera.FlattenStack(role.GetDefaults(), role.GetVars(), role.GetUserVars())
						got = obsError
						if err == nil {
							got = get(fs, key)
						}
						b.check("gera.FlattenStack", c, l, c.resolve(l, allOwn, false), got)
					}
					if evals == 15000 {
						r.Samples = append(r.Samples, fmt.Sprintf("stack: %s -> leaf sees %s", c, c.srcName(c.resolve(L, allOwn, false), L)))
					}
				})
			})
			r.Notes = append(r.Notes, fmt.Sprintf("grid: environment {global defaults, global vars, user vars} x %d role levels; axes %s x %s = %d distributions; role-level values set through GetDefaults()/GetVars().Set/Del and SetRuntimeVar/DeleteRuntimeVar on roles loaded by the real YAML loader, environment-level values through the configuration store file and newEnvironment; every role observed", L, describeAxes(envAx), describeAxes(roleAx), evals))
		}
	}
}

// ---------------------------------------------------------------------------
// scenario "templates": full YAML load + ProcessTemplates, stage visibility

type loadResult struct {
	err    error
	shape  bool // all levels present and enabled
	values map[probe]string
	stacks []string // value of key seen by ConsolidatedVarStack per level (index l-1)
	leafPS map[probe]string
}

// runLoad: one real load of the document for distribution c with the given probes.
func (ts *treeSpec) runLoad(w *world, c *combo, mask map[probe]bool, s0want map[int]string) *loadResult {
	res := &loadResult{values: map[probe]string{}, leafPS: map[probe]string{}}
	root, err := workflow.LoadFromYAMLForVerifC14(ts.doc(c, mask, s0want), w.parent)
	if err != nil {
		panic(fmt.Sprintf("document does not unmarshal: %v", err))
	}
	pre := ts.preChain(root)
	for i, r := range pre {
		l := i + 1
		if t, ok := slotText(c, l, kU); ok {
			r.SetRuntimeVar(key, t)
		}
		if !ts.inYAML {
			if t, ok := slotText(c, l, kD); ok {
				r.GetDefaults().Set(key, t)
			}
			if t, ok := slotText(c, l, kV); ok {
				r.GetVars().Set(key, t)
			}
		}
		if mask[probe{l, 3}] {
			r.SetRuntimeVar(probeKey(probe{l, 3}), fmt.Sprintf(probeText, key))
		}
	}
	res.err = root.ProcessTemplates(fakeRepo{}, nil, w.base)
	if res.err != nil {
		return res
	}
	chains := ts.chains(root)
	if len(chains) == 0 || !root.IsEnabled() {
		return res
	}
	res.shape = true
	roles := chains[0]
	leaf := roles[len(roles)-1]
	leafStack, _ := leaf.ConsolidatedVarStack()
	var cts map[string]string
	if ts.leaf == "task" {
		cts = map[string]string{}
		for _, d := range leaf.GenerateTaskDescriptors() {
			for _, ct := range d.RoleConstraints {
				cts[ct.Attribute] = ct.Value
			}
		}
	}
	for i, role := range roles {
		l := i + 1
		vs, err := role.ConsolidatedVarStack()
		if err != nil {
			res.stacks = append(res.stacks, obsError)
		} else {
			res.stacks = append(res.stacks, get(vs, key))
		}
		for st := 1; st <= 5; st++ {
			p := probe{l, st}
			if !mask[p] {
				continue
			}
			switch st {
			case 1, 2, 3:
				res.values[p] = unwrap(get(vs, probeKey(p)))
				res.leafPS[p] = unwrap(get(leafStack, probeKey(p)))
			case 4:
				n := role.GetName()
				if i := strings.LastIndex(n, "-x"); i >= 0 {
					res.values[p] = unwrap(n[i+1:])
				} else {
					res.values[p] = "other(" + n + ")"
				}
			case 5:
				if cts != nil {
					res.values[p] = unwrap(get(cts, fmt.Sprintf("c%d", l)))
				}
			}
		}
	}
	return res
}

// unwrap "x<val>y" -> val
func unwrap(s string) string {
	if s == obsUndefined || s == obsError {
		return s
	}
	if len(s) >= 2 && s[0] == 'x' && s[len(s)-1] == 'y' {
		return s[1 : len(s)-1]
	}
	return "other(" + s + ")"
}

func stageObs(st int) string {
	what := [...]string{"enabled", "defaults-entry", "vars-entry", "user-var-entry", "role-name", "constraint"}[st]
	return fmt.Sprintf("stage%d(%s)", st, what)
}

func scenarioTemplates() func(r *vrt.DirectReport, tier string) {
	return func(r *vrt.DirectReport, tier string) {
		b := newBook(r)
		defer b.flush()
		L := 2
		envAx := axes([]int{0}, allK, avE)
		if tier == "thorough" {
			L = 3
			envAx = axes([]int{0}, allK, av)
		}
		ts := &treeSpec{L: L, leaf: "task", inYAML: true}
		var roleLv []int
		for l := 1; l <= L; l++ {
			roleLv = append(roleLv, l)
		}
		roleAx := axes(roleLv, allK, avE)
		if tier == "thorough" {
			// the root's user-var slot without the empty state (covered by the quick grid and by the stack scenario)
			roleAx = append([]axis{{1, kD, avE}, {1, kV, avE}, {1, kU, av}}, axes(roleLv[1:], allK, avE)...)
		}
		evals, loads := stageGrid(r, b, ts, envAx, roleAx, func(int) []int { return []int{0, 1, 2, 3, 4, 5} }, "", 5000)
		r.Notes = append(r.Notes, fmt.Sprintf("grid: environment x %d role levels (root..task leaf), defaults/vars in the YAML document, role user vars via SetRuntimeVar before ProcessTemplates; axes %s x %s = %d distributions, %d real loads; probes per role: enabled (stage 0), a defaults entry (1), a vars entry (2), a user-var entry (3), the name (4), a constraint (5), each referring to the key", L, describeAxes(envAx), describeAxes(roleAx), evals, loads))
	}
}

// stageGrid: every distribution of the axes is loaded for real with a probe in every field class of every role
// (stages(l) = the stages probed at level l) and compared with the model; pfx goes in front of the observation names.
func stageGrid(r *vrt.DirectReport, b *book, ts *treeSpec, envAx, roleAx []axis, stages func(l int) []int, pfx string, sampleAt int) (evals, loads int) {
	L := ts.L
	diagnoses := 0
	forEach(L, envAx, func(ec *combo) {
		w := newWorld(ec)
		forEach(L, roleAx, func(c *combo) {
			copy(c.s[:3], ec.s[:3])
			evals++
			// what the model says every probe sees
			want := map[probe]src{}
			joint := map[probe]bool{}
			s0 := map[int]string{}
			var undef []probe
			for l := 1; l <= L; l++ {
				for _, st := range stages(l) {
					p := probe{l, st}
					s := c.resolve(l, ownVisible(st), false)
					want[p] = s
					if s.defined() {
						joint[p] = true
						if st == 0 {
							s0[l] = c.value(s)
						}
					} else if st != 0 {
						undef = append(undef, p)
					}
				}
			}
			res := ts.runLoad(w, c, joint, s0)
			loads++
			ok := res.err == nil && res.shape
			if ok {
				for p := range joint {
					if p.stage == 0 {
						continue
					}
					if res.values[p] != c.value(want[p]) {
						ok = false
					}
					if p.stage <= 3 && res.leafPS[p] != c.value(want[p]) {
						ok = false
					}
				}
			}
			if ok {
				// the joint load agrees with the model on every probe: account per probe
				for l := 1; l <= L; l++ {
					for _, st := range stages(l) {
						p := probe{l, st}
						if joint[p] {
							if st == 0 {
								b.check(pfx+stageObs(0), c, l, want[p], c.value(want[p]))
							} else {
								b.check(pfx+stageObs(st), c, l, want[p], res.values[p])
							}
						}
					}
					b.check(pfx+"ConsolidatedVarStack(after ProcessTemplates)", c, l, c.resolve(l, allOwn, false), res.stacks[l-1])
				}
			} else if diagnoses >= 1500 {
				// already diagnosed many deviating distributions probe by probe: only count this one
				r.Count(pfx + "joint load deviates from the model (diagnosis budget used up) -> VIOLATION")
			} else {
				// something deviates: one load per probe to name it
				diagnoses++
				for l := 1; l <= L; l++ {
					for _, st := range stages(l) {
						p := probe{l, st}
						if !joint[p] {
							continue
						}
						one := ts.runLoad(w, c, map[probe]bool{p: true}, s0)
						loads++
						got := obsError
						if one.err == nil {
							if st == 0 {
								got = "other(role disabled)"
								if one.shape {
									got = c.value(want[p])
								}
							} else if !one.shape {
								got = "other(role pruned)"
							} else {
								got = one.values[p]
							}
						}
						good := b.check(pfx+stageObs(st), c, l, want[p], got)
						if good && st >= 1 && st <= 3 {
							b.check(pfx+"descendant sees resolved "+stageObs(st), c, l, want[p], one.leafPS[p])
						}
					}
				}
				plain := ts.runLoad(w, c, nil, nil)
				loads++
				for l := 1; l <= L; l++ {
					got := obsError
					if plain.err == nil && plain.shape {
						got = plain.stacks[l-1]
					}
					b.check(pfx+"ConsolidatedVarStack(after ProcessTemplates)", c, l, c.resolve(l, allOwn, false), got)
				}
			}
			// probes the model says see nothing: the load must not produce a value
			for _, p := range undef {
				one := ts.runLoad(w, c, map[probe]bool{p: true}, nil)
				loads++
				got := obsError
				if one.err == nil {
					got = "other(role pruned)"
					if one.shape {
						got = one.values[p]
					}
				}
				b.check(pfx+stageObs(p.stage), c, p.level, undefinedSrc, got)
			}
			if evals == sampleAt {
				r.Samples = append(r.Samples, fmt.Sprintf("%stemplates: %s -> leaf name sees %s, leaf defaults entry sees %s", pfx, c, c.srcName(want[probe{L, 4}], L), c.srcName(want[probe{L, 1}], L)))
			}
		})
	})
	return
}

// ---------------------------------------------------------------------------
// scenario "refs": entries that are templates referring to the same key one level up

func scenarioRefs() func(r *vrt.DirectReport, tier string) {
	return func(r *vrt.DirectReport, tier string) {
		b := newBook(r)
		defer b.flush()
		L := 2
		if tier == "thorough" {
			L = 3
		}
		ts := &treeSpec{L: L, leaf: "task", inYAML: true}
		envAx := []axis{{0, kD, av}, {0, kU, av}}
		var roleAx []axis
		for l := 1; l <= L; l++ {
			if tier == "thorough" && l == 2 {
				roleAx = append(roleAx, axis{l, kD, avR}, axis{l, kV, avR})
				continue
			}
			roleAx = append(roleAx, axes([]int{l}, allK, avR)...)
		}
		evals := 0
		forEach(L, envAx, func(ec *combo) {
			w := newWorld(ec)
			forEach(L, roleAx, func(c *combo) {
				copy(c.s[:3], ec.s[:3])
				evals++
				// model: resolve references top-down, stage by stage
				val := map[[2]int]string{} // resolved text of a defined slot
				for k := 0; k < 3; k++ {
					if c.at(0, k) != stA {
						val[[2]int{0, k}] = c.value0(k)
					}
				}
				see := func(l int, own [3]bool) (string, bool) {
					s := c.resolve(l, own, false)
					if !s.defined() {
						return "", false
					}
					return val[[2]int{s.l, s.k}], true
				}
				failed := false
				for l := 1; l <= L && !failed; l++ {
					for k := 0; k < 3 && !failed; k++ {
						switch c.at(l, k) {
						case stV:
							val[[2]int{l, k}] = slotValue(l, k)
						case stR:
							// defaults entries are evaluated at stage 1, vars at 2, user vars at 3
							x, ok := see(l, ownVisible(k+1))
							if !ok {
								failed = true
								break
							}
							val[[2]int{l, k}] = fmt.Sprintf("r%d%c(%s)", l, kindLetter[k], x)
						}
					}
				}
				mask := map[probe]bool{}
				if _, ok := see(L, allOwn); ok && !failed {
					mask[probe{L, 4}] = true
				}
				res := ts.runLoad(w, c, mask, nil)
				cls := "refs"
				if failed {
					r.Count("a reference sees nothing -> load must fail -> " + map[bool]string{true: "ok", false: "VIOLATION"}[res.err != nil])
					if res.err == nil {
						b.fail("reference to a key no visible source defines resolved to a value", "key distribution %s: load succeeded, leaf sees %q", c, res.stacks)
					}
					return
				}
				for l := 1; l <= L; l++ {
					wantS := c.resolve(l, allOwn, false)
					wantStr := obsUndefined
					if wantS.defined() {
						wantStr = val[[2]int{wantS.l, wantS.k}]
					}
					got := obsError
					if res.err == nil && res.shape {
						got = res.stacks[l-1]
					}
					depth := strings.Count(wantStr, "(")
					okv := got == wantStr
					r.Count(fmt.Sprintf("%s: stack want %s reference-depth %d -> %s", cls, c.srcNameR(wantS, l), depth, map[bool]string{true: "ok", false: "VIOLATION"}[okv]))
					if !okv {
						b.fail("stack: "+relationR(c, wantS, wantStr, got), "key distribution %s; level %d expected %q from %s observed %q", c, l, printable(wantStr), c.srcNameR(wantS, l), printable(got))
					}
				}
				if s, ok := see(L, allOwn); ok {
					got := obsError
					if res.err == nil && res.shape {
						got = res.values[probe{L, 4}]
					}
					okv := got == s
					r.Count("leaf name -> " + map[bool]string{true: "ok", false: "VIOLATION"}[okv])
					if !okv {
						b.fail("leaf name", "key distribution %s; expected %q observed %q", c, s, printable(got))
					}
				}
				if evals == 700 {
					r.Samples = append(r.Samples, fmt.Sprintf("refs: %s -> leaf sees %q", c, res.stacks))
				}
			})
		})
		r.Notes = append(r.Notes, fmt.Sprintf("grid: slots absent / value / reference r<slot>({{ k }}) to the same key as seen by the entry's stage; axes %s x %s = %d distributions (one real load each)", describeAxes(envAx), describeAxes(roleAx), evals))
	}
}

// relationR: clause for the refs scenario (values may be nested references).
func relationR(c *combo, want src, wantStr, got string) string {
	wk := "nothing"
	if want.defined() {
		wk = kindName[want.k]
		if c.at(want.l, want.k) == stR {
			wk += "(reference)"
		}
	}
	switch {
	case got == obsError || got == obsUndefined:
		return wk + " definition not seen"
	case strings.Contains(got, "{{"):
		return wk + ": unresolved template text visible"
	}
	// outermost source of the observed text
	if strings.HasPrefix(got, "r") && len(got) >= 3 {
		if k := strings.IndexByte(kindLetter, got[2]); k >= 0 {
			if want.defined() && k == want.k && strings.HasPrefix(wantStr, got[:3]) {
				return wk + ": reference resolved against the wrong view"
			}
			return kindName[k] + "(reference) outranks " + wk
		}
	}
	if g, ok := parseSlot(got); ok {
		return kindName[g.k] + " outranks " + wk
	}
	return "want " + wk + " got other"
}

func (c *combo) srcNameR(s src, observer int) string {
	if !s.defined() {
		return "undefined"
	}
	n := kindName[s.k] + "@" + rel(s.l, observer)
	if c.at(s.l, s.k) == stR {
		n += "(reference)"
	}
	return n
}

// ---------------------------------------------------------------------------
// scenario "iterator": iterator variable and key distribution through generated roles

func scenarioIterator() func(r *vrt.DirectReport, tier string) {
	return func(r *vrt.DirectReport, tier string) {
		b := newBook(r)
		defer b.flush()
		const L = 3
		w := newWorld(newCombo(L))
		// (A) an ordinary key through root -> generated aggregator -> task leaf
		tsA := &treeSpec{L: L, leaf: "task", iterAt: 2, iterMode: "for", inYAML: true}
		axA := []axis{{1, kV, avE}, {1, kU, avE}, {2, kD, avE}, {2, kV, avE}, {2, kU, avE}, {3, kD, avE}, {3, kV, avE}}
		if tier == "thorough" {
			axA = axes([]int{1, 2, 3}, allK, avE)
		}
		nA := forEach(L, axA, func(c *combo) {
			mask := map[probe]bool{}
			for _, l := range []int{2, 3} {
				if c.resolve(l, allOwn, false).defined() {
					mask[probe{l, 4}] = true
				}
			}
			root, err := workflow.LoadFromYAMLForVerifC14(tsA.doc(c, mask, nil), w.parent)
			if err != nil {
				panic(err)
			}
			// user-supplied values on the root, on the iterator (-> its template) and on the template's child
			for i, role := range tsA.preChain(root) {
				if t, ok := slotText(c, i+1, kU); ok {
					role.SetRuntimeVar(key, t)
				}
			}
			err = root.ProcessTemplates(fakeRepo{}, nil, w.base)
			chains := tsA.chains(root)
			if err != nil || len(chains) != 2 {
				b.r.Count("generated roles -> VIOLATION")
				b.fail("load of a tree with an iterator failed or lost instances", "key distribution %s: err=%v instances=%d", c, err, len(chains))
				return
			}
			for _, roles := range chains {
				for i, role := range roles {
					l := i + 1
					vs, err := role.ConsolidatedVarStack()
					got := obsError
					if err == nil {
						got = get(vs, key)
					}
					b.check("ConsolidatedVarStack of generated subtree", c, l, c.resolve(l, allOwn, false), got)
					if mask[probe{l, 4}] {
						n := role.GetName()
						g := "other(" + n + ")"
						if j := strings.LastIndex(n, "-x"); j >= 0 {
							g = unwrap(n[j+1:])
						}
						b.check("name of generated role", c, l, c.resolve(l, allOwn, false), g)
					}
				}
			}
		})
		// (B) the iterator variable itself: visible in the generated role at every stage, a var of that level for its children
		keySave := key
		key = "it"
		tsB := &treeSpec{L: L, leaf: "task", iterAt: 2, iterMode: "for", inYAML: true}
		axB := []axis{{1, kD, avE}, {1, kV, avE}, {2, kD, avE}, {3, kD, avE}, {3, kV, avE}, {3, kU, avE}}
		nB := forEach(L, axB, func(c *combo) {
			c.localLevel = 2
			defer func() { c.localLevel = 0 }()
			mask := map[probe]bool{{2, 1}: true, {2, 2}: true, {2, 5}: true, {3, 4}: true, {3, 1}: true}
			root, err := workflow.LoadFromYAMLForVerifC14(tsB.doc(c, mask, nil), w.parent)
			if err != nil {
				panic(err)
			}
			for i, role := range tsB.preChain(root) {
				if t, ok := slotText(c, i+1, kU); ok {
					role.SetRuntimeVar(key, t)
				}
			}
			err = root.ProcessTemplates(fakeRepo{}, nil, w.base)
			chains := tsB.chains(root)
			if err != nil || len(chains) != 2 {
				b.r.Count("generated roles -> VIOLATION")
				b.fail("load of a tree with an iterator failed or lost instances", "iterator-variable distribution %s: err=%v instances=%d", c, err, len(chains))
				return
			}
			for idx, roles := range chains {
				c.localVal = fmt.Sprint(idx)
				inst, leaf := roles[1], roles[2]
				if n := inst.GetName(); n != "n2-"+c.localVal {
					b.r.Count("iterator variable in generated role's name -> VIOLATION")
					b.fail("iterator variable in generated role's name", "distribution %s: instance %d is named %q", c, idx, n)
				} else {
					b.r.Count("iterator variable in generated role's name -> ok")
				}
				ivs, _ := inst.ConsolidatedVarStack()
				lvs, _ := leaf.ConsolidatedVarStack()
				b.check("iterator-variable: stack of generated role", c, 2, c.resolve(2, allOwn, true), get(ivs, key))
				b.check("iterator-variable: stage1(defaults-entry) of generated role", c, 2, c.resolve(2, ownVisible(1), true), unwrap(get(ivs, probeKey(probe{2, 1}))))
				b.check("iterator-variable: stage2(vars-entry) of generated role", c, 2, c.resolve(2, ownVisible(2), true), unwrap(get(ivs, probeKey(probe{2, 2}))))
				cts := map[string]string{}
				for _, d := range leaf.GenerateTaskDescriptors() {
					for _, ct := range d.RoleConstraints {
						cts[ct.Attribute] = ct.Value
					}
				}
				b.check("iterator-variable: stage5(constraint) of generated role", c, 2, c.resolve(2, ownVisible(5), true), unwrap(get(cts, "c2")))
				b.check("iterator-variable: stack of child", c, 3, c.resolve(3, allOwn, false), get(lvs, key))
				b.check("iterator-variable: stage1(defaults-entry) of child", c, 3, c.resolve(3, ownVisible(1), false), unwrap(get(lvs, probeKey(probe{3, 1}))))
				n := leaf.GetName()
				g := "other(" + n + ")"
				if j := strings.LastIndex(n, "-x"); j >= 0 {
					g = unwrap(n[j+1:])
				}
				b.check("iterator-variable: stage4(role-name) of child", c, 3, c.resolve(3, ownVisible(4), false), g)
			}
		})
		// (D) the iterator generates the leaf itself (a task or a call per element): the iteration variable in the
		// generated leaf's name, stack, defaults / vars entries and (task) constraint
		nD := 0
		for _, leafKind := range []string{"task", "call"} {
			tsD := &treeSpec{L: 2, leaf: leafKind, iterAt: 2, iterMode: "for", inYAML: true}
			axD := []axis{{1, kD, avE}, {1, kV, avE}, {2, kD, avE}}
			nD += forEach(2, axD, func(c *combo) {
				c.localLevel = 2
				defer func() { c.localLevel = 0 }()
				mask := map[probe]bool{{2, 1}: true, {2, 2}: true}
				if leafKind == "task" {
					mask[probe{2, 5}] = true
				}
				root, err := workflow.LoadFromYAMLForVerifC14(tsD.doc(c, mask, nil), w.parent)
				if err != nil {
					panic(err)
				}
				err = root.ProcessTemplates(fakeRepo{}, nil, w.base)
				chains := tsD.chains(root)
				if err != nil || len(chains) != 2 {
					b.r.Count("generated leaves -> VIOLATION")
					b.fail("load of a tree with an iterator over "+leafKind+" roles failed or lost instances", "iterator-variable distribution %s: err=%v instances=%d", c, err, len(chains))
					return
				}
				for idx, roles := range chains {
					c.localVal = fmt.Sprint(idx)
					leaf := roles[1]
					o := "iterator-variable: generated " + leafKind + ": "
					if n := leaf.GetName(); n != "n2-"+c.localVal {
						b.r.Count(o + "name -> VIOLATION")
						b.fail(o+"name", "distribution %s: instance %d is named %q", c, idx, n)
					} else {
						b.r.Count(o + "name -> ok")
					}
					lvs, _ := leaf.ConsolidatedVarStack()
					b.check(o+"stack", c, 2, c.resolve(2, allOwn, true), get(lvs, key))
					b.check(o+"stage1(defaults-entry)", c, 2, c.resolve(2, ownVisible(1), true), unwrap(get(lvs, probeKey(probe{2, 1}))))
					b.check(o+"stage2(vars-entry)", c, 2, c.resolve(2, ownVisible(2), true), unwrap(get(lvs, probeKey(probe{2, 2}))))
					if leafKind == "task" {
						cts := map[string]string{}
						for _, d := range leaf.GenerateTaskDescriptors() {
							for _, ct := range d.RoleConstraints {
								cts[ct.Attribute] = ct.Value
							}
						}
						b.check(o+"stage5(constraint)", c, 2, c.resolve(2, ownVisible(5), true), unwrap(get(cts, "c2")))
					}
				}
			})
		}
		key = keySave
		// (E) an ordinary key seen by a generated task / call leaf
		nE := 0
		for _, leafKind := range []string{"task", "call"} {
			tsE := &treeSpec{L: 2, leaf: leafKind, iterAt: 2, iterMode: "for", inYAML: true}
			axE := []axis{{1, kV, avE}, {1, kU, avE}, {2, kD, avE}, {2, kV, avE}, {2, kU, avE}}
			nE += forEach(2, axE, func(c *combo) {
				mask := map[probe]bool{}
				if c.resolve(2, allOwn, false).defined() {
					mask[probe{2, 4}] = true
				}
				root, err := workflow.LoadFromYAMLForVerifC14(tsE.doc(c, mask, nil), w.parent)
				if err != nil {
					panic(err)
				}
				for i, role := range tsE.preChain(root) {
					if t, ok := slotText(c, i+1, kU); ok {
						role.SetRuntimeVar(key, t)
					}
				}
				err = root.ProcessTemplates(fakeRepo{}, nil, w.base)
				chains := tsE.chains(root)
				if err != nil || len(chains) != 2 {
					b.r.Count("generated leaves -> VIOLATION")
					b.fail("load of a tree with an iterator over "+leafKind+" roles failed or lost instances", "key distribution %s: err=%v instances=%d", c, err, len(chains))
					return
				}
				for _, roles := range chains {
					leaf := roles[1]
					vs, err := leaf.ConsolidatedVarStack()
					got := obsError
					if err == nil {
						got = get(vs, key)
					}
					b.check("ConsolidatedVarStack of generated "+leafKind, c, 2, c.resolve(2, allOwn, false), got)
					if mask[probe{2, 4}] {
						n := leaf.GetName()
						g := "other(" + n + ")"
						if j := strings.LastIndex(n, "-x"); j >= 0 {
							g = unwrap(n[j+1:])
						}
						b.check("name of generated "+leafKind, c, 2, c.resolve(2, allOwn, false), g)
					}
				}
			})
		}
		// (C) the range expression of an iterator sees its parent's consolidated stack
		tsC := &treeSpec{L: L, leaf: "task", iterAt: 2, iterMode: "range", inYAML: true}
		axC := axes([]int{1}, allK, avE)
		nC := 0
		forEach(L, axes([]int{0}, allK, avE), func(ec *combo) {
			wc := newWorld(ec)
			nC += forEach(L, axC, func(c *combo) {
				copy(c.s[:3], ec.s[:3])
				root, err := workflow.LoadFromYAMLForVerifC14(tsC.doc(c, nil, nil), wc.parent)
				if err != nil {
					panic(err)
				}
				if t, ok := slotText(c, 1, kU); ok {
					root.SetRuntimeVar(key, t)
				}
				err = root.ProcessTemplates(fakeRepo{}, nil, wc.base)
				got := obsError
				if err == nil {
					got = "other(no instance)"
					if ch := tsC.chains(root); len(ch) == 1 {
						got = unwrap(strings.TrimPrefix(ch[0][1].GetName(), "n2-"))
					}
				}
				b.check("iterator range expression", c, 1, c.resolve(1, allOwn, false), got)
			})
		})
		r.Samples = append(r.Samples, "iterator: root{vars k=v1v} > for it in 0..1: n2-{{it}}{defaults k=v2d} > task leaf: both generated leaves must see v1v (vars@ancestor over defaults@parent); with root{vars it=v1v} the generated role sees its own it, its child too")
		r.Notes = append(r.Notes, fmt.Sprintf("(A) key through generated subtree: %s = %d loads; (B) iterator variable 'it' (no user-supplied 'it' above the iterator and no vars entry 'it' on the iterator itself: the statement does not rank those against the iterator variable): %s = %d loads; (C) range expression x{{ k }}y over environment x root: %d loads; (D) iterator over task / call leaves, iterator variable in name, stack, defaults / vars entries, constraint: %d loads; (E) ordinary key seen by generated task / call leaves: %d loads", describeAxes(axA), nA, describeAxes(axB), nB, nC, nD, nE))
	}
}

// ---------------------------------------------------------------------------
// scenario "include": an include role's own entries and the included template's root entries

func scenarioInclude() func(r *vrt.DirectReport, tier string) {
	return func(r *vrt.DirectReport, tier string) {
		b := newBook(r)
		defer b.flush()
		// level 1 root, level 2 the include role's own maps, level 3 the root of the included
		// document (the same role object after inclusion), level 4 a task leaf
		const L = 4
		ts := &treeSpec{L: L, leaf: "task", inYAML: true, includeAt: 2}
		w := newWorld(newCombo(L))
		ax := []axis{{1, kV, avE}, {2, kD, avE}, {2, kV, avE}, {2, kU, avE}, {3, kD, avE}, {3, kV, avE}, {4, kD, avE}, {4, kV, avE}}
		if tier == "thorough" {
			ax = append([]axis{{1, kD, avE}, {1, kU, avE}}, ax...)
		}
		loads, skipped := 0, 0
		forEach(L, ax, func(c *combo) {
			for k := 0; k < 3; k++ {
				if c.at(2, k) != stA && c.at(3, k) != stA {
					// both the include role and the included root define the key in the same kind: both
					// are "the role's own" definition, the statement does not rank them
					skipped++
					return
				}
			}
			mask := map[probe]bool{}
			for _, p := range []probe{{2, 4}, {2, 1}, {2, 2}, {3, 1}, {3, 2}, {4, 4}, {4, 1}} {
				if c.resolve(p.level, ownVisible(p.stage), false).defined() {
					mask[p] = true
				}
			}
			root, err := workflow.LoadFromYAMLForVerifC14(ts.doc(c, mask, nil), w.parent)
			if err != nil {
				panic(err)
			}
			pre := workflow.RawRolesForVerifC14(root)
			if len(pre) != 1 {
				panic("include role missing")
			}
			if t, ok := slotText(c, 1, kU); ok {
				root.SetRuntimeVar(key, t)
			}
			if t, ok := slotText(c, 2, kU); ok {
				pre[0].SetRuntimeVar(key, t)
			}
			loader := workflow.SubworkflowLoaderForVerifC14(map[string][]byte{"sub": ts.subDoc(c, mask)}, fakeRepo{})
			err = root.ProcessTemplates(fakeRepo{}, loader, w.base)
			loads++
			var inc, leaf workflow.Role
			if err == nil && len(root.GetRoles()) == 1 {
				inc = root.GetRoles()[0]
				if len(inc.GetRoles()) == 1 {
					leaf = inc.GetRoles()[0]
				}
			}
			if leaf == nil {
				r.Count("load -> VIOLATION")
				b.fail("load of a tree with an include role failed or lost roles", "key distribution %s: err=%v", c, err)
				return
			}
			ivs, e1 := inc.ConsolidatedVarStack()
			lvs, e2 := leaf.ConsolidatedVarStack()
			if e1 != nil || e2 != nil {
				ivs, lvs = map[string]string{key: obsError}, map[string]string{key: obsError}
			}
			b.check("stack of the including role after inclusion", c, 3, c.resolve(3, allOwn, false), get(ivs, key))
			b.check("stack of a role of the included tree", c, 4, c.resolve(4, allOwn, false), get(lvs, key))
			tail := func(n string) string {
				if j := strings.LastIndex(n, "-x"); j >= 0 {
					return unwrap(n[j+1:])
				}
				return "other(" + n + ")"
			}
			if mask[probe{2, 4}] {
				b.check("stage4(role-name) of the include role", c, 2, c.resolve(2, allOwn, false), tail(inc.GetName()))
			}
			// the include role's own entries are evaluated before the inclusion, by includeRole.ProcessTemplates
			if mask[probe{2, 1}] {
				b.check("stage1(defaults-entry) of the include role", c, 2, c.resolve(2, ownVisible(1), false), unwrap(get(ivs, probeKey(probe{2, 1}))))
			}
			if mask[probe{2, 2}] {
				b.check("stage2(vars-entry) of the include role", c, 2, c.resolve(2, ownVisible(2), false), unwrap(get(ivs, probeKey(probe{2, 2}))))
			}
			if mask[probe{3, 1}] {
				b.check("stage1(defaults-entry) of the included root", c, 3, c.resolve(3, ownVisible(1), false), unwrap(get(ivs, probeKey(probe{3, 1}))))
			}
			if mask[probe{3, 2}] {
				b.check("stage2(vars-entry) of the included root", c, 3, c.resolve(3, ownVisible(2), false), unwrap(get(ivs, probeKey(probe{3, 2}))))
			}
			if mask[probe{4, 1}] {
				b.check("stage1(defaults-entry) of a role of the included tree", c, 4, c.resolve(4, ownVisible(1), false), unwrap(get(lvs, probeKey(probe{4, 1}))))
			}
			if mask[probe{4, 4}] {
				b.check("stage4(role-name) of a role of the included tree", c, 4, c.resolve(4, allOwn, false), tail(leaf.GetName()))
			}
			// an entry of the include role that refers to the key where the model says nothing is visible
			// (the role's own maps do not count yet): the load must not produce a value
			for _, p := range []probe{{2, 1}, {2, 2}} {
				if mask[p] || (c.at(2, kD) == stA && c.at(2, kV) == stA && c.at(2, kU) == stA) {
					continue // visible anyway, or nothing of its own that could wrongly be seen
				}
				one := map[probe]bool{p: true}
				root2, err := workflow.LoadFromYAMLForVerifC14(ts.doc(c, one, nil), w.parent)
				if err != nil {
					panic(err)
				}
				if t, ok := slotText(c, 1, kU); ok {
					root2.SetRuntimeVar(key, t)
				}
				if t, ok := slotText(c, 2, kU); ok {
					workflow.RawRolesForVerifC14(root2)[0].SetRuntimeVar(key, t)
				}
				err = root2.ProcessTemplates(fakeRepo{}, workflow.SubworkflowLoaderForVerifC14(map[string][]byte{"sub": ts.subDoc(c, one)}, fakeRepo{}), w.base)
				loads++
				got := obsError
				if err == nil {
					got = "other(role pruned)"
					if rs := root2.GetRoles(); len(rs) == 1 {
						vs, _ := rs[0].ConsolidatedVarStack()
						got = unwrap(get(vs, probeKey(p)))
					}
				}
				b.check(stageObs(p.stage)+" of the include role", c, 2, undefinedSrc, got)
			}
			if loads == 300 {
				r.Samples = append(r.Samples, fmt.Sprintf("include: %s -> leaf of the included tree sees %s", c, c.srcName(c.resolve(4, allOwn, false), 4)))
			}
		})
		r.Notes = append(r.Notes, fmt.Sprintf("grid: root > include role (own defaults/vars/user vars = level 2) > root of the included document (level 3) > task leaf (level 4); axes %s; %d real loads, %d distributions skipped because include role and included root define the key in the same kind (not ranked by the statement)", describeAxes(ax), loads, skipped))
	}
}

// ---------------------------------------------------------------------------
// scenario "task": launched task's command line and property map; class defaults/vars

const classDoc = `
name: cls
%s
control:
  mode: direct
wants:
  cpu: 0.1
  memory: 1
command:
  value: "x{{ k }}y"
  user: "x{{ k }}y"
  arguments: ["x{{ k }}y"]
  env: ["x{{ k }}y"]
properties:
  prop: "x{{ k }}y"
`

func scenarioTask() func(r *vrt.DirectReport, tier string) {
	return func(r *vrt.DirectReport, tier string) {
		b := newBook(r)
		defer b.flush()
		const L = 2
		ts := &treeSpec{L: L, leaf: "task"}
		envAx := []axis{{0, kD, av}}
		if tier == "thorough" {
			envAx = axes([]int{0}, allK, av)
		}
		roleAx := axes([]int{1, 2}, allK, avE)
		evals := 0
		forEach(L, envAx, func(ec *combo) {
			w := newWorld(ec)
			for cd := int8(0); cd < 3; cd++ {
				for cv := int8(0); cv < 3; cv++ {
					var sb strings.Builder
					for i, st := range []int8{cd, cv} {
						name, val := [2]string{"defaults", "vars"}[i], [2]string{"cd", "cv"}[i]
						fmt.Fprintf(&sb, "%s:\n  class_filler: f\n", name)
						if st == stV {
							fmt.Fprintf(&sb, "  k: %s\n", val)
						} else if st == stE {
							sb.WriteString("  k: \"\"\n")
						}
					}
					var class taskclass.Class
					if err := yaml.Unmarshal([]byte(fmt.Sprintf(classDoc, sb.String())), &class); err != nil {
						panic(err)
					}
					root, err := workflow.LoadFromYAMLForVerifC14(ts.doc(newCombo(L), nil, nil), w.parent)
					if err != nil {
						panic(err)
					}
					if err = root.ProcessTemplates(fakeRepo{}, nil, w.base); err != nil {
						panic(err)
					}
					roles := ts.chains(root)[0]
					tk, err := task.NewTaskForVerifC14(&class, roles[1], "host1")
					if err != nil {
						panic(err)
					}
					classVal := func(st int8, v string) string {
						if st == stE {
							return ""
						}
						return v
					}
					forEach(L, roleAx, func(c *combo) {
						copy(c.s[:3], ec.s[:3])
						applyAPI(c, roles, allOwn)
						evals++
						// observe
						cmd := map[string]string{}
						if err := tk.BuildTaskCommandForVerifC14(); err != nil {
							for _, f := range []string{"value", "user", "argument", "env"} {
								cmd[f] = obsError
							}
						} else {
							ci := tk.GetTaskCommandInfo()
							cmd["value"], cmd["user"] = unwrap(*ci.Value), unwrap(*ci.User)
							cmd["argument"], cmd["env"] = unwrap(ci.Arguments[0]), unwrap(ci.Env[0])
						}
						prop := obsError
						if pm, err := tk.BuildPropertyMap(nil); err == nil {
							prop = unwrap(get(pm, "prop"))
						}
						wf := c.resolve(L, allOwn, false)
						inClass := fmt.Sprintf("class{defaults:%c vars:%c}", "-VE"[cd], "-VE"[cv])
						switch {
						case wf.defined():
							// everything from the workflow outranks the class
							for _, f := range []string{"value", "user", "argument", "env"} {
								b.check("command-line "+f+" ("+inClass+")", c, L, wf, cmd[f])
							}
							b.check("property ("+inClass+")", c, L, wf, prop)
						case cd == stA && cv == stA:
							for _, f := range []string{"value", "user", "argument", "env"} {
								b.check("command-line "+f+" ("+inClass+")", c, L, undefinedSrc, cmd[f])
							}
							b.check("property ("+inClass+")", c, L, undefinedSrc, prop)
						case cd == stA || cv == stA:
							want := classVal(cd, "cd")
							from := "class-defaults"
							if cd == stA {
								want, from = classVal(cv, "cv"), "class-vars"
							}
							for f, got := range map[string]string{"command-line value": cmd["value"], "command-line user": cmd["user"], "command-line argument": cmd["argument"], "command-line env": cmd["env"], "property": prop} {
								okv := got == want
								r.Count(fmt.Sprintf("%s: workflow silent, want %s -> %s", f, from, map[bool]string{true: "ok", false: "VIOLATION"}[okv]))
								if !okv {
									b.fail(fmt.Sprintf("%s: workflow silent, want %s got %s", f, from, gotName(got, L)), "key distribution %s, %s: expected %q observed %q", c, inClass, want, printable(got))
								}
							}
						default:
							// both class maps define the key and the workflow does not: vars rank over
							// defaults, and the task must see one value for the variable everywhere.
							dv, vv := classVal(cd, "cd"), classVal(cv, "cv")
							label := func(got string) string {
								if got == dv && dv != vv {
									return "class-defaults"
								}
								return gotName(got, L)
							}
							bad := ""
							for _, f := range []string{"value", "user", "argument", "env"} {
								if cmd[f] != vv {
									bad = cmd[f]
								}
							}
							r.Count("command-line: workflow silent, class defaults and class vars both define -> " + map[bool]string{true: "ok", false: "VIOLATION"}[bad == ""])
							if bad != "" {
								b.fail("command-line: "+label(bad)+" outrank class-vars (workflow silent, class defaults and class vars both define the key)",
									"key distribution %s, %s: the task's command line sees %q, its property map sees %q for the same variable; vars rank over defaults (expected %q)", c, inClass, printable(cmd["value"]), printable(prop), vv)
							}
							r.Count("property: workflow silent, class defaults and class vars both define -> " + map[bool]string{true: "ok", false: "VIOLATION"}[prop == vv])
							if prop != vv {
								b.fail("property: "+label(prop)+" outrank class-vars (workflow silent, class defaults and class vars both define the key)",
									"key distribution %s, %s: the task's command line sees %q, its property map sees %q for the same variable; vars rank over defaults (expected %q)", c, inClass, printable(cmd["value"]), printable(prop), vv)
							}
						}
						if evals == 3000 {
							r.Samples = append(r.Samples, fmt.Sprintf("task: %s %s -> command value %q property %q", c, inClass, printable(cmd["value"]), printable(prop)))
						}
					})
				}
			}
		})
		r.Notes = append(r.Notes, fmt.Sprintf("grid: class defaults x class vars (3x3) x %s x %s = %d distributions; real taskclass YAML, task built by newTaskForMesosOffer, BuildTaskCommand (value, user, argument, env) and BuildPropertyMap (a templated property)", describeAxes(envAx), describeAxes(roleAx), evals))
	}
}

// ---------------------------------------------------------------------------
// scenario "call": an integrated-service call evaluates its function with the role's stack

func scenarioCall() func(r *vrt.DirectReport, tier string) {
	return func(r *vrt.DirectReport, tier string) {
		b := newBook(r)
		defer b.flush()
		const L = 2
		ts := &treeSpec{L: L, leaf: "call"}
		envAx := []axis{{0, kV, av}}
		if tier == "thorough" {
			envAx = axes([]int{0}, allK, avE)
		}
		roleAx := axes([]int{1, 2}, allK, avE)
		evals := 0
		forEach(L, envAx, func(ec *combo) {
			w := newWorld(ec)
			root, err := workflow.LoadFromYAMLForVerifC14(ts.doc(newCombo(L), nil, nil), w.parent)
			if err != nil {
				panic(err)
			}
			if err = root.ProcessTemplates(fakeRepo{}, nil, w.base); err != nil {
				panic(err)
			}
			roles := ts.chains(root)[0]
			forEach(L, roleAx, func(c *combo) {
				copy(c.s[:3], ec.s[:3])
				applyAPI(c, roles, allOwn)
				roles[1].DeleteRuntimeVar("ret")
				evals++
				calls := root.GetAllHooks().FilterCalls()
				got := "other(no call)"
				if len(calls) == 1 {
					if err := calls[0].Call(); err != nil {
						got = obsError
					} else if v, ok := roles[1].GetUserVars().Get("ret"); ok {
						got = v
					} else {
						got = "other(no return value)"
					}
				}
				b.check("function result", c, L, c.resolve(L, allOwn, false), got)
				if evals == 500 {
					r.Samples = append(r.Samples, fmt.Sprintf("call: %s -> func `k` returns %q", c, printable(got)))
				}
			})
		})
		r.Notes = append(r.Notes, fmt.Sprintf("grid: %s x %s = %d distributions; call role `func: k`, `return: ret`, executed through callable.Call.Call()", describeAxes(envAx), describeAxes(roleAx), evals))
	}
}

// ---------------------------------------------------------------------------
// scenario "kinds": stage visibility in the role kinds whose ProcessTemplates the templates scenario does not
// pass through (every role kind builds its own template sequence and variable stack), and in the second
// spelling of an entry (`!public` mapping with a value)

func scenarioKinds() func(r *vrt.DirectReport, tier string) {
	return func(r *vrt.DirectReport, tier string) {
		b := newBook(r)
		defer b.flush()
		// (1) a call role as the leaf: enabled, defaults / vars / user-var entries, name
		tsCall := &treeSpec{L: 2, leaf: "call", inYAML: true}
		envAx := []axis{{0, kV, av}}
		if tier == "thorough" {
			envAx = axes([]int{0}, allK, av)
		}
		roleAx := axes([]int{1, 2}, allK, avE)
		e1, l1 := stageGrid(r, b, tsCall, envAx, roleAx, func(l int) []int {
			if l == 2 {
				return []int{0, 1, 2, 3, 4}
			}
			return []int{4}
		}, "call-leaf: ", 700)
		// (2) entries written as `!public` mappings: a definition like any other, an empty value included
		tsTag := &treeSpec{L: 2, leaf: "task", inYAML: true, tagged: true}
		envAx2 := []axis{{0, kD, av}}
		roleAx2 := []axis{{1, kD, avE}, {1, kV, avE}, {2, kD, avE}, {2, kV, avE}}
		if tier == "thorough" {
			roleAx2 = axes([]int{1, 2}, allK, avE)
		}
		e2, l2 := stageGrid(r, b, tsTag, envAx2, roleAx2, func(int) []int { return []int{1, 2, 4} }, "public-tagged: ", 100)
		r.Notes = append(r.Notes, fmt.Sprintf("(1) root > call leaf, probes at the call role: enabled, defaults / vars / user-var entry, name; axes %s x %s = %d distributions, %d loads; (2) root > task leaf with the key's defaults / vars entries spelled `!public {value: ...}`: probes defaults entry, vars entry, name at both roles; axes %s x %s = %d distributions, %d loads", describeAxes(envAx), describeAxes(roleAx), e1, l1, describeAxes(envAx2), describeAxes(roleAx2), e2, l2))
	}
}

// ---------------------------------------------------------------------------
// scenario "taskclass": the four control modes; task-template entries that are templates themselves
// (a reference from the task template's level to the workflow's / to the template's own defaults)

const classDocModes = `
name: cls
%s
control:
  mode: %s
wants:
  cpu: 0.1
  memory: 1
command:
  value: "x{{ k }}y"
  user: "x{{ k }}y"
  arguments: [%s]
  env: ["x{{ k }}y"]
properties:
%s
`

func scenarioTaskClass() func(r *vrt.DirectReport, tier string) {
	return func(r *vrt.DirectReport, tier string) {
		b := newBook(r)
		defer b.flush()
		const L = 2
		ts := &treeSpec{L: L, leaf: "task"}
		w := newWorld(newCombo(L))
		roleAx := []axis{{1, kV, av}, {2, kD, avE}, {2, kV, avE}, {2, kU, avE}}
		if tier == "thorough" {
			roleAx = axes([]int{1, 2}, allK, avE)
		}
		evals := 0
		verdict := func(ok bool) string { return map[bool]string{true: "ok", false: "VIOLATION"}[ok] }
		for _, mode := range []string{"direct", "fairmq", "basic", "hook"} {
			propsTemplated := mode == "direct" || mode == "fairmq" // basic tasks and hooks are plain commands: no property push
			for cd := int8(0); cd < 2; cd++ {
				for cv := int8(0); cv < 2; cv++ {
					for refs := 0; refs < 4; refs++ { // bit 0: a defaults entry refers to k, bit 1: a vars entry refers to k
						withD, withV := refs&1 != 0, refs&2 != 0
						var sb strings.Builder
						sb.WriteString("defaults:\n  class_filler: f\n")
						if cd == stV {
							sb.WriteString("  k: cd\n")
						}
						if withD {
							sb.WriteString("  dref: \"d<{{ k }}>\"\n")
						}
						sb.WriteString("vars:\n  class_filler2: f\n")
						if cv == stV {
							sb.WriteString("  k: cv\n")
						}
						if withV {
							sb.WriteString("  vref: \"v<{{ k }}>\"\n")
						}
						args, props := `"x{{ k }}y"`, "  prop: \"x{{ k }}y\"\n"
						if withD {
							args += `, "x{{ dref }}y"`
							props += "  pdref: \"x{{ dref }}y\"\n"
						}
						if withV {
							args += `, "x{{ vref }}y"`
							props += "  pvref: \"x{{ vref }}y\"\n"
						}
						var class taskclass.Class
						if err := yaml.Unmarshal([]byte(fmt.Sprintf(classDocModes, sb.String(), mode, args, props)), &class); err != nil {
							panic(err)
						}
						root, err := workflow.LoadFromYAMLForVerifC14(ts.doc(newCombo(L), nil, nil), w.parent)
						if err != nil {
							panic(err)
						}
						if err = root.ProcessTemplates(fakeRepo{}, nil, w.base); err != nil {
							panic(err)
						}
						roles := ts.chains(root)[0]
						tk, err := task.NewTaskForVerifC14(&class, roles[1], "host1")
						if err != nil {
							panic(err)
						}
						inClass := fmt.Sprintf("mode=%s class{defaults:%c vars:%c defaults-entry-refers:%v vars-entry-refers:%v}", mode, "-V"[cd], "-V"[cv], withD, withV)
						forEach(L, roleAx, func(c *combo) {
							applyAPI(c, roles, allOwn)
							evals++
							wf := c.resolve(L, allOwn, false)
							// what the task sees for k, and what an entry of the template's defaults / vars sees for k
							// (defaults entry: the workflow only; vars entry: the workflow, then the template's defaults)
							seen, seenDef := undefinedSrcStr, false
							switch {
							case wf.defined():
								seen, seenDef = c.value(wf), true
							case cv == stV:
								seen, seenDef = "cv", true
							case cd == stV:
								seen, seenDef = "cd", true
							}
							dSees, dOK := "", wf.defined()
							if dOK {
								dSees = c.value(wf)
							}
							vSees, vOK := dSees, dOK
							if !vOK && cd == stV {
								vSees, vOK = "cd", true
							}
							mustFail := !seenDef || (withD && !dOK) || (withV && !vOK)
							// observe
							cmdErr := tk.BuildTaskCommandForVerifC14()
							var ci []string
							if cmdErr == nil {
								i := tk.GetTaskCommandInfo()
								ci = append([]string{*i.Value, *i.User, i.Env[0]}, i.Arguments...)
							}
							pm, propErr := tk.BuildPropertyMap(nil)
							cls := "taskclass mode=" + mode + " "
							if mustFail {
								// some template of the task refers to a variable nothing visible defines: no command line
								r.Count(cls + "command-line: a reference sees nothing -> must fail -> " + verdict(cmdErr != nil))
								if cmdErr == nil {
									b.fail("command-line: reference to a variable no visible source defines resolved to a value:mode="+mode, "key distribution %s, %s: command line built: %q", c, inClass, ci)
								}
								return
							}
							want := []string{"x" + seen + "y", "x" + seen + "y", "x" + seen + "y", "x" + seen + "y"}
							names := []string{"value", "user", "env", "argument"}
							if withD {
								want, names = append(want, "xd<"+dSees+">y"), append(names, "argument-via-defaults-entry")
							}
							if withV {
								want, names = append(want, "xv<"+vSees+">y"), append(names, "argument-via-vars-entry")
							}
							if cmdErr != nil {
								r.Count(cls + "command-line -> VIOLATION")
								b.fail("command-line: not built:mode="+mode, "key distribution %s, %s: BuildTaskCommand failed: %v", c, inClass, cmdErr)
							} else {
								for i, f := range names {
									got := ci[i]
									if mode == "fairmq" && i >= len(want) {
										break
									}
									okv := got == want[i]
									r.Count(cls + "command-line " + f + " -> " + verdict(okv))
									if !okv {
										what := "wrong-value"
										if strings.Contains(got, "{{") {
											what = "unresolved-template-text"
										}
										b.fail("command-line "+f+":"+what+":mode="+mode, "key distribution %s, %s: command line %s is %q, want %q", c, inClass, f, got, want[i])
									}
								}
							}
							if !propsTemplated {
								return
							}
							pw := map[string]string{"prop": "x" + seen + "y"}
							if withD {
								pw["pdref"] = "xd<" + dSees + ">y"
							}
							if withV {
								pw["pvref"] = "xv<" + vSees + ">y"
							}
							for _, pk := range []string{"prop", "pdref", "pvref"} {
								wv, ok := pw[pk]
								if !ok {
									continue
								}
								got := obsError
								if propErr == nil {
									got = get(pm, pk)
								}
								okv := got == wv
								via := map[string]string{"prop": "property", "pdref": "property-via-defaults-entry", "pvref": "property-via-vars-entry"}[pk]
								r.Count(cls + via + " -> " + verdict(okv))
								if !okv {
									what := "wrong-value"
									if strings.Contains(got, "{{") {
										what = "unresolved-template-text"
									}
									b.fail(via+":"+what+":mode="+mode, "key distribution %s, %s: property %s is %q, want %q (the command line of the same task has %q)", c, inClass, pk, printable(got), wv, ci)
								}
							}
							if evals == 2000 {
								r.Samples = append(r.Samples, fmt.Sprintf("taskclass: %s %s -> command line %q properties %v", c, inClass, ci, pm))
							}
						})
					}
				}
			}
		}
		r.Notes = append(r.Notes, fmt.Sprintf("grid: control modes {direct, fairmq, basic, hook} x class defaults k {absent, cd} x class vars k {absent, cv} x {a class defaults entry d<{{ k }}>, a class vars entry v<{{ k }}>} present or not x %s = %d distributions; BuildTaskCommand (value, user, env, arguments incl. those going through the two entries) and, for direct / fairmq, BuildPropertyMap (prop and the two properties going through the entries)", describeAxes(roleAx), evals))
	}
}

const undefinedSrcStr = ""

func main() {
	vrt.Main([]*vrt.Scenario{
		{Name: "stack", Prop: "C14", Direct: scenarioStack(), Doc: "ConsolidatedVarStack/ConsolidatedVarMaps/gera Get/FlattenStack at every role, all key distributions"},
		{Name: "templates", Prop: "C14", Direct: scenarioTemplates(), Doc: "YAML load + ProcessTemplates: stage visibility (enabled, defaults, vars, user vars, name, constraints) at every role"},
		{Name: "refs", Prop: "C14", Direct: scenarioRefs(), Doc: "entries that are templates referring to the key as seen one stage earlier"},
		{Name: "iterator", Prop: "C14", Direct: scenarioIterator(), Doc: "iterator-generated subtrees, iterator variable, range expression"},
		{Name: "include", Prop: "C14", Direct: scenarioInclude(), Doc: "include role: own entries, entries of the included template's root, included subtree"},
		{Name: "task", Prop: "C14", Direct: scenarioTask(), Doc: "task command line and property map; class defaults/vars below the workflow"},
		{Name: "call", Prop: "C14", Direct: scenarioCall(), Doc: "call function evaluated with the role's consolidated stack"},
		{Name: "taskclass", Prop: "C14", Direct: scenarioTaskClass(), Doc: "control modes direct / fairmq / basic / hook; task-template defaults / vars entries that refer to a variable"},
		{Name: "kinds", Prop: "C14", Direct: scenarioKinds(), Doc: "stage visibility at a call role; entries spelled as !public mappings"},
	})
	if cfgFile != "" {
		os.RemoveAll(filepath.Dir(cfgFile)) // the scratch configuration store
	}
}

#!/bin/bash
# Runs the C14 harness against every mutant in mutants/C14/*.patch, each applied to a
# scratch copy of the repository (never to /repo). Prints the violated clauses per mutant.
# usage: harness/c14/mutants.sh [tier] [patch-name-glob]
set -u
V=$(cd "$(dirname "$0")/../.." && pwd)
TIER=${1:-quick}
GLOB=${2:-*}
SCRATCH=${C14_SCRATCH:-/tmp/repo-c14}
export VERIF_WORK=${VERIF_WORK_MUT:-/tmp/vw-c14m} GOFLAGS=-mod=mod GOPROXY=off GOSUMDB=off GOTOOLCHAIN=local
if [ ! -d "$SCRATCH" ]; then cp -r "${VERIF_REPO:-/repo}" "$SCRATCH"; fi
export VERIF_REPO=$SCRATCH
mkdir -p "$VERIF_WORK"
for p in "$V"/mutants/C14/$GLOB.patch; do
  n=$(basename "$p" .patch)
  git -C "$SCRATCH" checkout -q -- . || exit 2
  git -C "$SCRATCH" apply "$p" || { echo "$n: patch does not apply"; continue; }
  B=$(cd "$V" && python3 tools/vlib.py build c14 | tail -1)
  if [ ! -x "$B" ]; then echo "$n: build failed"; continue; fi
  "$B" -tier "$TIER" -out "$VERIF_WORK/mut-$n.json" >/dev/null 2>&1
  python3 - "$VERIF_WORK/mut-$n.json" "$n" <<'PY'
import json, sys
r = json.load(open(sys.argv[1]))
print("== %s" % sys.argv[2])
for d in r.get("direct") or []:
    for v in d.get("violations") or []:
        print("   %s: %s" % (d["scenario"], v["clause"]))
PY
done
git -C "$SCRATCH" checkout -q -- .

// C11: a role's state and status are the fold of its subtree.
//
// Real code under test: core/workflow (YAML unmarshalling of the role types,
// ProcessTemplates incl. include resolution and iterator expansion,
// taskRole/callRole.UpdateState/UpdateStatus, aggregatorRole.updateState/
// updateStatus, SafeState/SafeStatus.merge, ParentAdapter) and the product
// tables sm.State.X / task.Status.X.
//
// The reference is written from the property statement only: the state of a
// role is the fold of the states of its *critical leaf descendants* (ERROR
// dominates, "no opinion" is neutral, differing opinions give MIXED, nobody
// with an opinion gives "no opinion"); the status of a role is the fold of the
// statuses of *all* leaf descendants (any UNDEPLOYABLE gives UNDEPLOYABLE, all
// equal gives that value, anything else is PARTIAL). It is recomputed from
// scratch from the values the harness itself fed to the leaves.
package main

import (
	"bytes"
	"encoding/json"
	"fmt"
	"io"
	"os"
	"os/exec"
	"runtime"
	"runtime/pprof"
	"sort"
	"strings"

	"github.com/AliceO2Group/Control/core/task"
	"github.com/AliceO2Group/Control/core/task/sm"
	"github.com/AliceO2Group/Control/core/workflow"
	vrt "github.com/AliceO2Group/Control/verif_vrt"
	"github.com/sirupsen/logrus"
)

// ---------------------------------------------------------------- tree specs

type kind int

const (
	kTask kind = iota
	kCall
	kAgg
	kInc
	kIter // kids[0] is the template, n copies become siblings in the parent
)

func (k kind) String() string {
	return [...]string{"task", "call", "aggregator", "include", "iterator"}[k]
}

type spec struct {
	kind kind
	crit bool
	kids []*spec
	n    int
	// variants of a member (scenario "members"): the `critical` key left out (documented default: true),
	// a task with a trigger (hook task), a role switched off with `enabled: "false"` (pruned by the loader)
	critAbsent bool
	hook       bool
	disabled   bool
}

func T(crit bool) *spec          { return &spec{kind: kTask, crit: crit} }
func C(crit bool) *spec          { return &spec{kind: kCall, crit: crit} }
func A(kids ...*spec) *spec      { return &spec{kind: kAgg, kids: kids} }
func I(kids ...*spec) *spec      { return &spec{kind: kInc, kids: kids} }
func It(n int, tmpl *spec) *spec { return &spec{kind: kIter, kids: []*spec{tmpl}, n: n} }

// TD / CD: task / call without a `critical` key; H: hook task; Off: the same role with `enabled: "false"`.
func TD() *spec         { return &spec{kind: kTask, crit: true, critAbsent: true} }
func CD() *spec         { return &spec{kind: kCall, crit: true, critAbsent: true} }
func H(crit bool) *spec { return &spec{kind: kTask, crit: crit, hook: true} }
func Off(s *spec) *spec { c := *s; c.disabled = true; return &c }

func (s *spec) String() string {
	switch s.kind {
	case kTask, kCall:
		c := "n"
		if s.crit {
			c = "C"
		}
		if s.critAbsent {
			c = "D" // critical by default
		}
		o := s.kind.String()[:1] + c
		if s.hook {
			o = "h" + c
		}
		if s.disabled {
			o = "off(" + o + ")"
		}
		return o
	case kIter:
		return fmt.Sprintf("for%d(%s)", s.n, s.kids[0])
	}
	var p []string
	for _, k := range s.kids {
		p = append(p, k.String())
	}
	o := "agg"
	if s.kind == kInc {
		o = "inc"
	}
	if s.disabled {
		o = "off-" + o
	}
	return o + "{" + strings.Join(p, " ") + "}"
}

// emit writes the YAML list item of role s (named name) at indentation ind;
// include bodies go to docs.
func emit(b *strings.Builder, s *spec, name, ind string, docs map[string]string, forLines string) {
	fmt.Fprintf(b, "%s- name: \"%s\"\n", ind, name)
	if forLines != "" {
		b.WriteString(strings.ReplaceAll(forLines, "@", ind))
	}
	if s.disabled {
		fmt.Fprintf(b, "%s  enabled: \"false\"\n", ind)
	}
	switch s.kind {
	case kTask:
		fmt.Fprintf(b, "%s  task:\n%s    load: verifclass\n", ind, ind)
		if s.hook {
			fmt.Fprintf(b, "%s    trigger: before_START_ACTIVITY\n", ind)
		}
		if !s.critAbsent {
			fmt.Fprintf(b, "%s    critical: %v\n", ind, s.crit)
		}
	case kCall:
		fmt.Fprintf(b, "%s  call:\n%s    func: testplugin.Noop()\n%s    trigger: CONFIGURE\n", ind, ind, ind)
		if !s.critAbsent {
			fmt.Fprintf(b, "%s    critical: %v\n", ind, s.crit)
		}
	case kAgg:
		fmt.Fprintf(b, "%s  roles:\n", ind)
		emitKids(b, s, name, ind+"    ", docs)
	case kInc:
		sub := "sub_" + strings.NewReplacer("{", "", "}", "", " ", "").Replace(name)
		fmt.Fprintf(b, "%s  include: %s\n", ind, sub)
		var sb strings.Builder
		fmt.Fprintf(&sb, "name: %s\nroles:\n", sub)
		emitKids(&sb, s, name, "  ", docs)
		docs[sub] = sb.String()
	}
}

func baseName(parent string, i int) string {
	parent = strings.ReplaceAll(parent, "x{{ it }}", "")
	return fmt.Sprintf("%s_%d", parent, i)
}

func emitKids(b *strings.Builder, s *spec, name, ind string, docs map[string]string) {
	for i, k := range s.kids {
		kn := baseName(name, i)
		if k.kind == kIter {
			var r []string
			for j := 0; j < k.n; j++ {
				r = append(r, fmt.Sprintf("\"%d\"", j))
			}
			emit(b, k.kids[0], kn+"x{{ it }}", ind, docs, fmt.Sprintf("@  for:\n@    range: '[%s]'\n@    var: it\n", strings.Join(r, ",")))
			continue
		}
		emit(b, k, kn, ind, docs, "")
	}
}

func yamlDocs(root *spec) map[string]string {
	docs := map[string]string{}
	var b strings.Builder
	b.WriteString("name: root\nroles:\n")
	emitKids(&b, root, "n", "  ", docs)
	docs["root"] = b.String()
	return docs
}

// ---------------------------------------------------------------- bound tree

type node struct {
	name        string
	kind        kind
	crit        bool
	kids        []*node
	parent      *node
	role        workflow.Role
	upd         workflow.PublicUpdatable
	st          sm.State    // leaves: the value last fed (initially what the loaded leaf reports)
	ss          task.Status // leaves: idem
	hasCrit     bool        // a critical leaf at or below
	opinionless bool        // an inner role strictly below has no critical leaf
	leaves      int
	depth       int
}

func (n *node) leaf() bool { return n.kind == kTask || n.kind == kCall }

// expand gives the roles the loaded tree must consist of. A member with `enabled: "false"` is absent with
// its whole subtree, an aggregator or include left without members is absent too, an iterator contributes
// one copy of its template per element (none for an empty range); nil = absent.
func expand(s *spec, name, base string) *node {
	if s.disabled {
		return nil
	}
	n := &node{name: name, kind: s.kind, crit: s.crit}
	if n.leaf() {
		n.leaves, n.hasCrit = 1, s.crit
		return n
	}
	hasIterator := false
	for i, k := range s.kids {
		kn := baseName(base, i)
		if k.kind == kIter {
			for j := 0; j < k.n; j++ {
				if c := expand(k.kids[0], fmt.Sprintf("%sx%d", kn, j), kn); c != nil {
					n.kids = append(n.kids, c)
				}
			}
			hasIterator = true
			continue
		}
		if c := expand(k, kn, kn); c != nil {
			n.kids = append(n.kids, c)
		}
	}
	if len(n.kids) == 0 {
		if hasIterator {
			// an aggregator whose only remaining members are iterators that yield nothing stays in the
			// loaded tree (recorded C15 finding): such specs are not part of any family of this harness
			panic(fmt.Sprintf("HARNESS: spec %s has an aggregator left with empty iterators only", s))
		}
		return nil
	}
	for _, c := range n.kids {
		c.parent = n
		n.leaves += c.leaves
		n.hasCrit = n.hasCrit || c.hasCrit
		n.opinionless = n.opinionless || c.opinionless || (!c.leaf() && !c.hasCrit)
		if c.depth+1 > n.depth {
			n.depth = c.depth + 1
		}
	}
	return n
}

type tree struct {
	spec   *spec
	vt     *workflow.VerifTree
	root   *node
	all    []*node
	leaves []*node
}

func bind(n *node, r workflow.Role, t *tree) {
	if r.GetName() != n.name && !(n.parent == nil) {
		panic(fmt.Sprintf("HARNESS: role %q where %q expected (spec %s)", r.GetName(), n.name, t.spec))
	}
	if k := workflow.VerifKind(r); k != n.kind.String() {
		panic(fmt.Sprintf("HARNESS: role %q is a %s, spec says %s (spec %s)", r.GetName(), k, n.kind, t.spec))
	}
	n.role = r
	t.all = append(t.all, n)
	if n.leaf() {
		u, ok := r.(workflow.PublicUpdatable)
		if !ok {
			panic("HARNESS: leaf is not updatable")
		}
		n.upd = u
		n.st, n.ss = r.GetState(), r.GetStatus()
		t.leaves = append(t.leaves, n)
		return
	}
	rs := r.GetRoles()
	if len(rs) != len(n.kids) {
		panic(fmt.Sprintf("HARNESS: role %q has %d children, spec says %d (spec %s)", r.GetName(), len(rs), len(n.kids), t.spec))
	}
	for i := range rs {
		bind(n.kids[i], rs[i], t)
	}
}

func quiet() {
	logrus.SetOutput(io.Discard)
	logrus.SetLevel(logrus.PanicLevel)
}

func load(s *spec) *tree {
	vt, err := workflow.VerifLoad(yamlDocs(s), nil)
	if err != nil {
		panic(fmt.Sprintf("HARNESS: cannot load %s: %v\n%v", s, err, yamlDocs(s)))
	}
	t := &tree{spec: s, vt: vt, root: expand(s, "n", "n")}
	bind(t.root, vt.Root, t)
	return t
}

// ---------------------------------------------------------------- reference

func refState(n *node) sm.State {
	var seen uint32 // set of opinions among the critical leaves
	var collect func(*node)
	collect = func(m *node) {
		if m.leaf() {
			if m.crit && m.st != sm.INVARIANT {
				seen |= 1 << uint(m.st)
			}
			return
		}
		for _, c := range m.kids {
			collect(c)
		}
	}
	collect(n)
	switch {
	case seen&(1<<uint(sm.ERROR)) != 0:
		return sm.ERROR
	case seen == 0:
		return sm.INVARIANT
	case seen&(seen-1) == 0: // exactly one opinion
		for s := sm.State(0); ; s++ {
			if seen == 1<<uint(s) {
				return s
			}
		}
	}
	return sm.MIXED
}

func refStatus(n *node) task.Status {
	var seen uint32
	var collect func(*node)
	collect = func(m *node) {
		if m.leaf() {
			seen |= 1 << uint(m.ss)
			return
		}
		for _, c := range m.kids {
			collect(c)
		}
	}
	collect(n)
	switch {
	case seen&(1<<uint(task.UNDEPLOYABLE)) != 0:
		return task.UNDEPLOYABLE
	case seen&(seen-1) == 0: // all leaves agree
		for s := task.Status(0); ; s++ {
			if seen == 1<<uint(s) {
				return s
			}
		}
	}
	return task.PARTIAL
}

func stName(s sm.State) string {
	if s == sm.INVARIANT {
		return "INVARIANT"
	}
	return s.String()
}

func stClass(s sm.State) string {
	switch s {
	case sm.ERROR, sm.MIXED, sm.INVARIANT:
		return stName(s)
	}
	return "healthy"
}

func pos(n *node) string {
	if n.parent == nil {
		return "root"
	}
	return "inner"
}

func stateClause(n *node, want, got sm.State) string {
	if !n.hasCrit {
		return "state-fold:" + pos(n) + ":no-critical-descendant-but-reports-" + stClass(got)
	}
	sfx := ""
	if n.opinionless {
		sfx = ":has-subrole-without-critical-tasks"
	}
	switch {
	case want == sm.ERROR:
		return "state-fold:" + pos(n) + ":error-lost" + sfx
	case got == sm.ERROR:
		return "state-fold:" + pos(n) + ":error-invented" + sfx
	}
	g := stClass(got)
	if g == "healthy" && stClass(want) == "healthy" {
		g = "other-healthy"
	}
	return "state-fold:" + pos(n) + ":want-" + stClass(want) + "-got-" + g + sfx
}

func statusClause(n *node, want, got task.Status) string {
	return "status-fold:" + pos(n) + ":want-" + want.String() + "-got-" + got.String()
}

type failf func(clause string, detail func() string)

func (t *tree) describe() string {
	var b strings.Builder
	var rec func(n *node)
	rec = func(n *node) {
		if n.leaf() {
			c := "non-critical"
			if n.crit {
				c = "critical"
			}
			fmt.Fprintf(&b, "%s(%s %s fed %s/%s)", n.name, c, n.kind, stName(n.st), n.ss)
			return
		}
		fmt.Fprintf(&b, "%s[%s reports %s/%s]{", n.name, n.kind, stName(n.role.GetState()), n.role.GetStatus())
		for i, c := range n.kids {
			if i > 0 {
				b.WriteString(" ")
			}
			rec(c)
		}
		b.WriteString("}")
	}
	rec(t.root)
	return b.String()
}

// check compares every role with the reference; returns whether all agreed.
func (t *tree) check(fail failf, pfx string, hist func() string) bool {
	ok := true
	for _, n := range t.all {
		n := n
		gs, gt := n.role.GetState(), n.role.GetStatus()
		if n.leaf() {
			if gs != n.st {
				ok = false
				fail(pfx+"leaf-state-not-last-update:"+n.kind.String(), func() string {
					return fmt.Sprintf("spec %s history [%s]: leaf %s reports %s, last update was %s", t.spec, hist(), n.name, stName(gs), stName(n.st))
				})
			}
			if gt != n.ss {
				ok = false
				fail(pfx+"leaf-status-not-last-update:"+n.kind.String(), func() string {
					return fmt.Sprintf("spec %s history [%s]: leaf %s reports %s, last update was %s", t.spec, hist(), n.name, gt, n.ss)
				})
			}
			continue
		}
		if w := refState(n); gs != w {
			ok = false
			fail(pfx+stateClause(n, w, gs), func() string {
				return fmt.Sprintf("spec %s history [%s]: role %s reports state %s, fold of its critical leaves is %s; tree now %s", t.spec, hist(), n.name, stName(gs), stName(w), t.describe())
			})
		}
		if w := refStatus(n); gt != w {
			ok = false
			fail(pfx+statusClause(n, w, gt), func() string {
				return fmt.Sprintf("spec %s history [%s]: role %s reports status %s, fold of its leaves is %s; tree now %s", t.spec, hist(), n.name, gt, w, t.describe())
			})
		}
	}
	return ok
}

func drainStates(t *tree) (out []sm.State) {
	for vrt.Len(t.vt.States) > 0 {
		out = append(out, vrt.Recv((<-chan sm.State)(t.vt.States)))
	}
	return
}

func drainStatuses(t *tree) (out []task.Status) {
	for vrt.Len(t.vt.Statuses) > 0 {
		out = append(out, vrt.Recv((<-chan task.Status)(t.vt.Statuses)))
	}
	return
}

// ---------------------------------------------------------------- updates

type update struct {
	leaf   int
	status bool
	st     sm.State
	ss     task.Status
	// hooks != 0: not a leaf update but the environment collecting hooks from the whole workflow, which
	// makes every call role report a state of its own choosing: 1 = GetAllHooks() (deployment, teardown),
	// 2 = GetHooksMapForTrigger("CONFIGURE") (every transition)
	hooks int
}

func (u update) String() string {
	switch u.hooks {
	case 1:
		return "root.GetAllHooks()"
	case 2:
		return "root.GetHooksMapForTrigger(CONFIGURE)"
	}
	if u.status {
		return fmt.Sprintf("leaf%d.status=%s", u.leaf, u.ss)
	}
	return fmt.Sprintf("leaf%d.state=%s", u.leaf, stName(u.st))
}

func (t *tree) apply(u update) {
	if u.hooks != 0 {
		if u.hooks == 1 {
			t.root.role.GetAllHooks()
		} else {
			t.root.role.GetHooksMapForTrigger("CONFIGURE")
		}
		// whatever state a call role reports now is the value the fold has to be taken over
		// (tasks are not touched by this: their last fed value still stands)
		for _, l := range t.leaves {
			if l.kind == kCall {
				l.st = l.role.GetState()
			}
		}
		return
	}
	l := t.leaves[u.leaf]
	if u.status {
		l.ss = u.ss
		l.upd.UpdateStatus(u.ss)
	} else {
		l.st = u.st
		l.upd.UpdateState(u.st)
	}
}

// ---------------------------------------------------------------- tree enumeration

type genCfg struct {
	leafLabels []*spec
	inner      []kind // kinds of non-root inner roles
	unary      bool   // non-root inner roles with a single child
	iters      bool   // iterator groups (2 copies)
	maxDepth   int    // inner levels including the root
}

func compositions(n int) [][]int {
	if n == 0 {
		return [][]int{{}}
	}
	var out [][]int
	for first := 1; first <= n; first++ {
		for _, rest := range compositions(n - first) {
			out = append(out, append([]int{first}, rest...))
		}
	}
	return out
}

// nodesWith returns every subtree with exactly n leaves and at most d inner levels.
func (g *genCfg) nodesWith(n, d int, memo map[[2]int][]*spec) []*spec {
	key := [2]int{n, d}
	if v, ok := memo[key]; ok {
		return v
	}
	var out []*spec
	if n == 1 {
		out = append(out, g.leafLabels...)
	}
	if d > 0 {
		for _, kl := range g.kidLists(n, d-1, memo) {
			if len(kl) == 1 && !g.unary && kl[0].kind != kIter {
				continue
			}
			for _, ik := range g.inner {
				out = append(out, &spec{kind: ik, kids: kl})
			}
		}
	}
	memo[key] = out
	return out
}

// kidLists returns every ordered child list with n leaves in total, children having at most d inner levels.
func (g *genCfg) kidLists(n, d int, memo map[[2]int][]*spec) [][]*spec {
	var out [][]*spec
	for _, comp := range compositions(n) {
		lists := [][]*spec{{}}
		for _, p := range comp {
			opts := append([]*spec{}, g.nodesWith(p, d, memo)...)
			if g.iters && p%2 == 0 {
				for _, tm := range g.nodesWith(p/2, d, memo) {
					opts = append(opts, It(2, tm))
				}
			}
			var next [][]*spec
			for _, l := range lists {
				for _, o := range opts {
					next = append(next, append(append([]*spec{}, l...), o))
				}
			}
			lists = next
		}
		out = append(out, lists...)
	}
	return out
}

func (g *genCfg) roots(n int) []*spec {
	memo := map[[2]int][]*spec{}
	var out []*spec
	for _, kl := range g.kidLists(n, g.maxDepth-1, memo) {
		out = append(out, &spec{kind: kAgg, kids: kl})
	}
	return out
}

var (
	tC, tN, cC, cN = T(true), T(false), C(true), C(false)
	labels4        = []*spec{tC, tN, cC, cN}
	labels2        = []*spec{tC, tN}
)

// membersFamily: trees whose members come in the variants the other families leave out. Shapes
// agg{a b}, agg{a b c}, agg{a agg{b c}}, agg{agg{a b} c}, agg{agg{a} b} with the slots filled from
//
//	plain:   critical task, non-critical task, critical call
//	variant: task / call without a `critical` key (critical by default), hook task (critical or not),
//	         a critical task / a non-critical task / an aggregator with a critical task switched off with
//	         `enabled: "false"` (pruned), an aggregator emptied by pruning, iterators over 0, 1 and 3
//	         elements (critical and non-critical template)
//
// with one or two variant members; every tree keeps a live leaf.
func membersFamily(string) []*spec {
	plain := []*spec{tC, tN, cC}
	variants := []*spec{TD(), CD(), H(true), H(false), Off(tC), Off(tN), Off(A(tC, tN)), A(Off(tC)),
		It(0, tC), It(1, tC), It(3, tC), It(0, tN), It(1, CD()), It(3, H(true))}
	const maxVar = 2
	shapes := []struct {
		slots int
		mk    func(m []*spec) *spec
	}{
		{2, func(m []*spec) *spec { return A(m[0], m[1]) }},
		{3, func(m []*spec) *spec { return A(m[0], m[1], m[2]) }},
		{3, func(m []*spec) *spec { return A(m[0], A(m[1], m[2])) }},
		{3, func(m []*spec) *spec { return A(A(m[0], m[1]), m[2]) }},
		{2, func(m []*spec) *spec { return A(A(m[0]), m[1]) }},
	}
	var out []*spec
	for _, sh := range shapes {
		opts := append(append([]*spec{}, plain...), variants...)
		idx := make([]int, sh.slots)
		for {
			m := make([]*spec, sh.slots)
			nv := 0
			for i, k := range idx {
				m[i] = opts[k]
				if k >= len(plain) {
					nv++
				}
			}
			if nv >= 1 && nv <= maxVar {
				if s := sh.mk(m); usable(s) {
					out = append(out, s)
				}
			}
			i := sh.slots - 1
			for ; i >= 0; i-- {
				idx[i]++
				if idx[i] < len(opts) {
					break
				}
				idx[i] = 0
			}
			if i < 0 {
				break
			}
		}
	}
	return out
}

// usable: the tree keeps at least one live leaf and no aggregator is left with empty iterators only
// (that aggregator stays in the loaded tree: recorded C15 finding, not C11's business).
func usable(s *spec) (ok bool) {
	defer func() {
		if recover() != nil {
			ok = false
		}
	}()
	n := expand(s, "n", "n")
	return n != nil && n.leaves >= 1
}

// ---------------------------------------------------------------- Direct: sequences

type seqCfg struct {
	name      string
	doc       string
	states    bool
	statuses  bool
	hooks     bool // hook collection from the root is part of the history alphabet
	trees     func(tier string) []*spec
	length    func(tier string, leaves int) int
	taskState func(tier string) []sm.State
}

var statusAlphabet = []task.Status{task.INACTIVE, task.ACTIVE, task.UNDEPLOYABLE}

func stateAlphabet(tier string) []sm.State {
	if tier == "thorough" {
		return []sm.State{sm.STANDBY, sm.CONFIGURED, sm.RUNNING, sm.ERROR, sm.DONE}
	}
	return []sm.State{sm.STANDBY, sm.CONFIGURED, sm.RUNNING, sm.ERROR}
}

// witness of one violated clause: the one on the smallest tree with the shortest history
type witness struct {
	Size   int64  `json:"size"` // (leaves, roles, history length, index of the tree in the family): smaller = simpler
	Detail string `json:"detail"`
}

// shardResult is what one shard (every n-th tree of the family) of a sequence scenario covered.
type shardResult struct {
	Evaluations int64               `json:"evaluations"`
	Distinct    map[string]int64    `json:"distinct"`
	Found       map[string]*witness `json:"found"`
	Sample      string              `json:"sample"`
	SampleIdx   int                 `json:"sample_idx"` // index of the tree the sample comes from
	Trees       int                 `json:"trees"`
	MaxLeaves   int                 `json:"max_leaves"`
	MaxLen      int                 `json:"max_len"`
}

// runSeq enumerates, for every tree with index = shard (mod n), every update sequence up to the
// configured length, depth first; the real tree is put back with snapshot/restore on backtracking.
func runSeq(c seqCfg, tier string, specs []*spec, shard, n int) *shardResult {
	res := &shardResult{Distinct: map[string]int64{}, Found: map[string]*witness{}}
	alpha := stateAlphabet(tier)
	var hist []update
	var cur *tree
	curIdx := 0
	histS := func() string {
		var p []string
		for _, u := range hist {
			p = append(p, u.String())
		}
		return strings.Join(p, ", ")
	}
	fail := func(clause string, detail func() string) {
		size := int64(cur.root.leaves*10000+len(cur.all)*100+len(hist))*10000000 + int64(curIdx)
		if w := res.Found[clause]; w == nil || size < w.Size {
			res.Found[clause] = &witness{size, detail()}
		}
	}
	for idx, s := range specs {
		if idx%n != shard {
			continue
		}
		t := load(s)
		cur, curIdx = t, idx
		res.Trees++
		if t.root.leaves > res.MaxLeaves {
			res.MaxLeaves = t.root.leaves
		}
		L := c.length(tier, t.root.leaves)
		if L > res.MaxLen {
			res.MaxLen = L
		}
		// menu of single updates
		var menu []update
		for li, l := range t.leaves {
			if c.states {
				for _, v := range alpha {
					menu = append(menu, update{leaf: li, st: v})
				}
				if l.kind == kCall {
					menu = append(menu, update{leaf: li, st: sm.INVARIANT})
				}
			}
			if c.statuses {
				for _, v := range statusAlphabet {
					menu = append(menu, update{leaf: li, status: true, ss: v})
				}
			}
		}
		if c.hooks {
			hasCall := false
			for _, l := range t.leaves {
				hasCall = hasCall || l.kind == kCall
			}
			if hasCall {
				menu = append(menu, update{hooks: 1}, update{hooks: 2})
			}
		}
		drainStates(t)
		drainStatuses(t)
		cls0 := fmt.Sprintf("leaves=%d depth=%d ", t.root.leaves, t.root.depth)
		var dfs func(depth int)
		dfs = func(depth int) {
			if depth == L {
				return
			}
			snap := workflow.VerifSnapshot(t.vt.Root, nil)
			saved := make([][2]int, len(t.leaves))
			for i, l := range t.leaves {
				saved[i] = [2]int{int(l.st), int(l.ss)}
			}
			for _, u := range menu {
				hist = append(hist, u)
				beforeS, beforeT := t.root.role.GetState(), t.root.role.GetStatus()
				t.apply(u)
				ok := t.check(fail, "", histS)
				// what the ParentAdapter was handed during this update
				hs, ht := drainStates(t), drainStatuses(t)
				afterS, afterT := t.root.role.GetState(), t.root.role.GetStatus()
				if afterS != beforeS && len(hs) == 0 {
					ok = false
					fail("adapter:root-state-change-not-handed-up", func() string {
						return fmt.Sprintf("spec %s history [%s]: root went %s -> %s, ParentAdapter.updateState not called", s, histS(), stName(beforeS), stName(afterS))
					})
				}
				if len(hs) > 0 && hs[len(hs)-1] != afterS {
					ok = false
					fail("adapter:last-state-handed-up-differs-from-root", func() string {
						return fmt.Sprintf("spec %s history [%s]: ParentAdapter got %v, root reports %s", s, histS(), hs, stName(afterS))
					})
				}
				if afterT != beforeT && len(ht) == 0 {
					ok = false
					fail("adapter:root-status-change-not-handed-up", func() string {
						return fmt.Sprintf("spec %s history [%s]: root went %s -> %s, ParentAdapter.updateStatus not called", s, histS(), beforeT, afterT)
					})
				}
				if len(ht) > 0 && ht[len(ht)-1] != afterT {
					ok = false
					fail("adapter:last-status-handed-up-differs-from-root", func() string {
						return fmt.Sprintf("spec %s history [%s]: ParentAdapter got %v, root reports %s", s, histS(), ht, afterT)
					})
				}
				v := "agrees"
				if !ok {
					v = "DISAGREES"
				}
				res.Evaluations++
				if u.hooks != 0 {
					res.Distinct[cls0+"hook-collection root-fold="+stName(refState(t.root))+" "+v]++
				} else if u.status {
					res.Distinct[cls0+"status-update root-fold="+refStatus(t.root).String()+" "+v]++
				} else {
					res.Distinct[cls0+"state-update root-fold="+stName(refState(t.root))+" "+v]++
				}
				if res.Sample == "" && depth == L-1 && t.root.leaves >= 2 && (refState(t.root) == sm.MIXED || refStatus(t.root) == task.PARTIAL) {
					res.Sample = fmt.Sprintf("%s: spec %s, updates [%s] -> %s (%s)", c.name, s, histS(), t.describe(), v)
					res.SampleIdx = idx
				}
				dfs(depth + 1)
				hist = hist[:len(hist)-1]
				workflow.VerifRestore(t.vt.Root, snap)
				for i, l := range t.leaves {
					l.st, l.ss = sm.State(saved[i][0]), task.Status(saved[i][1])
				}
			}
		}
		dfs(0)
	}
	return res
}

func nShards() int {
	n := runtime.NumCPU() / 2
	if n > 8 {
		n = 8
	}
	if n < 1 {
		n = 1
	}
	return n
}

// seqScenario: the family of trees is split over nShards() copies of this binary (tree i goes to
// shard i mod n; each copy is the same deterministic single-threaded enumeration), results are merged.
func seqScenario(c seqCfg) *vrt.Scenario {
	return &vrt.Scenario{Name: c.name, Prop: "C11", Doc: c.doc, Direct: func(r *vrt.DirectReport, tier string) {
		quiet()
		specs := c.trees(tier)
		if sh := os.Getenv("C11_SHARD"); sh != "" { // child: one shard, result to C11_SHARD_OUT
			var i, n int
			fmt.Sscanf(sh, "%d/%d", &i, &n)
			js, _ := json.Marshal(runSeq(c, tier, specs, i, n))
			if err := os.WriteFile(os.Getenv("C11_SHARD_OUT"), js, 0o644); err != nil {
				panic(err)
			}
			return
		}
		n := nShards()
		var results []*shardResult
		if n == 1 {
			results = append(results, runSeq(c, tier, specs, 0, 1))
		} else {
			self, _ := os.Executable()
			dir, err := os.MkdirTemp("", "c11-shards-")
			if err != nil {
				panic(err)
			}
			defer os.RemoveAll(dir)
			var cmds []*exec.Cmd
			var errs []*bytes.Buffer
			for i := 0; i < n; i++ {
				cmd := exec.Command(self, "-scenario", c.name, "-tier", tier)
				cmd.Env = append(os.Environ(), fmt.Sprintf("C11_SHARD=%d/%d", i, n), fmt.Sprintf("C11_SHARD_OUT=%s/%d.json", dir, i))
				eb := &bytes.Buffer{}
				cmd.Stderr = eb
				if err := cmd.Start(); err != nil {
					panic(fmt.Sprintf("HARNESS: cannot start shard: %v", err))
				}
				cmds, errs = append(cmds, cmd), append(errs, eb)
			}
			for i, cmd := range cmds {
				werr := cmd.Wait()
				js, rerr := os.ReadFile(fmt.Sprintf("%s/%d.json", dir, i))
				res := &shardResult{}
				if werr != nil || rerr != nil || json.Unmarshal(js, res) != nil {
					panic(fmt.Sprintf("HARNESS: shard %d/%d of %s failed: %v %v\n%s", i, n, c.name, werr, rerr, errs[i].String()))
				}
				results = append(results, res)
			}
		}
		found := map[string]*witness{}
		nTrees, maxLeaves, maxLen := 0, 0, 0
		sample, sampleIdx := "", 0
		if r.Distinct == nil {
			r.Distinct = map[string]int64{}
		}
		for _, res := range results {
			r.Evaluations += res.Evaluations
			for k, v := range res.Distinct {
				r.Distinct[k] += v
			}
			for cl, w := range res.Found {
				if o := found[cl]; o == nil || w.Size < o.Size {
					found[cl] = w
				}
			}
			if res.Sample != "" && (sample == "" || res.SampleIdx < sampleIdx) { // independent of the number of shards
				sample, sampleIdx = res.Sample, res.SampleIdx
			}
			nTrees += res.Trees
			if res.MaxLeaves > maxLeaves {
				maxLeaves = res.MaxLeaves
			}
			if res.MaxLen > maxLen {
				maxLen = res.MaxLen
			}
		}
		if nTrees != len(specs) {
			panic("HARNESS: shards did not cover the family")
		}
		if sample != "" {
			r.Samples = append(r.Samples, sample)
		}
		var clauses []string
		for cl := range found {
			clauses = append(clauses, cl)
		}
		sort.Strings(clauses)
		for _, cl := range clauses {
			r.Fail(cl, "%s", found[cl].Detail)
		}
		r.Notes = append(r.Notes, fmt.Sprintf("grid: %d role trees (every child order; up to %d leaves) x every update sequence up to length %d over leaf x %s; all roles compared with the from-scratch fold after every update", nTrees, maxLeaves, maxLen, alphabetDoc(c, stateAlphabet(tier))))
	}}
}

func alphabetDoc(c seqCfg, alpha []sm.State) string {
	var p []string
	if c.states {
		var a []string
		for _, s := range alpha {
			a = append(a, s.String())
		}
		p = append(p, "state{"+strings.Join(a, ",")+" (+INVARIANT for calls)}")
	}
	if c.statuses {
		p = append(p, "status{INACTIVE,ACTIVE,UNDEPLOYABLE}")
	}
	return strings.Join(p, " + ")
}

func upTo(g *genCfg, n int) []*spec {
	var out []*spec
	for i := 1; i <= n; i++ {
		out = append(out, g.roots(i)...)
	}
	return out
}

// ---------------------------------------------------------------- Direct: algebra tables

func algebra() *vrt.Scenario {
	return &vrt.Scenario{Name: "algebra", Prop: "C11", Doc: "sm.State.X and task.Status.X: all pairs and triples against the statement's fold; commutative, associative, idempotent",
		Direct: func(r *vrt.DirectReport, tier string) {
			states := []sm.State{sm.UNKNOWN, sm.STANDBY, sm.CONFIGURED, sm.RUNNING, sm.ERROR, sm.DONE, sm.MIXED, sm.INVARIANT}
			wantS := func(a, b sm.State) sm.State {
				switch {
				case a == sm.ERROR || b == sm.ERROR:
					return sm.ERROR
				case a == sm.INVARIANT:
					return b
				case b == sm.INVARIANT:
					return a
				case a == b:
					return a
				}
				return sm.MIXED
			}
			for _, a := range states {
				for _, b := range states {
					got, want := a.X(b), wantS(a, b)
					v := "ok"
					if got != want {
						v = "WRONG"
						r.Fail(fmt.Sprintf("state-product:%s.X(%s)", stName(a), stName(b)), "got %s want %s", stName(got), stName(want))
					}
					r.Count("state pair want=" + stClass(want) + " " + v)
					if got != b.X(a) {
						r.Fail("state-product:not-commutative", "%s,%s", stName(a), stName(b))
					}
					for _, c := range states {
						l, rr := a.X(b).X(c), a.X(b.X(c))
						v := "ok"
						if l != rr {
							v = "WRONG"
							r.Fail("state-product:not-associative", "(%s x %s) x %s = %s but %s x (%s x %s) = %s", stName(a), stName(b), stName(c), stName(l), stName(a), stName(b), stName(c), stName(rr))
						}
						r.Count("state triple result=" + stClass(l) + " " + v)
					}
				}
			}
			stati := []task.Status{task.UNDEFINED, task.INACTIVE, task.PARTIAL, task.ACTIVE, task.UNDEPLOYABLE}
			// statement: anything missing makes it PARTIAL, an undeployable one makes it UNDEPLOYABLE;
			// UNDEFINED (nothing known) is outside the statement, only the laws are checked for it.
			wantT := func(a, b task.Status) task.Status {
				switch {
				case a == task.UNDEPLOYABLE || b == task.UNDEPLOYABLE:
					return task.UNDEPLOYABLE
				case a == b:
					return a
				}
				return task.PARTIAL
			}
			for _, a := range stati {
				for _, b := range stati {
					got := a.X(b)
					if a != task.UNDEFINED && b != task.UNDEFINED {
						want := wantT(a, b)
						v := "ok"
						if got != want {
							v = "WRONG"
							r.Fail(fmt.Sprintf("status-product:%s.X(%s)", a, b), "got %s want %s", got, want)
						}
						r.Count("status pair want=" + want.String() + " " + v)
					}
					if got != b.X(a) {
						r.Fail("status-product:not-commutative", "%s,%s", a, b)
					}
					for _, c := range stati {
						l, rr := a.X(b).X(c), a.X(b.X(c))
						v := "ok"
						if l != rr {
							v = "WRONG"
							r.Fail("status-product:not-associative", "(%s x %s) x %s = %s but %s x (%s x %s) = %s", a, b, c, l, a, b, c, rr)
						}
						r.Count("status triple result=" + l.String() + " " + v)
					}
				}
			}
			r.Samples = append(r.Samples, fmt.Sprintf("RUNNING.X(CONFIGURED)=%s ERROR.X(MIXED)=%s INVARIANT.X(DONE)=%s ACTIVE.X(INACTIVE)=%s PARTIAL.X(UNDEPLOYABLE)=%s",
				sm.RUNNING.X(sm.CONFIGURED), sm.ERROR.X(sm.MIXED), sm.INVARIANT.X(sm.DONE), task.Status(task.ACTIVE).X(task.INACTIVE), task.Status(task.PARTIAL).X(task.UNDEPLOYABLE)))
			r.Notes = append(r.Notes, "grid: all 8x8 state pairs, 8^3 triples; all 5x5 status pairs, 5^3 triples")
		}}
}

// ---------------------------------------------------------------- schedules

type schedCfg struct {
	name    string
	spec    *spec
	threads []int      // leaf index driven by each thread
	menus   [][]string // per thread: alternatives, each a space-separated list of updates "s:RUNNING" / "t:ACTIVE"
	prelude []string   // "<leaf> <update>" applied one after the other before the threads start (the tree is not fresh)
	q, t    vrt.Bounds
}

func parseUpd(leaf int, s string) update {
	if s == "h:all" {
		return update{hooks: 1}
	} else if s == "h:trig" {
		return update{hooks: 2}
	}
	if strings.HasPrefix(s, "t:") {
		for _, v := range []task.Status{task.INACTIVE, task.ACTIVE, task.UNDEPLOYABLE} {
			if v.String() == s[2:] {
				return update{leaf: leaf, status: true, ss: v}
			}
		}
	} else if s == "s:INVARIANT" {
		return update{leaf: leaf, st: sm.INVARIANT}
	} else if st := sm.StateFromString(s[2:]); st != sm.UNKNOWN {
		return update{leaf: leaf, st: st}
	}
	panic("HARNESS: bad update " + s)
}

func schedScenario(c schedCfg) *vrt.Scenario {
	var finished bool
	// The tree is loaded once per process (outside the controlled world) and put back into its
	// freshly-loaded condition before every execution: cached state/status of every role (the only
	// data the update path mutates), the harness' record of the leaf values, fresh subscription channels.
	var t *tree
	var snap0 []byte
	var leaf0 [][2]int
	setup := func() {
		quiet()
		if t == nil {
			t = load(c.spec)
			snap0 = workflow.VerifSnapshot(t.vt.Root, nil)
			for _, l := range t.leaves {
				leaf0 = append(leaf0, [2]int{int(l.st), int(l.ss)})
			}
			return
		}
		workflow.VerifRestore(t.vt.Root, snap0)
		for i, l := range t.leaves {
			l.st, l.ss = sm.State(leaf0[i][0]), task.Status(leaf0[i][1])
		}
		t.vt.Resubscribe()
	}
	body := func() {
		finished = false
		var plan [][]update
		var names []string
		for i, m := range c.menus {
			k := vrt.ChooseFree(len(m), fmt.Sprintf("updates-of-thread-%d", i))
			var us []update
			for _, f := range strings.Fields(m[k]) {
				us = append(us, parseUpd(c.threads[i], f))
			}
			plan = append(plan, us)
			names = append(names, m[k])
		}
		errFed := false
		done := 0
		for _, p := range c.prelude {
			var leaf int
			var us string
			fmt.Sscanf(p, "%d %s", &leaf, &us)
			u := parseUpd(leaf, us)
			if !u.status && u.st == sm.ERROR && t.leaves[u.leaf].crit {
				errFed = true
			}
			t.apply(u)
		}
		if len(c.prelude) > 0 {
			names = append([]string{"after " + strings.Join(c.prelude, ", ")}, names...)
		}
		for i := range plan {
			us := plan[i]
			for _, u := range us {
				if u.hooks == 0 && !u.status && u.st == sm.ERROR && t.leaves[u.leaf].crit {
					errFed = true
				}
			}
			vrt.GoFG(fmt.Sprintf("updater%d", i), func() {
				for _, u := range us {
					t.apply(u)
				}
				done++
			})
		}
		vrt.WaitUntil("all-updaters-returned", func() bool { return done == len(plan) })
		finished = true
		hist := func() string { return strings.Join(names, " || ") }
		fail := func(clause string, detail func() string) { vrt.Fail(clause, "%s", detail()) }
		ok := t.check(fail, "quiescence:", hist)
		hs, ht := drainStates(t), drainStatuses(t)
		rootS := t.root.role.GetState()
		gotErr := false
		for _, s := range hs {
			gotErr = gotErr || s == sm.ERROR
		}
		if refState(t.root) == sm.ERROR && !gotErr {
			ok = false
			vrt.Fail("quiescence:adapter:error-never-handed-up", "spec %s threads [%s]: a critical leaf ended in ERROR, ParentAdapter.updateState got only %v", c.spec, hist(), hs)
		}
		if gotErr && !errFed {
			ok = false
			vrt.Fail("quiescence:adapter:error-invented", "spec %s threads [%s]: no critical leaf was ever fed ERROR, ParentAdapter.updateState got %v", c.spec, hist(), hs)
		}
		last := "none"
		if len(hs) > 0 {
			last = stName(hs[len(hs)-1])
		}
		lastT := "none"
		if len(ht) > 0 {
			lastT = ht[len(ht)-1].String()
		}
		// developer aid only (not part of the verdict; the assumptions say why the order of the hand-overs is not judged):
		// C11_PROBE_ADAPTER=1 reports executions in which the last value handed to the ParentAdapter is not the final root value
		if os.Getenv("C11_PROBE_ADAPTER") != "" {
			if len(hs) > 0 && hs[len(hs)-1] != rootS {
				vrt.Fail("PROBE:adapter-last-state-differs-from-root", "threads [%s]: adapter got %v, root %s", hist(), hs, stName(rootS))
			}
			if len(ht) > 0 && ht[len(ht)-1] != t.root.role.GetStatus() {
				vrt.Fail("PROBE:adapter-last-status-differs-from-root", "threads [%s]: adapter got %v, root %s", hist(), ht, t.root.role.GetStatus())
			}
		}
		// observation (not an oracle): whether the last value handed up is the final root value
		vrt.Logf("threads [%s] -> root %s/%s fold %s/%s adapter-last %s/%s agree=%v", hist(), stName(rootS), t.root.role.GetStatus(), stName(refState(t.root)), refStatus(t.root), last, lastT, ok)
	}
	return &vrt.Scenario{Name: c.name, Prop: "C11", Body: body, Quick: c.q, Thorough: c.t,
		Doc:   fmt.Sprintf("%s; %d concurrent updaters on distinct leaves, update lists chosen from menus; oracle at quiescence", c.spec, len(c.threads)),
		Setup: setup,
		Cfg: vrt.Config{Preempt: func(k vrt.OpKind, site string) bool {
			// preemption points: thread starts and every lock/channel operation of core/workflow
			// (SafeState, SafeStatus, ParentAdapter); the event-writer registry lock of core/the is not one
			return k == vrt.OpStart || strings.HasPrefix(site, "workflow/")
		}},
		DeadlockClause: "update-never-returns", PanicClause: "panic",
		NonTrivial: func(x *vrt.Exec) bool { return finished },
	}
}

var (
	stateMenu  = []string{"s:RUNNING", "s:ERROR", "s:ERROR s:RUNNING", "s:CONFIGURED s:RUNNING"}
	statusMenu = []string{"t:ACTIVE", "t:UNDEPLOYABLE", "t:ACTIVE t:INACTIVE"}
	mixedMenu  = []string{"s:RUNNING t:ACTIVE", "t:ACTIVE s:ERROR", "t:UNDEPLOYABLE"}
	callMenu   = []string{"s:INVARIANT", "s:ERROR", "t:ACTIVE s:INVARIANT"}
)

func main() {
	if os.Getenv("C11_COUNT") != "" { // developer aid only: sizes of candidate tree families
		for _, lab := range [][]*spec{labels2, {tC, tN, cC}, labels4} {
			for _, d := range []int{2, 3} {
				for _, un := range []bool{false, true} {
					g := &genCfg{leafLabels: lab, inner: []kind{kAgg, kInc}, unary: un, iters: true, maxDepth: d}
					fmt.Printf("labels=%d depth=%d unary=%v: n1=%d n2=%d n3=%d n4=%d special3=%d\n", len(lab), d, un, len(g.roots(1)), len(g.roots(2)), len(g.roots(3)), len(g.roots(4)), len(withSpecial(upTo(g, 3))))
				}
			}
		}
		return
	}
	if p := os.Getenv("C11_CPUPROFILE"); p != "" { // developer aid only
		f, _ := os.Create(p)
		pprof.StartCPUProfile(f)
		defer pprof.StopCPUProfile()
	}
	wide := &genCfg{leafLabels: labels4, inner: []kind{kAgg}, unary: true, maxDepth: 3}
	four := &genCfg{leafLabels: labels2, inner: []kind{kAgg}, unary: false, maxDepth: 3}
	pathsA := &genCfg{leafLabels: []*spec{tC, tN, cC}, inner: []kind{kAgg, kInc}, unary: false, iters: true, maxDepth: 3}
	pathsB := &genCfg{leafLabels: labels2, inner: []kind{kAgg, kInc}, unary: true, iters: true, maxDepth: 2}
	lenBy := func(q, t map[int]int) func(string, int) int {
		return func(tier string, leaves int) int {
			if tier == "thorough" {
				return t[leaves]
			}
			return q[leaves]
		}
	}
	vrt.Main([]*vrt.Scenario{
		algebra(),
		seqScenario(seqCfg{name: "state-seq", states: true,
			doc:    "every ordered role tree with <=3 leaves ({task,call}x{critical,not}, <=3 aggregator levels) x every sequence of leaf state updates",
			trees:  func(string) []*spec { return upTo(wide, 3) },
			length: lenBy(map[int]int{1: 3, 2: 3, 3: 2}, map[int]int{1: 4, 2: 4, 3: 3})}),
		seqScenario(seqCfg{name: "status-seq", statuses: true,
			doc:    "same trees x every sequence of leaf status updates",
			trees:  func(string) []*spec { return upTo(wide, 3) },
			length: lenBy(map[int]int{1: 3, 2: 3, 3: 2}, map[int]int{1: 5, 2: 5, 3: 3})}),
		seqScenario(seqCfg{name: "both-seq", states: true, statuses: true,
			doc:    "trees with <=2 leaves x every interleaved sequence of state and status updates",
			trees:  func(string) []*spec { return upTo(wide, 2) },
			length: lenBy(map[int]int{1: 3, 2: 3}, map[int]int{1: 4, 2: 3})}),
		seqScenario(seqCfg{name: "four-leaves", states: true, statuses: true,
			doc:    "every ordered tree with exactly 4 task leaves (critical or not), every inner role with >=2 children, x state and status update sequences",
			trees:  func(string) []*spec { return four.roots(4) },
			length: lenBy(map[int]int{4: 2}, map[int]int{4: 3})}),
		seqScenario(seqCfg{name: "load-paths", states: true, statuses: true,
			doc:    "trees with <=3 leaves that contain an include or an iterator (real ProcessTemplates expansion): family A {taskC,taskN,callC} leaves, <=3 levels, inner roles with >=2 children; family B task leaves, <=2 levels, unary inner roles too; x state and status update sequences",
			trees:  func(string) []*spec { return append(withSpecial(upTo(pathsA, 3)), withSpecial(upTo(pathsB, 3))...) },
			length: lenBy(map[int]int{1: 2, 2: 2, 3: 2}, map[int]int{1: 3, 2: 3, 3: 3})}),
		seqScenario(seqCfg{name: "members", states: true, statuses: true, hooks: true,
			doc:   "member variants: `critical` left out (default true) on tasks and calls, hook tasks, members pruned by `enabled: false` (task, aggregator, aggregator emptied by pruning), iterators over 0/1/3 elements; x state and status update sequences in which the environment also collects hooks from the root (GetAllHooks / GetHooksMapForTrigger reset the call roles)",
			trees: membersFamily,
			length: func(tier string, leaves int) int {
				if tier == "thorough" && leaves <= 3 {
					return 3
				}
				return 2
			}}),
		schedScenario(schedCfg{name: "siblings-state", spec: A(A(tC, tC)), threads: []int{0, 1}, menus: [][]string{stateMenu, stateMenu},
			q: vrt.Bounds{Dev: 2, Seconds: 100}, t: vrt.Bounds{Dev: 3, Seconds: 600}}),
		schedScenario(schedCfg{name: "error-recovery", spec: A(A(tC, tC)), threads: []int{0, 1},
			// only STANDBY (the loaded value) and ERROR are fed, so no role can ever be MIXED
			menus: [][]string{{"s:ERROR s:STANDBY", "s:ERROR"}, {"s:STANDBY", "t:ACTIVE s:STANDBY", "s:ERROR s:STANDBY"}},
			q:     vrt.Bounds{Dev: 2, Seconds: 100}, t: vrt.Bounds{Dev: 3, Seconds: 600}}),
		schedScenario(schedCfg{name: "siblings-status", spec: A(A(tC, tN)), threads: []int{0, 1}, menus: [][]string{statusMenu, statusMenu},
			q: vrt.Bounds{Dev: 2, Seconds: 100}, t: vrt.Bounds{Dev: 3, Seconds: 600}}),
		schedScenario(schedCfg{name: "cousins-mixed", spec: A(A(tC), I(tC)), threads: []int{0, 1}, menus: [][]string{mixedMenu, mixedMenu},
			q: vrt.Bounds{Dev: 2, Seconds: 100}, t: vrt.Bounds{Dev: 3, Seconds: 600}}),
		schedScenario(schedCfg{name: "uncle-noncritical", spec: A(tC, A(tC, tN)), threads: []int{0, 1, 2}, menus: [][]string{{"s:RUNNING", "s:ERROR"}, {"s:RUNNING", "s:ERROR"}, {"s:ERROR", "s:RUNNING t:ACTIVE"}},
			q: vrt.Bounds{Dev: 1, Seconds: 100}, t: vrt.Bounds{Dev: 2, Seconds: 600}}),
		schedScenario(schedCfg{name: "deep-iterator", spec: A(A(I(It(2, tC)))), threads: []int{0, 1}, menus: [][]string{stateMenu, stateMenu},
			q: vrt.Bounds{Dev: 1, Seconds: 100}, t: vrt.Bounds{Dev: 2, Seconds: 600}}),
		// the environment collects hooks (which resets the call role) while a task of the same aggregator reports
		schedScenario(schedCfg{name: "hooks-vs-task", spec: A(A(tC, CD())), threads: []int{0, 1},
			menus: [][]string{{"s:RUNNING", "s:ERROR", "s:ERROR s:RUNNING"}, {"s:ERROR h:trig", "h:all", "t:ACTIVE h:trig"}},
			q:     vrt.Bounds{Dev: 2, Seconds: 100}, t: vrt.Bounds{Dev: 3, Seconds: 600}}),
		// an inner aggregator goes X -> Y -> X under three updaters (needs a tree that is not fresh)
		schedScenario(schedCfg{name: "three-under-one", spec: A(A(tC, tC, A(tC))), threads: []int{0, 1, 2},
			prelude: []string{"0 t:ACTIVE", "1 t:UNDEPLOYABLE", "2 t:ACTIVE", "0 s:RUNNING", "1 s:ERROR", "2 s:RUNNING"},
			menus:   [][]string{{"t:INACTIVE", "s:CONFIGURED"}, {"t:ACTIVE", "s:RUNNING"}, {"t:UNDEPLOYABLE", "s:ERROR"}},
			q:       vrt.Bounds{Dev: 2, Seconds: 100}, t: vrt.Bounds{Dev: 3, Seconds: 900}}),
		schedScenario(schedCfg{name: "three-with-call", spec: A(A(tC, tC), cC), threads: []int{0, 1, 2}, menus: [][]string{{"s:RUNNING", "s:ERROR"}, {"s:RUNNING", "t:ACTIVE"}, callMenu},
			q: vrt.Bounds{Dev: 1, Seconds: 100}, t: vrt.Bounds{Dev: 2, Seconds: 900}}),
	})
}

// withSpecial keeps the trees that actually use an include or an iterator
// (the plain-aggregator ones are covered by state-seq/status-seq).
func withSpecial(in []*spec) []*spec {
	var has func(s *spec) bool
	has = func(s *spec) bool {
		if s.kind == kInc || s.kind == kIter {
			return true
		}
		for _, k := range s.kids {
			if has(k) {
				return true
			}
		}
		return false
	}
	var out []*spec
	for _, s := range in {
		if has(s) {
			out = append(out, s)
		}
	}
	return out
}

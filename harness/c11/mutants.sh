#!/bin/bash
# Demonstrates detection: applies every mutants/C11/*.patch to a scratch copy of /repo and
# lists the violation signatures ./check C11 reports in addition to those of the unchanged tree.
# Usage: harness/c11/mutants.sh [tier]      (never touches /repo)
set -u
V=$(cd "$(dirname "$0")/../.." && pwd)
TIER=${1:-quick}
export VERIF_WORK=${VERIF_WORK:-/tmp/vw-c11} GOFLAGS=-mod=mod GOPROXY=off GOSUMDB=off GOTOOLCHAIN=local
S=/tmp/repo-c11
rm -rf $S && cp -r /repo $S
sigs() { grep -E '^  [a-z0-9-]+:' | sed -E 's/^  ([^ ]+): .*/\1/' | sed -E 's/^[a-z0-9-]+://' | sort -u; }
cd $V
VERIF_REPO=$S ./check C11 --tier $TIER > /tmp/c11-mut-base.txt 2>&1
sigs < /tmp/c11-mut-base.txt > /tmp/c11-mut-base.sigs
echo "baseline (unchanged tree): $(wc -l < /tmp/c11-mut-base.sigs) clause(s)"
for p in $V/mutants/C11/[0-9]*.patch; do
  git -C $S checkout -q -- core && git -C $S apply $p || { echo "cannot apply $p"; continue; }
  VERIF_REPO=$S ./check C11 --tier $TIER > /tmp/c11-mut.txt 2>&1
  rc=$?
  echo "== $(basename $p): check exit $rc ; clauses not in the baseline:"
  # full signatures (scenario:clause) whose clause is new
  grep -E '^  [a-z0-9-]+:' /tmp/c11-mut.txt | sed -E 's/^  ([^ ]+): .*/\1/' | while read sig; do
    cl=${sig#*:}
    grep -qxF "$cl" /tmp/c11-mut-base.sigs || echo "   $sig"
  done | sort -u
done
git -C $S checkout -q -- core
rm -rf $S

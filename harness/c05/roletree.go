package main

import (
	"fmt"

	"github.com/AliceO2Group/Control/core/task"
	"github.com/AliceO2Group/Control/core/task/constraint"
	"github.com/AliceO2Group/Control/core/task/taskclass"
	"github.com/AliceO2Group/Control/core/workflow"
	vrt "github.com/AliceO2Group/Control/verif_vrt"
)

func toKV(c constraint.Constraints) (out []kv) {
	for _, x := range c {
		out = append(out, kv{x.Attribute, x.Value})
	}
	return
}

// scRoleTree: real role trees (YAML -> aggregatorRole/taskRole), real
// GenerateTaskDescriptors (roleBase.getConstraints) and real
// Manager.BuildDescriptorConstraints, against "nearest definition wins".
func scRoleTree() *vrt.Scenario {
	return &vrt.Scenario{Name: "roletree", Prop: "C05",
		Doc: "role trees of depth 3 loaded from YAML x template constraints: descriptor constraints and BuildDescriptorConstraints vs. 'nearest definition wins'",
		Direct: func(r *vrt.DirectReport, tier string) {
			quiet()
			o := newOnce(r)
			names := []string{"a", "b"}
			if tier == "thorough" {
				names = []string{"a", "b", "c"}
			}
			lv := levels(names, []string{"1", "2"}, false)
			clv := levels([]string{"a", "b"}, []string{"1", "2"}, false)
			sibling := constraint.Constraints{{Attribute: "a", Value: "2"}, {Attribute: "s", Value: "9"}}
			trees := 0
			for _, root := range lv {
				for _, grp := range lv {
					for _, role := range lv {
						rs := roundSpec{rootCts: toKV(root)}
						d0 := plainDesc("t0")
						d0.roleCts, d0.ancCts = toKV(role), toKV(grp)
						rs.descs = []descSpec{d0}
						// a sibling task role under the same enclosing role
						doc := rs.workflowYAML() + fmt.Sprintf("      - name: sib\n%s        task:\n          load: cls-sib\n", ctsYAML("        ", toKV(sibling)))
						tree, err := workflow.LoadRoleTreeForVerifC05([]byte(doc))
						if err != nil {
							o.fail("harness:workflow", "%v\n%s", err, doc)
							return
						}
						trees++
						ds := tree.GenerateTaskDescriptors()
						if len(ds) != 2 {
							o.fail("harness:descriptors", "%d descriptors\n%s", len(ds), doc)
							return
						}
						for i, nearest := range []constraint.Constraints{role, sibling} {
							diff := compareMerged(ds[i].RoleConstraints, nearest, grp, root)
							r.Count(fmt.Sprintf("tree role=%d defs=%d ok=%v", i, len(root)+len(grp)+len(nearest), diff == ""))
							if diff != "" {
								o.fail("role-constraints:"+diff, "levels nearest-first: %s <- %s <- %s; descriptor of %s has %s", ctsString(nearest), ctsString(grp), ctsString(root), ds[i].TaskRole.GetPath(), ctsString(ds[i].RoleConstraints))
							}
						}
						// second call must give the same (no state is consumed by the first)
						again := tree.GenerateTaskDescriptors()
						if len(again) != 2 || compareMerged(again[0].RoleConstraints, role, grp, root) != "" {
							o.fail("role-constraints:second-walk-differs", "levels nearest-first: %s <- %s <- %s", ctsString(role), ctsString(grp), ctsString(root))
						}
						// template constraints
						m, err := task.NewManagerForVerifC05(nil, 0, 0)
						if err != nil {
							o.fail("harness:manager", "%v", err)
							return
						}
						rolesOnly := refMerge(role, grp, root)
						for _, cc := range clv {
							cl := &taskclass.Class{Constraints: append([]constraint.Constraint{}, cc...)}
							m.VerifC05AddClass("cls-t0", cl)
							got := m.BuildDescriptorConstraints(ds)[ds[0]]
							// reading A: the template is the farthest level; reading B: the nearest
							dA := compareMerged(got, role, grp, root, cc)
							dB := compareMerged(got, cc, role, grp, root)
							conflict := false
							for _, c := range cc {
								if v, ok := rolesOnly[c.Attribute]; ok && v != c.Value {
									conflict = true
								}
							}
							r.Count(fmt.Sprintf("template defs=%d conflict-with-roles=%v ok=%v", len(cc), conflict, dA == "" || dB == ""))
							if dA != "" && dB != "" {
								o.fail("descriptor-constraints:"+dA, "roles nearest-first: %s <- %s <- %s, template %s: merged %s", ctsString(role), ctsString(grp), ctsString(root), ctsString(cc), ctsString(got))
							}
							if !same(cl.Constraints, cc) {
								o.fail("descriptor-constraints:template-changed", "template %s became %s", ctsString(cc), ctsString(cl.Constraints))
							}
						}
						// a descriptor whose template is unknown keeps the role constraints
						m2, _ := task.NewManagerForVerifC05(nil, 0, 0)
						if d := compareMerged(m2.BuildDescriptorConstraints(ds)[ds[0]], role, grp, root); d != "" {
							o.fail("descriptor-constraints:unknown-template:"+d, "roles nearest-first: %s <- %s <- %s", ctsString(role), ctsString(grp), ctsString(root))
						}
					}
				}
			}
			r.Samples = append(r.Samples, "roletree: root[a==1] <- grp[a==2 b==1] <- task[b==2], template[a==1]: descriptor constraints must be {a==2, b==2}")
			r.Notes = append(r.Notes, fmt.Sprintf("grid: %d trees (root role x enclosing role x task role, each one of %d levels over names %v x values 1,2; a sibling task role with its own constraints) x %d template levels; where template and roles disagree on an attribute either order of precedence is accepted (the statement does not rank the template)", trees, len(lv), names, len(clv)))
		}}
}

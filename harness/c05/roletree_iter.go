package main

import (
	"fmt"
	"sort"
	"strings"

	"github.com/AliceO2Group/Control/common/event"
	"github.com/AliceO2Group/Control/common/gera"
	"github.com/AliceO2Group/Control/common/utils/uid"
	"github.com/AliceO2Group/Control/core/task"
	"github.com/AliceO2Group/Control/core/task/constraint"
	"github.com/AliceO2Group/Control/core/task/taskclass"
	"github.com/AliceO2Group/Control/core/the"
	"github.com/AliceO2Group/Control/core/workflow"
	vrt "github.com/AliceO2Group/Control/verif_vrt"
	"github.com/spf13/viper"
)

// iterRepo stands for the workflow repository: it only turns class names into identifiers.
type iterRepo struct{}

func (iterRepo) GetIdentifier() string                                { return "verif/repo" }
func (iterRepo) GetCloneDir() string                                  { return "/nonexistent/verif/repo" }
func (iterRepo) GetProtocol() string                                  { return "local" }
func (iterRepo) GetHash() string                                      { return "h0" }
func (iterRepo) GetRevisions() []string                               { return nil }
func (iterRepo) GetDefaultRevision() string                           { return "local" }
func (iterRepo) IsDefault() bool                                      { return true }
func (iterRepo) GetTaskTemplatePath(s string) string                  { return "/nonexistent/" + s }
func (iterRepo) GetDplCommand(string) (string, error)                 { return "", fmt.Errorf("no dpl commands") }
func (iterRepo) ResolveTaskClassIdentifier(s string) string           { return "verif/repo/tasks/" + s + "@h0" }
func (iterRepo) ResolveSubworkflowTemplateIdentifier(s string) string { return s }

var iterInit bool

// scRoleTreeIter: the way production workflows pin tasks to hosts - a role iterated over the host list whose
// constraint value is a template expression of the iterator variable - goes through the real template processing
// (iterator expansion copies the role, constraint values are template fields) before the descriptors are generated.
// Oracle: every expanded task gets exactly the constraints its own copy of the tree defines, nearest definition wins.
func scRoleTreeIter() *vrt.Scenario {
	return &vrt.Scenario{Name: "roletree-iter", Prop: "C05",
		Doc: "role trees with an iterated role (aggregator or task role, range over the host list) whose constraints use the iterator variable / a workflow variable, through the real ProcessTemplates -> GenerateTaskDescriptors -> BuildDescriptorConstraints, vs. 'every constraint of the task's own expanded copy, nearest definition wins'",
		Direct: func(r *vrt.DirectReport, tier string) {
			quiet()
			if !iterInit {
				viper.Set("config_endpoint", "mock://")
				the.ConfSvc() // create the singleton outside the controlled world
				iterInit = true
			}
			o := newOnce(r)
			hostLists := [][]string{{"h1", "h2"}, {"h1"}}
			if tier == "thorough" {
				hostLists = append(hostLists, []string{"h1", "h2", "h3"})
			}
			type optCt struct{ name, yamlValue, value string } // value "" = absent
			kIter := []optCt{{"none", "", ""}, {"literal", "x", "x"}, {"workflow-variable", "{{ kval }}", "kv"}, {"iterator-variable", "k-{{ it }}", ""}}
			kRoot := []optCt{{"none", "", ""}, {"literal", "y", "y"}}
			jTask := []optCt{{"none", "", ""}, {"literal", "1", "1"}, {"iterator-variable", "j-{{ it }}", ""}}
			trees := 0
			for _, hosts := range hostLists {
				for _, shape := range []string{"iterated-aggregator", "iterated-task-role"} {
					for _, ki := range kIter {
						for _, kr := range kRoot {
							for _, jt := range jTask {
								if shape == "iterated-task-role" && jt.name != "none" && ki.name != "none" {
									continue // one role carries both lists in that shape: covered by ki alone
								}
								doc := "name: root\ndefaults:\n  hosts: '[\"" + strings.Join(hosts, "\",\"") + "\"]'\n  kval: \"kv\"\n"
								if kr.name != "none" {
									doc += ctsYAML("", []kv{{"k", kr.yamlValue}})
								}
								doc += "roles:\n"
								iterCts := []kv{{"machine_id", "{{ it }}"}}
								if ki.name != "none" {
									iterCts = append(iterCts, kv{"k", ki.yamlValue})
								}
								if shape == "iterated-aggregator" {
									doc += "  - name: \"host-{{ it }}\"\n    for:\n      range: \"{{ hosts }}\"\n      var: it\n" + ctsYAML("    ", iterCts) +
										"    roles:\n      - name: \"t0\"\n"
									if jt.name != "none" {
										doc += ctsYAML("        ", []kv{{"j", jt.yamlValue}})
									}
									doc += "        task:\n          load: cls-t0\n"
								} else {
									if jt.name != "none" {
										iterCts = append(iterCts, kv{"j", jt.yamlValue})
									}
									doc += "  - name: \"t0-{{ it }}\"\n    for:\n      range: \"{{ hosts }}\"\n      var: it\n" + ctsYAML("    ", iterCts) +
										"    task:\n      load: cls-t0\n"
								}
								trees++
								var ds task.Descriptors
								var loadErr error
								x := vrt.RunControlled(vrt.Config{}, func() {
									mk := func() func() gera.Map[string, string] {
										g := gera.MakeMap[string, string]()
										return func() gera.Map[string, string] { return g }
									}
									parent := workflow.NewParentAdapter(
										func() uid.ID { return uid.ID("verifenv") },
										func() uint32 { return 0 },
										mk(), mk(), mk(),
										func(event.Event) {})
									root, err := workflow.VerifC15Load(map[string]string{"": doc}, parent, iterRepo{}, map[string]string{})
									if err != nil {
										loadErr = err
										return
									}
									ds = root.GenerateTaskDescriptors()
								})
								class := fmt.Sprintf("%s hosts=%d k@iterated=%s k@root=%s j@task=%s", shape, len(hosts), ki.name, kr.name, jt.name)
								if len(x.Panics) > 0 || x.Deadlock != "" {
									o.fail("load-crashes-or-hangs", "%v %s\n%s", x.Panics, x.Deadlock, doc)
									continue
								}
								if loadErr != nil {
									o.fail("load-fails", "%v\n%s", loadErr, doc)
									continue
								}
								if len(ds) != len(hosts) {
									o.fail("descriptor-count", "%d descriptors for %d hosts\n%s", len(ds), len(hosts), doc)
									continue
								}
								// which expanded copy does a descriptor belong to? its role path names the host
								seen := map[string]bool{}
								ok := true
								for _, d := range ds {
									path := d.TaskRole.GetPath()
									host := ""
									for _, h := range hosts {
										if strings.Contains(path, "-"+h) {
											host = h
										}
									}
									if host == "" || seen[host] {
										o.fail("expansion", "descriptor path %q (hosts %v)\n%s", path, hosts, doc)
										ok = false
										continue
									}
									seen[host] = true
									want := map[string]string{"machine_id": host}
									if kr.name != "none" {
										want["k"] = kr.value
									}
									switch ki.name { // nearer than the root
									case "literal", "workflow-variable":
										want["k"] = ki.value
									case "iterator-variable":
										want["k"] = "k-" + host
									}
									switch jt.name {
									case "literal":
										want["j"] = jt.value
									case "iterator-variable":
										want["j"] = "j-" + host
									}
									if diff := diffCts(d.RoleConstraints, want); diff != "" {
										ok = false
										o.fail("role-constraints:"+diff, "%s: task %s should have %v, descriptor has %s\n%s", class, path, want, ctsString(d.RoleConstraints), doc)
									}
									// ... and the template's own constraints join them
									m, err := task.NewManagerForVerifC05(nil, 0, 0)
									if err != nil {
										o.fail("harness:manager", "%v", err)
										return
									}
									m.VerifC05AddClass(d.TaskClassName, &taskclass.Class{Constraints: constraint.Constraints{{Attribute: "t", Value: "9"}}})
									wantT := map[string]string{"t": "9"}
									for k, v := range want {
										wantT[k] = v
									}
									if diff := diffCts(m.BuildDescriptorConstraints(task.Descriptors{d})[d], wantT); diff != "" {
										ok = false
										o.fail("descriptor-constraints:"+diff, "%s: task %s with template [t==9] should have %v\n%s", class, path, wantT, doc)
									}
								}
								r.Count(fmt.Sprintf("%s ok=%v", class, ok))
							}
						}
					}
				}
			}
			r.Samples = append(r.Samples, "roletree-iter: root[k==y] <- host-{{ it }} for it in [h1 h2] [machine_id=={{ it }}, k=={{ kval }}] <- t0: two descriptors, {machine_id==h1,k==kv} and {machine_id==h2,k==kv}")
			r.Notes = append(r.Notes, fmt.Sprintf("grid: %d trees: host lists %v x {iterated aggregator role with a task role inside, iterated task role} x k at the iterated role {none, literal, workflow variable, iterator variable} x k at the root {none, literal} x j at the task role {none, literal, iterator variable}; machine_id == {{ it }} always", trees, hostLists))
		}}
}

// diffCts compares a constraint list with the expected attribute -> value map.
func diffCts(got constraint.Constraints, want map[string]string) string {
	g := map[string]string{}
	for _, c := range got {
		if _, dup := g[c.Attribute]; dup {
			return "attribute-defined-twice"
		}
		g[c.Attribute] = c.Value
	}
	var keys []string
	for k := range want {
		keys = append(keys, k)
	}
	sort.Strings(keys)
	for _, k := range keys {
		v, ok := g[k]
		switch {
		case !ok:
			return "constraint-lost"
		case v != want[k] && strings.Contains(v, "{{"):
			return "constraint-value-not-resolved"
		case v != want[k]:
			return "wrong-constraint-value"
		}
	}
	if len(g) != len(want) {
		return "constraint-from-nowhere"
	}
	return ""
}

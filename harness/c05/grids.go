package main

import (
	"fmt"
	"os"
	"strings"

	vrt "github.com/AliceO2Group/Control/verif_vrt"
)

func osArgs() (out []string) {
	for i, a := range os.Args {
		if a == "-tier" || a == "--tier" {
			if i+1 < len(os.Args) {
				out = append(out, os.Args[i+1])
			}
		}
		if strings.HasPrefix(a, "-tier=") || strings.HasPrefix(a, "--tier=") {
			out = append(out, a[strings.IndexByte(a, '=')+1:])
		}
	}
	return
}

func cat(l ...[]kv) (out []kv) {
	for _, x := range l {
		out = append(out, x...)
	}
	return
}

type portLayout struct {
	name  string
	ports [][2]uint64
}

var portLayouts = []portLayout{
	{"both", [][2]uint64{{9000, 9003}, {30000, 30003}}},
	{"none", nil},
	{"low-only", [][2]uint64{{9000, 9005}}},
	{"high-only", [][2]uint64{{30000, 30005}}},
	{"one-high-port", [][2]uint64{{30000, 30000}}},
	{"low-and-one-high", [][2]uint64{{9000, 9001}, {30000, 30000}}},
	{"below-9000-only", [][2]uint64{{1000, 1005}}},
}

func roundScenarios() []roundScenario {
	return []roundScenario{
		{name: "round-cts1", doc: "2 offers x attribute sets (k,j) x 1 descriptor with constraints at template / task role / enclosing role / root role",
			q: vrt.Bounds{Dev: 1, Seconds: 300}, t: vrt.Bounds{Dev: 2, Seconds: 1500},
			gen: func(tier string) roundSpec {
				h1, h2 := ampleOffer("h1"), ampleOffer("h2")
				if tier == "thorough" {
					h1.attrs = cat(optKV("h1.k", "k", "x", "y", "x,y"), optKV("h1.j", "j", "1"))
					h2.attrs = cat(optKV("h2.k", "k", "x", "y"), optKV("h2.j", "j", "1"))
				} else {
					h1.attrs = cat(optKV("h1.k", "k", "x", "y"), optKV("h1.j", "j", "1"))
					h2.attrs = []kv{{"k", pick("h2.k", "x", "y")}, {"j", "1"}}
				}
				d := plainDesc("t0")
				d.roleCts = cat(optKV("role.k", "k", "x", "y"), optKV("role.j", "j", "1"))
				d.ancCts = optKV("anc.k", "k", "x")
				d.classCts = optKV("class.j", "j", "1")
				return roundSpec{rootCts: optKV("root.k", "k", "y"), offers: []offerSpec{h1, h2}, descs: []descSpec{d}, request: true}
			}},
		{name: "round-machine-id", doc: "machine_id constraint (pre-matching): at task role / enclosing role, existing or unknown host, plus further constraints; optional second unconstrained descriptor",
			q: vrt.Bounds{Dev: 1, Seconds: 300}, t: vrt.Bounds{Dev: 2, Seconds: 1500},
			gen: func(tier string) roundSpec {
				h1, h2 := ampleOffer("h1"), ampleOffer("h2")
				h1.attrs = cat(optKV("h1.k", "k", "x", "y"), optKV("h1.j", "j", "1"))
				h2.attrs = []kv{{"k", "x"}, {"j", "1"}}
				d := plainDesc("t0")
				mid := []kv{{"machine_id", pick("machine_id", "h1", "h2", "h9")}}
				d.classCts = optKV("class.j", "j", "1")
				d.roleCts = optKV("role.k", "k", "x", "y")
				if pick("mid.level", "task-role", "enclosing-role") == "task-role" {
					d.roleCts = cat(d.roleCts, mid)
				} else {
					d.ancCts = mid
				}
				rs := roundSpec{offers: []offerSpec{h1, h2}, descs: []descSpec{d}, request: true}
				if vrt.ChooseFree(2, "second-descriptor") == 1 {
					rs.descs = append(rs.descs, plainDesc("t1"))
				}
				return rs
			}},
		{name: "round-cts2", doc: "2 descriptors with constraints competing for 2 offers",
			q: vrt.Bounds{Dev: 1, Seconds: 300}, t: vrt.Bounds{Dev: 2, Seconds: 1500},
			gen: func(tier string) roundSpec {
				h1, h2 := ampleOffer("h1"), ampleOffer("h2")
				h1.attrs = cat([]kv{{"k", pick("h1.k", "x", "y")}}, optKV("h1.j", "j", "1"))
				h2.attrs = []kv{{"k", "x"}, {"j", "1"}}
				if tier == "thorough" {
					h2.attrs = cat([]kv{{"k", pick("h2.k", "x", "y")}}, optKV("h2.j", "j", "1"))
				}
				rs := roundSpec{offers: []offerSpec{h1, h2}, request: true}
				for i := 0; i < 2; i++ {
					d := plainDesc(fmt.Sprintf("t%d", i))
					d.roleCts = optKV(d.name+".role.k", "k", "x", "y")
					d.ancCts = optKV(d.name+".anc.j", "j", "1")
					rs.descs = append(rs.descs, d)
				}
				return rs
			}},
		{name: "round-scalars", doc: "1-2 offers (cpus x mem) x 1-2 (thorough 3) descriptors (cpu x mem wants; thorough: limits block), free or all pinned to the first host by machine_id (pre-matching path) x executor share {0, the default 0.01 cpu / 64 MB}",
			q: vrt.Bounds{Dev: 1, Seconds: 300}, t: vrt.Bounds{Dev: 1, Seconds: 1500},
			gen: func(tier string) roundSpec {
				h1 := ampleOffer("h1")
				h1.cpu = pick("offer.cpu", 1.0, 2.0)
				h1.mem = pick("offer.mem", 128.0, 256.0)
				rs := roundSpec{offers: []offerSpec{h1}, request: true}
				if c2 := pick("offer2.cpu", 0.0, 1.0, 2.0); c2 > 0 {
					h2 := ampleOffer("h2")
					h2.cpu, h2.mem = c2, 256
					rs.offers = append(rs.offers, h2)
				}
				if vrt.ChooseFree(2, "executor-overhead") == 1 {
					rs.execCPU, rs.execMem = 0.01, 64
				}
				maxN := 2
				if tier == "thorough" {
					maxN = 3
				}
				// pinned: every descriptor names its host (machine_id == h1, the way production workflows do): the handler then
				// takes its pre-matching path (a loop of its own, with its own fit test and its own verdict "undeployable")
				pinned := vrt.ChooseFree(2, "pinned-to-h1") == 1
				n := 1 + vrt.ChooseFree(maxN, "descriptors")
				for i := 0; i < n; i++ {
					d := plainDesc(fmt.Sprintf("t%d", i))
					if pinned {
						d.roleCts = []kv{{"machine_id", "h1"}}
					}
					d.cpu = pick(d.name+".cpu", 1.0, 2.0)
					d.mem = pick(d.name+".mem", 128.0, 256.0)
					if i == 0 && tier == "thorough" {
						d.limits = vrt.ChooseFree(2, "limits") == 1
					}
					rs.descs = append(rs.descs, d)
				}
				return rs
			}},
		{name: "round-ports", doc: "1 offer x 7 port layouts x 1-2 descriptors, free or pinned to the host by machine_id (pre-matching path) (static ranges, 0-2 tcp channels in the template, 0-1 tcp channel with a global alias added by the task role, optionally re-defining the template's tcp0, control mode; thorough: channel at the enclosing role, ipc channel, fairmq, hook)",
			q: vrt.Bounds{Dev: 1, Seconds: 300}, t: vrt.Bounds{Dev: 2, Seconds: 1500},
			gen: func(tier string) roundSpec {
				h1 := ampleOffer("h1")
				pl := portLayouts[vrt.ChooseFree(len(portLayouts), "offer.ports")]
				h1.ports, h1.portsName = pl.ports, pl.name
				rs := roundSpec{offers: []offerSpec{h1}, request: true}
				pinned := vrt.ChooseFree(2, "pinned-to-h1") == 1
				n := 1 + vrt.ChooseFree(2, "descriptors")
				for i := 0; i < n; i++ {
					d := plainDesc(fmt.Sprintf("t%d", i))
					if pinned {
						d.roleCts = []kv{{"machine_id", "h1"}}
					}
					d.static = pick(d.name+".static", [][2]uint64(nil), [][2]uint64{{9000, 9000}}, [][2]uint64{{30000, 30001}})
					d.tcp = vrt.ChooseFree(3, d.name+".tcp")
					if i == 0 {
						// inbound channels the workflow adds to the task (task role: rtcp0 with a global alias, optionally
						// re-defining the template's tcp0; thorough: one more at the enclosing role)
						switch pick(d.name+".role-bind", "none", "rtcp0", "rtcp0+tcp0") {
						case "rtcp0":
							d.roleTcp = 1
						case "rtcp0+tcp0":
							d.roleTcp, d.roleDup = 1, true
						}
						if tier == "thorough" {
							d.ancTcp = vrt.ChooseFree(2, d.name+".encl-bind")
						}
					}
					if tier == "thorough" && i == 0 {
						d.ipc = vrt.ChooseFree(2, d.name+".ipc")
						d.mode = pick(d.name+".mode", "direct", "basic", "fairmq", "hook")
					} else {
						d.mode = pick(d.name+".mode", "direct", "basic")
					}
					if d.mode == "hook" {
						d.mode, d.hook = "basic", true
					}
					rs.descs = append(rs.descs, d)
				}
				return rs
			}},
		{name: "round-decline", doc: "1-3 offers (k in {x,y}; 0-2 executors on the first) x {no request, one descriptor wanting k=x, one undeployable descriptor}",
			q: vrt.Bounds{Dev: 1, Seconds: 300}, t: vrt.Bounds{Dev: 2, Seconds: 1500},
			gen: func(tier string) roundSpec {
				n := 1 + vrt.ChooseFree(3, "offers")
				rs := roundSpec{}
				for i := 0; i < n; i++ {
					o := ampleOffer(fmt.Sprintf("h%d", i+1))
					o.attrs = []kv{{"k", pick(o.host+".k", "x", "y")}}
					if i == 0 {
						o.executors = vrt.ChooseFree(3, "executors")
					}
					rs.offers = append(rs.offers, o)
				}
				switch pick("request", "none", "k=x", "machine_id=h9") {
				case "k=x":
					d := plainDesc("t0")
					d.roleCts = []kv{{"k", "x"}}
					rs.descs, rs.request = []descSpec{d}, true
				case "machine_id=h9":
					d := plainDesc("t0")
					d.roleCts = []kv{{"machine_id", "h9"}}
					rs.descs, rs.request = []descSpec{d}, true
				}
				return rs
			}},
	}
}

#!/bin/bash
# Detection demo for C05: applies every mutants/C05/*.patch to a scratch copy of the
# repository (never to /repo), runs ./check C05 on it and prints the violation
# signatures that do not occur on the unchanged tree.
#   usage: harness/c05/mutants.sh [tier]
set -u
V=$(cd "$(dirname "$0")/../.." && pwd)
SRC=${VERIF_REPO_SRC:-/repo}
SCRATCH=${SCRATCH:-/tmp/repo-c05}
TIER=${1:-quick}
export GOFLAGS=-mod=mod GOPROXY=off GOSUMDB=off GOTOOLCHAIN=local
sigs() { grep -v '^VIOLATION\|^KNOWN\|^C05 ' | sed -n 's/^  \([a-z0-9-]*:[^ ]*[a-z)0-9]\)[: ].*$/\1/p' | sed 's/:$//' | sort -u; }
rm -rf "$SCRATCH"; mkdir -p "$SCRATCH"
(cd "$SRC" && tar --exclude=.git -cf - .) | (cd "$SCRATCH" && tar xf -)
(cd "$SCRATCH" && git init -q && git add -A >/dev/null 2>&1 && git -c user.name=v -c user.email=v@v commit -qm base)
cd "$V"
VERIF_REPO="$SCRATCH" VERIF_WORK=/tmp/vw-c05m ./check C05 --tier "$TIER" | sigs > /tmp/c05-base-sigs.txt
echo "unchanged tree: $(wc -l < /tmp/c05-base-sigs.txt) signatures"
for p in "$V"/mutants/C05/*.patch; do
  (cd "$SCRATCH" && git checkout -q . && git apply "$p") || { echo "cannot apply $p"; continue; }
  VERIF_REPO="$SCRATCH" VERIF_WORK=/tmp/vw-c05m ./check C05 --tier "$TIER" | sigs > /tmp/c05-mut-sigs.txt
  echo "== $(basename "$p"): new signatures:"
  comm -13 /tmp/c05-base-sigs.txt /tmp/c05-mut-sigs.txt | sed 's/^/     /'
done
rm -rf "$SCRATCH"

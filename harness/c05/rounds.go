// C05 part (b): whole offer rounds through the real OFFERS handler
// (core/task/scheduler.go: resourceOffers + makeTaskForMesosResources) with a
// recording Mesos master in place of the HTTP client. The oracle looks only at
// the ACCEPT / DECLINE calls the master received, joined with the offers it
// sent and the task templates / role tree it was given.
package main

import (
	"context"
	"encoding/json"
	"fmt"
	"sort"
	"strings"

	"github.com/AliceO2Group/Control/common/utils/uid"
	"github.com/AliceO2Group/Control/core/task"
	"github.com/AliceO2Group/Control/core/task/channel"
	"github.com/AliceO2Group/Control/core/task/taskclass"
	"github.com/AliceO2Group/Control/core/task/taskclass/port"
	"github.com/AliceO2Group/Control/core/workflow"
	vrt "github.com/AliceO2Group/Control/verif_vrt"
	mesos "github.com/mesos/mesos-go/api/v1/lib"
	"github.com/mesos/mesos-go/api/v1/lib/resources"
	"github.com/mesos/mesos-go/api/v1/lib/scheduler"
	"github.com/spf13/viper"
	"gopkg.in/yaml.v3"
)

type kv struct{ k, v string }

type offerSpec struct {
	host      string
	attrs     []kv // besides machine_id
	cpu, mem  float64
	ports     [][2]uint64
	portsName string
	executors int
}

func (o offerSpec) id() string { return "offer-" + o.host }
func (o offerSpec) attrMap() attrMap {
	m := attrMap{"machine_id": o.host}
	for _, a := range o.attrs {
		m[a.k] = a.v
	}
	return m
}

type descSpec struct {
	name     string // task role name; its template is "cls-<name>"
	classCts []kv
	roleCts  []kv
	ancCts   []kv
	cpu, mem float64
	static   [][2]uint64
	tcp, ipc int
	mode     string // direct | fairmq | basic
	hook     bool
	limits   bool // template has a limits block
	// inbound tcp channels defined in the workflow, not in the template: at the task role ("rtcp<i>", the first one with
	// a global alias, which names the same endpoint a second time and needs no port of its own) and at the enclosing
	// role ("atcp<i>"); roleDup: the task role additionally re-defines the template's channel tcp0 (one channel, one port)
	roleTcp, ancTcp int
	roleDup         bool
}

// tcpChannels lists the names of the inbound tcp channels the task ends up with (template, task role, enclosing role).
func (d descSpec) tcpChannels() (out []string) {
	for i := 0; i < d.tcp; i++ {
		out = append(out, fmt.Sprintf("tcp%d", i))
	}
	if d.roleDup && d.tcp == 0 {
		out = append(out, "tcp0")
	}
	for i := 0; i < d.roleTcp; i++ {
		out = append(out, fmt.Sprintf("rtcp%d", i))
	}
	for i := 0; i < d.ancTcp; i++ {
		out = append(out, fmt.Sprintf("atcp%d", i))
	}
	return
}

func bindYAML(indent string, names []string, globalFirst bool) string {
	if len(names) == 0 {
		return ""
	}
	s := indent + "bind:\n"
	for i, n := range names {
		s += fmt.Sprintf("%s  - name: %s\n%s    type: push\n", indent, n, indent)
		if i == 0 && globalFirst {
			s += fmt.Sprintf("%s    global: galias-%s\n", indent, n)
		}
	}
	return s
}

func (d descSpec) roleBindYAML(indent string) string {
	var names []string
	for i := 0; i < d.roleTcp; i++ {
		names = append(names, fmt.Sprintf("rtcp%d", i))
	}
	if d.roleDup {
		names = append(names, "tcp0")
	}
	return bindYAML(indent, names, d.roleTcp > 0)
}

func (d descSpec) ancBindYAML(indent string) string {
	var names []string
	for i := 0; i < d.ancTcp; i++ {
		names = append(names, fmt.Sprintf("atcp%d", i))
	}
	return bindYAML(indent, names, false)
}

func (d descSpec) class() string      { return "cls-" + d.name }
func (d descSpec) controllable() bool { return d.mode != "basic" }

type roundSpec struct {
	rootCts          []kv
	offers           []offerSpec
	descs            []descSpec
	request          bool
	execCPU, execMem float64
}

// describe is the input class written to the observation log.
func (rs roundSpec) describe() string {
	var b strings.Builder
	fmt.Fprintf(&b, "request=%v exec=%v/%v root=%v", rs.request, rs.execCPU, rs.execMem, rs.rootCts)
	for _, o := range rs.offers {
		fmt.Fprintf(&b, " | %s attrs=%v cpu=%v mem=%v ports=%s executors=%d", o.host, o.attrs, o.cpu, o.mem, o.portsName, o.executors)
	}
	for _, d := range rs.descs {
		fmt.Fprintf(&b, " | %s tmpl=%v role=%v encl=%v cpu=%v mem=%v static=%v tcp=%d ipc=%d mode=%s hook=%v limits=%v", d.name, d.classCts, d.roleCts, d.ancCts, d.cpu, d.mem, d.static, d.tcp, d.ipc, d.mode, d.hook, d.limits)
		if d.roleTcp+d.ancTcp > 0 || d.roleDup {
			fmt.Fprintf(&b, " role-tcp=%d encl-tcp=%d role-redefines-tcp0=%v", d.roleTcp, d.ancTcp, d.roleDup)
		}
	}
	return b.String()
}

func ctsYAML(indent string, c []kv) string {
	if len(c) == 0 {
		return ""
	}
	s := indent + "constraints:\n"
	for _, x := range c {
		s += fmt.Sprintf("%s  - attribute: %s\n%s    value: %q\n", indent, x.k, indent, x.v)
	}
	return s
}

func (rs roundSpec) workflowYAML() string {
	s := "name: root\n" + ctsYAML("", rs.rootCts) + "roles:\n"
	for _, d := range rs.descs {
		s += fmt.Sprintf("  - name: grp-%s\n%s%s    roles:\n      - name: %s\n%s%s        task:\n          load: %s\n",
			d.name, ctsYAML("    ", d.ancCts), d.ancBindYAML("    "), d.name, ctsYAML("        ", d.roleCts), d.roleBindYAML("        "), d.class())
		if d.hook {
			s += "          trigger: before_START_ACTIVITY\n          timeout: 5s\n"
		}
	}
	return s
}

func (d descSpec) templateYAML() string {
	s := fmt.Sprintf("name: %s\ncontrol:\n  mode: %s\nwants:\n  cpu: %v\n  memory: %v\n", d.class(), d.mode, d.cpu, d.mem)
	if d.limits {
		s += "limits:\n  cpu: 4\n  memory: 8192\n"
	}
	if d.tcp+d.ipc > 0 {
		s += "bind:\n"
		for i := 0; i < d.ipc; i++ {
			s += fmt.Sprintf("  - name: ipc%d\n    type: push\n    transport: shmem\n    addressing: ipc\n", i)
		}
		for i := 0; i < d.tcp; i++ {
			s += fmt.Sprintf("  - name: tcp%d\n    type: push\n", i)
		}
	}
	s += ctsYAML("", d.classCts)
	s += "command:\n  shell: true\n  value: \"true\"\n"
	return s
}

// recording master
type master struct {
	calls []*scheduler.Call
}

func (m *master) Call(_ context.Context, c *scheduler.Call) (mesos.Response, error) {
	vrt.Yield("master-call")
	m.calls = append(m.calls, c)
	return nil, nil
}

func buildOffer(o offerSpec) mesos.Offer {
	of := mesos.Offer{
		ID:          mesos.OfferID{Value: o.id()},
		FrameworkID: mesos.FrameworkID{Value: "fw"},
		AgentID:     mesos.AgentID{Value: "agent-" + o.host},
		Hostname:    o.host,
	}
	of.Attributes = append(of.Attributes, mkAttr("machine_id", o.host))
	for _, a := range o.attrs {
		of.Attributes = append(of.Attributes, mkAttr(a.k, a.v))
	}
	if o.cpu > 0 {
		of.Resources = append(of.Resources, resources.NewCPUs(o.cpu).Resource)
	}
	if o.mem > 0 {
		of.Resources = append(of.Resources, resources.NewMemory(o.mem).Resource)
	}
	if len(o.ports) > 0 {
		of.Resources = append(of.Resources, portsResource(o.ports...))
	}
	for i := 0; i < o.executors; i++ {
		of.ExecutorIDs = append(of.ExecutorIDs, mesos.ExecutorID{Value: fmt.Sprintf("exec-%s-%d", o.host, i)})
	}
	return of
}

// effective constraints under one reading; level names the definition that is effective.
type effCt struct{ value, level string }

func effective(rs roundSpec, d descSpec, templateNearest bool) map[string]effCt {
	m := map[string]effCt{}
	put := func(c []kv, level string) {
		for _, x := range c {
			m[x.k] = effCt{x.v, level}
		}
	}
	// farthest first, nearer ones overwrite
	if !templateNearest {
		put(d.classCts, "template")
	}
	put(rs.rootCts, "root-role")
	put(d.ancCts, "enclosing-role")
	put(d.roleCts, "task-role")
	if templateNearest {
		put(d.classCts, "template")
	}
	return m
}

func violated(am attrMap, eff map[string]effCt) (string, bool) {
	var keys []string
	for k := range eff {
		keys = append(keys, k)
	}
	sort.Strings(keys)
	for _, k := range keys {
		if ok, why := holds(am, k, eff[k].value); !ok {
			return fmt.Sprintf("%s-defined-at-%s", why, eff[k].level), true
		}
	}
	return "", false
}

type launched struct {
	offer string
	ti    mesos.TaskInfo
}

func sumScalar(rs []mesos.Resource, name string) (s float64) {
	for _, r := range rs {
		if r.GetName() == name && r.GetScalar() != nil {
			s += r.GetScalar().GetValue()
		}
	}
	return
}

func portList(rs []mesos.Resource) (out []uint64) {
	for _, r := range rs {
		if r.GetName() == "ports" && r.GetRanges() != nil {
			for _, g := range r.GetRanges().GetRange() {
				for p := g.GetBegin(); p <= g.GetEnd() && p-g.GetBegin() < 100000; p++ {
					out = append(out, p)
				}
			}
		}
	}
	return
}

func fmtPorts(p []uint64) string {
	sort.Slice(p, func(i, j int) bool { return p[i] < p[j] })
	return fmt.Sprint(p)
}

const eps = 1e-9

// runRound executes one offer round on fresh objects and applies the oracle.
func runRound(rs roundSpec) (nCalls int) {
	ms := &master{}
	m, err := task.NewManagerForVerifC05(ms, rs.execCPU, rs.execMem)
	if err != nil {
		vrt.Fail("harness:manager", "%v", err)
		return
	}
	for _, d := range rs.descs {
		var cl taskclass.Class
		if err := yaml.Unmarshal([]byte(d.templateYAML()), &cl); err != nil {
			vrt.Fail("harness:template", "%v\n%s", err, d.templateYAML())
			return
		}
		// static ranges are put in parsed form: the textual form is the business of scenario "ports"
		for _, s := range d.static {
			cl.Wants.Ports = append(cl.Wants.Ports, port.Range{Begin: s[0], End: s[1]})
		}
		m.VerifC05AddClass(d.class(), &cl)
	}
	root, err := workflow.LoadRoleTreeForVerifC05([]byte(rs.workflowYAML()))
	if err != nil {
		vrt.Fail("harness:workflow", "%v\n%s", err, rs.workflowYAML())
		return
	}
	ds := root.GenerateTaskDescriptors()
	if len(ds) != len(rs.descs) {
		vrt.Fail("harness:descriptors", "%d descriptors for %d task roles", len(ds), len(rs.descs))
		return
	}
	var offers []mesos.Offer
	byID := map[string]offerSpec{}
	for _, o := range rs.offers {
		offers = append(offers, buildOffer(o))
		byID[o.id()] = o
	}
	byClass := map[string]descSpec{}
	for _, d := range rs.descs {
		byClass[d.class()] = d
	}

	vrt.Logf("input %s", rs.describe())
	out := m.VerifC05OfferRound(context.Background(), offers, ds, uid.New(), rs.request)

	// ---- what the master saw
	var ls []launched
	declined := map[string]int{}
	emptyAccept := map[string]int{}
	for _, c := range ms.calls {
		switch c.GetType() {
		case scheduler.Call_ACCEPT:
			n := 0
			for _, op := range c.GetAccept().GetOperations() {
				if op.GetType() != mesos.Offer_Operation_LAUNCH {
					vrt.Fail("unexpected-operation", "%v", op.GetType())
					continue
				}
				for _, ti := range op.GetLaunch().GetTaskInfos() {
					n++
					if len(c.GetAccept().GetOfferIDs()) != 1 {
						vrt.Fail("launch-on-several-offers", "ACCEPT with %d offers and tasks", len(c.GetAccept().GetOfferIDs()))
						continue
					}
					ls = append(ls, launched{c.GetAccept().GetOfferIDs()[0].Value, ti})
				}
			}
			if n == 0 {
				for _, id := range c.GetAccept().GetOfferIDs() {
					emptyAccept[id.Value]++
				}
			}
		case scheduler.Call_DECLINE:
			for _, id := range c.GetDecline().GetOfferIDs() {
				declined[id.Value]++
			}
		default:
			vrt.Logf("call %v", c.GetType())
		}
	}
	sort.SliceStable(ls, func(i, j int) bool {
		return ls[i].ti.Name[:strings.IndexByte(ls[i].ti.Name+"#", '#')] < ls[j].ti.Name[:strings.IndexByte(ls[j].ti.Name+"#", '#')]
	})
	taskByID := map[string]*task.Task{}
	for _, dep := range out.Deployed {
		taskByID[dep.Task.GetTaskId()] = dep.Task
	}

	type handed struct {
		port uint64
		kind string
		who  string
	}
	perAgent := map[string][]handed{}
	perOffer := map[string][]launched{}
	var logLines []string
	for _, l := range ls {
		o, ok := byID[l.offer]
		if !ok {
			vrt.Fail("launch-on-unknown-offer", "offer %s", l.offer)
			continue
		}
		perOffer[l.offer] = append(perOffer[l.offer], l)
		cls := l.ti.Name
		if i := strings.IndexByte(cls, '#'); i >= 0 {
			cls = cls[:i]
		}
		d, ok := byClass[cls]
		if !ok {
			vrt.Fail("launch-of-unknown-task", "task %s", l.ti.Name)
			continue
		}
		if l.ti.AgentID.Value != "agent-"+o.host {
			vrt.Fail("launch-names-other-agent-than-the-offer", "task %s on offer %s names agent %s", cls, l.offer, l.ti.AgentID.Value)
		}
		// (1) constraints, under either reading of where the template stands
		am := o.attrMap()
		effA := effective(rs, d, false)
		wA, vA := violated(am, effA)
		_, vB := violated(am, effective(rs, d, true))
		if vA && vB {
			n := "one-of-several-constraints"
			if len(effA) == 1 {
				n = "sole-constraint"
			}
			vrt.Fail("launch-on-agent-violating-constraint:"+n, "task %s launched on %s attributes=%v (%s); constraints: template=%v task-role=%v enclosing-role=%v root-role=%v",
				cls, o.host, am, wA, d.classCts, d.roleCts, d.ancCts, rs.rootCts)
		}
		// (2) the offer covers what the template asks for
		offered := rangesToSet(o.ports...)
		static := rangesToSet(d.static...)
		need := len(static) + len(d.tcpChannels())
		if d.controllable() {
			need++
		}
		switch {
		case o.cpu+eps < d.cpu:
			vrt.Fail("launch-on-offer-not-covering-wants:cpus", "task %s wants cpu %v, offer %s has %v", cls, d.cpu, l.offer, o.cpu)
		case o.mem+eps < d.mem:
			vrt.Fail("launch-on-offer-not-covering-wants:mem", "task %s wants mem %v, offer %s has %v", cls, d.mem, l.offer, o.mem)
		case !subset(static, offered):
			vrt.Fail("launch-on-offer-not-covering-wants:static-ports", "task %s static %v, offer %s ports %v", cls, d.static, l.offer, o.ports)
		case len(offered) < need:
			vrt.Fail("launch-on-offer-not-covering-wants:port-count", "task %s needs %d ports (static %d, tcp channels %d, control %v), offer %s has %d", cls, need, len(static), len(d.tcpChannels()), d.controllable(), l.offer, len(offered))
		}
		// (3) ports handed to the task
		var hs []handed
		for p := range static {
			hs = append(hs, handed{p, "static", cls})
		}
		if t := taskByID[l.ti.TaskID.Value]; t != nil {
			bm := t.GetLocalBindMap()
			for _, chName := range d.tcpChannels() {
				ep, ok := bm[chName]
				te, isTcp := ep.(channel.TcpEndpoint)
				if !ok || !isTcp {
					where := "workflow-role"
					for i := 0; i < d.tcp; i++ {
						if chName == fmt.Sprintf("tcp%d", i) {
							where = "template"
						}
					}
					vrt.Fail("tcp-channel-without-port:defined-in-"+where, "task %s channel %s endpoint %v (bind map %v)", cls, chName, ep, bm)
					continue
				}
				hs = append(hs, handed{te.Port, "dynamic", cls})
			}
		} else if out.GotOutcome {
			vrt.Logf("launched task %s is not in the reported deployment map", cls)
		}
		var tci struct {
			ControlPort uint64 `json:"controlPort"`
		}
		if err := json.Unmarshal(l.ti.Data, &tci); err != nil {
			vrt.Fail("harness:taskinfo-data", "%v", err)
		}
		if d.controllable() {
			hs = append(hs, handed{tci.ControlPort, "control", cls})
		}
		req := portList(l.ti.Resources)
		reqSet := portSet{}
		for _, p := range req {
			if reqSet[p] {
				vrt.Fail("port-requested-twice-by-one-task", "task %s requests %v", cls, req)
			}
			reqSet[p] = true
			if !offered[p] {
				vrt.Fail("requested-port-not-in-offer", "task %s requests port %d, offer %s has %v", cls, p, l.offer, o.ports)
			}
		}
		for _, h := range hs {
			if !offered[h.port] {
				vrt.Fail("handed-port-not-in-offer:"+h.kind, "task %s %s port %d, offer %s has %v (%s)", cls, h.kind, h.port, l.offer, o.ports, o.portsName)
			}
			if !reqSet[h.port] {
				vrt.Fail("handed-port-not-requested:"+h.kind, "task %s %s port %d, requested %v", cls, h.kind, h.port, req)
			}
		}
		extra := len(req) - len(static) - len(d.tcpChannels())
		distinct := portSet{}
		for _, h := range hs {
			distinct[h.port] = true
		}
		if len(distinct) != len(hs) {
			// reported below as port-handed-twice-on-agent
		} else if d.controllable() && extra != 1 || !d.controllable() && (extra < 0 || extra > 1) {
			vrt.Fail("requested-port-count", "task %s requests %d ports: static %d + tcp channels %d + control (controllable=%v)", cls, len(req), len(static), len(d.tcpChannels()), d.controllable())
		}
		perAgent[o.host] = append(perAgent[o.host], hs...)
		var hp []uint64
		for _, h := range hs {
			hp = append(hp, h.port)
		}
		logLines = append(logLines, fmt.Sprintf("launch %s@%s cpus=%v mem=%v requested=%s handed=%s", cls, o.host, sumScalar(l.ti.Resources, "cpus"), sumScalar(l.ti.Resources, "mem"), fmtPorts(req), fmtPorts(hp)))
	}
	// (4) pairwise distinct on an agent
	for host, hs := range perAgent {
		seen := map[uint64]handed{}
		sort.SliceStable(hs, func(i, j int) bool {
			if hs[i].port != hs[j].port {
				return hs[i].port < hs[j].port
			}
			return hs[i].kind < hs[j].kind
		})
		for _, h := range hs {
			if p, dup := seen[h.port]; dup {
				vrt.Fail(fmt.Sprintf("port-handed-twice-on-agent:%s+%s", p.kind, h.kind), "agent %s port %d is %s port of %s and %s port of %s", host, h.port, p.kind, p.who, h.kind, h.who)
			}
			seen[h.port] = h
		}
	}
	// (5) the sum of the requests on one offer stays within the offer
	for id, l := range perOffer {
		o := byID[id]
		var cpu, mem, wcpu, wmem float64
		for _, x := range l {
			cpu += sumScalar(x.ti.Resources, "cpus")
			mem += sumScalar(x.ti.Resources, "mem")
			cls := x.ti.Name
			if i := strings.IndexByte(cls, '#'); i >= 0 {
				cls = cls[:i]
			}
			wcpu += byClass[cls].cpu
			wmem += byClass[cls].mem
		}
		why := func(wants, have float64) string {
			if wants > have+eps {
				return "sum-of-template-wants"
			}
			return "executor-share-on-top-of-wants"
		}
		if cpu > o.cpu+eps {
			vrt.Fail("requests-exceed-offer:cpus:"+why(wcpu, o.cpu), "offer %s has cpus %v, %d task(s) request %v (templates want %v, executor share %v per task)", id, o.cpu, len(l), cpu, wcpu, rs.execCPU)
		}
		if mem > o.mem+eps {
			vrt.Fail("requests-exceed-offer:mem:"+why(wmem, o.mem), "offer %s has mem %v, %d task(s) request %v (templates want %v, executor share %v per task)", id, o.mem, len(l), mem, wmem, rs.execMem)
		}
		seen := portSet{}
		for _, x := range l {
			for _, p := range portList(x.ti.Resources) {
				if seen[p] && len(l) > 1 {
					vrt.Fail("requests-exceed-offer:ports:port-requested-by-two-tasks", "offer %s port %d", id, p)
				}
				seen[p] = true
			}
		}
	}
	// (6) unused offers are declined
	situation := "no-request"
	if rs.request {
		situation = "nothing-launched"
		if len(out.Undeployable) > 0 {
			situation = "undeployable-verdict"
		} else if len(ls) > 0 {
			situation = "another-offer-used"
		}
	}
	var decl []string
	for _, o := range rs.offers {
		used := len(perOffer[o.id()]) > 0
		if !used && declined[o.id()] == 0 && emptyAccept[o.id()] == 0 {
			vrt.Fail("unused-offer-not-declined:"+situation, "offer %s: no task launched on it, not in any DECLINE, no empty ACCEPT; calls=%d", o.id(), len(ms.calls))
		}
		if declined[o.id()] > 0 {
			decl = append(decl, o.host)
		}
	}
	if out.HandlerErr != nil {
		vrt.Logf("handler error %v", out.HandlerErr)
	}
	sort.Strings(logLines)
	for _, l := range logLines {
		vrt.Logf("%s", l)
	}
	vrt.Logf("declined=%v outcome=%v deployed=%d undeployed=%d undeployable=%d", decl, out.GotOutcome, len(out.Deployed), len(out.Undeployed), len(out.Undeployable))
	return len(ms.calls)
}

// ---------------------------------------------------------------------------
// input grids (every ChooseFree is an input dimension, explored completely)

func pick[T any](label string, xs ...T) T { return xs[vrt.ChooseFree(len(xs), label)] }

func optKV(label, k string, vals ...string) []kv {
	i := vrt.ChooseFree(len(vals)+1, label)
	if i == 0 {
		return nil
	}
	return []kv{{k, vals[i-1]}}
}

var amplePorts = [][2]uint64{{9000, 9019}, {30000, 30019}}

func ampleOffer(host string) offerSpec {
	return offerSpec{host: host, cpu: 8, mem: 4096, ports: amplePorts, portsName: "ample"}
}

func plainDesc(name string) descSpec {
	return descSpec{name: name, cpu: 1, mem: 128, mode: "direct"}
}

type roundScenario struct {
	name, doc string
	gen       func(tier string) roundSpec
	q, t      vrt.Bounds
}

var tierNow = "quick"

func mkRound(rsn roundScenario) *vrt.Scenario {
	var calls int
	sc := &vrt.Scenario{Name: rsn.name, Prop: "C05", Doc: rsn.doc, Quick: rsn.q, Thorough: rsn.t,
		DeadlockClause: "offer-round-hangs", PanicClause: "panic",
		Setup: func() {
			quiet()
			viper.Set("configServiceUri", "mock://")
		},
		NonTrivial: func(x *vrt.Exec) bool { return calls > 0 },
	}
	sc.Body = func() {
		calls = 0
		sc.PanicClause = "panic"
		rs := rsn.gen(tierNow)
		// witness for crashes: the port layout of the offers (input class)
		var pn []string
		for _, o := range rs.offers {
			pn = append(pn, o.portsName)
		}
		sc.PanicClause = "core-crashes-in-offer-round(offer-ports=" + strings.Join(pn, ",") + ")"
		calls = runRound(rs)
	}
	return sc
}

func extraScenarios() []*vrt.Scenario {
	for _, a := range osArgs() {
		if a == "thorough" {
			tierNow = "thorough"
		}
	}
	var out []*vrt.Scenario
	for _, r := range roundScenarios() {
		out = append(out, mkRound(r))
	}
	return out
}

// C05: tasks are placed only where constraints and resources allow.
//
// Part (a) - pure matching functions, complete product enumeration against
// references written from the property statement:
//
//	satisfy    constraint.Attributes.Satisfy
//	merge      constraint.Constraints.MergeParent (pairs and chains)
//	roletree   workflow role trees loaded from YAML -> GenerateTaskDescriptors
//	           (roleBase.getConstraints) -> Manager.BuildDescriptorConstraints
//	resources  task.Resources.Satisfy
//	ports      port.RangesFromExpression and the `wants.ports` field of a task template
//
// Part (b) - whole offer rounds through the real OFFERS handler: rounds.go.
package main

import (
	"fmt"
	"io"
	"sort"
	"strings"

	"github.com/AliceO2Group/Control/core/task"
	"github.com/AliceO2Group/Control/core/task/channel"
	"github.com/AliceO2Group/Control/core/task/constraint"
	"github.com/AliceO2Group/Control/core/task/taskclass"
	"github.com/AliceO2Group/Control/core/task/taskclass/port"
	vrt "github.com/AliceO2Group/Control/verif_vrt"
	mesos "github.com/mesos/mesos-go/api/v1/lib"
	"github.com/mesos/mesos-go/api/v1/lib/resources"
	"github.com/sirupsen/logrus"
	"gopkg.in/yaml.v3"
)

func quiet() {
	logrus.SetOutput(io.Discard)
	logrus.SetLevel(logrus.PanicLevel)
}

// once keeps one violation per clause (simplest input first).
type once struct {
	r    *vrt.DirectReport
	seen map[string]bool
}

func newOnce(r *vrt.DirectReport) *once { return &once{r: r, seen: map[string]bool{}} }
func (o *once) fail(clause, format string, a ...any) {
	if o.seen[clause] {
		return
	}
	o.seen[clause] = true
	o.r.Fail(clause, format, a...)
}

// ---------------------------------------------------------------------------
// reference model of "attributes satisfy every constraint"

// attrMap is the reference view of an agent: name -> value (names are unique on an agent).
type attrMap map[string]string

// holds: the attribute is present and the wanted value is the attribute value
// or one of its comma-separated elements.
func holds(am attrMap, name, value string) (ok bool, why string) {
	v, present := am[name]
	if !present {
		return false, "attribute-missing"
	}
	if v == value {
		return true, ""
	}
	for _, e := range splitComma(v) {
		if e == value {
			return true, ""
		}
	}
	return false, "value-mismatch"
}

func splitComma(s string) (out []string) {
	cur := ""
	for i := 0; i < len(s); i++ {
		if s[i] == ',' {
			out = append(out, cur)
			cur = ""
		} else {
			cur += string(s[i])
		}
	}
	return append(out, cur)
}

func mkAttr(name, value string) mesos.Attribute {
	return mesos.Attribute{Name: name, Type: mesos.TEXT, Text: &mesos.Value_Text{Value: value}}
}

type attrCase struct {
	list constraint.Attributes
	ref  attrMap
	desc string
}

// all attribute lists over names a,b (each absent or one of vals), both orders, plus nil.
func attrCases(vals []string) (out []attrCase) {
	out = append(out, attrCase{nil, attrMap{}, "nil"})
	out = append(out, attrCase{constraint.Attributes{}, attrMap{}, "[]"})
	opt := append([]string{"\x00"}, vals...)
	for _, va := range opt {
		for _, vb := range opt {
			var l constraint.Attributes
			m := attrMap{}
			if va != "\x00" {
				l = append(l, mkAttr("a", va))
				m["a"] = va
			}
			if vb != "\x00" {
				l = append(l, mkAttr("b", vb))
				m["b"] = vb
			}
			if len(l) == 0 {
				continue
			}
			out = append(out, attrCase{l, m, attrString(l)})
			if len(l) == 2 {
				r := constraint.Attributes{l[1], l[0]}
				out = append(out, attrCase{r, m, attrString(r)})
			}
		}
	}
	return
}

func attrString(l constraint.Attributes) string {
	var s []string
	for _, a := range l {
		s = append(s, a.Name+"="+a.GetText().GetValue())
	}
	return "[" + strings.Join(s, " ") + "]"
}

func ctsString(c constraint.Constraints) string {
	var s []string
	for _, x := range c {
		s = append(s, x.Attribute+"=="+x.Value)
	}
	return "[" + strings.Join(s, " ") + "]"
}

func scSatisfy() *vrt.Scenario {
	return &vrt.Scenario{Name: "satisfy", Prop: "C05",
		Doc: "Attributes.Satisfy over all attribute lists x constraint lists (complete grid) vs. 'every constraint holds'",
		Direct: func(r *vrt.DirectReport, tier string) {
			quiet()
			maxLen := 3
			if tier == "thorough" {
				maxLen = 4
			}
			o := newOnce(r)
			attrs := attrCases([]string{"x", "y", "x,y", "z,x"})
			var atoms []constraint.Constraint
			for _, n := range []string{"a", "b", "c"} {
				for _, v := range []string{"x", "y", "z", "x,y"} {
					atoms = append(atoms, constraint.Constraint{Attribute: n, Value: v})
				}
			}
			falseRejects := 0
			var rec func(prefix constraint.Constraints, depth int)
			eval := func(cts constraint.Constraints) {
				for _, ac := range attrs {
					want := true
					failKind, failPos := "", ""
					for i, c := range cts {
						ok, why := holds(ac.ref, c.Attribute, c.Value)
						if !ok {
							want = false
							if failKind == "" {
								failKind = why
							}
							if i == len(cts)-1 {
								failPos = "last"
							} else if failPos == "" {
								failPos = "not-last"
							}
						}
					}
					in := append(constraint.Constraints{}, cts...)
					got := ac.list.Satisfy(in)
					cls := fmt.Sprintf("n=%d attrs=%d want=%v got=%v", len(cts), len(ac.ref), want, got)
					r.Count(cls)
					if got && !want {
						o.fail(fmt.Sprintf("accepts-agent-violating-a-constraint:%s:failing-constraint-%s", failKind, failPos),
							"attributes=%s constraints=%s: Satisfy=true although a constraint does not hold", ac.desc, ctsString(cts))
					}
					if !got && want {
						falseRejects++
						if falseRejects == 1 {
							r.Notes = append(r.Notes, fmt.Sprintf("false reject (not a C05 violation, placement is only restricted): attributes=%s constraints=%s", ac.desc, ctsString(cts)))
						}
					}
					for i := range in {
						if in[i] != cts[i] {
							o.fail("mutates-constraints", "constraints=%s changed by Satisfy", ctsString(cts))
						}
					}
				}
			}
			// simplest first: by length
			for l := 0; l <= maxLen; l++ {
				rec = func(prefix constraint.Constraints, depth int) {
					if depth == l {
						eval(prefix)
						return
					}
					for _, a := range atoms {
						rec(append(prefix[:len(prefix):len(prefix)], a), depth+1)
					}
				}
				rec(nil, 0)
			}
			r.Samples = append(r.Samples,
				fmt.Sprintf("satisfy: attributes=[a=x b=y] constraints=[a==x b==y] -> %v", constraint.Attributes{mkAttr("a", "x"), mkAttr("b", "y")}.Satisfy(constraint.Constraints{{Attribute: "a", Value: "x"}, {Attribute: "b", Value: "y"}})),
				fmt.Sprintf("satisfy: attributes=[a=x,y] constraints=[a==y] -> %v", constraint.Attributes{mkAttr("a", "x,y")}.Satisfy(constraint.Constraints{{Attribute: "a", Value: "y"}})))
			r.Notes = append(r.Notes, fmt.Sprintf("grid: %d attribute lists (names a,b; values x,y,'x,y','z,x'; both orders; nil/empty) x all constraint lists of length<=%d over 12 atoms (names a,b,c x values x,y,z,'x,y'); false rejects seen: %d", len(attrs), maxLen, falseRejects))
		}}
}

// ---------------------------------------------------------------------------
// MergeParent

type level struct {
	cts constraint.Constraints // unique attributes
}

// all constraint lists with unique attributes over names x values; ordered=true also
// enumerates every order.
func levels(names, vals []string, ordered bool) (out []constraint.Constraints) {
	var rec func(i int, cur constraint.Constraints)
	rec = func(i int, cur constraint.Constraints) {
		if i == len(names) {
			c := append(constraint.Constraints{}, cur...)
			if !ordered || len(c) < 2 {
				out = append(out, c)
				return
			}
			permute(c, 0, func(p constraint.Constraints) { out = append(out, append(constraint.Constraints{}, p...)) })
			return
		}
		rec(i+1, cur)
		for _, v := range vals {
			rec(i+1, append(cur[:len(cur):len(cur)], constraint.Constraint{Attribute: names[i], Value: v}))
		}
	}
	rec(0, nil)
	sort.SliceStable(out, func(i, j int) bool { return len(out[i]) < len(out[j]) })
	return
}

func permute(c constraint.Constraints, k int, f func(constraint.Constraints)) {
	if k == len(c) {
		f(c)
		return
	}
	for i := k; i < len(c); i++ {
		c[k], c[i] = c[i], c[k]
		permute(c, k+1, f)
		c[k], c[i] = c[i], c[k]
	}
}

// refMerge: nearest definition wins. chain[0] is the nearest level.
func refMerge(chain ...constraint.Constraints) map[string]string {
	m := map[string]string{}
	for i := len(chain) - 1; i >= 0; i-- {
		for _, c := range chain[i] {
			m[c.Attribute] = c.Value
		}
	}
	return m
}

// compareMerged compares a merged list with the reference for the given chain
// (nearest level first); returns "" or the kind of difference.
func compareMerged(got constraint.Constraints, chain ...constraint.Constraints) string {
	want := refMerge(chain...)
	defs := map[string]int{} // attribute -> number of levels defining it
	otherVal := map[string]map[string]bool{}
	for _, l := range chain {
		for _, c := range l {
			defs[c.Attribute]++
			if c.Value != want[c.Attribute] {
				if otherVal[c.Attribute] == nil {
					otherVal[c.Attribute] = map[string]bool{}
				}
				otherVal[c.Attribute][c.Value] = true
			}
		}
	}
	seen := map[string]bool{}
	for _, c := range got {
		w, ok := want[c.Attribute]
		if !ok {
			return "invented-constraint"
		}
		if seen[c.Attribute] {
			return "attribute-listed-twice"
		}
		seen[c.Attribute] = true
		if c.Value != w {
			if otherVal[c.Attribute][c.Value] {
				return "farther-definition-wins"
			}
			return "wrong-value"
		}
	}
	for a := range want {
		if !seen[a] {
			if defs[a] > 1 {
				return "overridden-constraint-lost"
			}
			return "constraint-lost"
		}
	}
	return ""
}

func scMerge() *vrt.Scenario {
	return &vrt.Scenario{Name: "merge", Prop: "C05",
		Doc: "Constraints.MergeParent: all ordered pairs and all chains of 3 (4) levels vs. 'nearest definition wins'",
		Direct: func(r *vrt.DirectReport, tier string) {
			quiet()
			o := newOnce(r)
			names, vals := []string{"a", "b", "c"}, []string{"1", "2"}
			ord := levels(names, vals, true)
			for _, child := range ord {
				for _, parent := range ord {
					c0 := append(constraint.Constraints{}, child...)
					p0 := append(constraint.Constraints{}, parent...)
					got := c0.MergeParent(p0)
					d := compareMerged(got, child, parent)
					r.Count(fmt.Sprintf("pair child=%d parent=%d overlap=%d ok=%v", len(child), len(parent), overlap(child, parent), d == ""))
					if d != "" {
						o.fail(d, "child=%s parent=%s merged=%s", ctsString(child), ctsString(parent), ctsString(got))
					}
					if !same(c0, child) || !same(p0, parent) {
						o.fail("mutates-input", "child=%s parent=%s after merge child=%s parent=%s", ctsString(child), ctsString(parent), ctsString(c0), ctsString(p0))
					}
					// the result must not alias the parent (a sibling role merges into the same parent)
					if len(got) > 0 && len(p0) > 0 {
						g0 := got[0]
						got[0] = constraint.Constraint{Attribute: "poison", Value: "poison"}
						if !same(p0, parent) {
							o.fail("result-aliases-parent", "child=%s parent=%s", ctsString(child), ctsString(parent))
						}
						got[0] = g0
					}
				}
			}
			// nil receivers / arguments
			for _, l := range ord {
				var nilc constraint.Constraints
				if d := compareMerged(nilc.MergeParent(l), l); d != "" {
					o.fail("nil-child:"+d, "parent=%s", ctsString(l))
				}
				if d := compareMerged(l.MergeParent(nil), l); d != "" {
					o.fail("nil-parent:"+d, "child=%s", ctsString(l))
				}
				r.Count(fmt.Sprintf("nil-variants n=%d", len(l)))
			}
			// chains, canonical order within a level: task role <- role <- root role (<- template)
			can := levels(names, vals, false)
			depth := 3
			if tier == "thorough" {
				depth = 4
			}
			chain := make([]constraint.Constraints, depth)
			var rec func(i int)
			rec = func(i int) {
				if i == depth {
					// fold exactly as a tree walk does it: nearest.MergeParent(next.MergeParent(...))
					acc := append(constraint.Constraints{}, chain[depth-1]...)
					for k := depth - 2; k >= 0; k-- {
						acc = append(constraint.Constraints{}, chain[k]...).MergeParent(acc)
					}
					d := compareMerged(acc, chain...)
					r.Count(fmt.Sprintf("chain depth=%d defs=%d ok=%v", depth, len(chain[0])+len(chain[1])+len(chain[2]), d == ""))
					if d != "" {
						o.fail("chain:"+d, "levels nearest-first=%v merged=%s", chainString(chain), ctsString(acc))
					}
					return
				}
				for _, l := range can {
					chain[i] = l
					rec(i + 1)
				}
			}
			rec(0)
			r.Samples = append(r.Samples, fmt.Sprintf("merge: child=[a==1] parent=[a==2 b==2] -> %s",
				ctsString(constraint.Constraints{{Attribute: "a", Value: "1"}}.MergeParent(constraint.Constraints{{Attribute: "a", Value: "2"}, {Attribute: "b", Value: "2"}}))))
			r.Notes = append(r.Notes, fmt.Sprintf("grid: %d ordered levels (unique attributes a,b,c x values 1,2) squared; chains of %d levels over %d canonical levels; attributes are unique within one level (a level defining one attribute twice is outside the statement)", len(ord), depth, len(can)))
		}}
}

func chainString(ch []constraint.Constraints) string {
	var s []string
	for _, c := range ch {
		s = append(s, ctsString(c))
	}
	return strings.Join(s, " <- ")
}

func overlap(a, b constraint.Constraints) int {
	n := 0
	for _, x := range a {
		for _, y := range b {
			if x.Attribute == y.Attribute {
				n++
			}
		}
	}
	return n
}

func same(a, b constraint.Constraints) bool {
	if len(a) != len(b) {
		return false
	}
	for i := range a {
		if a[i] != b[i] {
			return false
		}
	}
	return true
}

// ---------------------------------------------------------------------------
// Resources.Satisfy

type portSet map[uint64]bool

func rangesToSet(rs ...[2]uint64) portSet {
	s := portSet{}
	for _, r := range rs {
		for p := r[0]; p <= r[1]; p++ {
			s[p] = true
		}
	}
	return s
}

func portsResource(rs ...[2]uint64) mesos.Resource {
	b := resources.BuildRanges()
	for _, r := range rs {
		b = b.Span(r[0], r[1])
	}
	return resources.Build().Name(resources.NamePorts).Ranges(b.Ranges).Resource
}

type resCase struct {
	res  mesos.Resources
	sum  float64
	desc string
}

func tcpChan(name string) channel.Inbound {
	return channel.Inbound{Channel: channel.Channel{Name: name, Type: channel.PUSH, Transport: channel.DEFAULT}, Addressing: channel.TCP}
}
func ipcChan(name string) channel.Inbound {
	return channel.Inbound{Channel: channel.Channel{Name: name, Type: channel.PUSH, Transport: channel.DEFAULT}, Addressing: channel.IPC}
}

func scResources() *vrt.Scenario {
	return &vrt.Scenario{Name: "resources", Prop: "C05",
		Doc: "Resources.Satisfy over a cpu x memory x offered ports x static ports x channels grid vs. 'offer covers the wants'",
		Direct: func(r *vrt.DirectReport, tier string) {
			quiet()
			o := newOnce(r)
			type scalarCase struct {
				vals []float64 // one resource entry each; empty = resource absent
			}
			cpuOff := [][]float64{{}, {1}, {2}, {1, 1}}
			cpuWant := []float64{0, 0.5, 1, 1.5, 2, 2.5}
			memOff := [][]float64{{}, {128}, {256}}
			memWant := []float64{0, 64, 128, 129, 256, 512}
			type portsOff struct {
				entries [][][2]uint64 // resource entries, each a list of ranges
			}
			pOff := []portsOff{
				{},
				{[][][2]uint64{{{9000, 9000}}}},
				{[][][2]uint64{{{9000, 9001}}}},
				{[][][2]uint64{{{30000, 30001}}}},
				{[][][2]uint64{{{9000, 9001}, {30000, 30001}}}},
				{[][][2]uint64{{{9000, 9001}}, {{30000, 30001}}}},
				{[][][2]uint64{{{1000, 1002}}}},
			}
			static := [][][2]uint64{
				nil,
				{{9000, 9000}},
				{{9000, 9001}},
				{{9001, 9002}},
				{{30000, 30000}},
				{{9000, 9000}, {30001, 30001}},
				{{9000, 9001}, {9001, 9001}},
				{{1001, 1001}},
				// ranges written in descending order (the template field accepts any order): every one of them counts
				{{30001, 30001}, {9000, 9000}},
				{{30000, 30001}, {9001, 9002}},
				{{9001, 9001}, {9000, 9000}, {30000, 30000}},
			}
			sum := func(v []float64) (s float64) {
				for _, x := range v {
					s += x
				}
				return
			}
			for _, co := range cpuOff {
				for _, mo := range memOff {
					for pi, po := range pOff {
						var offered mesos.Resources
						for _, c := range co {
							offered = append(offered, resources.NewCPUs(c).Resource)
						}
						for _, m := range mo {
							offered = append(offered, resources.NewMemory(m).Resource)
						}
						offSet := portSet{}
						for _, e := range po.entries {
							offered = append(offered, portsResource(e...))
							for p := range rangesToSet(e...) {
								offSet[p] = true
							}
						}
						before := offered.String()
						for _, cw := range cpuWant {
							for _, mw := range memWant {
								for si, st := range static {
									for ntcp := 0; ntcp <= 3; ntcp++ {
										for nipc := 0; nipc <= 1; nipc++ {
											w := &task.Wants{Cpu: cw, Memory: mw}
											for _, s := range st {
												w.StaticPorts = append(w.StaticPorts, port.Range{Begin: s[0], End: s[1]})
											}
											for i := 0; i < nipc; i++ {
												w.InboundChannels = append(w.InboundChannels, ipcChan(fmt.Sprintf("i%d", i)))
											}
											for i := 0; i < ntcp; i++ {
												w.InboundChannels = append(w.InboundChannels, tcpChan(fmt.Sprintf("t%d", i)))
											}
											// reference
											why := ""
											stSet := rangesToSet(st...)
											free := 0
											for p := range offSet {
												if !stSet[p] {
													free++
												}
											}
											switch {
											case sum(co) < cw:
												why = "cpu-not-covered"
											case sum(mo) < mw:
												why = "memory-not-covered"
											case !subset(stSet, offSet):
												why = "static-port-not-offered"
											case free < ntcp:
												why = "too-few-ports-for-tcp-channels"
											}
											got := task.Resources(offered).Satisfy(w)
											r.Count(fmt.Sprintf("ports=%d static=%d tcp=%d want=%s got=%v", pi, si, ntcp, orOK(why), got))
											if got && why != "" {
												o.fail("accepts-offer:"+why, "offer=%s wants cpu=%v mem=%v static=%v tcp=%d ipc=%d", before, cw, mw, st, ntcp, nipc)
											}
											if s := offered.String(); s != before {
												o.fail("satisfy-changes-the-offer", "offer=%s became %s", before, s)
												return
											}
										}
									}
								}
							}
						}
					}
				}
			}
			r.Samples = append(r.Samples, fmt.Sprintf("resources: offer cpus:1 mem:128 ports:[9000-9001] wants cpu=1 mem=128 static=[9000] tcp=1 -> %v",
				task.Resources(mesos.Resources{resources.NewCPUs(1).Resource, resources.NewMemory(128).Resource, portsResource([2]uint64{9000, 9001})}).Satisfy(&task.Wants{Cpu: 1, Memory: 128, StaticPorts: port.Ranges{{Begin: 9000, End: 9000}}, InboundChannels: []channel.Inbound{tcpChan("t")}})))
			r.Notes = append(r.Notes, "grid: cpus offered {none,1,2,1+1} x wanted {0,.5,1,1.5,2,2.5}; mem offered {none,128,256} x wanted {0,64,128,129,256,512}; 7 offered port layouts (none, one port, low, high, both in one / two resources, below 9000) x 11 static range lists (three of them in descending order) x 0-3 tcp x 0-1 ipc channels; one-directional oracle (accept => covered)")
		}}
}

func orOK(s string) string {
	if s == "" {
		return "covered"
	}
	return s
}

func subset(a, b portSet) bool {
	for p := range a {
		if !b[p] {
			return false
		}
	}
	return true
}

// ---------------------------------------------------------------------------
// port range expressions

type refRange struct{ b, e uint64 }

// refParse is an independent reading of "a comma separated list of ports and
// begin-end ranges". ok=false: not well-formed in that sense.
func refParse(expr string) (out []refRange, ok bool, written map[uint64]bool) {
	written = map[uint64]bool{}
	// collect every maximal digit run as "written"
	for i := 0; i < len(expr); {
		if expr[i] >= '0' && expr[i] <= '9' {
			var n uint64
			for i < len(expr) && expr[i] >= '0' && expr[i] <= '9' {
				n = n*10 + uint64(expr[i]-'0')
				i++
			}
			written[n] = true
		} else {
			i++
		}
	}
	blank := true
	for i := 0; i < len(expr); i++ {
		if expr[i] != ' ' {
			blank = false
		}
	}
	if blank {
		return nil, true, written
	}
	ok = true
	item := ""
	flush := func() {
		s := item
		for len(s) > 0 && s[0] == ' ' {
			s = s[1:]
		}
		for len(s) > 0 && s[len(s)-1] == ' ' {
			s = s[:len(s)-1]
		}
		num := func(t string) (uint64, bool) {
			if t == "" {
				return 0, false
			}
			var n uint64
			for i := 0; i < len(t); i++ {
				if t[i] < '0' || t[i] > '9' {
					return 0, false
				}
				n = n*10 + uint64(t[i]-'0')
			}
			return n, true
		}
		dash := -1
		for i := 0; i < len(s); i++ {
			if s[i] == '-' {
				if dash >= 0 {
					ok = false
					return
				}
				dash = i
			}
		}
		if dash < 0 {
			n, k := num(s)
			if !k {
				ok = false
				return
			}
			out = append(out, refRange{n, n})
			return
		}
		b, k1 := num(s[:dash])
		e, k2 := num(s[dash+1:])
		if !k1 || !k2 {
			ok = false
			return
		}
		out = append(out, refRange{b, e})
	}
	for i := 0; i < len(expr); i++ {
		if expr[i] == ',' {
			flush()
			item = ""
		} else {
			item += string(expr[i])
		}
	}
	flush()
	return
}

func checkRanges(o *once, site, expr string, got port.Ranges, err error) (class string) {
	want, wf, written := refParse(expr)
	if !wf {
		if err != nil {
			return "malformed->error"
		}
		for _, g := range got {
			if !written[g.Begin] || !written[g.End] {
				o.fail(site+":malformed-expression-yields-unwritten-port", "expr=%q -> %v", expr, got)
			}
		}
		return "malformed->accepted"
	}
	if err != nil {
		o.fail(site+":well-formed-expression-rejected", "expr=%q err=%v", expr, err)
		return "wellformed->error"
	}
	if len(got) != len(want) {
		o.fail(site+":item-count", "expr=%q -> %v, written: %v", expr, got, want)
		return "wellformed->wrong"
	}
	for i := range want {
		if got[i].Begin != want[i].b {
			o.fail(site+":range-begin-not-as-written", "expr=%q item %d -> %d-%d, written %d-%d", expr, i, got[i].Begin, got[i].End, want[i].b, want[i].e)
			return "wellformed->wrong"
		}
		if got[i].End != want[i].e {
			kind := "range-end-not-as-written"
			if want[i].b == want[i].e {
				kind = "single-port-end-not-as-written"
			}
			o.fail(site+":"+kind, "expr=%q item %d -> %d-%d, written %d-%d", expr, i, got[i].Begin, got[i].End, want[i].b, want[i].e)
			return "wellformed->wrong"
		}
	}
	return "wellformed->as-written"
}

func scPorts() *vrt.Scenario {
	return &vrt.Scenario{Name: "ports", Prop: "C05",
		Doc: "port.RangesFromExpression and the wants.ports field of a task template: every expression of <=3 items vs. an independent reader",
		Direct: func(r *vrt.DirectReport, tier string) {
			quiet()
			o := newOnce(r)
			alpha := []string{"9000", "9001", "9005", "30000"}
			var items []string
			items = append(items, alpha...)
			for _, a := range alpha {
				for _, b := range alpha {
					items = append(items, a+"-"+b)
				}
			}
			items = append(items, "", "9000-", "-9001", "9000-9001-9005", "x", "9000 - 9001", "90x0")
			seps := []string{",", ", "}
			var exprs []string
			exprs = append(exprs, "", " ")
			for n := 1; n <= 3; n++ {
				idx := make([]int, n)
				for {
					for _, sep := range seps {
						var parts []string
						for _, k := range idx {
							parts = append(parts, items[k])
						}
						e := strings.Join(parts, sep)
						exprs = append(exprs, e)
						if sep == ", " && n == 1 {
							exprs = append(exprs, " "+e+" ")
						}
					}
					k := n - 1
					for k >= 0 {
						idx[k]++
						if idx[k] < len(items) {
							break
						}
						idx[k] = 0
						k--
					}
					if k < 0 {
						break
					}
				}
			}
			for _, e := range exprs {
				got, err := port.RangesFromExpression(e)
				r.Count("expr items=" + fmt.Sprint(strings.Count(e, ",")+1) + " " + checkRanges(o, "ports-expression", e, got, err))
			}
			// the same through the task template (YAML) path, expressions of <= 2 items
			ny := 0
			for _, e := range exprs {
				if strings.Count(e, ",") > 1 || strings.ContainsAny(e, "x") {
					continue
				}
				doc := fmt.Sprintf("name: t\nwants:\n  cpu: 1\n  memory: 64\n  ports: %q\n", e)
				var cl taskclass.Class
				err := yaml.Unmarshal([]byte(doc), &cl)
				ny++
				r.Count("template " + checkRanges(o, "template-wants-ports", e, cl.Wants.Ports, err))
			}
			g, err := port.RangesFromExpression("9000-9005, 30000")
			r.Samples = append(r.Samples, fmt.Sprintf("ports: \"9000-9005, 30000\" -> %v err=%v", g, err))
			r.Notes = append(r.Notes, fmt.Sprintf("grid: %d expressions (<=3 items out of %d: 4 ports, 16 ranges incl. reversed/equal, 7 malformed; separators ',' and ', '); %d of them also through yaml.Unmarshal of a task template", len(exprs), len(items), ny))
		}}
}

func main() {
	vrt.Main(append([]*vrt.Scenario{
		scSatisfy(),
		scMerge(),
		scRoleTree(),
		scRoleTreeIter(),
		scResources(),
		scPorts(),
	}, extraScenarios()...))
}

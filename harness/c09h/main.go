// C09, hook TASKS over histories: the outcome of a transition depends only on what its hooks
// do in that transition - not on what a hook task of an earlier attempt did late.
//
// Real Environment (real FSM callbacks, handleHooks, runTasksAsHooks, NotifyEvent) with a real
// task.Task in HOOK mode attached at before_CONFIGURE; the task manager's trigger function and the
// executor behind it are played by the harness: a triggered hook task terminates with exit 0 / exit 1
// in time, never, or late (after the environment gave up waiting), and every termination is handed
// to the environment through Environment.NotifyEvent, as the environment manager does.
// Every sequence of per-attempt behaviours is enumerated (product, default schedule).
package main

import (
	"context"
	"fmt"
	"strings"
	"time"

	"github.com/AliceO2Group/Control/common"
	"github.com/AliceO2Group/Control/common/controlmode"
	"github.com/AliceO2Group/Control/common/event"
	"github.com/AliceO2Group/Control/common/gera"
	"github.com/AliceO2Group/Control/common/utils/uid"
	"github.com/AliceO2Group/Control/core/environment"
	"github.com/AliceO2Group/Control/core/task"
	"github.com/AliceO2Group/Control/core/task/channel"
	"github.com/AliceO2Group/Control/core/task/sm"
	"github.com/AliceO2Group/Control/core/task/taskclass"
	"github.com/AliceO2Group/Control/core/workflow"
	"github.com/AliceO2Group/Control/core/workflow/callable"
	pb "github.com/AliceO2Group/Control/executor/protos"
	"github.com/AliceO2Group/Control/verif_h/envsim"
	vrt "github.com/AliceO2Group/Control/verif_vrt"
	mesos "github.com/mesos/mesos-go/api/v1/lib"
)

var _ = context.Background

var cfg = vrt.Config{Preempt: envsim.InterComponent, NoLockPoints: true, FreeSwitchCost: true, Horizon: 30 * time.Minute}

// parentRole is what a task needs from the role it is attached to.
type parentRole struct {
	name   string
	traits task.Traits
	envId  uid.ID
	kv     gera.Map[string, string]
}

func (r *parentRole) UpdateStatus(task.Status)                    {}
func (r *parentRole) UpdateState(sm.State)                        {}
func (r *parentRole) GetPath() string                             { return "root." + r.name }
func (r *parentRole) GetTaskClass() string                        { return "c09h-" + r.name }
func (r *parentRole) GetTaskTraits() task.Traits                  { return r.traits }
func (r *parentRole) SetTask(*task.Task)                          {}
func (r *parentRole) GetEnvironmentId() uid.ID                    { return r.envId }
func (r *parentRole) CollectOutboundChannels() []channel.Outbound { return nil }
func (r *parentRole) CollectInboundChannels() []channel.Inbound   { return nil }
func (r *parentRole) GetDefaults() gera.Map[string, string]       { return r.kv }
func (r *parentRole) GetVars() gera.Map[string, string]           { return r.kv }
func (r *parentRole) GetUserVars() gera.Map[string, string]       { return r.kv }
func (r *parentRole) ConsolidatedVarStack() (map[string]string, error) {
	return map[string]string{}, nil
}
func (r *parentRole) SendEvent(event.Event) {}
func (r *parentRole) GetName() string       { return r.name }

// wf is the real (empty) root role plus the hook tasks a loaded workflow would report.
type wf struct {
	workflow.Role
	hooks map[string]callable.HooksMap
}

func (w *wf) GetHooksMapForTrigger(trigger string) callable.HooksMap {
	out := make(callable.HooksMap)
	for weight, hooks := range w.hooks[trigger] {
		out[weight] = append(callable.Hooks{}, hooks...)
	}
	return out
}

func mkHook(name string, critical bool, envId uid.ID) *task.Task {
	parent := &parentRole{name: name, traits: task.Traits{Trigger: "before_CONFIGURE", Await: "before_CONFIGURE", Timeout: "5s", Critical: critical}, envId: envId, kv: gera.MakeMap[string, string]()}
	value := "/bin/true"
	class := &taskclass.Class{Defaults: gera.MakeMap[string, string](), Vars: gera.MakeMap[string, string](), Command: &common.CommandInfo{Value: &value}}
	class.Identifier.Name = "c09h-" + name
	class.Control.Mode = controlmode.BASIC
	// the scheduler's own constructor (newTaskForMesosOffer): the task gets a task id of its own
	h, err := task.NewTaskForVerifC14(class, parent, "hostA")
	if err != nil {
		panic(err)
	}
	if err := h.BuildTaskCommandForVerifC14(); err != nil {
		panic(err)
	}
	if h.GetTaskId() == "" {
		panic("fixture: hook task without a task id")
	}
	if h.GetControlMode() != controlmode.HOOK {
		panic("fixture: not a HOOK task")
	}
	return h
}

func terminated(tid string, exit int) event.DeviceEvent {
	evt := event.NewDeviceEvent(event.DeviceEventOrigin{TaskId: mesos.TaskID{Value: tid}}, pb.DeviceEventType_BASIC_TASK_TERMINATED).(*event.BasicTaskTerminated)
	evt.ExitCode = exit
	evt.VoluntaryTermination = true
	evt.FinalMesosState = mesos.TASK_FINISHED
	if exit != 0 {
		evt.FinalMesosState = mesos.TASK_FAILED
	}
	return evt
}

// behaviours of the hook process in one attempt
var behaviours = []string{"exit0", "exit1", "never", "late0", "late1", "signal"}

func scenario(name string, rounds int, two bool) *vrt.Scenario {
	var viol []vrt.Violation
	var obs string
	var ran bool
	return &vrt.Scenario{Name: name, Prop: "C09", Cfg: cfg, Setup: envsim.SetupExec,
		Doc:   fmt.Sprintf("%d CONFIGURE attempts in a row, critical hook task at before_CONFIGURE, every behaviour per attempt", rounds),
		Quick: vrt.Bounds{Dev: 0, Seconds: 100}, Thorough: vrt.Bounds{Dev: 0, Seconds: 300},
		DeadlockClause: "transition-hangs", PanicClause: "panic",
		NonTrivial: func(*vrt.Exec) bool { return ran },
		Body: func() {
			viol, obs, ran = nil, "", false
			id, _ := uid.FromString("2oDvieFrVTi")
			root := workflow.NewAggregatorRole("root", []workflow.Role{})
			env, err := environment.NewEnvironmentForVerif(map[string]string{}, id, root, nil)
			if err != nil {
				panic(err)
			}
			crit := mkHook("crit", true, id)
			hooks := callable.Hooks{crit}
			var extra *task.Task
			if two {
				extra = mkHook("extra", false, id)
				hooks = append(hooks, extra)
			}
			env.SetWorkflowForVerif(&wf{Role: root, hooks: map[string]callable.HooksMap{"before_CONFIGURE": {0: hooks}}})
			env.ForceStateForVerif("DEPLOYED")
			var log []string
			for r := 0; r < rounds; r++ {
				b := behaviours[vrt.ChooseFree(len(behaviours), "crit-behaviour")]
				be := "exit0"
				if two {
					be = behaviours[vrt.ChooseFree(len(behaviours), "extra-behaviour")]
				}
				triggered := 0
				env.SetHookHandlerForVerif(func(ts task.Tasks) error {
					for _, t := range ts {
						triggered++
						tid, bb := t.GetTaskId(), b
						if t == extra {
							bb = be
						}
						var d time.Duration
						exit := 0
						switch bb {
						case "exit0":
							d = time.Second
						case "exit1":
							d, exit = time.Second, 1
						case "signal":
							d, exit = time.Second, -1 // killed by a signal: exit code -1, reported as a voluntary termination with TASK_FAILED
						case "late0":
							d = 8 * time.Second
						case "late1":
							d, exit = 8*time.Second, 1
						default:
							continue
						}
						vrt.AfterFunc(d, func() { env.NotifyEvent(terminated(tid, exit)) })
					}
					return nil
				})
				executed := false
				terr := env.TryTransition(environment.ScriptedTransition{Name: "CONFIGURE", Body: func(*environment.Environment) error { executed = true; return nil }})
				st := env.CurrentState()
				log = append(log, fmt.Sprintf("%s/%s->err=%v,%s,executed=%v", b, be, terr != nil, st, executed))
				ctx := fmt.Sprintf("attempt %d of %v: error=%v state=%s task-commands-executed=%v triggered=%d", r+1, log, terr, st, executed, triggered)
				fail := func(cl string) { viol = append(viol, vrt.Violation{Clause: cl, Detail: ctx}) }
				hist := "first-attempt"
				if r > 0 {
					hist = "after-" + strings.SplitN(log[r-1], "->", 2)[0]
				}
				if b == "exit0" {
					// nothing critical failed in this attempt (the non-critical one may have)
					if terr != nil || st != "CONFIGURED" || !executed {
						fail("non-critical-or-no-failure-failed-the-transition:" + hist)
					}
				} else {
					if terr == nil {
						fail("critical-hook-task-failure-not-reported:" + b + ":" + hist)
					}
					if st != "DEPLOYED" {
						fail("state-moved-despite-cancelling-hook-failure:" + b + ":" + hist)
					}
					if executed {
						fail("task-command-sent-after-cancelling-hook-failure:" + b + ":" + hist)
					}
				}
				// let late terminations arrive while nobody waits for hooks, then go back to the source state
				vrt.Sleep(20 * time.Second)
				if env.CurrentState() == "CONFIGURED" {
					if e := env.TryTransition(environment.ScriptedTransition{Name: "RESET"}); e != nil {
						panic(e)
					}
				} else if env.CurrentState() != "DEPLOYED" {
					env.ForceStateForVerif("DEPLOYED")
				}
			}
			ran = true
			obs = strings.Join(log, " | ")
			vrt.Logf("%s", obs)
		},
		Check: func(x *vrt.Exec) []vrt.Violation { return viol }}
}

func main() {
	envsim.GlobalSetup()
	vrt.Main([]*vrt.Scenario{
		scenario("hooktask-history2", 2, false),
		scenario("hooktask-history3", 3, false),
		scenario("hooktask-history2x2", 2, true),
	})
}

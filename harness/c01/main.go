// C01: environment state changes only along the documented graph, one at a time.
// (a) explicit-state BFS over control / destroy request histories on the real core (coresim);
// (b) concurrent API callers and the error watcher, deviation-bounded schedule exploration.
package main

import (
	"encoding/json"
	"fmt"
	"strings"
	"time"

	"github.com/AliceO2Group/Control/common/event"
	pb "github.com/AliceO2Group/Control/core/protos"
	occpb "github.com/AliceO2Group/Control/executor/protos"
	"github.com/AliceO2Group/Control/verif_h/coresim"
	vrt "github.com/AliceO2Group/Control/verif_vrt"
	mesos "github.com/mesos/mesos-go/api/v1/lib"
)

var cfg = vrt.Config{Preempt: coresim.InterComponent, NoLockPoints: true, FreeSwitchCost: true, Horizon: 30 * time.Minute}

func agents() []*coresim.Agent {
	return []*coresim.Agent{{ID: "agentA", Host: "hostA", Attributes: map[string]string{"machine_id": "hostA"}, Cpus: 16, Mem: 16384, PortLo: 9000, PortHi: 40000}}
}

// documented graph (handbook + statement): event edges, GO_ERROR from any live state, teardown to DONE, DONE terminal.
var edges = map[string]bool{
	"PENDING>STANDBY": true, "STANDBY>DEPLOYED": true, "DEPLOYED>CONFIGURED": true, "CONFIGURED>RUNNING": true, "RUNNING>CONFIGURED": true, "CONFIGURED>DEPLOYED": true,
	"STANDBY>ERROR": true, "DEPLOYED>ERROR": true, "CONFIGURED>ERROR": true, "RUNNING>ERROR": true,
	"STANDBY>DONE": true, "DEPLOYED>DONE": true, "CONFIGURED>DONE": true, "RUNNING>DONE": true, "ERROR>DONE": true,
}

var legalFrom = map[string]string{"DEPLOY": "STANDBY", "CONFIGURE": "DEPLOYED", "START_ACTIVITY": "CONFIGURED", "STOP_ACTIVITY": "RUNNING", "RESET": "CONFIGURED"}
var destOf = map[string]string{"DEPLOY": "DEPLOYED", "CONFIGURE": "CONFIGURED", "START_ACTIVITY": "RUNNING", "STOP_ACTIVITY": "CONFIGURED", "RESET": "DEPLOYED"}
var opType = map[string]pb.ControlEnvironmentRequest_Optype{"DEPLOY": pb.ControlEnvironmentRequest_DEPLOY, "CONFIGURE": pb.ControlEnvironmentRequest_CONFIGURE, "START_ACTIVITY": pb.ControlEnvironmentRequest_START_ACTIVITY,
	"STOP_ACTIVITY": pb.ControlEnvironmentRequest_STOP_ACTIVITY, "RESET": pb.ControlEnvironmentRequest_RESET, "GO_ERROR": pb.ControlEnvironmentRequest_GO_ERROR, "NOOP": pb.ControlEnvironmentRequest_NOOP}

type sys struct {
	w         *coresim.World
	id        string
	viol      []vrt.Violation
	failNext  bool // the next transition command is answered with an error by the task
	seenEv    int
	lastState string
	hookFails string // tag of the critical call made to fail during the current request
	// samples: the state GetEnvironment reports at every quiescent moment of the execution (an API client
	// polling while the core waits for a timer), consecutive duplicates removed; "(gone)" = id unknown
	samples []string
}

func (s *sys) fail(clause, f string, a ...any) {
	s.viol = append(s.viol, vrt.Violation{Clause: clause, Detail: fmt.Sprintf(f, a...)})
}

func newSys() *sys { return newSysWF("c01", nil) }

// newSysWF: c01 = hooks before/after every transition; c01h = additionally a critical call at negative and
// positive weights of every moment (used by the request search, which fails them on demand)
func newSysWF(wf string, vars map[string]string) *sys {
	s := &sys{lastState: "PENDING"}
	m := coresim.NewMaster(agents()...)
	m.Behaviour = func(t *coresim.SimTask, kind string) coresim.Outcome {
		if s.failNext && kind != "launch" && kind != "kill" && kind != "hook" {
			return coresim.ErrError
		}
		return coresim.OK
	}
	s.w = coresim.NewWorld(m)
	id, _, err := s.w.Create(wf, vars)
	if err != nil {
		return nil // the environment could not be created on this schedule (see C06 known finding): trivial execution
	}
	s.id = id
	s.graphMonitor("create")
	return s
}

// graphMonitor: every change of the published / reported state must be an edge of the documented graph.
func (s *sys) graphMonitor(during string) {
	for ; s.seenEv < len(s.w.EnvEvents); s.seenEv++ {
		e := s.w.EnvEvents[s.seenEv]
		if e.Env != s.id || e.State == "" || e.State == s.lastState {
			continue
		}
		if !edges[s.lastState+">"+e.State] {
			s.fail("undocumented-state-change:"+s.lastState+">"+e.State, "published by event %+v during %s", e, during)
		}
		s.lastState = e.State
	}
	if st, err := s.w.EnvState(s.id); err == nil && st != "" && st != s.lastState {
		if !edges[s.lastState+">"+st] {
			s.fail("undocumented-state-change:"+s.lastState+">"+st, "reported by GetEnvironment during %s", during)
		}
		s.lastState = st
	}
}

// one control request with full accounting of what it executed.
func (s *sys) control(ev string, taskFails bool) {
	before, errB := s.w.EnvState(s.id)
	if errB != nil {
		// environment is gone: the request must be refused
		_, err := s.w.Control(s.id, opType[ev])
		if err == nil {
			s.fail("request-on-destroyed-environment-accepted:"+ev, "")
		}
		return
	}
	calls0, msgs0, launches0 := len(coresim.CallLog), len(s.w.M.CallsOf("MESSAGE")), s.launches()
	s.failNext = taskFails
	st, err := s.w.Control(s.id, opType[ev])
	s.failNext = false
	vrt.Quiesce("after-request")
	hooks := coresim.CallLog[calls0:]
	msgs := s.w.M.CallsOf("MESSAGE")[msgs0:]
	legal := legalFrom[ev] == before && ev != "GO_ERROR" && ev != "NOOP"
	ctx := fmt.Sprintf("%s(taskFails=%v) in %s -> state=%s err=%v hooks=%v commands=%d", ev, taskFails, before, st, err != nil, hooks, len(msgs))
	switch {
	case ev == "GO_ERROR" || ev == "NOOP":
		if err == nil {
			s.fail("invalid-request-type-accepted:"+ev, "%s", ctx)
		}
		if len(hooks) > 0 || len(msgs) > 0 {
			s.fail("invalid-request-executed-something:"+ev, "%s", ctx)
		}
		if now, _ := s.w.EnvState(s.id); now != before {
			s.fail("invalid-request-changed-state:"+ev, "%s now=%s", ctx, now)
		}
	case !legal:
		// not legal in the current state: nothing of it is executed, and like any failed request it leaves ERROR
		if err == nil {
			s.fail("illegal-request-succeeded:"+ev+":from="+before, "%s", ctx)
		}
		for _, h := range hooks {
			// before_<ev> / after_<ev> hooks of any weight, and the hooks of entering its destination (the GO_ERROR that follows enters ERROR only)
			if tr := h[strings.Index(h, "@")+1:]; strings.HasPrefix(tr, "before_"+ev) || strings.HasPrefix(tr, "after_"+ev) || strings.HasPrefix(tr, "enter_"+destOf[ev]) {
				s.fail("illegal-request-ran-hooks:"+ev+":from="+before, "%s", ctx)
				break
			}
		}
		if n := s.launches() - launches0; n > 0 {
			s.fail("illegal-request-sent-task-command:"+ev+":from="+before, "%s: %d tasks launched", ctx, n)
		}
		for _, c := range msgs {
			if c.Detail != "STOP" || before != "ERROR" { // the error path may stop still-running tasks
				if strings.HasPrefix(ev, c.Detail) || c.Detail == "CONFIGURE" && ev == "CONFIGURE" {
					s.fail("illegal-request-sent-task-command:"+ev+":from="+before, "%s", ctx)
					break
				}
			}
		}
		if now, _ := s.w.EnvState(s.id); now != "ERROR" {
			s.fail("illegal-request-left-state:"+now+":"+ev+":from="+before, "%s", ctx)
		}
	case taskFails || s.hookFails != "":
		what := ev
		if s.hookFails != "" {
			what = ev + ":critical-hook-failed-at-" + strings.TrimPrefix(s.hookFails, "k-")
			ctx += " failing critical hook: " + s.hookFails
		}
		if err == nil {
			s.fail("failed-transition-reported-as-success:"+what, "%s", ctx)
		}
		if now, _ := s.w.EnvState(s.id); now != "ERROR" {
			s.fail("failed-transition-left-state:"+now+":"+what, "%s", ctx)
		}
	default:
		if err != nil {
			s.fail("legal-request-failed:"+ev, "%s: %v", ctx, err)
		} else if st != destOf[ev] {
			s.fail("legal-request-wrong-state:"+ev, "%s", ctx)
		}
	}
	s.graphMonitor(ev)
}

// launches: number of tasks the core has asked the master to launch so far
func (s *sys) launches() (n int) {
	for _, c := range s.w.M.CallsOf("ACCEPT") {
		k := 0
		if i := strings.LastIndex(c.Detail, "tasks="); i >= 0 {
			fmt.Sscanf(c.Detail[i+6:], "%d", &k)
		}
		n += k
	}
	return
}

// destroy: one DestroyEnvironment request; taskFails = the task answers the transition the request performs on
// the way (RESET from CONFIGURED, STOP with allowInRunningState) with an error
func (s *sys) destroy(force, allowRun, keep, taskFails bool) {
	before, errB := s.w.EnvState(s.id)
	msgs0 := len(s.w.M.CallsOf("MESSAGE"))
	s.failNext = taskFails
	err := s.w.Destroy(s.id, force, allowRun, keep)
	s.failNext = false
	vrt.Quiesce("after-destroy")
	if errB != nil {
		if err == nil {
			s.fail("destroy-of-destroyed-environment-accepted", "")
		}
		return
	}
	s.graphMonitorDone(err)
	if taskFails && len(s.w.M.CallsOf("MESSAGE")) > msgs0 {
		// a transition of this request failed: like any failed transition requested through the API it must not
		// leave the environment sitting in a healthy state (ERROR, or torn down)
		if now, gerr := s.w.EnvState(s.id); gerr == nil && now != "ERROR" && now != "DONE" {
			s.fail("failed-transition-in-destroy-left-state:"+now+":from="+before, "destroy(force=%v allowRunning=%v) with the task failing its command: err=%v", force, allowRun, err != nil)
		}
	}
}

func (s *sys) graphMonitorDone(err error) {
	// consume events (the DONE events are part of the stream)
	for ; s.seenEv < len(s.w.EnvEvents); s.seenEv++ {
		e := s.w.EnvEvents[s.seenEv]
		if e.Env != s.id || e.State == "" || e.State == s.lastState {
			continue
		}
		if !edges[s.lastState+">"+e.State] {
			s.fail("undocumented-state-change:"+s.lastState+">"+e.State, "published by event %+v during destroy", e)
		}
		s.lastState = e.State
	}
	if _, gerr := s.w.EnvState(s.id); gerr == nil && err == nil {
		s.fail("destroyed-environment-still-known", "")
	}
}

func (s *sys) key() string {
	st, err := s.w.EnvState(s.id)
	if err != nil {
		return "gone"
	}
	ts := ""
	for _, t := range s.w.M.AliveTasks() {
		ts += t.State + ","
	}
	return st + "|" + ts
}

var ops = []string{"CONFIGURE", "CONFIGURE!", "START_ACTIVITY", "START_ACTIVITY!", "STOP_ACTIVITY", "STOP_ACTIVITY!", "RESET", "RESET!", "GO_ERROR", "NOOP", "destroy", "destroyForce", "destroyAllowRunning", "destroyKeep",
	"DEPLOY", "destroy!", "destroyAllowRunning!"}

// hook sites at which a critical call can be made to fail: "<EV>?<site>" requests EV with that hook failing.
// Every moment of a transition with a negative and a positive weight (the two passes are separate code in every callback).
var hookSites = []string{"before-5", "before+5", "leave-5", "leave+5", "enter-5", "enter+5", "after-5", "after+5"}

func init() {
	for _, ev := range []string{"CONFIGURE", "START_ACTIVITY", "STOP_ACTIVITY", "RESET"} {
		for _, site := range hookSites {
			ops = append(ops, ev+"?"+site)
		}
	}
}

// hookTrigger: the trigger expression of a hook site of transition ev
func hookTrigger(ev, site string) string {
	m, w := site[:len(site)-2], site[len(site)-2:]
	switch m {
	case "before":
		return "before_" + ev + w
	case "after":
		return "after_" + ev + w
	case "leave":
		return "leave_" + legalFrom[ev] + w
	}
	return "enter_" + destOf[ev] + w
}

func (s *sys) apply(op string) {
	switch {
	case strings.HasPrefix(op, "destroy"):
		fails := strings.HasSuffix(op, "!")
		op = strings.TrimSuffix(op, "!")
		s.destroy(op == "destroyForce", op == "destroyAllowRunning", op == "destroyKeep", fails)
	case strings.Contains(op, "?"):
		i := strings.Index(op, "?")
		tag := "k-" + hookTrigger(op[:i], op[i+1:])
		coresim.CallFail[tag] = true
		s.hookFails = tag
		s.control(op[:i], false)
		s.hookFails = ""
		delete(coresim.CallFail, tag)
	default:
		s.control(strings.TrimSuffix(op, "!"), strings.HasSuffix(op, "!"))
	}
}

func execHistory(hist []int) (key string, applicable bool, viol []vrt.Violation) {
	coresim.ResetStore()
	var s *sys
	x := vrt.RunControlled(cfg, func() {
		s = newSysWF("c01h", nil)
		if s == nil {
			panic("setup failed on the default schedule")
		}
		for _, oi := range hist {
			s.apply(ops[oi])
		}
		vrt.Sleep(2 * time.Second)
		vrt.Quiesce("end")
		s.graphMonitor("settling")
		key = s.key()
	})
	for _, p := range x.Panics {
		viol = append(viol, vrt.Violation{Clause: "panic:" + strings.SplitN(p, "\n", 2)[0], Detail: p})
	}
	if x.Deadlock != "" {
		return "hung", true, append(viol, vrt.Violation{Clause: "request-hangs", Detail: x.Deadlock})
	}
	return key, true, append(viol, s.viol...)
}

// ---- (b) concurrent callers ------------------------------------------------------------

type conc struct {
	name  string
	setup []string
	a, b  []string
	kill  bool // additionally: the critical task dies (watcher's delayed GO_ERROR)
	// internalErr: instead of dying, the critical task reports TASK_INTERNAL_ERROR and goes on answering
	// (the core stops the run itself and the watcher schedules its delayed GO_ERROR); slowStop: the
	// before_STOP_ACTIVITY call takes a virtual second, so the watcher's timer lands inside the STOP
	internalErr, slowStop bool
	// c: a third API caller
	c []string
	// eos: the task announces END_OF_STREAM (the core itself then requests STOP_ACTIVITY from a goroutine of its
	// own - a caller that is not an API client)
	eos bool
	// autoStop: the environment is created with auto_stop_enabled and this auto_stop_timeout (the core's own timer
	// requests STOP_ACTIVITY that long after the START); delayA: caller A waits that long before its first request
	autoStop string
	delayA   time.Duration
	// goErrorHookFails: workflow c01k, whose critical before_GO_ERROR call always fails: the watcher's gentle
	// GO_ERROR is refused and it has to force the environment into ERROR (and into nothing else)
	goErrorHookFails bool
}

var concs = []conc{
	{name: "START||RESET", a: []string{"START_ACTIVITY"}, b: []string{"RESET"}},
	{name: "START||START", a: []string{"START_ACTIVITY"}, b: []string{"START_ACTIVITY"}},
	{name: "START||destroy", a: []string{"START_ACTIVITY"}, b: []string{"destroyForce"}},
	{name: "STOP||destroyAllowRunning", setup: []string{"START_ACTIVITY"}, a: []string{"STOP_ACTIVITY"}, b: []string{"destroyAllowRunning"}},
	{name: "START!||RESET", a: []string{"START_ACTIVITY!"}, b: []string{"RESET"}},
	{name: "destroy||destroy", a: []string{"destroy"}, b: []string{"destroy"}},
	{name: "destroyForce||destroyForce", setup: []string{"START_ACTIVITY"}, a: []string{"destroyForce"}, b: []string{"destroyForce"}},
	{name: "RESET||destroy", a: []string{"RESET"}, b: []string{"destroy"}},
	{name: "taskdies||STOP", setup: []string{"START_ACTIVITY"}, a: []string{"STOP_ACTIVITY"}, kill: true},
	{name: "taskdies||destroy", setup: []string{"START_ACTIVITY"}, a: []string{"destroyForce"}, kill: true},
	{name: "taskdies-idle", setup: []string{"START_ACTIVITY"}, kill: true},
	{name: "taskdies-idle-goerror-refused", setup: []string{"START_ACTIVITY"}, kill: true, goErrorHookFails: true},
	{name: "taskdies||STOP-goerror-refused", setup: []string{"START_ACTIVITY"}, a: []string{"STOP_ACTIVITY"}, kill: true, goErrorHookFails: true},
	{name: "taskdies||START-goerror-refused", a: []string{"START_ACTIVITY"}, kill: true, goErrorHookFails: true},
	{name: "internal-error-slow-stop", setup: []string{"START_ACTIVITY"}, kill: true, internalErr: true, slowStop: true},
	{name: "internal-error||STOP-slow", setup: []string{"START_ACTIVITY"}, a: []string{"STOP_ACTIVITY"}, kill: true, internalErr: true, slowStop: true},
	{name: "taskdies||STOP-slow", setup: []string{"START_ACTIVITY"}, a: []string{"STOP_ACTIVITY"}, kill: true, slowStop: true},
	// the second caller's request first (one deviation lets the other request arrive at every point of it)
	{name: "RESET||START", a: []string{"RESET"}, b: []string{"START_ACTIVITY"}},
	{name: "STOP||START", setup: []string{"START_ACTIVITY"}, a: []string{"STOP_ACTIVITY"}, b: []string{"START_ACTIVITY"}},
	{name: "CONFIGURE||destroy", setup: []string{"RESET"}, a: []string{"CONFIGURE"}, b: []string{"destroy"}},
	// three callers
	{name: "START||RESET||STOP", a: []string{"START_ACTIVITY"}, b: []string{"RESET"}, c: []string{"STOP_ACTIVITY"}},
	{name: "START||RESET||destroyForce", a: []string{"START_ACTIVITY"}, b: []string{"RESET"}, c: []string{"destroyForce"}},
	// callers that are not API clients: the STOP_ACTIVITY the core requests itself on END_OF_STREAM / when the auto-stop timer fires
	{name: "eos||STOP", setup: []string{"START_ACTIVITY"}, a: []string{"STOP_ACTIVITY"}, eos: true},
	{name: "eos||destroyForce", setup: []string{"START_ACTIVITY"}, a: []string{"destroyForce"}, eos: true},
	{name: "autostop-slow||destroyForce", setup: []string{"START_ACTIVITY"}, a: []string{"destroyForce"}, slowStop: true, autoStop: "1s", delayA: 1500 * time.Millisecond},
	{name: "autostop-slow||STOP", setup: []string{"START_ACTIVITY"}, a: []string{"STOP_ACTIVITY"}, slowStop: true, autoStop: "1s", delayA: 1500 * time.Millisecond},
}

func concScenario(c conc, q, t vrt.Bounds) *vrt.Scenario {
	var s *sys
	var rets []string
	done := 0
	return &vrt.Scenario{Name: c.name, Prop: "C01", Doc: "concurrent requests on one environment", Cfg: cfg, Setup: coresim.ResetStore,
		Quick: q, Thorough: t, DeadlockClause: "request-hangs", PanicClause: "panic",
		NonTrivial: func(*vrt.Exec) bool { return done > 0 },
		Body: func() {
			rets, done = nil, 0
			var vars map[string]string
			if c.autoStop != "" {
				vars = map[string]string{"auto_stop_enabled": "true", "auto_stop_timeout": c.autoStop}
			}
			delete(coresim.CallDelay, "b-STOP_ACTIVITY")
			wfName := "c01"
			delete(coresim.CallFail, "k-before_GO_ERROR")
			if c.goErrorHookFails {
				wfName = "c01k"
				coresim.CallFail["k-before_GO_ERROR"] = true
			}
			s = newSysWF(wfName, vars)
			if s == nil {
				return
			}
			vrt.OnIdle(s.sample)
			for _, op := range c.setup {
				s.apply(op)
			}
			hooks0 := len(coresim.CallLog)
			_ = hooks0
			delete(coresim.CallDelay, "b-STOP_ACTIVITY")
			if c.slowStop {
				coresim.CallDelay["b-STOP_ACTIVITY"] = time.Second
			}
			var wg vrt.WaitGroup
			run := func(name string, opl []string) {
				if len(opl) == 0 {
					return
				}
				wg.Add(1)
				vrt.GoFG(name, func() {
					if name == "callerA" && c.delayA > 0 {
						vrt.Sleep(c.delayA)
					}
					for _, op := range opl {
						var err error
						var st string
						if strings.HasPrefix(op, "destroy") {
							err = s.w.Destroy(s.id, op == "destroyForce", op == "destroyAllowRunning", false)
						} else {
							s.failNext = strings.HasSuffix(op, "!")
							st, err = s.w.Control(s.id, opType[strings.TrimSuffix(op, "!")])
						}
						rets = append(rets, fmt.Sprintf("%s:%s:%v", op, st, err != nil))
						s.sample()
					}
					done++
					wg.Done()
				})
			}
			run("callerA", c.a)
			run("callerB", c.b)
			run("callerC", c.c)
			if c.eos {
				wg.Add(1)
				vrt.GoFG("end-of-stream", func() {
					for _, t := range s.w.M.AliveTasks() {
						de := event.NewDeviceEvent(event.DeviceEventOrigin{AgentId: mesos.AgentID{Value: t.AgentID},
							ExecutorId: mesos.ExecutorID{Value: t.ExecutorID}, TaskId: mesos.TaskID{Value: t.ID}}, occpb.DeviceEventType_END_OF_STREAM)
						de.SetLabels(map[string]string{"detector": "TST", "environmentId": s.id})
						b, _ := json.Marshal(de)
						payload := map[string]any{}
						_ = json.Unmarshal(b, &payload)
						s.w.M.DeviceEvent(t, payload)
					}
					done++
					wg.Done()
				})
			}
			if c.kill {
				wg.Add(1)
				vrt.GoFG("failure", func() {
					for k, t := range s.w.M.AliveTasks() {
						if c.goErrorHookFails && k > 0 {
							break // only the first of the two critical tasks dies: the other one keeps reporting states
						}
						if c.internalErr {
							de := event.NewDeviceEvent(event.DeviceEventOrigin{AgentId: mesos.AgentID{Value: t.AgentID},
								ExecutorId: mesos.ExecutorID{Value: t.ExecutorID}, TaskId: mesos.TaskID{Value: t.ID}}, occpb.DeviceEventType_TASK_INTERNAL_ERROR)
							de.SetLabels(map[string]string{"detector": "TST", "environmentId": s.id})
							b, _ := json.Marshal(de)
							payload := map[string]any{}
							_ = json.Unmarshal(b, &payload)
							s.w.M.DeviceEvent(t, payload)
							continue
						}
						s.w.M.FailTask(t, mesos.TASK_FAILED)
					}
					done++
					wg.Done()
				})
			}
			wg.Wait()
			vrt.Quiesce("settle")
			vrt.Sleep(3 * time.Second)
			vrt.Quiesce("settle2")
			s.sample()
			s.graphMonitorAll()
			hooks := coresim.CallLog[hooks0:]
			s.overlapMonitor()
			s.sampleMonitor()
			vrt.Logf("%s rets=%v final=%s hooks=%v", c.name, rets, s.key(), hooks)
		},
		Check: func(x *vrt.Exec) []vrt.Violation {
			if s == nil || x.Deadlock != "" {
				return nil
			}
			out := s.viol
			// at most one of two conflicting requests may succeed
			ok := 0
			for _, r := range rets {
				if strings.HasSuffix(r, ":false") && !strings.HasPrefix(r, "destroy") {
					ok++
				}
			}
			if (c.name == "START||RESET" || c.name == "START||START") && ok > 1 {
				out = append(out, vrt.Violation{Clause: "conflicting-requests-both-succeeded:" + c.name, Detail: fmt.Sprint(rets)})
			}
			if v := serialMonitor(c, rets, s.finalState()); v != nil {
				out = append(out, *v)
			}
			return out
		}}
}

// overlapMonitor: transitions and teardown of one environment are bracketed by published events
// (emitted while the transition lock is held); the brackets must never nest or interleave.
func (s *sys) overlapMonitor() {
	open := ""
	teardowns, destroyHooks := 0, 0
	for _, h := range coresim.CallLog {
		if strings.HasSuffix(h, "@DESTROY") {
			destroyHooks++
		}
	}
	defer func() {
		// DONE is terminal and a teardown is executed at most once
		if teardowns > 1 {
			s.fail("teardown-executed-twice", "%d teardowns of one environment were started", teardowns)
		}
		if destroyHooks > 1 {
			s.fail("teardown-executed-twice:destroy-hooks", "the DESTROY hook ran %d times", destroyHooks)
		}
	}()
	for _, e := range s.w.EnvEvents {
		if e.Env != s.id {
			continue
		}
		// every step of a transition (its hooks, its task commands) lies inside the bracket of that very transition:
		// a transition executed without the bracket is one that did not take the transition lock
		if _, fsmEvent := legalFrom[e.Transition]; (fsmEvent || e.Transition == "GO_ERROR") && e.Step != "" && open != e.Transition {
			s.fail("transition-step-outside-its-bracket:"+e.Transition+"-during-"+open, "step %s (%s) published while the open transition is %q", e.Step, e.Message, open)
		}
		switch {
		case e.Message == "transition starting":
			if open != "" {
				s.fail("transitions-overlap:"+open+"/"+e.Transition, "%s begins while %s is in progress", e.Transition, open)
			}
			open = e.Transition
		case e.Message == "transition completed successfully" || e.Message == "transition error" || e.Message == "transition impossible":
			if open != e.Transition {
				s.fail("transitions-overlap:end-of-"+e.Transition+"-while-"+open, "")
			}
			open = ""
		case e.Transition == "DESTROY" && e.Message == "workflow teardown started":
			if open != "" {
				s.fail("transitions-overlap:"+open+"/DESTROY", "teardown begins while %s is in progress", open)
			}
			open = "DESTROY"
			teardowns++
		case e.Transition == "DESTROY" && strings.HasPrefix(e.Message, "environment teardown"):
			open = ""
		}
	}
}

// graphMonitorAll: the published state stream (all events so far) follows the graph; DONE is terminal.
func (s *sys) graphMonitorAll() {
	for ; s.seenEv < len(s.w.EnvEvents); s.seenEv++ {
		e := s.w.EnvEvents[s.seenEv]
		if e.Env != s.id || e.State == "" || e.State == s.lastState {
			continue
		}
		if !edges[s.lastState+">"+e.State] {
			cl := "undocumented-state-change:" + s.lastState + ">" + e.State
			if s.lastState == "DONE" {
				// DONE is terminal: name the request whose event shows the torn-down environment in another state
				cl += ":published-by-" + e.Transition + "-after-the-teardown"
			}
			s.fail(cl, "published by event %+v", e)
		}
		s.lastState = e.State
	}
	if st, err := s.w.EnvState(s.id); err == nil && st != s.lastState && !edges[s.lastState+">"+st] {
		s.fail("undocumented-state-change:"+s.lastState+">"+st, "reported by GetEnvironment at the end")
	}
}

// sample: what an API client polling GetEnvironment sees right now.
func (s *sys) sample() {
	st, err := s.w.EnvState(s.id)
	if err != nil || st == "" {
		st = "(gone)"
	}
	if n := len(s.samples); n == 0 || s.samples[n-1] != st {
		s.samples = append(s.samples, st)
	}
}

func (s *sys) finalState() string {
	st, err := s.w.EnvState(s.id)
	if err != nil || st == "" {
		return "(gone)"
	}
	return st
}

// sampleMonitor: between two polls any number of transitions may have happened, so what is checked is
// reachability in the documented graph: ERROR is left only by the teardown, DONE / an unknown id is final,
// STANDBY is never re-entered.
func (s *sys) sampleMonitor() {
	for i := 1; i < len(s.samples); i++ {
		a, b := s.samples[i-1], s.samples[i]
		bad := false
		switch {
		case a == "(gone)" || a == "DONE":
			bad = b != "(gone)" && b != "DONE"
		case a == "ERROR":
			bad = b != "DONE" && b != "(gone)"
		case b == "STANDBY" || b == "PENDING":
			bad = true
		}
		if bad {
			s.fail("reported-state-went-back:"+a+">"+b, "states reported by GetEnvironment at the quiescent moments and after every request: %v", s.samples)
		}
	}
}

// serialMonitor: "concurrent requests are executed one after the other, each one seeing the state left by the
// previous one". Reference written from the documented graph: a control request is one atomic step (legal in the
// current state: the state becomes its destination and it succeeds; otherwise it fails and, as a second atomic
// step, the environment is moved to ERROR). The observed (result per caller, final state) must be the outcome of
// some interleaving of these steps that keeps every caller's order. Used for the scenarios made of control
// requests only (no teardown, no failing task, no failure injected).
func serialMonitor(c conc, rets []string, final string) *vrt.Violation {
	if c.kill || c.eos || c.autoStop != "" {
		return nil
	}
	var seqs [][]string
	for _, l := range [][]string{c.a, c.b, c.c} {
		for _, op := range l {
			if strings.HasPrefix(op, "destroy") || strings.HasSuffix(op, "!") {
				return nil
			}
		}
		if len(l) > 0 {
			seqs = append(seqs, l)
		}
	}
	start := "CONFIGURED"
	for _, op := range c.setup {
		if legalFrom[op] != start {
			return nil
		}
		start = destOf[op]
	}
	var got []string
	for _, r := range rets {
		p := strings.Split(r, ":") // op:replied state:failed
		got = append(got, p[0]+":"+p[2])
	}
	// enumerate the interleavings; a caller is (index of its next request, pending GO_ERROR step)
	type st struct {
		state string
		pos   []int
		pend  []bool
		res   string
	}
	allowed := map[string]bool{}
	var walk func(x st)
	walk = func(x st) {
		moved := false
		for i := range seqs {
			switch {
			case x.pend[i]:
				y := st{x.state, append([]int{}, x.pos...), append([]bool{}, x.pend...), x.res}
				y.pend[i] = false
				if y.state != "ERROR" && y.state != "DONE" {
					y.state = "ERROR"
				}
				walk(y)
				moved = true
			case x.pos[i] < len(seqs[i]):
				op := seqs[i][x.pos[i]]
				y := st{x.state, append([]int{}, x.pos...), append([]bool{}, x.pend...), x.res}
				y.pos[i]++
				if legalFrom[op] == x.state {
					y.state = destOf[op]
					y.res += op + ":false,"
				} else {
					y.pend[i] = true
					y.res += op + ":true,"
				}
				walk(y)
				moved = true
			}
		}
		if !moved {
			parts := strings.Split(strings.TrimSuffix(x.res, ","), ",")
			sortStrings(parts)
			allowed[strings.Join(parts, ",")+" final="+x.state] = true
		}
	}
	walk(st{start, make([]int, len(seqs)), make([]bool, len(seqs)), ""})
	sortStrings(got)
	key := strings.Join(got, ",") + " final=" + final
	if !allowed[key] {
		var al []string
		for k := range allowed {
			al = append(al, k)
		}
		sortStrings(al)
		return &vrt.Violation{Clause: "not-serializable:" + c.name, Detail: fmt.Sprintf("observed %s; outcomes of executing the requests one after the other: %v", key, al)}
	}
	return nil
}

func sortStrings(l []string) {
	for i := 1; i < len(l); i++ {
		for j := i; j > 0 && l[j] < l[j-1]; j-- {
			l[j], l[j-1] = l[j-1], l[j]
		}
	}
}

func callRole(name, trigger string) string {
	return fmt.Sprintf("  - name: %q\n    call:\n      func: sim.Call(%q)\n      trigger: %s\n      timeout: 5s\n      critical: false\n", name, name, trigger)
}

func main() {
	var calls []string
	for _, ev := range []string{"DEPLOY", "CONFIGURE", "START_ACTIVITY", "STOP_ACTIVITY", "RESET", "GO_ERROR"} {
		calls = append(calls, callRole("b-"+ev, "before_"+ev), callRole("a-"+ev, "after_"+ev))
	}
	calls = append(calls, callRole("destroy-hook", "DESTROY"))
	plain := append([]string{}, calls...)
	// critical calls at negative and positive weights of every moment of every transition (failed on demand)
	seenTrig := map[string]bool{}
	for _, ev := range []string{"CONFIGURE", "START_ACTIVITY", "STOP_ACTIVITY", "RESET"} {
		for _, site := range hookSites {
			tr := hookTrigger(ev, site)
			if !seenTrig[tr] {
				seenTrig[tr] = true
				calls = append(calls, fmt.Sprintf("  - name: %q\n    call:\n      func: sim.Call(%q)\n      trigger: %s\n      timeout: 5s\n      critical: true\n", "k-"+tr, "k-"+tr, tr))
			}
		}
	}
	coresim.GlobalSetup(coresim.WorkflowSpec{Name: "c01", Hosts: []string{"hostA"}, Calls: plain,
		Tasks: []coresim.TaskSpec{{Name: "t1", Class: "c01t1", Mode: "direct", Critical: true, Host: "hostA"}}},
		coresim.WorkflowSpec{Name: "c01h", Hosts: []string{"hostA"}, Calls: calls,
			Tasks: []coresim.TaskSpec{{Name: "t1", Class: "c01t1", Mode: "direct", Critical: true, Host: "hostA"}}},
		coresim.WorkflowSpec{Name: "c01k", Hosts: []string{"hostA"},
			Calls: append(append([]string{}, plain...), fmt.Sprintf("  - name: %q\n    call:\n      func: sim.Call(%q)\n      trigger: before_GO_ERROR\n      timeout: 5s\n      critical: true\n", "k-before_GO_ERROR", "k-before_GO_ERROR")),
			Tasks: []coresim.TaskSpec{{Name: "t1", Class: "c01t1", Mode: "direct", Critical: true, Host: "hostA"}, {Name: "t2", Class: "c01t2", Mode: "direct", Critical: true, Host: "hostA"}}})
	scs := []*vrt.Scenario{{
		Name: "requests-bfs", Prop: "C01", Doc: "BFS over control/destroy request histories",
		Direct: func(r *vrt.DirectReport, tier string) {
			depth := 4
			if tier == "thorough" {
				depth = 7
			}
			res := vrt.BFS(vrt.BFSSpec{Ops: ops, MaxDepth: depth, Exec: execHistory})
			res.Report(r, "req")
			r.Notes = append(r.Notes, fmt.Sprintf("alphabet=%v depth<=%d", ops, depth))
		}}}
	for _, c := range concs {
		scs = append(scs, concScenario(c, vrt.Bounds{Dev: 1, Seconds: 100}, vrt.Bounds{Dev: 2, Seconds: 100}))
	}
	vrt.Main(scs)
}

// Template grids of part (a). Every grid is a finite product that is
// enumerated completely, simplest first.
package main

import (
	"fmt"
	"strings"

	vrt "github.com/AliceO2Group/Control/verif_vrt"
)

var enabledForms = []string{"", "true", "false", "{{ flag }}"}

func baseEnv(flag string) (user, envVars, envDefs map[string]string) {
	return map[string]string{"flag": flag},
		map[string]string{"hosts": `["h1","h2"]`},
		map[string]string{"cls": "readout"}
}

func newTemplate(root *N, flag, class string) *Template {
	u, v, d := baseEnv(flag)
	return &Template{Root: root, UserVars: u, EnvVars: v, EnvDefs: d, Class: class, Includes: map[string]*N{}}
}

// leaf makes the idx-th role of a template a task (even idx) or a call (odd idx).
func leaf(idx int, underIter string) *N {
	name := fmt.Sprintf("n%d", idx)
	if underIter != "" {
		name += "-{{ " + underIter + " }}"
	}
	if idx%2 == 0 {
		return &N{Kind: "task", Name: name, Load: "{{ cls }}"}
	}
	return &N{Kind: "call", Name: name, Func: "odc.Reset()", Trigger: "before_RESET", Await: "after_RESET"}
}

func agg(idx int, underIter string, kids ...*N) *N {
	name := fmt.Sprintf("n%d", idx)
	if underIter != "" {
		name += "-{{ " + underIter + " }}"
	}
	return &N{Kind: "agg", Name: name, Kids: kids}
}

// ---------------------------------------------------------------------------
// grid "prune": every tree shape with at most M roles below the root (depth <= 3),
// every role optionally an iterator over ["a","b"], every assignment of the four
// `enabled` forms to all roles including the root, flag in {true,false}.

type shape struct {
	iter bool
	kids []*shape // nil = leaf
	agg  bool
}

// forests lists all ordered forests with exactly n nodes and height <= h.
func forests(n, h int) [][]*shape {
	if n == 0 {
		return [][]*shape{nil}
	}
	if h == 0 {
		return nil
	}
	var out [][]*shape
	// first tree has k nodes (root + forest of k-1), the rest n-k
	for k := 1; k <= n; k++ {
		for _, sub := range forests(k-1, h-1) {
			for _, rest := range forests(n-k, h) {
				for _, it := range []bool{false, true} {
					first := &shape{iter: it, kids: sub, agg: len(sub) > 0}
					out = append(out, append([]*shape{first}, rest...))
				}
			}
		}
	}
	return out
}

func buildShape(s *shape, idx *int, iterVar string) *N {
	my := *idx
	*idx++
	v := iterVar
	var it *Iter
	if s.iter {
		v = fmt.Sprintf("i%d", my)
		it = &Iter{Form: "range", Range: `["a","b"]`, Var: v}
	}
	var n *N
	if s.agg {
		n = agg(my, "")
		if s.iter {
			n.Name += "-{{ " + v + " }}"
		}
		for _, k := range s.kids {
			n.Kids = append(n.Kids, buildShape(k, idx, v))
		}
	} else {
		n = leaf(my, "")
		if s.iter {
			n.Name += "-{{ " + v + " }}"
		}
	}
	n.Iter = it
	return n
}

func genPrune(tier string, emit func(*Template)) {
	maxNodes := 2
	if tier == "thorough" {
		maxNodes = 3
	}
	for n := 1; n <= maxNodes; n++ {
		for _, f := range forests(n, 3) {
			idx := 1
			root := &N{Kind: "agg", Name: "root"}
			for _, s := range f {
				root.Kids = append(root.Kids, buildShape(s, &idx, ""))
			}
			var nodes []*N
			root.walk(func(m *N) { nodes = append(nodes, m) })
			total := 1
			for range nodes {
				total *= len(enabledForms)
			}
			for code := 0; code < total; code++ {
				c := code
				disabledForms := 0
				for _, m := range nodes {
					m.Enabled = enabledForms[c%len(enabledForms)]
					if m.Enabled == "false" || m.Enabled == "{{ flag }}" {
						disabledForms++
					}
					c /= len(enabledForms)
				}
				for _, flag := range []string{"true", "false"} {
					t := newTemplate(root.clone(), flag, fmt.Sprintf("prune/roles=%d/non-trivial-enabled=%d", n, disabledForms))
					emit(t)
				}
			}
		}
	}
}

// ---------------------------------------------------------------------------
// grid "iter": one iterator between optional siblings; range forms x body forms
// x enabled of the iterator x enabled inside the body x flag.

type rangeForm struct {
	name  string
	it    Iter
	first string // first element (for element-dependent enabled expressions), "" if the range is empty
	n     int
}

var rangeForms = []rangeForm{
	{"json2", Iter{Form: "range", Range: `["a","b"]`}, "a", 2},
	{"json1", Iter{Form: "range", Range: `["a"]`}, "a", 1},
	{"json0", Iter{Form: "range", Range: `[]`}, "", 0},
	{"var2", Iter{Form: "range", Range: `{{ hosts }}`}, "h1", 2},
	{"be2", Iter{Form: "beginend", Begin: "0", End: "1"}, "0", 2},
	{"be0", Iter{Form: "beginend", Begin: "1", End: "0"}, "", 0},
	{"bevar3", Iter{Form: "beginend", Begin: "{{ lo }}", End: "{{ hi }}"}, "1", 3},
	// element order that no sorting reproduces, a repeated element, numbers whose text order differs from their numeric order
	{"json3-unsorted", Iter{Form: "range", Range: `["b","c","a"]`}, "b", 3},
	{"json2-repeated", Iter{Form: "range", Range: `["a","a"]`}, "a", 2},
	{"be3-9to11", Iter{Form: "beginend", Begin: "9", End: "11"}, "9", 3},
}

var bodyForms = []string{"task", "call", "hook", "agg1", "agg2", "nested", "include"}

func genIter(tier string, emit func(*Template)) {
	sibs := []bool{false, true}
	for _, withSibs := range sibs {
		for _, rf := range rangeForms {
			if tier != "thorough" && withSibs && rf.name != "json2" {
				continue
			}
			for _, bf := range bodyForms {
				iterEnabled := []string{"", "false", "{{ flag }}", "{{ it != '" + rf.first + "' }}", "{{ flag == 'true' }}"}
				for _, ie := range iterEnabled {
					if rf.first == "" && strings.Contains(ie, "it !=") {
						continue
					}
					innerForms := []string{""}
					if bf == "agg1" || bf == "agg2" || bf == "nested" {
						innerForms = []string{"", "{{ it == '" + rf.first + "' }}", "{{ flag }}"}
						if rf.first == "" {
							innerForms = []string{"", "{{ flag }}"}
						}
					}
					for _, inner := range innerForms {
						for _, flag := range []string{"true", "false"} {
							t := newTemplate(nil, flag, "iter/"+rf.name+"/"+bf)
							t.EnvVars["lo"], t.EnvVars["hi"] = "1", "3"
							it := rf.it
							it.Var = "it"
							var body *N
							switch bf {
							case "task":
								body = leaf(2, "it")
								body.Cons = []KV{{"machine_id", "{{ it }}"}}
							case "call":
								body = leaf(3, "it")
								body.Return = "r_{{ it }}"
							case "hook":
								body = leaf(2, "it")
								body.Trigger = "before_DEPLOY"
								body.Critical = "false"
							case "agg1":
								k := leaf(4, "")
								k.Enabled = inner
								k.Bind = []KV{{"ch", "proxy-{{ it }}"}}
								body = agg(2, "it", k)
							case "agg2":
								k1, k2 := leaf(4, ""), leaf(5, "")
								k1.Enabled = inner
								k2.Connect = []KV{{"in", "{{ Up(1).Path }}.n4:ch"}}
								body = agg(2, "it", k1, k2)
								body.Cons = []KV{{"machine_id", "{{ it }}"}}
							case "nested":
								k := leaf(4, "jt")
								k.Iter = &Iter{Form: "range", Range: `["x","y"]`, Var: "jt"}
								k.Enabled = inner
								k.Vars = []KV{{"both", "{{ it }}{{ jt }}"}}
								body = agg(2, "it", k)
							case "include":
								body = &N{Kind: "include", Name: "n2-{{ it }}", Include: "sub"}
								sub := agg(9, "", leaf(4, ""), leaf(5, ""))
								sub.Name = "sub"
								sub.Defaults = []KV{{"subdef", "S"}}
								t.Includes["sub"] = sub
							}
							body.Iter = &it
							body.Enabled = ie
							root := &N{Kind: "agg", Name: "root"}
							if withSibs {
								root.Kids = []*N{leaf(1, ""), body, leaf(7, "")}
							} else {
								root.Kids = []*N{body}
							}
							t.Root = root
							emit(t)
						}
					}
				}
			}
		}
	}
}

// ---------------------------------------------------------------------------
// grid "vars": a chain root -> mid -> leaf; the variable pv is defined in every
// subset of at most two (thorough: three) of the nine places where a variable
// can come from, and is referenced from every templated field of the leaf.

var varPlaces = []string{"envdefaults", "envvars", "uservars", "rootdefaults", "rootvars", "middefaults", "midvars", "leafdefaults", "leafvars"}
var refSites = []string{"name", "load", "constraint", "connect", "vars", "enabled", "bind", "defaults", "timeout"}

func genVars(tier string, emit func(*Template)) {
	maxSet := 2
	if tier == "thorough" {
		maxSet = 3
	}
	np := len(varPlaces)
	for mask := 1; mask < 1<<np; mask++ {
		bits := 0
		for i := 0; i < np; i++ {
			if mask&(1<<i) != 0 {
				bits++
			}
		}
		if bits > maxSet {
			continue
		}
		for si, site := range refSites {
			if tier != "thorough" && si >= 6 && bits > 1 {
				continue // quick tier: the last three sites only with a single definition
			}
			// a field that is evaluated before the leaf's own variables exist must not
			// refer to a variable the leaf defines itself (the handbook does not say what happens)
			leafDefines := mask&(1<<7) != 0 || mask&(1<<8) != 0
			if leafDefines && (site == "vars" || site == "defaults" || site == "enabled") {
				continue
			}
			for _, midKind := range []string{"agg", "iter", "chain"} {
				if midKind == "chain" && mask&(1<<6) == 0 {
					continue
				}
				t := newTemplate(nil, "true", fmt.Sprintf("vars/definitions=%d/ref=%s/mid=%s", bits, site, midKind))
				l := &N{Kind: "task", Name: "n3", Load: "readout"}
				mid := agg(2, "", l)
				root := &N{Kind: "agg", Name: "root", Kids: []*N{mid}}
				root.Vars = []KV{{"rv", "R"}}
				val := func(i int) string { return strings.ToUpper(varPlaces[i][:1]) + varPlaces[i][len(varPlaces[i])-4:] }
				for i := 0; i < np; i++ {
					if mask&(1<<i) == 0 {
						continue
					}
					kv := KV{"pv", val(i)}
					switch i {
					case 0:
						t.EnvDefs["pv"] = kv.V
					case 1:
						t.EnvVars["pv"] = kv.V
					case 2:
						t.UserVars["pv"] = kv.V
					case 3:
						root.Defaults = append(root.Defaults, kv)
					case 4:
						root.Vars = append(root.Vars, kv)
					case 5:
						mid.Defaults = append(mid.Defaults, kv)
					case 6:
						if midKind == "chain" {
							kv.V = "m{{ rv }}" // refers to a variable of the level above
						}
						mid.Vars = append(mid.Vars, kv)
					case 7:
						l.Defaults = append(l.Defaults, kv)
					case 8:
						l.Vars = append(l.Vars, kv)
					}
				}
				if midKind == "iter" {
					mid.Iter = &Iter{Form: "range", Range: `["a","b"]`, Var: "it"}
					mid.Name = "n2-{{ it }}"
				}
				switch site {
				case "name":
					l.Name = "n3-{{ pv }}"
				case "load":
					l.Load = "cls{{ pv }}"
				case "constraint":
					l.Cons = []KV{{"zone", "{{ pv }}"}}
				case "connect":
					l.Connect = []KV{{"in", "{{ Up(2).Path }}.{{ pv }}:out"}}
				case "bind":
					l.Bind = []KV{{"out", "g-{{ pv }}"}}
				case "vars":
					l.Vars = append(l.Vars, KV{"cv", "{{ pv }}-c"})
				case "defaults":
					l.Defaults = append(l.Defaults, KV{"cd", "{{ pv }}-d"})
				case "enabled":
					l.Enabled = "{{ pv != 'nothing' }}"
				case "timeout":
					l.Trigger, l.Timeout = "enter_CONFIGURED", "{{ pv }}s"
				}
				t.Root = root
				emit(t)
			}
		}
	}
}

// ---------------------------------------------------------------------------
// grid "errors": base templates x every role x every templated field of the
// role x three kinds of template error, injected one at a time; plus errors that
// hit only one element of an iterator's range.

func errorBases() []*Template {
	var out []*Template
	mk := func(name, flag string, kids ...*N) *Template {
		t := newTemplate(&N{Kind: "agg", Name: "root", Kids: kids}, flag, "errors/"+name)
		return t
	}
	full := func(n *N) *N {
		n.Defaults = []KV{{"d" + n.Name[:2], "x"}}
		n.Vars = []KV{{"v" + n.Name[:2], "y"}}
		n.Cons = []KV{{"attr" + n.Name[:2], "z"}}
		if n.Kind != "agg" {
			n.Connect = []KV{{"in", "tcp://h:1"}}
			n.Bind = []KV{{"out", "glob"}}
			n.Timeout = "5s"
			if n.Trigger == "" {
				n.Trigger = "before_START"
			}
		}
		return n
	}
	it2 := func(n *N) *N {
		n.Iter = &Iter{Form: "range", Range: `["a","b"]`, Var: "it"}
		n.Name += "-{{ it }}"
		return n
	}
	// all roles live
	out = append(out, mk("live", "true", full(leaf(1, "")), full(agg(2, "", full(leaf(3, "")), full(leaf(4, "")))), full(it2(leaf(6, "")))))
	// iterator over an aggregator, between siblings
	out = append(out, mk("iter-agg", "true", leaf(1, ""), full(it2(agg(2, "", full(leaf(3, "")), leaf(4, "")))), leaf(5, "")))
	// disabled roles carrying the error are pruned: an aggregator switched off literally, a leaf switched off by expression
	a := full(agg(2, "", full(leaf(3, ""))))
	a.Enabled = "false"
	l := full(leaf(4, ""))
	l.Enabled = "{{ flag }}"
	out = append(out, mk("pruned", "false", leaf(1, ""), a, l))
	// empty range: the body is never instantiated
	e := full(leaf(2, ""))
	e.Iter = &Iter{Form: "range", Range: `[]`, Var: "it"}
	e.Name += "-{{ it }}"
	out = append(out, mk("empty-range", "true", e, leaf(3, "")))
	// include
	inc := mk("include", "true", leaf(1, ""), &N{Kind: "include", Name: "n2", Include: "sub"})
	sub := full(agg(9, "", full(leaf(3, "")), leaf(4, "")))
	sub.Name = "sub"
	inc.Includes["sub"] = sub
	out = append(out, inc)
	return out
}

// fieldSlots lists the templated fields of a role as setters.
func fieldSlots(n *N) map[string]func(string) {
	m := map[string]func(string){
		"name":    func(s string) { n.Name = n.Name + s },
		"enabled": func(s string) { n.Enabled = s },
	}
	if len(n.Defaults) > 0 {
		m["defaults"] = func(s string) { n.Defaults[0].V = s }
	}
	if len(n.Vars) > 0 {
		m["vars"] = func(s string) { n.Vars[0].V = s }
	}
	if len(n.Cons) > 0 {
		m["constraint"] = func(s string) { n.Cons[0].V = s }
	}
	if len(n.Connect) > 0 {
		m["connect"] = func(s string) { n.Connect[0].V = s }
	}
	if len(n.Bind) > 0 {
		m["bind"] = func(s string) { n.Bind[0].V = s }
	}
	switch n.Kind {
	case "task":
		m["load"] = func(s string) { n.Load = s }
	case "call":
		m["func"] = func(s string) { n.Func = s }
		m["return"] = func(s string) { n.Return = s }
	case "include":
		m["include"] = func(s string) { n.Include = s }
	}
	if n.Kind == "task" || n.Kind == "call" {
		if n.Trigger != "" {
			m["trigger"] = func(s string) { n.Trigger = s }
			m["await"] = func(s string) { n.Await = s }
		}
		m["timeout"] = func(s string) { n.Timeout = s }
	}
	if n.Iter != nil {
		m["range"] = func(s string) { n.Iter.Range = s }
	}
	return m
}

var slotOrder = []string{"enabled", "name", "defaults", "vars", "constraint", "connect", "bind", "load", "func", "return", "include", "trigger", "await", "timeout", "range"}

func genErrors(tier string, emit func(*Template)) {
	kinds := []string{errSyntax, errUnterminated, errCall}
	for _, base := range errorBases() {
		emit(base.clone()) // the base itself loads
		// number the roles of the base (root document, then included documents)
		count := 0
		base.Root.walk(func(*N) { count++ })
		incCount := 0
		if s := base.Includes["sub"]; s != nil {
			s.walk(func(*N) { incCount++ })
		}
		for ri := 0; ri < count+incCount; ri++ {
			for _, slot := range slotOrder {
				for _, kind := range kinds {
					t := base.clone()
					var target *N
					i := 0
					pick := func(m *N) {
						if i == ri {
							target = m
						}
						i++
					}
					t.Root.walk(pick)
					if s := t.Includes["sub"]; s != nil {
						s.walk(pick)
					}
					set := fieldSlots(target)[slot]
					if set == nil {
						continue
					}
					set(kind)
					t.Class = fmt.Sprintf("%s/%s/%s", base.Class, target.Kind, slot)
					emit(t)
				}
			}
		}
	}
	// errors that hit one element of the range only: int(it) fails for "x"
	for _, ran := range []string{`["1","x"]`, `["x","1"]`, `["1","x","2"]`, `["x","y"]`, `["1","2"]`} {
		for _, slot := range []string{"vars", "name", "load", "constraint"} {
			for _, bodyKind := range []string{"task", "agg"} {
				for _, sib := range []bool{false, true} {
					l := leaf(2, "it")
					l.Vars = []KV{{"k", "v"}}
					l.Cons = []KV{{"a", "b"}}
					fieldSlots(l)[slot]("{{ int(it) }}")
					body := l
					if bodyKind == "agg" {
						l.Name = "n4"
						body = agg(2, "it", l)
					}
					body.Iter = &Iter{Form: "range", Range: ran, Var: "it"}
					root := &N{Kind: "agg", Name: "root", Kids: []*N{body}}
					if sib {
						root.Kids = append(root.Kids, leaf(5, ""))
					}
					emit(newTemplate(root, "true", "errors/one-element/"+bodyKind+"/"+slot))
				}
			}
		}
	}
	// scope: the same expression text is valid in one place and refers to an undefined variable in
	// another - in an earlier load of the same process (the variable was supplied then), or inside and
	// outside an iterator within one template, in both document orders. The load must fail.
	for _, slot := range []string{"name", "vars", "defaults", "load", "constraint", "bind", "connect"} {
		mk := func(define bool) *Template {
			l := leaf(2, "")
			l.Vars = []KV{{"k", "v"}}
			l.Defaults = []KV{{"dk", "dv"}}
			l.Cons = []KV{{"a", "b"}}
			l.Connect = []KV{{"in", "tcp://h:1"}}
			l.Bind = []KV{{"out", "glob"}}
			val := "p{{ sv }}"
			if slot == "connect" {
				val = "tcp://h{{ sv }}:1"
			}
			fieldSlots(l)[slot](val)
			root := &N{Kind: "agg", Name: "root", Kids: []*N{l, leaf(3, "")}}
			if define {
				root.Vars = []KV{{"sv", "1"}}
			}
			return newTemplate(root, "true", "errors/scope/load-after-load/"+slot)
		}
		t := mk(false)
		t.Prelude = []*Template{mk(true)}
		emit(t)
		for _, iterFirst := range []bool{true, false} {
			in := leaf(2, "it")
			in.Vars = []KV{{"peer", "peer-{{ it }}"}}
			in.Iter = &Iter{Form: "range", Range: `["a","b"]`, Var: "it"}
			stray := leaf(4, "")
			stray.Vars = []KV{{"k", "v"}}
			stray.Defaults = []KV{{"dk", "dv"}}
			stray.Cons = []KV{{"a", "b"}}
			stray.Connect = []KV{{"in", "tcp://h:1"}}
			stray.Bind = []KV{{"out", "glob"}}
			val := "peer-{{ it }}"
			fieldSlots(stray)[slot](val)
			kids := []*N{in, stray}
			if !iterFirst {
				kids = []*N{stray, in}
			}
			emit(newTemplate(&N{Kind: "agg", Name: "root", Kids: kids}, "true", "errors/scope/outside-the-iterator/"+slot))
		}
	}
}

// ---------------------------------------------------------------------------
// grid "misc": hand-picked corner templates x flag.

func genMisc(tier string, emit func(*Template)) {
	root := func(kids ...*N) *N { return &N{Kind: "agg", Name: "root", Kids: kids} }
	en := func(n *N, e string) *N { n.Enabled = e; return n }
	iter := func(n *N, ran, v string) *N {
		n.Iter = &Iter{Form: "range", Range: ran, Var: v}
		n.Name += "-{{ " + v + " }}"
		return n
	}
	for _, flag := range []string{"true", "false"} {
		cases := map[string]*N{
			"empty-roles-list":        root(agg(1, ""), leaf(2, "")),
			"empty-roles-list-only":   root(agg(1, "")),
			"root-empty-roles-list":   root(),
			"cascade-empty":           root(agg(1, "", agg(2, "", en(leaf(4, ""), "{{ flag }}"))), leaf(6, "")),
			"cascade-empty-all":       root(agg(1, "", agg(2, "", en(leaf(4, ""), "{{ flag }}")))),
			"two-iterators-order":     root(iter(leaf(2, ""), `["a","b"]`, "it"), leaf(3, ""), iter(leaf(4, ""), `["x","y"]`, "jt"), leaf(5, "")),
			"iterator-first-disabled": root(en(iter(leaf(2, ""), `["a","b","c"]`, "it"), "{{ it != 'a' }}"), leaf(3, "")),
			"iterator-mid-disabled":   root(en(iter(leaf(2, ""), `["a","b","c"]`, "it"), "{{ it != 'b' }}"), leaf(3, "")),
			"iterator-only-iterators": root(agg(1, "", en(iter(leaf(2, ""), `["a","b"]`, "it"), "false")), leaf(3, "")),
			"iterator-empty-in-agg":   root(agg(1, "", iter(leaf(2, ""), `[]`, "it")), leaf(3, "")),
			"iterator-and-plain":      root(agg(1, "", en(iter(leaf(2, ""), `["a","b"]`, "it"), "false"), en(leaf(4, ""), "{{ flag }}")), leaf(3, "")),
		}
		// range from a variable of the parent role, and a range that depends on the outer iteration variable
		pv := root(iter(leaf(2, ""), `{{ lst }}`, "it"))
		pv.Vars = []KV{{"lst", `["p","q"]`}}
		cases["range-from-parent-vars"] = pv
		inner := iter(leaf(4, ""), `["{{ it }}1","{{ it }}2"]`, "jt")
		inner.Vars = []KV{{"pair", "{{ it }}/{{ jt }}"}}
		cases["range-from-outer-element"] = root(iter(agg(2, "", inner), `["a","b"]`, "it"), leaf(6, ""))
		// deep nesting with variables handed down through an iterator and an include
		inc := &N{Kind: "include", Name: "n3", Include: "sub", Vars: []KV{{"fromInc", "I-{{ it }}"}}}
		deep := root(iter(agg(2, "", inc), `["a","b"]`, "it"))
		// order around an iterator whose elements are not sorted, and a repeated element between siblings
		cases["range-unsorted-between-siblings"] = root(leaf(1, ""), iter(leaf(2, ""), `["z","m","a"]`, "it"), leaf(3, ""), iter(agg(4, "", leaf(6, "")), `["10","9"]`, "jt"))
		cases["range-repeated-element"] = root(iter(agg(2, "", leaf(4, "")), `["a","b","a"]`, "it"), leaf(5, ""))
		names := []string{"range-unsorted-between-siblings", "range-repeated-element", "cascade-empty", "cascade-empty-all", "empty-roles-list", "empty-roles-list-only", "root-empty-roles-list", "two-iterators-order",
			"iterator-first-disabled", "iterator-mid-disabled", "iterator-only-iterators", "iterator-empty-in-agg", "iterator-and-plain",
			"range-from-parent-vars", "range-from-outer-element"}
		for _, k := range names {
			emit(newTemplate(cases[k], flag, "misc/"+k))
		}
		t := newTemplate(deep, flag, "misc/include-under-iterator")
		sub := agg(9, "", en(leaf(4, ""), "{{ flag }}"), leaf(5, ""))
		sub.Name = "sub"
		sub.Kids[1].Vars = []KV{{"seen", "{{ fromInc }}"}}
		t.Includes["sub"] = sub
		emit(t)
		// include roles: the name of the included template given by a variable; the included template's own root
		// switched off (literally / by expression) or left empty by pruning - the include role then disappears like any
		// emptied aggregator, and so does an aggregator it was the only member of; an include inside an included template
		mkSub := func(name string, kids ...*N) *N {
			s := agg(9, "", kids...)
			s.Name = name
			return s
		}
		incRole := func(idx int, target string) *N {
			return &N{Kind: "include", Name: fmt.Sprintf("n%d", idx), Include: target}
		}
		{
			r := root(leaf(1, ""), incRole(2, "{{ which }}"))
			r.Vars = []KV{{"which", "sub"}}
			t := newTemplate(r, flag, "misc/include-name-from-variable")
			t.Includes["sub"] = mkSub("sub", leaf(4, ""), leaf(5, ""))
			t.Includes["other"] = mkSub("other", leaf(6, ""))
			emit(t)
		}
		for _, form := range []string{"false", "{{ flag }}"} {
			t := newTemplate(root(leaf(1, ""), incRole(2, "sub"), agg(3, "", incRole(5, "sub"))), flag, "misc/include-root-disabled")
			sub := mkSub("sub", leaf(4, ""), leaf(6, ""))
			sub.Enabled = form
			sub.Vars = []KV{{"subvar", "S"}}
			t.Includes["sub"] = sub
			emit(t)
		}
		{
			t := newTemplate(root(leaf(1, ""), incRole(2, "sub"), agg(3, "", incRole(5, "sub"))), flag, "misc/include-left-empty")
			t.Includes["sub"] = mkSub("sub", en(leaf(4, ""), "{{ flag }}"), en(agg(6, "", leaf(8, "")), "{{ flag }}"))
			emit(t)
		}
		{
			t := newTemplate(root(incRole(2, "sub"), leaf(1, "")), flag, "misc/include-in-include")
			outer := mkSub("sub", leaf(4, ""), incRole(6, "sub2"))
			outer.Vars = []KV{{"fromOuter", "O"}}
			t.Includes["sub"] = outer
			inner := mkSub("sub2", en(leaf(8, ""), "{{ flag }}"), leaf(10, ""))
			inner.Kids[1].Vars = []KV{{"seen", "{{ fromOuter }}"}}
			t.Includes["sub2"] = inner
			emit(t)
		}
	}
}

// ---------------------------------------------------------------------------
// grid "nested": an iterator inside the template of another iterator; the inner roles refer to both
// iteration variables and to a variable defined on the generated outer role. Under concurrent
// processing the generated outer roles are expanded side by side, each with its own inner iterator.

func genNested(tier string, emit func(*Template)) {
	iter := func(n *N, ran, v string) *N {
		n.Iter = &Iter{Form: "range", Range: ran, Var: v}
		n.Name += "-{{ " + v + " }}"
		return n
	}
	for _, outer := range []string{`["a","b"]`, `["a","b","c"]`} {
		for _, innerRange := range []string{`["x","y"]`, `["{{ it }}1","{{ it }}2"]`} {
			for _, ov := range []string{"none", "vars", "defaults"} {
				for _, site := range []string{"vars", "defaults", "constraint", "bind"} {
					for _, sib := range []bool{false, true} {
						inner := iter(leaf(4, ""), innerRange, "jt")
						val := "{{ it }}/{{ jt }}"
						if ov != "none" {
							val += "/{{ ov }}"
						}
						switch site {
						case "vars":
							inner.Vars = []KV{{"pair", val}}
						case "defaults":
							inner.Defaults = []KV{{"pair", val}}
						case "constraint":
							inner.Cons = []KV{{"zone", val}}
						case "bind":
							inner.Bind = []KV{{"out", "g-" + val}}
						}
						mid := iter(agg(2, "", inner), outer, "it")
						switch ov {
						case "vars":
							mid.Vars = []KV{{"ov", "O-{{ it }}"}}
						case "defaults":
							mid.Defaults = []KV{{"ov", "O-{{ it }}"}}
						}
						kids := []*N{mid}
						if sib {
							kids = append(kids, leaf(6, ""))
						}
						emit(newTemplate(&N{Kind: "agg", Name: "root", Kids: kids}, "true", fmt.Sprintf("nested/outer-var=%s/ref=%s", ov, site)))
					}
				}
			}
		}
	}
}

func directScenarios() []*vrt.Scenario {
	return []*vrt.Scenario{
		directScenario("prune", "all trees with <= 2 (thorough: 3) roles below the root, depth <= 3, each role optionally an iterator over 2 elements, all assignments of enabled in {absent,true,false,{{ flag }}} to all roles, flag in {true,false}", genPrune),
		directScenario("iter", "one iterator (10 range forms: JSON list of 0/1/2, list from a variable, begin/end of 0/2/3 elements, an unsorted list of 3, a list repeating an element, begin/end 9..11) x 7 body forms (task, call, hook, aggregator of 1/2, nested iterator, include) x enabled of the iterator (absent,false,{{ flag }},element-dependent,comparison) x enabled inside the body x flag x with/without siblings", genIter),
		directScenario("vars", "chain root -> mid (aggregator | iterator) -> task; pv defined in every subset of <= 2 (thorough: 3) of 9 places (environment defaults/vars/user vars, root/mid/leaf defaults/vars), referenced from each of 9 templated fields of the leaf", genVars),
		directScenario("misc", "hand-picked corner templates (empty roles lists, cascades of emptied aggregators, order around iterators, element-dependent enabled, ranges from parent variables / the outer element, unsorted and repeated range elements between siblings, include under an iterator, include named by a variable, included root switched off or left empty, include inside an included template) x flag", genMisc),
		directScenario("nested", "iterator (2-3 elements) over an aggregator holding an inner iterator (fixed range / range built from the outer element) x a variable defined on the generated outer role (absent, vars, defaults) x the inner roles referring to both iteration variables and that variable from vars / defaults / constraints / bind x with/without a sibling", genNested),
		directScenario("errors", "5 base templates x every role x every templated field x 3 kinds of template error (one at a time), plus errors that hit a single element of an iterator range", genErrors),
	}
}

#!/bin/bash
# Applies every mutant of mutants/C15 to a scratch copy of the repository and
# runs the C15 check against it; prints the clause signatures each mutant adds
# to those of the unchanged tree. Never touches /repo.
#   usage: harness/c15/mutants.sh [scratch-dir]   (default /tmp/repo-c15; created from /repo if missing)
set -u
V=$(cd "$(dirname "$0")/../.." && pwd)
S=${1:-/tmp/repo-c15}
export GOFLAGS=-mod=mod GOPROXY=off GOSUMDB=off GOTOOLCHAIN=local
export VERIF_WORK=${VERIF_WORK:-/tmp/vw-c15}
if [ ! -d "$S" ]; then
  mkdir -p "$S" && rsync -a --exclude=.git /repo/ "$S"/ && (cd "$S" && git init -q . && git add -A >/dev/null && git -c user.name=v -c user.email=v@v commit -q -m base)
fi
sigs() { grep -E '^  [a-z0-9-]+:' | sed -E 's/^  ([^ ]+): .*/\1/' | sed -E 's/:$//' | sort -u; }
run() { (cd "$V" && VERIF_REPO="$S" ./check C15 2>&1); }
(cd "$S" && git checkout -q . )
echo "== baseline (unchanged tree)"
run > /tmp/c15-mut-base.out; sigs < /tmp/c15-mut-base.out > /tmp/c15-mut-base.sigs; tail -1 /tmp/c15-mut-base.out
for p in "$V"/mutants/C15/*.patch; do
  (cd "$S" && git checkout -q . && git apply "$p") || { echo "cannot apply $p"; continue; }
  echo "== $(basename "$p")"
  run > /tmp/c15-mut.out; sigs < /tmp/c15-mut.out > /tmp/c15-mut.sigs; tail -1 /tmp/c15-mut.out
  new=$(comm -13 /tmp/c15-mut-base.sigs /tmp/c15-mut.sigs)
  if [ -n "$new" ]; then echo "CAUGHT by:"; echo "$new" | sed 's/^/   /'; else echo "NOT CAUGHT"; fi
done
(cd "$S" && git checkout -q . )

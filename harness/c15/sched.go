// Part (b): schedule exploration of concurrent sibling processing.
package main

import (
	"fmt"
	"strings"

	vrt "github.com/AliceO2Group/Control/verif_vrt"
)

type schedCase struct {
	name string
	t    *Template
	// preempt only at statement-level yields and thread starts (the go-func
	// bodies of the two files), or at every scheduling point (locks of the
	// variable maps included)
	yieldsOnly      bool
	quick, thorough vrt.Bounds
}

func failingTask(idx int, name string) *N {
	return &N{Kind: "task", Name: name, Load: "readout" + errSyntax}
}

func schedTemplates() []schedCase {
	var out []schedCase
	mkroot := func(kids ...*N) *N { return &N{Kind: "agg", Name: "root", Kids: kids} }
	task := func(name string) *N { return &N{Kind: "task", Name: name, Load: "readout"} }
	iterOver := func(ran string, body *N) *N {
		body.Iter = &Iter{Form: "range", Range: ran, Var: "it"}
		return body
	}
	// element "x" fails (int("x")), "1" and "2" load
	el := func() *N {
		l := task("n2-{{ it }}")
		l.Vars = []KV{{"k", "{{ int(it) }}"}}
		return l
	}
	add := func(name string, root *N, yq, yt, aq, at int) {
		t := newTemplate(root, "true", "sched")
		// bounds: yq/yt = preemption bound at statement yields (quick/thorough), aq/at = at all points; -1 = not in this tier
		out = append(out, schedCase{name: name, t: t, yieldsOnly: true, quick: vrt.Bounds{Dev: yq, Seconds: 60}, thorough: vrt.Bounds{Dev: yt, Seconds: 600}})
		out = append(out, schedCase{name: name + "-allpoints", t: t, yieldsOnly: false, quick: vrt.Bounds{Dev: aq, Seconds: 60}, thorough: vrt.Bounds{Dev: at, Seconds: 600}})
	}
	// aggregator children: the first of two fails
	add("agg2-first-fails", mkroot(failingTask(1, "n1"), task("n2")), 3, 4, 1, 2)
	// aggregator children: the last two of three fail
	add("agg3-two-fail", mkroot(task("n1"), failingTask(2, "n2"), failingTask(3, "n3")), 2, 3, 1, 1)
	// iterator children
	add("iter2-first-fails", mkroot(iterOver(`["x","1"]`, el())), 3, 4, 1, 2)
	add("iter2-last-fails", mkroot(iterOver(`["1","x"]`, el())), 2, 4, 1, 2)
	add("iter3-two-fail", mkroot(iterOver(`["x","1","y"]`, el())), 1, 2, 1, 1)
	// iterator over aggregators whose child fails for one element, next to a plain sibling
	ag := &N{Kind: "agg", Name: "n2-{{ it }}", Kids: []*N{el()}}
	ag.Kids[0].Name = "n4"
	add("iter2-agg-sibling", mkroot(iterOver(`["1","x"]`, ag), task("n5")), 1, 1, 0, 0)
	// nothing fails: every interleaving must give the same tree (2 iterated + 1 plain sibling)
	ok := task("n2-{{ it }}")
	ok.Vars = []KV{{"k", "{{ it }}"}}
	add("ok-iter2-sibling", mkroot(iterOver(`["a","b"]`, ok), task("n5")), 1, 3, 1, 1)
	return out
}

func scheduleScenarios() []*vrt.Scenario {
	var out []*vrt.Scenario
	for _, c := range schedTemplates() {
		c := c
		cfg := vrt.Config{}
		if c.yieldsOnly {
			cfg.Preempt = func(kind vrt.OpKind, site string) bool { return kind == vrt.OpYield || kind == vrt.OpStart }
		}
		rd := render(c.t)
		exp := Reference(c.t, repoClass)
		var oc outcome
		out = append(out, &vrt.Scenario{
			Name: c.name, Prop: "C15", Cfg: cfg,
			Doc:   fmt.Sprintf("all switches on; expected: fail=%v; preemption at %s", exp.Fail, map[bool]string{true: "statement yields of the go-func bodies", false: "every scheduling point"}[c.yieldsOnly]),
			Setup: func() { setup(); setSwitches(7) },
			Body: func() {
				oc = outcome{}
				loadBody(rd, &oc)
				if oc.failed {
					vrt.Logf("load fails: %s", strings.SplitN(oc.err, "\n", 2)[0])
				} else {
					vrt.Logf("load ok:\n%s", dumpString(oc.tree))
				}
			},
			Check: func(x *vrt.Exec) []vrt.Violation {
				if x.Deadlock != "" {
					return nil
				}
				cl, det := judge(c.t, exp, oc)
				if cl == "" {
					return nil
				}
				if strings.HasPrefix(cl, "error-not-reported") {
					cl = "error-not-reported:concurrent-sibling"
				}
				return []vrt.Violation{{Clause: cl, Detail: det + "\ninput:\n" + c.t.String()}}
			},
			Quick: c.quick, Thorough: c.thorough,
			DeadlockClause: "load-hangs", PanicClause: "panic",
		})
	}
	return out
}

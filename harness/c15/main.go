// C15: loading a workflow is deterministic and prunes disabled roles.
//
// Part (a), Direct scenarios: workflow templates generated from a small grammar
// are unmarshalled by the real yaml code and processed by the real
// ProcessTemplates under all 8 settings of the three concurrency switches, two
// loads each (the second under a maximally preempting schedule; all-off and
// all-on get a third, plain repetition); verdict and canonical dump must not
// depend on switches, schedule or repetition and must equal an independent
// reference expansion (ref.go); a template error in a role that is part of the
// expansion must make the load fail. Each load runs in its own controlled
// execution (vrt.Run); the grids are split over worker processes (computeGrid).
//
// Part (b), schedule scenarios: templates with 2-3 concurrent siblings of which
// one or two fail (or none), all switches on, statement-level yields inside the
// go-func bodies of aggregatorrole.go / iteratorrole.go (harness/instr.json):
// every interleaving up to the preemption bound must fail the load (or give the
// reference tree when nothing fails). See sched.go.
package main

import (
	"encoding/json"
	"fmt"
	"io"
	"os"
	"os/exec"
	"runtime/debug"
	"runtime/pprof"
	"sort"
	"strings"

	"github.com/AliceO2Group/Control/common/event"
	"github.com/AliceO2Group/Control/common/gera"
	"github.com/AliceO2Group/Control/common/utils/uid"
	"github.com/AliceO2Group/Control/core/the"
	"github.com/AliceO2Group/Control/core/workflow"
	vrt "github.com/AliceO2Group/Control/verif_vrt"
	"github.com/sirupsen/logrus"
	"github.com/spf13/viper"
)

var switchKeys = []string{
	"concurrentWorkflowTemplateProcessing",
	"concurrentWorkflowTemplateIteratorProcessing",
	"concurrentIteratorRoleExpansion",
}
var switchShort = []string{"aggregatorProcessing", "iteratorProcessing", "iteratorExpansion"}

func setSwitches(sw int) {
	for i, k := range switchKeys {
		viper.Set(k, sw&(1<<i) != 0)
	}
}

func switchNames(sw int) string {
	if sw == 0 {
		return "none"
	}
	var l []string
	for i := range switchKeys {
		if sw&(1<<i) != 0 {
			l = append(l, switchShort[i])
		}
	}
	return strings.Join(l, "+")
}

// stubRepo stands for the workflow repository (a peer of the loader): it only
// turns class / template names into identifiers.
type stubRepo struct{}

func (stubRepo) GetIdentifier() string                                { return "verif/repo" }
func (stubRepo) GetCloneDir() string                                  { return "/nonexistent/verif/repo" }
func (stubRepo) GetProtocol() string                                  { return "local" }
func (stubRepo) GetHash() string                                      { return "h0" }
func (stubRepo) GetRevisions() []string                               { return nil }
func (stubRepo) GetDefaultRevision() string                           { return "local" }
func (stubRepo) IsDefault() bool                                      { return true }
func (stubRepo) GetTaskTemplatePath(s string) string                  { return "/nonexistent/" + s }
func (stubRepo) GetDplCommand(string) (string, error)                 { return "", fmt.Errorf("no dpl commands") }
func (stubRepo) ResolveTaskClassIdentifier(s string) string           { return repoClass(s) }
func (stubRepo) ResolveSubworkflowTemplateIdentifier(s string) string { return s }

func repoClass(s string) string { return "verif/repo/tasks/" + s + "@h0" }

var initDone bool

func setup() {
	logrus.SetOutput(io.Discard)
	logrus.SetLevel(logrus.PanicLevel)
	if !initDone {
		viper.Set("config_endpoint", "mock://")
		the.ConfSvc() // create the singleton outside the controlled world
		initDone = true
	}
}

// outcome of one load.
type outcome struct {
	failed   bool
	err      string
	tree     []Obs
	panics   []string
	deadlock string
}

func (o outcome) verdict() string {
	switch {
	case len(o.panics) > 0:
		return "panic"
	case o.deadlock != "":
		return "hang"
	case o.failed:
		return "load-fails"
	}
	return "load-ok"
}

func (o outcome) key() string {
	return o.verdict() + "\n" + dumpString(o.tree)
}

type rendered struct {
	t    *Template
	docs map[string]string
}

func render(t *Template) *rendered {
	r := &rendered{t: t, docs: map[string]string{"": t.Root.YAML()}}
	for k, v := range t.Includes {
		r.docs[k] = v.YAML()
	}
	return r
}

// loadBody loads the template once (to be called inside a controlled execution).
func loadBody(r *rendered, oc *outcome) {
	mk := func(m map[string]string) func() gera.Map[string, string] {
		g := gera.MakeMapWithMap(copyMapSS(m))
		return func() gera.Map[string, string] { return g }
	}
	parent := workflow.NewParentAdapter(
		func() uid.ID { return uid.ID("verifenv") },
		func() uint32 { return 0 },
		mk(r.t.EnvDefs), mk(r.t.EnvVars), mk(r.t.UserVars),
		func(event.Event) {})
	root, err := workflow.VerifC15Load(r.docs, parent, stubRepo{}, map[string]string{})
	if err != nil {
		oc.failed, oc.err = true, err.Error()
		return
	}
	for _, n := range workflow.VerifC15Dump(root) {
		oc.tree = append(oc.tree, Obs{Depth: n.Depth, Kind: n.Kind, Path: n.Path, Name: n.Name, Enabled: n.Enabled,
			Class: n.Class, Func: n.Func, Return: n.Return, Trigger: n.Trigger, Await: n.Await, Timeout: n.Timeout, Critical: n.Critical,
			D: n.Defaults, V: n.Vars, U: n.UserVars, Stack: n.Stack, Cons: n.Constraints, Connect: n.Connect, Bind: n.Bind})
	}
}

// runLoad performs one load under switch setting sw in its own controlled
// execution: schedule 0 never preempts, schedule 1 switches to the last
// runnable thread at every scheduling point.
func runLoad(r *rendered, sw int, schedule int) outcome {
	setSwitches(sw)
	var oc outcome
	x := vrt.Run(vrt.Config{}, func(n int, cost bool, label string) int {
		if schedule == 1 {
			return n - 1
		}
		return 0
	}, func() { loadBody(r, &oc) })
	oc.panics, oc.deadlock = x.Panics, x.Deadlock
	if len(oc.panics) > 0 || oc.deadlock != "" {
		oc.tree = nil
	}
	return oc
}

// desc is the input-class descriptor of a template role (used in clauses).
func desc(n *N) string {
	if n == nil {
		return "?"
	}
	s := n.Kind
	if n.Iter != nil {
		s = "iterator(" + n.Iter.Form + ")/" + s
	}
	e := n.Enabled
	switch {
	case e == "":
		e = "absent"
	case strings.Contains(e, errSyntax) || strings.Contains(e, errUnterminated) || strings.Contains(e, errCall):
		e = "template-error"
	case strings.Contains(e, "{{"):
		e = "expression"
	}
	return s + "/enabled=" + e
}

// pruneDesc is the coarser class used for roles that are missing from / extra in
// the tree: what matters there is whether the role is an iterator and which
// form its `enabled` has.
func pruneDesc(n *N) string {
	d := desc(n)
	e := d[strings.Index(d, "enabled="):]
	if n != nil && n.Iter != nil {
		return "iterator/" + e
	}
	return e
}

func sameMap(a, b map[string]string) bool {
	if len(a) != len(b) {
		return false
	}
	for k, v := range a {
		if w, ok := b[k]; !ok || w != v {
			return false
		}
	}
	return true
}

func sameList(a, b []string) bool {
	return strings.Join(a, "\x00") == strings.Join(b, "\x00") && len(a) == len(b)
}

// kidsDesc describes the children of the template role an observed role comes
// from (template roles are named n<k>, copies n<k>-<element>).
func kidsDesc(t *Template, name string) string {
	base := strings.SplitN(name, "-", 2)[0]
	var found *N
	visit := func(m *N) {
		if found == nil && strings.SplitN(m.Name, "-", 2)[0] == base {
			found = m
		}
	}
	t.Root.walk(visit)
	for _, inc := range t.Includes {
		inc.walk(visit)
	}
	if found == nil {
		return "?"
	}
	if found.Kind == "include" {
		return "children=included"
	}
	iters := 0
	for _, k := range found.Kids {
		if k.Iter != nil {
			iters++
		}
	}
	switch {
	case len(found.Kids) == 0:
		return "children=none"
	case iters == len(found.Kids):
		return "children=only-iterators"
	case iters > 0:
		return "children=iterators-and-plain-roles"
	}
	return "children=plain-roles"
}

// diffTree compares an observed tree with the expected one and names the
// first difference by category and by the class of the template role involved.
func diffTree(t *Template, exp, got []Obs) (clause string, detail string) {
	// structural well-formedness of the observed tree, straight from the statement
	for i, g := range got {
		if g.Kind != "agg" && g.Kind != "task" && g.Kind != "call" {
			return "tree:malformed:" + g.Kind, fmt.Sprintf("role %d is %s", i, g.Kind)
		}
		if i > 0 && !g.Enabled {
			return "tree:disabled-role-present:" + g.Kind, "role " + g.Path + " is in the tree but is not enabled"
		}
		if i > 0 && g.Kind == "agg" && (i+1 >= len(got) || got[i+1].Depth <= g.Depth) {
			kd := kidsDesc(t, g.Name)
			if !strings.Contains(kd, "iterators") {
				// not the recorded defect (an aggregator left with nothing but empty iterators): an aggregator or an
				// include role emptied by pruning stayed in the tree - a clause of its own, outside the recorded glob
				return "tree:emptied-aggregator-present:" + kd, "aggregator " + g.Path + " has no children but is in the tree"
			}
			return "tree:empty-aggregator-present:" + kd, "aggregator " + g.Path + " has no children but is in the tree"
		}
	}
	if len(exp) == 1 && exp[0].Path == "*" {
		// root disabled or left empty: no children, not enabled
		if len(got) != 1 {
			return "tree:extra-role:under-disabled-or-empty-root", fmt.Sprintf("root has %d descendants", len(got)-1)
		}
		if got[0].Enabled {
			kd := kidsDesc(t, got[0].Name)
			if !strings.Contains(kd, "iterators") {
				return "tree:emptied-aggregator-present:root/" + kd, "root is enabled although it is disabled or has no children"
			}
			return "tree:empty-aggregator-present:root/" + kd, "root is enabled although it is disabled or has no children"
		}
		return "", ""
	}
	key := func(o Obs) string { return fmt.Sprintf("%d %s", o.Depth, o.Path) }
	ek, gk := map[string]int{}, map[string]int{}
	for _, o := range exp {
		ek[key(o)]++
	}
	for _, o := range got {
		gk[key(o)]++
	}
	// several expected roles may be missing for one cause (descendants of a
	// missing role, ancestors left empty by it); the witness is the missing role
	// of the most specific class
	var miss *Obs
	rank := func(o *Obs) int {
		for i, c := range []string{"iterator/enabled=expression", "enabled=expression", "iterator/enabled=false", "enabled=false", "iterator/enabled=true", "iterator/enabled=absent", "enabled=true", "enabled=absent"} {
			if pruneDesc(o.Src) == c {
				return i
			}
		}
		return 99
	}
	for i := range exp {
		o := &exp[i]
		if gk[key(*o)] < ek[key(*o)] && (miss == nil || rank(o) < rank(miss)) {
			miss = o
		}
	}
	if miss != nil {
		return "tree:missing-role:" + pruneDesc(miss.Src), "expected role " + miss.Path + " is not in the tree\nexpected:\n" + dumpString(exp) + "\nfound:\n" + dumpString(got)
	}
	for _, o := range got {
		if gk[key(o)] > ek[key(o)] {
			return "tree:extra-role:" + o.Kind, "role " + o.Path + " should not be in the tree\nexpected:\n" + dumpString(exp) + "\nfound:\n" + dumpString(got)
		}
	}
	for i := range exp {
		if key(exp[i]) != key(got[i]) {
			return "tree:order:" + pruneDesc(exp[i].Src), fmt.Sprintf("position %d: expected %s, found %s", i, exp[i].Path, got[i].Path)
		}
	}
	for i := range exp {
		e, g := exp[i], got[i]
		f := ""
		switch {
		case e.Kind != g.Kind:
			f = "kind"
		case e.Name != g.Name:
			f = "name"
		case e.Enabled != g.Enabled:
			f = "enabled"
		case e.Class != g.Class:
			f = "class"
		case e.Func != g.Func:
			f = "func"
		case e.Return != g.Return:
			f = "return"
		case e.Trigger != g.Trigger:
			f = "trigger"
		case e.Await != g.Await:
			f = "await"
		case e.Timeout != "*" && e.Timeout != g.Timeout:
			f = "timeout"
		case e.Kind != "agg" && e.Critical != g.Critical:
			f = "critical"
		case !sameMap(e.D, g.D):
			f = "defaults"
		case !sameMap(e.V, g.V):
			f = "vars"
		case !sameMap(e.U, g.U):
			f = "uservars"
		case !sameMap(e.Stack, g.Stack):
			f = "varstack"
		case !sameList(e.Cons, g.Cons):
			f = "constraints"
		case !sameList(e.Connect, g.Connect):
			f = "connect"
		case !sameList(e.Bind, g.Bind):
			f = "bind"
		}
		if f != "" {
			return "tree:field-" + f + ":" + desc(e.Src), fmt.Sprintf("role %s:\n expected %s\n found    %s", e.Path, e.String(), g.String())
		}
	}
	return "", ""
}

// judge compares one outcome with the reference; "" = fine.
func judge(t *Template, exp *Expect, o outcome) (clause, detail string) {
	switch o.verdict() {
	case "panic":
		return "panic:" + panicSig(o.panics[0]), o.panics[0]
	case "hang":
		return "hang", o.deadlock
	}
	if strings.HasPrefix(o.err, "verif-unmarshal") {
		return "HARNESS-BUG:generated-yaml-rejected", o.err
	}
	if exp.Fail {
		if !o.failed {
			return "error-not-reported:" + exp.FailSite, "a template error in " + exp.FailSite + " did not fail the load; tree:\n" + dumpString(o.tree)
		}
		return "", ""
	}
	if o.failed {
		if exp.Unreached {
			// "roles whose enabled expression is false are absent together with their whole subtree": what
			// is absent is not evaluated, so a template error inside a pruned role (or in the body of an
			// iterator over nothing) is no error of the tree being built. The unchanged code agrees on
			// every template of the grids; C15_LENIENT_PRUNED=1 restores the earlier, undecided reading.
			if os.Getenv("C15_LENIENT_PRUNED") != "" {
				return "", ""
			}
			return "pruned-role-evaluated", "the load failed on a template error that sits in a role which is pruned: " + o.err
		}
		return "spurious-failure", "load failed without any template error: " + o.err
	}
	return diffTree(t, exp.Tree, o.tree)
}

func panicSig(p string) string {
	l := strings.SplitN(p, "\n", 2)[0]
	if i := strings.Index(l, "): "); i >= 0 {
		l = l[i+3:]
	}
	if len(l) > 70 {
		l = l[:70]
	}
	return l
}

// swOrder: switch settings by number of switches on.
var swOrder = []int{0, 1, 2, 4, 3, 5, 6, 7}

// finding is one violation found for one template.
type finding struct {
	Idx    int    // index of the template in the grid's enumeration order
	Base   string // clause without the mode suffix
	Clause string
	Detail string
}

// shardResult is what one pass over (a shard of) a grid produced.
type shardResult struct {
	Templates, Loads int
	Counts           map[string]int64
	Findings         []finding
	Sample           string
}

// checkTemplate runs the 16 loads of one template.
func checkTemplate(res *shardResult, idx int, t *Template) {
	for _, pre := range t.Prelude {
		runLoad(render(pre), 0, 0)
		res.Loads++
	}
	rd := render(t)
	exp := Reference(t, repoClass)
	res.Templates++
	local := map[string]bool{}
	fail := func(base, mode, detail string) {
		if local[base] {
			return // within one template: report a clause for the smallest switch setting only
		}
		local[base] = true
		res.Findings = append(res.Findings, finding{Idx: idx, Base: base, Clause: base + mode,
			Detail: fmt.Sprintf("%s\ninput (%s):\n%s", detail, t.Class, t.String())})
	}
	var base outcome
	baseClause := ""
	verdicts := map[string]bool{}
	for _, sw := range swOrder {
		for sched := 0; sched < 3; sched++ {
			if sched == 2 && sw != 0 && sw != 7 {
				continue // plain repetition (same schedule as the first load) for all-off and all-on only
			}
			o := runLoad(rd, sw, sched)
			res.Loads++
			verdicts[o.verdict()] = true
			mode := ""
			if sw != 0 || sched != 0 {
				mode = ":only-with=" + switchNames(sw)
				if sched == 1 {
					mode += ",preempting-schedule"
				}
				if sched == 2 {
					mode += ",repeated-load"
				}
			}
			cl, det := judge(t, exp, o)
			if sw == 0 && sched == 0 {
				base, baseClause = o, cl
			}
			if cl != "" && cl != baseClause {
				// fine sequentially, wrong in this mode: the witness is the mode, not the field
				if strings.HasPrefix(cl, "error-not-reported:") {
					cl = "error-not-reported:concurrent-sibling"
				}
			}
			if cl != "" {
				fail(cl, mode, det)
			} else if baseClause == "" && o.key() != base.key() {
				what := "tree"
				if o.verdict() != base.verdict() {
					what = "verdict"
				}
				fail("nondeterministic:"+what, mode, fmt.Sprintf("sequential first load: %s\n%s\nthis load: %s\n%s", base.verdict(), dumpString(base.tree), o.verdict(), dumpString(o.tree)))
			}
		}
	}
	var vs []string
	for v := range verdicts {
		vs = append(vs, v)
	}
	sort.Strings(vs)
	want := "expect-tree"
	if exp.Fail {
		want = "expect-failure"
	} else if exp.Unreached {
		want = "error-in-pruned-role"
	} else if len(exp.Tree) == 1 && exp.Tree[0].Path == "*" {
		want = "expect-empty-root"
	}
	res.Counts[t.Class+" | "+want+" | "+strings.Join(vs, "+")]++
}

const nShards = 8

// runGrid enumerates the grid (or the shard of it named by C15_SHARD=i/n).
func runGrid(name, tier string, gen func(tier string, emit func(*Template)), shard, of int) *shardResult {
	setup()
	res := &shardResult{Counts: map[string]int64{}}
	idx := 0
	var sample *Template
	gen(tier, func(t *Template) {
		i := idx
		idx++
		if i%of != shard {
			return
		}
		if sample == nil {
			sample = t
		}
		checkTemplate(res, i, t)
	})
	if sample != nil && shard == 0 {
		exp := Reference(sample, repoClass)
		o := runLoad(render(sample), 7, 1)
		res.Sample = fmt.Sprintf("%s: input:\n%sexpected (fail=%v):\n%s\nobserved (all switches on, preempting schedule): %s\n%s", name, sample.String(), exp.Fail, dumpString(exp.Tree), o.verdict(), dumpString(o.tree))
	}
	return res
}

// merged is the result of a whole grid.
type merged struct {
	templates, loads int
	counts           map[string]int64
	findings         []finding // one per clause: the first template (in enumeration order) that shows it
	samples, notes   []string
	complete         bool
}

// computeGrid enumerates a whole grid. The grid is split over worker processes
// by template index (the harness itself starts no goroutines; the controlled
// runtime is single-threaded per process); the merge does not depend on the
// number of workers.
func computeGrid(name, tier string, gen func(tier string, emit func(*Template))) *merged {
	m := &merged{counts: map[string]int64{}, complete: true}
	var parts []*shardResult
	if os.Getenv("C15_NOSHARD") != "" {
		parts = append(parts, runGrid(name, tier, gen, 0, 1))
	} else {
		self, _ := os.Executable()
		dir, _ := os.MkdirTemp("", "c15-shards")
		defer os.RemoveAll(dir)
		var cmds []*exec.Cmd
		for i := 0; i < nShards; i++ {
			cmd := exec.Command(self, "-scenario", name, "-tier", tier)
			cmd.Env = append(os.Environ(), fmt.Sprintf("C15_SHARD=%d/%d", i, nShards), fmt.Sprintf("C15_SHARD_OUT=%s/%d.json", dir, i))
			cmd.Stderr = os.Stderr
			if err := cmd.Start(); err != nil {
				m.complete = false
				m.notes = append(m.notes, "ENGINE: cannot start worker: "+err.Error())
				break
			}
			cmds = append(cmds, cmd)
		}
		for i, cmd := range cmds {
			err := cmd.Wait()
			var res shardResult
			js, rerr := os.ReadFile(fmt.Sprintf("%s/%d.json", dir, i))
			if err != nil || rerr != nil || json.Unmarshal(js, &res) != nil {
				m.complete = false
				m.notes = append(m.notes, fmt.Sprintf("ENGINE: worker %d failed (%v %v)", i, err, rerr))
				continue
			}
			parts = append(parts, &res)
		}
	}
	best := map[string]finding{}
	for _, p := range parts {
		m.templates += p.Templates
		m.loads += p.Loads
		for k, v := range p.Counts {
			m.counts[k] += v
		}
		for _, f := range p.Findings {
			if b, ok := best[f.Clause]; !ok || f.Idx < b.Idx {
				best[f.Clause] = f
			}
		}
		if p.Sample != "" {
			m.samples = append(m.samples, p.Sample)
		}
	}
	for _, f := range best {
		m.findings = append(m.findings, f)
	}
	sort.Slice(m.findings, func(i, j int) bool {
		a, b := m.findings[i], m.findings[j]
		return a.Idx < b.Idx || (a.Idx == b.Idx && a.Clause < b.Clause)
	})
	return m
}

func directScenario(name, doc string, gen func(tier string, emit func(*Template))) *vrt.Scenario {
	var replay []finding
	return &vrt.Scenario{Name: name, Prop: "C15", Doc: doc,
		Direct: func(r *vrt.DirectReport, tier string) {
			if sh := os.Getenv("C15_SHARD"); sh != "" {
				// worker process: one shard, result to the side file
				var i, n int
				fmt.Sscanf(sh, "%d/%d", &i, &n)
				res := runGrid(name, tier, gen, i, n)
				js, _ := json.Marshal(res)
				os.WriteFile(os.Getenv("C15_SHARD_OUT"), js, 0o644)
				return
			}
			m := computeGrid(name, tier, gen)
			r.Exhaustive = m.complete
			r.Distinct = m.counts
			for _, v := range m.counts {
				r.Evaluations += v
			}
			for _, f := range m.findings {
				r.Fail(f.Clause, "%s", f.Detail)
			}
			r.Samples = append(r.Samples, m.samples...)
			r.Notes = append(r.Notes, m.notes...)
			r.Notes = append(r.Notes, fmt.Sprintf("%s: %d templates x (8 switch settings x 2 schedules + 2 plain repetitions) = %d loads of the real yaml unmarshalling + ProcessTemplates; %s", name, m.templates, m.loads, doc))
		},
		// `check replay <file>` of a Direct violation: the grid is enumerated again
		// (tier from VERIF_TIER, default quick) and every clause found is reported
		Setup: func() {
			tier := os.Getenv("VERIF_TIER")
			if tier == "" {
				tier = "quick"
			}
			replay = computeGrid(name, tier, gen).findings
		},
		Body: func() {
			for _, f := range replay {
				vrt.Fail(f.Clause, "%s", f.Detail)
			}
		},
	}
}

func main() {
	if pf := os.Getenv("VERIF_C15_PROF"); pf != "" {
		f, _ := os.Create(pf)
		pprof.StartCPUProfile(f)
		defer pprof.StopCPUProfile()
	}
	debug.SetGCPercent(400)
	var all []*vrt.Scenario
	all = append(all, directScenarios()...)
	all = append(all, scheduleScenarios()...)
	vrt.Main(all)
}

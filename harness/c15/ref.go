// Reference expansion of a workflow template, written from the property
// statement and docs/handbook/configuration.md only:
//
//   - a role whose `enabled` is false is absent together with its subtree;
//   - an aggregator that is left without children is absent too (the root
//     cannot be absent: it is then reported as not enabled, without children);
//   - an iterator yields one copy of its body per element of its range, in
//     order, with the iteration variable bound for the copy and its subtree;
//   - `defaults` and `vars` of a role are inherited by its children; a child's
//     entry overrides the inherited one; vars override defaults; user variables
//     override both;
//   - constraints of a role also restrict its children;
//   - hook tasks and calls: `await` defaults to `trigger`, `timeout` to 30s,
//     `critical` to true;
//   - a template error in a role that is part of the expansion makes the load fail.
//
// The reference understands exactly the expression forms the generator emits.
package main

import (
	"fmt"
	"sort"
	"strconv"
	"strings"
)

// Obs is one role of a processed tree (expected or observed).
type Obs struct {
	Depth                                        int
	Kind, Path, Name                             string
	Enabled                                      bool
	Class, Func, Return, Trigger, Await, Timeout string
	Critical                                     bool
	D, V, U, Stack                               map[string]string
	Cons, Connect, Bind                          []string
	Src                                          *N // expected side only: the template role it comes from
}

// Expect is what the reference says about one load.
type Expect struct {
	Fail      bool   // a template error sits in a role that is part of the expansion
	FailSite  string // which field / role kind (for the clause)
	Unreached bool   // a template error sits in a role that is pruned: not evaluated, the load succeeds with the pruned tree
	Tree      []Obs
}

const (
	errSyntax       = "{{ 1 + }}" // expression that does not parse
	errUnterminated = "{{ broken" // tag that is never closed
	errCall         = "{{ nosuchfunction(1) }}"
)

type evalErr struct{ what string }

func (e *evalErr) Error() string { return e.what }

// refEval evaluates the expression forms used by the generator.
func refEval(s string, stack map[string]string, upPath func(int) string) (string, error) {
	var out strings.Builder
	for {
		i := strings.Index(s, "{{")
		if i < 0 {
			out.WriteString(s)
			return out.String(), nil
		}
		out.WriteString(s[:i])
		j := strings.Index(s[i:], "}}")
		if j < 0 {
			return "", &evalErr{"unterminated tag"}
		}
		tag := strings.TrimSpace(s[i+2 : i+j])
		s = s[i+j+2:]
		val, err := refExpr(tag, stack, upPath)
		if err != nil {
			return "", err
		}
		out.WriteString(val)
	}
}

func isIdent(s string) bool {
	if s == "" {
		return false
	}
	for _, c := range s {
		if !(c == '_' || c >= 'a' && c <= 'z' || c >= 'A' && c <= 'Z' || c >= '0' && c <= '9') {
			return false
		}
	}
	return !(s[0] >= '0' && s[0] <= '9')
}

func refExpr(tag string, stack map[string]string, upPath func(int) string) (string, error) {
	switch {
	case isIdent(tag):
		v, ok := stack[tag]
		if !ok {
			return "", &evalErr{"undefined variable " + tag} // unknown name: a template error
		}
		return v, nil
	case strings.HasPrefix(tag, "Up(") && strings.HasSuffix(tag, ").Path"):
		n, err := strconv.Atoi(tag[3 : len(tag)-6])
		if err != nil {
			panic("bad Up: " + tag)
		}
		return upPath(n), nil
	case strings.HasPrefix(tag, "int(") && strings.HasSuffix(tag, ")"):
		v, ok := stack[tag[4:len(tag)-1]]
		if !ok {
			return "", &evalErr{"undefined variable in " + tag}
		}
		n, err := strconv.Atoi(v)
		if err != nil {
			return "", &evalErr{"not a number"}
		}
		return strconv.Itoa(n), nil
	case strings.Contains(tag, " == '") || strings.Contains(tag, " != '"):
		op := " == '"
		if !strings.Contains(tag, op) {
			op = " != '"
		}
		k := strings.Index(tag, op)
		id, lit := tag[:k], strings.TrimSuffix(tag[k+len(op):], "'")
		v, ok := stack[id]
		if !ok {
			return "", &evalErr{"undefined variable in " + tag}
		}
		return strconv.FormatBool((v == lit) == (op == " == '")), nil
	case tag == "1 +" || tag == "nosuchfunction(1)":
		return "", &evalErr{"bad expression"}
	}
	panic("reference does not know expression form: " + tag)
}

func copyMapSS(m map[string]string) map[string]string {
	c := make(map[string]string, len(m))
	for k, v := range m {
		c[k] = v
	}
	return c
}

func overlay(ms ...map[string]string) map[string]string {
	c := map[string]string{}
	for _, m := range ms {
		for k, v := range m {
			c[k] = v
		}
	}
	return c
}

type refCtx struct {
	paths   []string // paths of the ancestors, nearest last ("" for the environment)
	d, v, u map[string]string
	cons    []KV
	depth   int
}

type refState struct {
	t         *Template
	exp       *Expect
	repoClass func(string) string
}

func (st *refState) fail(site string) {
	if !st.exp.Fail {
		st.exp.Fail = true
		st.exp.FailSite = site
	}
}

// hasError tells whether a role (without its children) carries an injected template error.
func hasError(n *N) bool {
	bad := func(s string) bool {
		return strings.Contains(s, errSyntax) || strings.Contains(s, errUnterminated) || strings.Contains(s, errCall) || strings.Contains(s, "int(")
	}
	fields := []string{n.Name, n.Enabled, n.Load, n.Func, n.Return, n.Trigger, n.Await, n.Timeout, n.Include}
	for _, l := range [][]KV{n.Defaults, n.Vars, n.Cons, n.Connect, n.Bind} {
		for _, kv := range l {
			fields = append(fields, kv.V)
		}
	}
	if n.Iter != nil {
		fields = append(fields, n.Iter.Range, n.Iter.Begin, n.Iter.End)
	}
	for _, f := range fields {
		if bad(f) {
			return true
		}
	}
	return false
}

func subtreeHasError(n *N, t *Template) bool {
	found := false
	n.walk(func(m *N) {
		if hasError(m) {
			found = true
		}
		if m.Kind == "include" {
			if inc := t.Includes[m.Include]; inc != nil && subtreeHasError(inc, t) {
				found = true
			}
		}
	})
	return found
}

// expandItem expands one entry of a `roles` list: a plain role, or an iterator.
func (st *refState) expandItem(n *N, c refCtx) []Obs {
	if n.Iter == nil {
		return st.expandRole(n, c, nil)
	}
	stack := overlay(c.d, c.v, c.u)
	up := func(k int) string { return c.paths[len(c.paths)-k] }
	var elems []string
	if n.Iter.Form == "range" {
		r, err := refEval(n.Iter.Range, stack, up)
		if err != nil {
			st.fail("iterator-range")
			return nil
		}
		elems = parseJSONStringList(r)
	} else {
		b, err1 := refEval(n.Iter.Begin, stack, up)
		e, err2 := refEval(n.Iter.End, stack, up)
		if err1 != nil || err2 != nil {
			st.fail("iterator-range")
			return nil
		}
		bi, _ := strconv.Atoi(b)
		ei, _ := strconv.Atoi(e)
		for k := bi; k <= ei; k++ { // both ends belong to the range
			elems = append(elems, strconv.Itoa(k))
		}
	}
	if len(elems) == 0 && subtreeHasError(n, st.t) {
		st.exp.Unreached = true
	}
	var out []Obs
	for _, e := range elems {
		out = append(out, st.expandRole(n, c, map[string]string{n.Iter.Var: e})...)
	}
	return out
}

func parseJSONStringList(s string) []string {
	s = strings.TrimSpace(s)
	if !strings.HasPrefix(s, "[") || !strings.HasSuffix(s, "]") {
		panic("generator emitted a range that is not a JSON list: " + s)
	}
	s = strings.TrimSpace(s[1 : len(s)-1])
	if s == "" {
		return nil
	}
	var out []string
	for _, p := range strings.Split(s, ",") {
		out = append(out, strings.Trim(strings.TrimSpace(p), `"`))
	}
	return out
}

func (st *refState) expandRole(n *N, c refCtx, local map[string]string) []Obs {
	parentStack := overlay(c.d, c.v, c.u, local)
	up := func(k int) string {
		if k > len(c.paths) {
			panic("generator emitted Up() beyond the root")
		}
		return c.paths[len(c.paths)-k]
	}
	// enabled
	en := "true"
	if n.Enabled != "" {
		var err error
		en, err = refEval(n.Enabled, parentStack, up)
		if err != nil {
			st.fail("enabled")
			return nil
		}
	}
	en = strings.ToLower(strings.TrimSpace(en))
	if en != "true" && en != "false" {
		panic("generator emitted a non-boolean enabled value: " + en)
	}
	if en == "false" {
		// the role and its whole subtree are absent; errors in there are not part of the expansion
		rest := *n
		rest.Enabled = ""
		if subtreeHasError(&rest, st.t) {
			st.exp.Unreached = true
		}
		if c.depth == 0 {
			return []Obs{st.rootOnly(n, false)}
		}
		return nil
	}
	// variables
	d, v := copyMapSS(c.d), copyMapSS(c.v)
	for _, kv := range n.Defaults {
		val, err := refEval(kv.V, parentStack, up)
		if err != nil {
			st.fail("defaults/" + n.Kind)
			return nil
		}
		d[kv.K] = val
	}
	for _, kv := range n.Vars {
		val, err := refEval(kv.V, parentStack, up)
		if err != nil {
			st.fail("vars/" + n.Kind)
			return nil
		}
		v[kv.K] = val
	}
	for k, val := range local {
		v[k] = val
	}
	full := overlay(d, v, c.u, local)
	o := Obs{Depth: c.depth, Kind: n.Kind, Enabled: true, D: d, V: v, U: copyMapSS(c.u), Stack: overlay(d, v, c.u), Src: n}
	ev := func(s, site string) (string, bool) {
		val, err := refEval(s, full, up)
		if err != nil {
			st.fail(site + "/" + n.Kind)
			return "", false
		}
		return val, true
	}
	var ok bool
	if o.Name, ok = ev(n.Name, "name"); !ok {
		return nil
	}
	o.Path = o.Name
	if p := c.paths[len(c.paths)-1]; p != "" {
		o.Path = p + "." + o.Name
	}
	cons := append([]KV(nil), c.cons...)
	for _, kv := range n.Cons {
		val, ok := ev(kv.V, "constraint")
		if !ok {
			return nil
		}
		cons = append(cons, KV{kv.K, val})
	}
	for _, kv := range cons {
		o.Cons = append(o.Cons, kv.K+"="+kv.V)
	}
	sort.Strings(o.Cons)
	for _, kv := range n.Connect {
		val, ok := ev(kv.V, "connect")
		if !ok {
			return nil
		}
		o.Connect = append(o.Connect, kv.K+">"+val)
	}
	for _, kv := range n.Bind {
		val, ok := ev(kv.V, "bind")
		if !ok {
			return nil
		}
		o.Bind = append(o.Bind, kv.K+"<"+val)
	}
	traits := func() bool {
		if o.Trigger, ok = ev(n.Trigger, "trigger"); !ok {
			return false
		}
		if o.Await, ok = ev(n.Await, "await"); !ok {
			return false
		}
		if o.Timeout, ok = ev(n.Timeout, "timeout"); !ok {
			return false
		}
		if n.Trigger != "" {
			if n.Await == "" {
				o.Await = o.Trigger
			}
			if n.Timeout == "" {
				o.Timeout = "30s"
			}
		} else if n.Timeout == "" {
			o.Timeout = "*" // the handbook gives no default for tasks that are not hooks
		}
		o.Critical = n.Critical != "false"
		return true
	}
	switch n.Kind {
	case "task":
		cls, ok := ev(n.Load, "load")
		if !ok || !traits() {
			return nil
		}
		o.Class = st.repoClass(cls)
		return []Obs{o}
	case "call":
		if o.Func, ok = ev(n.Func, "func"); !ok {
			return nil
		}
		if o.Return, ok = ev(n.Return, "return"); !ok {
			return nil
		}
		if !traits() {
			return nil
		}
		return []Obs{o}
	}
	// aggregator or include
	kids := n.Kids
	cc := refCtx{paths: append(append([]string(nil), c.paths...), o.Path), d: d, v: v, u: c.u, cons: cons, depth: c.depth + 1}
	if n.Kind == "include" {
		incName, ok := ev(n.Include, "include")
		if !ok {
			return nil
		}
		inc := st.t.Includes[incName]
		if inc == nil {
			panic("generator emitted an include of an unknown template: " + incName)
		}
		// the included template's root takes the place of the include role: its
		// own enabled/defaults/vars apply on top of the include role's
		sub := *inc
		sub.Name = o.Name
		sub.Iter = nil
		c2 := c
		c2.d, c2.v, c2.cons = d, v, cons
		res := st.expandRole(&sub, c2, local)
		for i := range res {
			if res[i].Src == &sub {
				res[i].Src = n
			}
		}
		return res
	}
	o.Kind = "agg"
	var below []Obs
	for _, k := range kids {
		below = append(below, st.expandItem(k, cc)...)
	}
	if st.exp.Fail {
		return nil
	}
	if len(below) == 0 {
		if c.depth == 0 {
			return []Obs{st.rootOnly(n, false)}
		}
		return nil
	}
	return append([]Obs{o}, below...)
}

// rootOnly is the degenerate result for a root that is disabled or left empty.
func (st *refState) rootOnly(n *N, enabled bool) Obs {
	return Obs{Depth: 0, Kind: "agg", Enabled: enabled, Name: "*", Path: "*", Src: n}
}

// Reference computes the expected result of loading t.
func Reference(t *Template, repoClass func(string) string) *Expect {
	st := &refState{t: t, exp: &Expect{}, repoClass: repoClass}
	c := refCtx{paths: []string{""}, d: copyMapSS(t.EnvDefs), v: copyMapSS(t.EnvVars), u: copyMapSS(t.UserVars)}
	tree := st.expandRole(t.Root, c, nil)
	if !st.exp.Fail {
		st.exp.Tree = tree
	}
	return st.exp
}

func fmtMap(m map[string]string) string {
	keys := make([]string, 0, len(m))
	for k := range m {
		keys = append(keys, k)
	}
	sort.Strings(keys)
	var b strings.Builder
	b.WriteByte('{')
	for i, k := range keys {
		if i > 0 {
			b.WriteByte(',')
		}
		b.WriteString(k + "=" + m[k])
	}
	b.WriteByte('}')
	return b.String()
}

func (o Obs) String() string {
	s := fmt.Sprintf("%s%s %s enabled=%v", strings.Repeat("  ", o.Depth), o.Kind, o.Path, o.Enabled)
	switch o.Kind {
	case "task":
		s += fmt.Sprintf(" class=%s trigger=%s await=%s timeout=%s critical=%v", o.Class, o.Trigger, o.Await, o.Timeout, o.Critical)
	case "call":
		s += fmt.Sprintf(" func=%s return=%s trigger=%s await=%s timeout=%s critical=%v", o.Func, o.Return, o.Trigger, o.Await, o.Timeout, o.Critical)
	}
	s += fmt.Sprintf(" defaults%s vars%s uservars%s constraints%v connect%v bind%v", fmtMap(o.D), fmtMap(o.V), fmtMap(o.U), o.Cons, o.Connect, o.Bind)
	return s
}

func dumpString(t []Obs) string {
	var l []string
	for _, o := range t {
		l = append(l, o.String())
	}
	return strings.Join(l, "\n")
}

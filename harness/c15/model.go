// Workflow template model of the C15 harness: a small abstract syntax for
// workflow templates, and its rendering to the YAML text the real loader reads.
package main

import (
	"fmt"
	"strings"
)

// KV is an ordered key/value pair (attribute/value for constraints, channel
// name/target for connect, channel name/global alias for bind).
type KV struct{ K, V string }

// Iter makes a node the body of an iterator role.
type Iter struct {
	Form       string // "range" (JSON list expression) or "beginend"
	Range      string
	Begin, End string
	Var        string
}

// N is one role of a workflow template.
type N struct {
	Kind     string // "agg", "task", "call", "include"
	Name     string
	Enabled  string // "" = attribute absent
	Defaults []KV
	Vars     []KV
	Cons     []KV
	Connect  []KV
	Bind     []KV
	// task / call
	Load, Func, Return      string
	Trigger, Await, Timeout string
	Critical                string // "", "true", "false"
	Include                 string
	Kids                    []*N
	Iter                    *Iter
	// classification only (not rendered)
	Tag string
}

func q(s string) string { return fmt.Sprintf("%q", s) }

// Render writes the role as a YAML mapping; first is the prefix of the first
// line ("" for a document root, "- " for a list item).
func (n *N) render(b *strings.Builder, indent string, item bool) {
	first := indent
	rest := indent
	if item {
		first = indent + "- "
		rest = indent + "  "
	}
	line := func(s string) {
		b.WriteString(first + s + "\n")
		first = rest
	}
	line("name: " + q(n.Name))
	if n.Enabled != "" {
		line("enabled: " + q(n.Enabled))
	}
	if n.Iter != nil {
		line("for:")
		if n.Iter.Form == "range" {
			line("  range: " + q(n.Iter.Range))
		} else {
			line("  begin: " + q(n.Iter.Begin))
			line("  end: " + q(n.Iter.End))
		}
		line("  var: " + q(n.Iter.Var))
	}
	if len(n.Defaults) > 0 {
		line("defaults:")
		for _, kv := range n.Defaults {
			line("  " + kv.K + ": " + q(kv.V))
		}
	}
	if len(n.Vars) > 0 {
		line("vars:")
		for _, kv := range n.Vars {
			line("  " + kv.K + ": " + q(kv.V))
		}
	}
	if len(n.Cons) > 0 {
		line("constraints:")
		for _, kv := range n.Cons {
			line("  - attribute: " + q(kv.K))
			line("    value: " + q(kv.V))
		}
	}
	if len(n.Connect) > 0 {
		line("connect:")
		for _, kv := range n.Connect {
			line("  - name: " + q(kv.K))
			line("    type: pull")
			line("    target: " + q(kv.V))
		}
	}
	if len(n.Bind) > 0 {
		line("bind:")
		for _, kv := range n.Bind {
			line("  - name: " + q(kv.K))
			line("    type: push")
			line("    global: " + q(kv.V))
		}
	}
	traits := func() {
		if n.Trigger != "" {
			line("  trigger: " + q(n.Trigger))
		}
		if n.Await != "" {
			line("  await: " + q(n.Await))
		}
		if n.Timeout != "" {
			line("  timeout: " + q(n.Timeout))
		}
		if n.Critical != "" {
			line("  critical: " + n.Critical)
		}
	}
	switch n.Kind {
	case "task":
		line("task:")
		line("  load: " + q(n.Load))
		traits()
	case "call":
		line("call:")
		line("  func: " + q(n.Func))
		if n.Return != "" {
			line("  return: " + q(n.Return))
		}
		traits()
	case "include":
		line("include: " + q(n.Include))
	case "agg":
		if len(n.Kids) == 0 {
			line("roles: []")
		} else {
			line("roles:")
			for _, k := range n.Kids {
				k.render(b, rest+"  ", true)
			}
		}
	}
}

// YAML renders a root role as a document.
func (n *N) YAML() string {
	var b strings.Builder
	n.render(&b, "", false)
	return b.String()
}

// Template is one input of the loader: the root document, the documents that
// include roles may refer to, and the variables of the environment.
type Template struct {
	Root     *N
	Includes map[string]*N // include name -> root of the sub-workflow
	UserVars map[string]string
	EnvVars  map[string]string // the environment's `vars`
	EnvDefs  map[string]string // the environment's `defaults`
	Class    string            // input class for the coverage counts
	// Prelude: templates loaded (once each, sequentially) in the same process right before this
	// one - the load history the verdict must not depend on
	Prelude []*Template
}

func (t *Template) clone() *Template {
	c := *t
	c.Root = t.Root.clone()
	c.Includes = map[string]*N{}
	for k, v := range t.Includes {
		c.Includes[k] = v.clone()
	}
	return &c
}

func (n *N) clone() *N {
	c := *n
	c.Defaults = append([]KV(nil), n.Defaults...)
	c.Vars = append([]KV(nil), n.Vars...)
	c.Cons = append([]KV(nil), n.Cons...)
	c.Connect = append([]KV(nil), n.Connect...)
	c.Bind = append([]KV(nil), n.Bind...)
	if n.Iter != nil {
		i := *n.Iter
		c.Iter = &i
	}
	c.Kids = nil
	for _, k := range n.Kids {
		c.Kids = append(c.Kids, k.clone())
	}
	return &c
}

// walk visits the roles of a template in document order.
func (n *N) walk(f func(*N)) {
	f(n)
	for _, k := range n.Kids {
		k.walk(f)
	}
}

func (t *Template) String() string {
	s := "user=" + fmtMap(t.UserVars)
	if len(t.EnvVars) > 0 {
		s += " envvars=" + fmtMap(t.EnvVars)
	}
	if len(t.EnvDefs) > 0 {
		s += " envdefaults=" + fmtMap(t.EnvDefs)
	}
	s += "\n" + t.Root.YAML()
	for k, v := range t.Includes {
		s += "--- include " + k + "\n" + v.YAML()
	}
	return s
}

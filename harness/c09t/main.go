// C08/C09 for hook TASKS (the call-hook part is harness c08): hook tasks at every moment and
// weight of START_ACTIVITY, critical or not, with every termination kind {exit 0, non-zero exit,
// involuntary termination, timeout}, alone and two in the same slot, on the whole-core simulator.
package main

import (
	"fmt"
	"strings"
	"time"

	pb "github.com/AliceO2Group/Control/core/protos"
	"github.com/AliceO2Group/Control/verif_h/coresim"
	vrt "github.com/AliceO2Group/Control/verif_vrt"
)

var cfg = vrt.Config{Preempt: coresim.InterComponent, NoLockPoints: true, FreeSwitchCost: true, Horizon: 30 * time.Minute}

type hookCfg struct {
	moment string // trigger name
	weight int
	crit   bool
	call   bool // an integration call (sim plugin) instead of a hook task
}

var moments = []string{"before_START_ACTIVITY", "leave_CONFIGURED", "enter_RUNNING", "after_START_ACTIVITY"}
var mIdx = map[string]int{"before_START_ACTIVITY": 0, "leave_CONFIGURED": 1, "enter_RUNNING": 3, "after_START_ACTIVITY": 4}
var outcomes = []coresim.Outcome{coresim.OK, coresim.ErrSource, coresim.ErrError, coresim.Silent, coresim.Undeliverable, coresim.Dies}
var outName = map[coresim.Outcome]string{coresim.OK: "exit0", coresim.ErrSource: "exit3", coresim.ErrError: "involuntary", coresim.Silent: "timeout", coresim.Undeliverable: "trigger-error", coresim.Dies: "killed-by-signal"}

type wfCase struct {
	name  string
	hooks []hookCfg
}

func cases() (out []wfCase) {
	n := 0
	for _, m := range moments {
		for _, w := range []int{-1, 0, 1} {
			for _, c := range []bool{true, false} {
				n++
				out = append(out, wfCase{fmt.Sprintf("c09t-1-%d", n), []hookCfg{{moment: m, weight: w, crit: c}}})
			}
		}
	}
	// two hook tasks in the same slot, and in different slots of the same moment
	for i, m := range moments {
		out = append(out, wfCase{fmt.Sprintf("c09t-2s-%d", i), []hookCfg{{m, 0, true, false}, {m, 0, true, false}}})
		out = append(out, wfCase{fmt.Sprintf("c09t-2m-%d", i), []hookCfg{{m, 0, true, false}, {m, 0, false, false}}})
		out = append(out, wfCase{fmt.Sprintf("c09t-2w-%d", i), []hookCfg{{m, -1, false, false}, {m, 1, true, false}}})
	}
	// a hook task and an integration call in the same slot, either of them failing
	for i, m := range moments {
		out = append(out, wfCase{fmt.Sprintf("c09t-xcc-%d", i), []hookCfg{{m, 0, true, false}, {m, 0, true, true}}})
		out = append(out, wfCase{fmt.Sprintf("c09t-xnc-%d", i), []hookCfg{{m, 0, false, false}, {m, 0, true, true}}})
		out = append(out, wfCase{fmt.Sprintf("c09t-xcn-%d", i), []hookCfg{{m, 0, true, false}, {m, 0, false, true}}})
	}
	return
}

func (c wfCase) mixed() bool {
	for _, h := range c.hooks {
		if h.call {
			return true
		}
	}
	return false
}

func spec(c wfCase) coresim.WorkflowSpec {
	wf := coresim.WorkflowSpec{Name: c.name, Hosts: []string{"hostA"}, Tasks: []coresim.TaskSpec{{Name: "main", Class: "c09tmain", Mode: "direct", Critical: true, Host: "hostA"}}}
	for i, h := range c.hooks {
		if h.call {
			tag := fmt.Sprintf("x%d", i)
			wf.Calls = append(wf.Calls, fmt.Sprintf("  - name: %q\n    call:\n      func: sim.Call(%q)\n      trigger: %s%+d\n      timeout: 5s\n      critical: %v\n", tag, tag, h.moment, h.weight, h.crit))
			continue
		}
		wf.Tasks = append(wf.Tasks, coresim.TaskSpec{Name: fmt.Sprintf("hook%d", i), Class: fmt.Sprintf("c09thook%d", i), Mode: "hook", Critical: h.crit, Host: "hostA",
			Trigger: fmt.Sprintf("%s%+d", h.moment, h.weight)})
	}
	// markers: a call at weight -5, 0 and +5 of every moment (the one at 0 separates the negative from the positive weights)
	for _, m := range moments {
		for _, w := range []string{"-5", "+0", "+5"} {
			wf.Calls = append(wf.Calls, fmt.Sprintf("  - name: %q\n    call:\n      func: sim.Call(%q)\n      trigger: %s%s\n      timeout: 5s\n      critical: false\n", "m-"+m+w, m+w, m, w))
		}
	}
	return wf
}

func scenario(group string, cs []wfCase, q, t vrt.Bounds) *vrt.Scenario {
	var (
		c      wfCase
		assign []coresim.Outcome
		seq    []string // observed sequence: calls, TRIGGERs, START command
		err    error
		st     string
		okRun  bool
		pub    []string
	)
	return &vrt.Scenario{Name: group, Prop: "C09", Cfg: cfg, Setup: coresim.ResetStore, Quick: q, Thorough: t,
		DeadlockClause: "start-hangs", PanicClause: "panic-or-fatal",
		NonTrivial: func(*vrt.Exec) bool { return okRun },
		Body: func() {
			okRun = false
			c = cs[vrt.ChooseFree(len(cs), "workflow")]
			assign = nil
			for k := range coresim.CallFail {
				delete(coresim.CallFail, k)
			}
			for i, h := range c.hooks {
				if h.call { // an integration call succeeds or fails
					assign = append(assign, []coresim.Outcome{coresim.OK, coresim.ErrSource}[vrt.ChooseFree(2, "call-outcome")])
					coresim.CallFail[fmt.Sprintf("x%d", i)] = assign[i] != coresim.OK
					continue
				}
				assign = append(assign, outcomes[vrt.ChooseFree(len(outcomes), "termination")])
			}
			seq = nil
			m := coresim.NewMaster(&coresim.Agent{ID: "agentA", Host: "hostA", Attributes: map[string]string{"machine_id": "hostA"}, Cpus: 16, Mem: 16384, PortLo: 9000, PortHi: 40000})
			m.HookTerminates = true
			m.Behaviour = func(t *coresim.SimTask, kind string) coresim.Outcome {
				if kind == "hook-exit" || kind == "hook" {
					for i := range c.hooks {
						if t.Class == fmt.Sprintf("c09thook%d", i) {
							if (assign[i] == coresim.Undeliverable) != (kind == "hook") {
								return coresim.OK
							}
							return assign[i]
						}
					}
				}
				return coresim.OK
			}
			m.OnCall = func(cr *coresim.CallRec) {
				if cr.Type == "MESSAGE" {
					if t := m.Tasks[cr.Task]; t != nil {
						seq = append(seq, cr.Detail+":"+t.Class)
					}
				}
			}
			coresim.OnPluginCall = func(tag, trigger string) { seq = append(seq, "call:"+tag) }
			w := coresim.NewWorld(m)
			id, _, cerr := w.Create(c.name, nil)
			if cerr != nil {
				vrt.Logf("setup failed: %v", cerr)
				return
			}
			seq = nil
			ev0 := len(w.EnvEvents)
			st, err = w.Control(id, pb.ControlEnvironmentRequest_START_ACTIVITY)
			coresim.OnPluginCall = nil
			pub = nil
			for _, e := range w.EnvEvents[ev0:] {
				if e.Transition == "START_ACTIVITY" && e.State != "" {
					pub = append(pub, e.State)
				}
			}
			okRun = true
			as := names(c, assign)
			vrt.Logf("%s %v -> err=%v state=%s seq=%v", c.name, as, err != nil, st, seq)
		},
		Check: func(x *vrt.Exec) (out []vrt.Violation) {
			if !okRun || x.Deadlock != "" {
				return nil
			}
			as := names(c, assign)
			ctx := fmt.Sprintf("workflow %s hooks=%+v terminations=%v err=%v state=%s seq=%v", c.name, c.hooks, as, err, st, seq)
			fail := func(cl, f string, a ...any) {
				out = append(out, vrt.Violation{Clause: cl, Detail: fmt.Sprintf(f, a...) + "\n  " + ctx})
			}
			// reference: first critical failure in (moment, weight) order decides
			type pt struct{ m, w int }
			failAt := pt{99, 0}
			anyCritFail := false
			for i, h := range c.hooks {
				if assign[i] != coresim.OK && h.crit {
					p := pt{mIdx[h.moment], h.weight}
					if !anyCritFail || p.m < failAt.m || (p.m == failAt.m && p.w < failAt.w) {
						failAt = p
					}
					anyCritFail = true
				}
			}
			pos := func(s string) int {
				for i, e := range seq {
					if e == s {
						return i
					}
				}
				return -1
			}
			startCmd := pos("START:c09tmain")
			if !anyCritFail {
				if err != nil {
					// what the core blames (part of the signature: different defects end in this clause)
					trigErr := false
					for i, a := range assign {
						trigErr = trigErr || (a == coresim.Undeliverable && !c.hooks[i].call)
					}
					how := "other"
					switch {
					case strings.Contains(err.Error(), "timed out after") && trigErr:
						how = "reported-as-timed-out-after-trigger-error"
					case strings.Contains(err.Error(), "timed out after"):
						how = "reported-as-timed-out"
					case strings.Contains(err.Error(), "MESSAGE call failed"):
						how = "trigger-error-blamed-on-the-whole-slot"
					}
					fail("non-critical-or-no-failure-failed-the-transition:"+how+":"+strings.Join(as, "+"), "START failed")
				} else if st != "RUNNING" {
					fail("success-but-wrong-state", "")
				}
			} else {
				if err == nil {
					fail("critical-hook-task-failure-not-reported:"+momentName(failAt.m)+":"+strings.Join(as, "+"), "START succeeded")
				}
				if failAt.m < 2 && err != nil {
					// "an error naming the failure": every critical hook that failed at the cancelling point is named
					// (hook tasks by their class, calls by their function), or the error says how many failed.
					// A hook task whose trigger command could not be delivered is reported as a failed command instead.
					var want []string
					named := 0
					for i, h := range c.hooks {
						if !h.crit || assign[i] == coresim.OK || assign[i] == coresim.Undeliverable || mIdx[h.moment] != failAt.m || h.weight != failAt.w {
							continue
						}
						n := fmt.Sprintf("c09thook%d", i)
						if h.call {
							n = fmt.Sprintf("x%d", i)
						}
						want = append(want, n)
						if strings.Contains(err.Error(), n) {
							named++
						}
					}
					for i, h := range c.hooks {
						if !h.call && assign[i] == coresim.Undeliverable && mIdx[h.moment] == failAt.m && h.weight == failAt.w {
							want = nil // the one trigger command of the slot failed: none of its hook tasks ran, the command error is what is reported
						}
					}
					if named < len(want) && !(len(want) > 1 && strings.Contains(err.Error(), fmt.Sprintf("%d ", len(want)))) {
						fail(fmt.Sprintf("error-does-not-name-the-failed-hook:%d-of-%d-named:%s", named, len(want), strings.Join(as, "+")), "failed critical hooks at the cancelling point: %v", want)
					}
				}
				if failAt.m < 2 {
					// cancelled before the task transition: no task command, destination never published
					if startCmd >= 0 {
						fail("task-command-sent-after-cancelling-hook-failure:"+momentName(failAt.m), "")
					}
					for _, p := range pub {
						if p == "RUNNING" {
							fail("destination-published-after-cancelling-hook-failure:"+momentName(failAt.m), "published states %v", pub)
							break
						}
					}
					// no later hook of that transition: markers of later moments must be absent
					count := func(s string) int {
						n := 0
						for _, e := range seq {
							if e == s {
								n++
							}
						}
						return n
					}
					for _, m := range moments {
						if mIdx[m] <= failAt.m {
							continue
						}
						// the API's follow-up GO_ERROR leaves CONFIGURED too: its leave_CONFIGURED hooks run once, legitimately
						allowed := 0
						if m == "leave_CONFIGURED" {
							allowed = 1
						}
						if count("call:"+m+"-5") > allowed || count("call:"+m+"+5") > allowed {
							fail("later-hook-ran-after-cancelling-hook-failure:"+momentName(failAt.m), "marker of %s ran (%d/%d times, %d allowed)", m, count("call:"+m+"-5"), count("call:"+m+"+5"), allowed)
							break
						}
					}
				} else {
					// enter_/after_: reported, destination kept (until the API moves the environment to ERROR), remaining moments run
					if startCmd < 0 {
						fail("task-command-missing", "")
					}
					seenRunning := false
					for _, p := range pub {
						if p == "RUNNING" {
							seenRunning = true
						}
					}
					if !seenRunning {
						fail("destination-not-kept-after-late-hook-failure:"+momentName(failAt.m), "published %v", pub)
					}
					if failAt.m == 3 && pos("call:after_START_ACTIVITY-5") < 0 {
						fail("remaining-moments-skipped-after-enter-failure", "")
					}
				}
			}
			// C08 for hook tasks: every hook task is triggered at its moment and weight, relative to the markers and the task command
			for i, h := range c.hooks {
				if h.call {
					continue // the order of calls is the subject of harness c08
				}
				tp := pos(fmt.Sprintf("TRIGGER:c09thook%d", i))
				reach := !anyCritFail || mIdx[h.moment] < failAt.m || (mIdx[h.moment] == failAt.m && h.weight <= failAt.w) || (failAt.m >= 2 && (mIdx[h.moment] > failAt.m))
				if mIdx[h.moment] == failAt.m && h.weight > failAt.w && anyCritFail {
					continue // later weight of the failing moment: left open by the statement for enter_/after_, skipped for before_/leave_
				}
				if !reach {
					if tp >= 0 {
						fail("hook-task-triggered-after-cancellation", "hook%d", i)
					}
					continue
				}
				if tp < 0 {
					fail("hook-task-never-triggered:"+h.moment, "hook%d", i)
					continue
				}
				lo, hi := pos("call:"+h.moment+"-5"), pos("call:"+h.moment+"+5")
				if lo >= 0 && tp < lo || hi >= 0 && tp > hi {
					fail("hook-task-outside-its-moment:"+h.moment, "hook%d triggered at %d, markers at %d..%d", i, tp, lo, hi)
				}
				if startCmd >= 0 && (mIdx[h.moment] < 2) != (tp < startCmd) {
					fail("hook-task-on-wrong-side-of-task-transition:"+h.moment, "hook%d", i)
				}
				// strictly by ascending weight: relative to the marker call at weight 0 of its moment and to the
				// hook tasks of other weights of its moment
				if m0 := pos("call:" + h.moment + "+0"); m0 >= 0 && ((h.weight < 0 && tp > m0) || (h.weight > 0 && tp < m0)) {
					fail("hook-task-weight-order:"+h.moment, "hook%d (weight %+d) triggered at %d, the call of weight +0 ran at %d", i, h.weight, tp, m0)
				}
				for j, o := range c.hooks {
					if op := pos(fmt.Sprintf("TRIGGER:c09thook%d", j)); !o.call && o.moment == h.moment && o.weight < h.weight && op > tp {
						fail("hook-task-weight-order:"+h.moment, "hook%d (weight %+d) triggered before hook%d (weight %+d)", i, h.weight, j, o.weight)
					}
				}
			}
			return
		}}
}

func names(c wfCase, assign []coresim.Outcome) (as []string) {
	for i, a := range assign {
		switch {
		case c.hooks[i].call && a == coresim.OK:
			as = append(as, "call-ok")
		case c.hooks[i].call:
			as = append(as, "call-fails")
		default:
			as = append(as, outName[a])
		}
	}
	return
}

func momentName(m int) string {
	return map[int]string{0: "before", 1: "leave", 3: "enter", 4: "after", 99: "none"}[m]
}

func main() {
	cs := cases()
	var specs []coresim.WorkflowSpec
	for _, c := range cs {
		specs = append(specs, spec(c))
	}
	coresim.GlobalSetup(specs...)
	var one, two, mixed []wfCase
	for _, c := range cs {
		switch {
		case c.mixed():
			mixed = append(mixed, c)
		case len(c.hooks) == 1:
			one = append(one, c)
		default:
			two = append(two, c)
		}
	}
	vrt.Main([]*vrt.Scenario{
		scenario("hooktask1", one, vrt.Bounds{Dev: 0, Seconds: 100}, vrt.Bounds{Dev: 1, Seconds: 500}),
		scenario("hooktask2", two, vrt.Bounds{Dev: 0, Seconds: 100}, vrt.Bounds{Dev: 1, Seconds: 500}),
		scenario("hooktask-mixed", mixed, vrt.Bounds{Dev: 0, Seconds: 100}, vrt.Bounds{Dev: 1, Seconds: 200}),
	})
}

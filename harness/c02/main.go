// C02: a transition succeeds iff every critical task acknowledged it.
// Whole-core simulation (package coresim): real RPC handlers, environment
// manager, transitions, task manager, command queue over a simulated Mesos
// master / executors. Exhaustive per-task outcome assignments per transition.
package main

import (
	"fmt"
	"strings"
	"time"

	pb "github.com/AliceO2Group/Control/core/protos"
	"github.com/AliceO2Group/Control/verif_h/coresim"
	vrt "github.com/AliceO2Group/Control/verif_vrt"
)

type shape struct {
	name  string
	crit  []bool
	modes []string
	hosts []string // host constraint per task
}

var shapes = []shape{
	{"c", []bool{true}, []string{"direct"}, []string{"hostA"}},
	{"n", []bool{false}, []string{"direct"}, []string{"hostA"}},
	{"cc", []bool{true, true}, []string{"direct", "fairmq"}, []string{"hostA", "hostB"}},
	{"cn", []bool{true, false}, []string{"direct", "direct"}, []string{"hostA", "hostA"}},
	{"nn", []bool{false, false}, []string{"direct", "basic"}, []string{"hostA", "hostB"}},
	{"ccn", []bool{true, true, false}, []string{"direct", "direct", "fairmq"}, []string{"hostA", "hostB", "hostA"}},
	{"cnn", []bool{true, false, false}, []string{"fairmq", "direct", "direct"}, []string{"hostA", "hostA", "hostB"}},
}

var msgOutcomes = []coresim.Outcome{coresim.OK, coresim.ErrSource, coresim.ErrError, coresim.Undeliverable, coresim.Silent, coresim.Dies}
var launchOutcomes = []coresim.Outcome{coresim.OK, coresim.NeverRunning, coresim.LaunchFails}

var dest = map[string]string{"DEPLOY": "CONFIGURED" /* create runs DEPLOY+CONFIGURE */, "CONFIGURE": "CONFIGURED", "START": "RUNNING", "STOP": "CONFIGURED", "RESET": "DEPLOYED", "CONFIGURE2": "CONFIGURED"}
var eventOf = map[string]string{"DEPLOY": "launch", "CONFIGURE": "CONFIGURE", "START": "START", "STOP": "STOP", "RESET": "RESET", "CONFIGURE2": "CONFIGURE"}
var opOf = map[string]pb.ControlEnvironmentRequest_Optype{"START": pb.ControlEnvironmentRequest_START_ACTIVITY, "STOP": pb.ControlEnvironmentRequest_STOP_ACTIVITY,
	"RESET": pb.ControlEnvironmentRequest_RESET, "CONFIGURE2": pb.ControlEnvironmentRequest_CONFIGURE}

func wfName(s shape) string { return "c02-" + s.name }

func specOf(s shape) coresim.WorkflowSpec {
	wf := coresim.WorkflowSpec{Name: wfName(s), Hosts: []string{"hostA"}}
	for i := range s.crit {
		wf.Tasks = append(wf.Tasks, coresim.TaskSpec{Name: fmt.Sprintf("t%d", i), Class: fmt.Sprintf("c02%s%d", s.name, i), Mode: s.modes[i], Critical: s.crit[i], Host: s.hosts[i]})
	}
	return wf
}

func agents() []*coresim.Agent {
	return []*coresim.Agent{
		{ID: "agentA", Host: "hostA", Attributes: map[string]string{"machine_id": "hostA"}, Cpus: 8, Mem: 8192, PortLo: 9000, PortHi: 40000},
		{ID: "agentB", Host: "hostB", Attributes: map[string]string{"machine_id": "hostB"}, Cpus: 8, Mem: 8192, PortLo: 9000, PortHi: 40000},
	}
}

func scenario(s shape, target string, q, t vrt.Bounds) *vrt.Scenario {
	var (
		assign  []coresim.Outcome
		w       *coresim.World
		gotErr  error
		gotSt   string
		finalSt string
		reached bool
		evFrom  int
		tookVT  time.Duration
		setupOK bool
		// the creation failed with a deployment timeout although the simulator reported every task
		// TASK_RUNNING right after the launch (no launch fault in force): one defect, one signature
		deployRace string
	)
	seq := []string{"DEPLOY", "CONFIGURE", "START", "STOP", "RESET", "CONFIGURE2"}
	body := func() {
		assign, reached, setupOK, gotErr, gotSt, finalSt, deployRace = nil, false, true, nil, "", "", ""
		alpha := msgOutcomes
		if target == "DEPLOY" {
			alpha = launchOutcomes
		}
		for range s.crit {
			assign = append(assign, alpha[vrt.ChooseFree(len(alpha), "outcome")])
		}
		phase := ""
		m := coresim.NewMaster(agents()...)
		m.Behaviour = func(t *coresim.SimTask, kind string) coresim.Outcome {
			if phase == target && kind == eventOf[target] {
				for i := range s.crit {
					if t.Class == fmt.Sprintf("c02%s%d", s.name, i) {
						return assign[i]
					}
				}
			}
			return coresim.OK
		}
		w = coresim.NewWorld(m)
		id := ""
		for _, ph := range seq {
			if ph == "CONFIGURE" && target != "CONFIGURE" {
				continue // part of create
			}
			phase = ph
			if ph == "DEPLOY" && target == "CONFIGURE" {
				phase = "CONFIGURE"
			}
			evFrom = len(w.EnvEvents)
			t0 := vrt.VNow()
			var st string
			var err error
			if ph == "DEPLOY" || (ph == "CONFIGURE" && target == "CONFIGURE") {
				if ph == "CONFIGURE" {
					continue
				}
				id, st, err = w.Create(wfName(s), nil)
				if err != nil && strings.Contains(err.Error(), "workflow deployment timed out") {
					launchFault := false
					for _, a := range assign {
						launchFault = launchFault || (target == "DEPLOY" && a != coresim.OK)
					}
					if !launchFault {
						deployRace = err.Error()
					}
				}
			} else {
				st, err = w.Control(id, opOf[ph])
			}
			if phase == target {
				reached, gotErr, gotSt, tookVT = true, err, st, vrt.VNow()-t0
				vrt.Quiesce("after-target")
				vrt.Sleep(2 * time.Second) // let the 500 ms error watcher settle
				vrt.Quiesce("after-target2")
				if id != "" {
					finalSt, _ = w.EnvState(id)
				}
				break
			}
			if err != nil {
				setupOK = false
				vrt.Logf("setup step %s failed: %v", ph, err)
				break
			}
		}
		var as []string
		for _, a := range assign {
			as = append(as, a.String())
		}
		vrt.Logf("%s %s assign=%v -> err=%v state=%s final=%s vt=%v", s.name, target, as, gotErr != nil, gotSt, finalSt, tookVT.Round(time.Second))
	}
	check := func(x *vrt.Exec) (out []vrt.Violation) {
		if deployRace != "" {
			return []vrt.Violation{{Clause: "deploy-timed-out-although-every-task-reported-running", Detail: fmt.Sprintf("shape=%s: every launched task was reported TASK_RUNNING by the master at once, yet: %s", s.name, deployRace)}}
		}
		if !setupOK {
			return []vrt.Violation{{Clause: "setup-step-failed:" + target, Detail: strings.Join(x.Log, "\n")}}
		}
		if !reached {
			return nil
		}
		var as []string
		expectOK := true
		var critFail []string
		for i, a := range assign {
			as = append(as, a.String())
			if a != coresim.OK && s.crit[i] {
				expectOK = false
				critFail = append(critFail, a.String())
			}
		}
		ctx := fmt.Sprintf("shape=%s target=%s assign=%v err=%v state=%s final=%s", s.name, target, as, gotErr, gotSt, finalSt)
		nonCritOnly := ""
		for i, a := range assign {
			if a != coresim.OK && !s.crit[i] {
				nonCritOnly = a.String()
			}
		}
		if expectOK {
			if gotErr != nil || gotSt != dest[target] {
				cl := "transition-failed-though-all-critical-tasks-ok:" + target
				if nonCritOnly != "" {
					cl = "non-critical-failure-failed-the-transition:" + target + ":" + nonCritOnly + fmt.Sprintf(":ntasks=%d", len(assign))
				}
				out = append(out, vrt.Violation{Clause: cl, Detail: ctx})
			}
		} else {
			if gotErr == nil && gotSt == "ERROR" {
				// the failure is visible in the reply's state but the RPC itself reports success
				out = append(out, vrt.Violation{Clause: "failed-transition-answered-without-rpc-error:" + target, Detail: ctx})
			} else if gotErr == nil {
				out = append(out, vrt.Violation{Clause: "success-despite-critical-failure:" + target + ":" + strings.Join(critFail, "+"), Detail: ctx})
			}
			if gotSt == dest[target] && target != "STOP" && target != "CONFIGURE2" && target != "CONFIGURE" && target != "DEPLOY" {
				out = append(out, vrt.Violation{Clause: "destination-reported-despite-critical-failure:" + target, Detail: ctx})
			}
			for _, e := range w.EnvEvents[evFrom:] {
				if e.State == dest[target] && e.Error == "" && (e.Transition == "START_ACTIVITY" && target == "START" || e.Transition == "RESET" && target == "RESET") {
					out = append(out, vrt.Violation{Clause: "destination-published-despite-critical-failure:" + target, Detail: ctx + fmt.Sprintf(" event=%+v", e)})
					break
				}
			}
			if finalSt != "ERROR" && finalSt != "" && finalSt != "DONE" {
				out = append(out, vrt.Violation{Clause: "not-in-ERROR-after-failed-transition:" + target + ":" + finalSt, Detail: ctx})
			}
		}
		return
	}
	return &vrt.Scenario{Name: s.name + "-" + target, Prop: "C02", Body: body, Check: check, Quick: q, Thorough: t,
		Setup:          coresim.ResetStore,
		Cfg:            vrt.Config{Preempt: coresim.InterComponent, NoLockPoints: true, FreeSwitchCost: true, Horizon: 30 * time.Minute},
		DeadlockClause: "request-hangs:" + target, PanicClause: "panic",
		NonTrivial: func(x *vrt.Exec) bool { return reached },
		Doc:        fmt.Sprintf("shape %s, outcomes assigned at %s", s.name, target)}
}

// zero tasks: a workflow consisting of one (non-critical) integration call only.
func emptyScenario() *vrt.Scenario {
	var results []string
	var vts []time.Duration
	return &vrt.Scenario{Name: "0-all", Prop: "C02", Doc: "workflow with nothing to command: every transition must succeed at once",
		Setup: coresim.ResetStore,
		Cfg:   vrt.Config{Preempt: coresim.InterComponent, NoLockPoints: true, FreeSwitchCost: true, Horizon: 30 * time.Minute},
		Quick: vrt.Bounds{Dev: 0, Seconds: 60}, Thorough: vrt.Bounds{Dev: 1, Seconds: 300},
		DeadlockClause: "nothing-to-command-but-request-hangs", PanicClause: "panic",
		Body: func() {
			results, vts = nil, nil
			w := coresim.NewWorld(coresim.NewMaster(agents()...))
			t0 := vrt.VNow()
			id, st, err := w.Create("c02-0", nil)
			results = append(results, fmt.Sprintf("CREATE:%s:%v", st, err != nil))
			vts = append(vts, vrt.VNow()-t0)
			if err != nil {
				vrt.Logf("create failed: %v", err)
				return
			}
			for _, ph := range []string{"START", "STOP", "RESET", "CONFIGURE2"} {
				t0 = vrt.VNow()
				st, err = w.Control(id, opOf[ph])
				results = append(results, fmt.Sprintf("%s:%s:%v", ph, st, err != nil))
				vts = append(vts, vrt.VNow()-t0)
				if err != nil {
					vrt.Logf("%s failed: %v", ph, err)
					break
				}
			}
			vrt.Logf("results %v", results)
		},
		Check: func(x *vrt.Exec) (out []vrt.Violation) {
			want := []string{"CREATE:CONFIGURED:false", "START:RUNNING:false", "STOP:CONFIGURED:false", "RESET:DEPLOYED:false", "CONFIGURE2:CONFIGURED:false"}
			for i, wnt := range want {
				if i >= len(results) {
					break
				}
				op := strings.SplitN(wnt, ":", 2)[0]
				if results[i] != wnt {
					out = append(out, vrt.Violation{Clause: "nothing-to-command-but-transition-fails:" + op, Detail: fmt.Sprintf("got %v\n%s", results, strings.Join(x.Log, "\n"))})
					break
				}
				if vts[i] > time.Second {
					out = append(out, vrt.Violation{Clause: "nothing-to-command-but-not-at-once:" + op, Detail: fmt.Sprintf("%s took %v of virtual time", op, vts[i])})
				}
			}
			return
		}}
}

func main() {
	var specs []coresim.WorkflowSpec
	specs = append(specs, coresim.WorkflowSpec{Name: "c02-0", Hosts: []string{"hostA"}, Calls: []string{
		"  - name: \"call1\"\n    call:\n      func: sim.Call(\"c1\")\n      trigger: before_START_ACTIVITY\n      timeout: 5s\n      critical: false\n"}})
	for _, s := range shapes {
		specs = append(specs, specOf(s))
	}
	coresim.GlobalSetup(specs...)
	var scs []*vrt.Scenario
	for _, s := range shapes {
		for _, tg := range []string{"DEPLOY", "CONFIGURE", "START", "STOP", "RESET", "CONFIGURE2"} {
			scs = append(scs, scenario(s, tg, vrt.Bounds{Dev: 0, Seconds: 100}, vrt.Bounds{Dev: 1, Seconds: 60}))
		}
	}
	scs = append(scs, emptyScenario())
	vrt.Main(scs)
}

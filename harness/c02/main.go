// C02: a transition succeeds iff every critical task acknowledged it.
// Whole-core simulation (package coresim): real RPC handlers, environment
// manager, transitions, task manager, command queue over a simulated Mesos
// master / executors. Exhaustive per-task outcome assignments per transition.
package main

import (
	"fmt"
	"sort"
	"strings"
	"time"

	pb "github.com/AliceO2Group/Control/core/protos"
	"github.com/AliceO2Group/Control/verif_h/coresim"
	vrt "github.com/AliceO2Group/Control/verif_vrt"
)

type shape struct {
	name  string
	crit  []bool
	modes []string
	hosts []string // host constraint per task
	// group: aggregator role the task role is nested in ("" = directly below the root); omit: the role does
	// not state the `critical` trait at all (documented default: critical). Both nil for the flat shapes.
	group []string
	omit  []bool
}

var shapes = []shape{
	{"c", []bool{true}, []string{"direct"}, []string{"hostA"}, nil, nil},
	{"n", []bool{false}, []string{"direct"}, []string{"hostA"}, nil, nil},
	{"cc", []bool{true, true}, []string{"direct", "fairmq"}, []string{"hostA", "hostB"}, nil, nil},
	{"cn", []bool{true, false}, []string{"direct", "direct"}, []string{"hostA", "hostA"}, nil, nil},
	{"nn", []bool{false, false}, []string{"direct", "basic"}, []string{"hostA", "hostB"}, nil, nil},
	{"ccn", []bool{true, true, false}, []string{"direct", "direct", "fairmq"}, []string{"hostA", "hostB", "hostA"}, nil, nil},
	{"cnn", []bool{true, false, false}, []string{"fairmq", "direct", "direct"}, []string{"hostA", "hostA", "hostB"}, nil, nil},
	// the non-critical task first (every list the core builds starts with it)
	{"nc", []bool{false, true}, []string{"fairmq", "direct"}, []string{"hostB", "hostA"}, nil, nil},
	// `critical` not stated: the documented default is critical
	{"d", []bool{true}, []string{"direct"}, []string{"hostA"}, nil, []bool{true}},
	{"nd", []bool{false, true}, []string{"direct", "fairmq"}, []string{"hostA", "hostA"}, nil, []bool{false, true}},
	// task roles below aggregator roles (root -> g -> {n, c}; root -> g -> c, root -> h -> n)
	{"gnc", []bool{false, true}, []string{"direct", "direct"}, []string{"hostA", "hostB"}, []string{"g", "g"}, nil},
	{"gchn", []bool{true, false}, []string{"fairmq", "direct"}, []string{"hostA", "hostA"}, []string{"g", "h"}, nil},
}

// noOffer is a launch outcome of this harness only: the task's host constraint names a machine no agent
// offers (the constraint is templated, the request's user variables move it to hostZ).
const noOffer = coresim.Outcome(100)

func oname(o coresim.Outcome) string {
	if o == noOffer {
		return "no-offer"
	}
	return o.String()
}

// okClass: outcomes with which the task does get to the destination in time (slow, but within the deployment /
// response timeout); every other outcome is a failure of that task.
func okClass(o coresim.Outcome) bool {
	return o == coresim.OK || o == coresim.SlowLaunch || o == coresim.SlowReply
}

var msgOutcomes = []coresim.Outcome{coresim.OK, coresim.ErrSource, coresim.ErrError, coresim.Undeliverable, coresim.Silent, coresim.Dies, coresim.SlowReply, coresim.LateReply}
var launchOutcomes = []coresim.Outcome{coresim.OK, coresim.NeverRunning, coresim.LaunchFails, coresim.SlowLaunch, coresim.LateLaunch, noOffer}

// the three-task shapes of the quick tier leave out the slow / late outcomes (every pair of outcomes is already
// combined in the two-task shapes); their "-full" twins of the thorough tier have the whole alphabet
var msgOutcomesSmall = []coresim.Outcome{coresim.OK, coresim.ErrSource, coresim.ErrError, coresim.Undeliverable, coresim.Silent, coresim.Dies}
var launchOutcomesSmall = []coresim.Outcome{coresim.OK, coresim.NeverRunning, coresim.LaunchFails, noOffer}

var dest = map[string]string{"DEPLOY": "CONFIGURED" /* create runs DEPLOY+CONFIGURE */, "CONFIGURE": "CONFIGURED", "START": "RUNNING", "STOP": "CONFIGURED", "RESET": "DEPLOYED", "CONFIGURE2": "CONFIGURED"}
var eventOf = map[string]string{"DEPLOY": "launch", "CONFIGURE": "CONFIGURE", "START": "START", "STOP": "STOP", "RESET": "RESET", "CONFIGURE2": "CONFIGURE"}
var opOf = map[string]pb.ControlEnvironmentRequest_Optype{"START": pb.ControlEnvironmentRequest_START_ACTIVITY, "STOP": pb.ControlEnvironmentRequest_STOP_ACTIVITY,
	"RESET": pb.ControlEnvironmentRequest_RESET, "CONFIGURE2": pb.ControlEnvironmentRequest_CONFIGURE}

// state of a task's own state machine once the environment's transition got it "there"
var taskDest = map[string]string{"DEPLOY": "CONFIGURED", "CONFIGURE": "CONFIGURED", "START": "RUNNING", "STOP": "CONFIGURED", "RESET": "STANDBY", "CONFIGURE2": "CONFIGURED"}

func wfName(s shape) string           { return "c02-" + s.name }
func className(s shape, i int) string { return fmt.Sprintf("c02%s%d", s.name, i) }
func hostVar(i int) string            { return fmt.Sprintf("c02host%d", i) }

func specOf(s shape) coresim.WorkflowSpec {
	wf := coresim.WorkflowSpec{Name: wfName(s), Hosts: []string{"hostA"}, Vars: map[string]string{}}
	for i := range s.crit {
		// the host constraint is a template over a workflow default, so that one request can move one task
		// to a machine nobody offers (launch outcome no-offer)
		wf.Vars[hostVar(i)] = s.hosts[i]
		ts := coresim.TaskSpec{Name: fmt.Sprintf("t%d", i), Class: className(s, i), Mode: s.modes[i], Critical: s.crit[i], Host: "{{ " + hostVar(i) + " }}"}
		if s.group != nil {
			ts.Group = s.group[i]
		}
		if s.omit != nil {
			ts.OmitCritical = s.omit[i]
		}
		wf.Tasks = append(wf.Tasks, ts)
	}
	return wf
}

func agents() []*coresim.Agent {
	return []*coresim.Agent{
		{ID: "agentA", Host: "hostA", Attributes: map[string]string{"machine_id": "hostA"}, Cpus: 8, Mem: 8192, PortLo: 9000, PortHi: 40000},
		{ID: "agentB", Host: "hostB", Attributes: map[string]string{"machine_id": "hostB"}, Cpus: 8, Mem: 8192, PortLo: 9000, PortHi: 40000},
	}
}

// taskIndex maps a simulated task back to its position in the shape.
func taskIndex(s shape, t *coresim.SimTask) int {
	for i := range s.crit {
		if t.Class == className(s, i) {
			return i
		}
	}
	return -1
}

// notThere lists the critical tasks of environment env that the master holds alive and whose own state machine
// is not in want (the simulated executors keep it), plus those that never were commanded.
func notThere(s shape, m *coresim.Master, env, want string) (out []string) {
	for _, id := range m.TaskOrder {
		t := m.Tasks[id]
		i := taskIndex(s, t)
		if i < 0 || !s.crit[i] || !t.Alive || (env != "" && t.EnvID != env) {
			continue
		}
		if t.State != want {
			out = append(out, fmt.Sprintf("t%d:%s", i, t.State))
		}
	}
	return
}

func scenario(s shape, target string, full bool, q, t vrt.Bounds) *vrt.Scenario {
	var (
		assign  []coresim.Outcome
		w       *coresim.World
		gotErr  error
		gotSt   string
		finalSt string
		reached bool
		evFrom  int
		tookVT  time.Duration
		setupOK bool
		// the creation failed with a deployment timeout although the simulator reported every task
		// TASK_RUNNING right after the launch (no launch fault in force): one defect, one signature
		deployRace string
		// states GetEnvironment reported while the targeted request was in progress and while things settled
		// afterwards (a client polling at every idle moment of the system)
		seen       map[string]bool
		polling    bool
		stragglers []string // critical tasks not at the transition's destination although it succeeded
		leftover   []string // environments listed in another state than ERROR/DONE after a failed creation
		unlaunched []string // critical tasks with a matching agent that were never launched
	)
	seq := []string{"DEPLOY", "CONFIGURE", "START", "STOP", "RESET", "CONFIGURE2"}
	body := func() {
		assign, reached, setupOK, gotErr, gotSt, finalSt, deployRace = nil, false, true, nil, "", "", ""
		seen, polling, stragglers, leftover, unlaunched = map[string]bool{}, false, nil, nil, nil
		alpha := msgOutcomes
		if target == "DEPLOY" {
			alpha = launchOutcomes
		}
		if !full {
			alpha = msgOutcomesSmall
			if target == "DEPLOY" {
				alpha = launchOutcomesSmall
			}
		}
		for range s.crit {
			assign = append(assign, alpha[vrt.ChooseFree(len(alpha), "outcome")])
		}
		phase := ""
		m := coresim.NewMaster(agents()...)
		m.Behaviour = func(t *coresim.SimTask, kind string) coresim.Outcome {
			if phase == target && kind == eventOf[target] {
				if i := taskIndex(s, t); i >= 0 && assign[i] != noOffer {
					return assign[i]
				}
			}
			return coresim.OK
		}
		for _, a := range assign {
			if a == noOffer {
				// the offers arrive a moment after the REVIVE call, as over a network: the task manager is then
				// waiting for the verdict of the offer round (with offers inside the call, a round that launches
				// nothing is over before the manager listens, and only the deployment timeout ends the request)
				m.OfferDelay = 10 * time.Millisecond
			}
		}
		w = coresim.NewWorld(m)
		id := ""
		vrt.OnIdle(func() {
			if polling && id != "" {
				if st, _ := w.EnvState(id); st != "" {
					seen[st] = true
				}
			}
		})
		late := false
		var vars map[string]string
		for i, a := range assign {
			late = late || a == coresim.LateReply || a == coresim.LateLaunch
			if a == noOffer {
				if vars == nil {
					vars = map[string]string{}
				}
				vars[hostVar(i)] = "hostZ"
			}
		}
		for _, ph := range seq {
			if ph == "CONFIGURE" && target != "CONFIGURE" {
				continue // part of create
			}
			phase = ph
			if ph == "DEPLOY" && target == "CONFIGURE" {
				phase = "CONFIGURE"
			}
			evFrom = len(w.EnvEvents)
			t0 := vrt.VNow()
			var st string
			var err error
			if ph == "DEPLOY" || (ph == "CONFIGURE" && target == "CONFIGURE") {
				if ph == "CONFIGURE" {
					continue
				}
				id, st, err = w.Create(wfName(s), vars)
				if err != nil && strings.Contains(err.Error(), "workflow deployment timed out") {
					// the recorded roster race: every role the core still calls inactive belongs to a task whose launch
					// outcome gets it running in time (the master did report TASK_RUNNING for it)
					race := true
					msg := err.Error()
					if i := strings.Index(msg, "inactive roles:"); i >= 0 && target == "DEPLOY" {
						for k, a := range assign {
							if strings.Contains(msg[i:], fmt.Sprintf(".t%d", k)) && !okClass(a) {
								race = false
							}
						}
					}
					if race {
						deployRace = msg
					}
				}
			} else {
				polling = phase == target
				st, err = w.Control(id, opOf[ph])
			}
			if phase == target {
				reached, gotErr, gotSt, tookVT = true, err, st, vrt.VNow()-t0
				if err == nil {
					stragglers = notThere(s, m, id, taskDest[target])
				}
				vrt.Quiesce("after-target")
				vrt.Sleep(2 * time.Second) // let the 500 ms error watcher settle
				if late {
					vrt.Sleep(160 * time.Second) // ... and the late reply / late TASK_RUNNING arrive
				}
				vrt.Quiesce("after-target2")
				polling = false
				if id != "" {
					finalSt, _ = w.EnvState(id)
				}
				if err != nil && target == "DEPLOY" {
					for i := range s.crit {
						launched := false
						for _, t := range m.Tasks {
							launched = launched || taskIndex(s, t) == i
						}
						if s.crit[i] && assign[i] != noOffer && !launched {
							unlaunched = append(unlaunched, fmt.Sprintf("t%d", i))
						}
					}
				}
				if err != nil && (ph == "DEPLOY") {
					for eid, est := range w.Envs() {
						if est != "ERROR" && est != "DONE" {
							leftover = append(leftover, eid+":"+est)
						}
					}
				}
				break
			}
			if err != nil {
				setupOK = false
				vrt.Logf("setup step %s failed: %v", ph, err)
				break
			}
		}
		var as []string
		for _, a := range assign {
			as = append(as, oname(a))
		}
		vrt.Logf("%s %s assign=%v -> err=%v state=%s final=%s vt=%v", s.name, target, as, gotErr != nil, gotSt, finalSt, tookVT.Round(time.Second))
	}
	check := func(x *vrt.Exec) (out []vrt.Violation) {
		if deployRace != "" {
			return []vrt.Violation{{Clause: "deploy-timed-out-although-every-task-reported-running", Detail: fmt.Sprintf("shape=%s: every launched task was reported TASK_RUNNING by the master at once, yet: %s", s.name, deployRace)}}
		}
		if !setupOK {
			return []vrt.Violation{{Clause: "setup-step-failed:" + target, Detail: strings.Join(x.Log, "\n")}}
		}
		if !reached {
			return nil
		}
		var as []string
		expectOK := true
		var critFail []string
		for i, a := range assign {
			as = append(as, oname(a))
			if !okClass(a) && s.crit[i] {
				expectOK = false
				critFail = append(critFail, oname(a))
			}
		}
		ctx := fmt.Sprintf("shape=%s target=%s assign=%v err=%v state=%s final=%s", s.name, target, as, gotErr, gotSt, finalSt)
		nonCritOnly := ""
		for i, a := range assign {
			if !okClass(a) && !s.crit[i] {
				nonCritOnly = oname(a)
			}
		}
		noOfferOnly := nonCritOnly != ""
		for i, a := range assign {
			if !okClass(a) && !(a == noOffer && !s.crit[i]) {
				noOfferOnly = false
			}
		}
		slow := ""
		for _, a := range assign {
			if a == coresim.SlowLaunch || a == coresim.SlowReply {
				slow = ":" + oname(a)
			}
		}
		if expectOK {
			if gotErr != nil || gotSt != dest[target] {
				cl := "transition-failed-though-all-critical-tasks-ok:" + target + slow
				if nonCritOnly != "" {
					cl = "non-critical-failure-failed-the-transition:" + target + ":" + nonCritOnly + fmt.Sprintf(":ntasks=%d", len(assign)) + slow
				}
				if noOfferOnly && len(unlaunched) > 0 {
					// not the deployment waiting for a non-critical role: the critical tasks were not even launched
					cl = "non-critical-task-without-offer-kept-critical-tasks-from-being-launched:" + target
					ctx += fmt.Sprintf(" never launched: %v", unlaunched)
				}
				out = append(out, vrt.Violation{Clause: cl, Detail: ctx})
			} else {
				// reported the destination: every critical task must really be there, and the environment must
				// go on reporting it (a non-critical failure must not surface a moment later either)
				if len(stragglers) > 0 {
					out = append(out, vrt.Violation{Clause: "destination-reported-but-critical-task-not-there:" + target, Detail: ctx + fmt.Sprintf(" critical tasks not in %s: %v", taskDest[target], stragglers)})
				}
				if finalSt != dest[target] {
					cl := "destination-not-kept-after-successful-transition:" + target + ":" + finalSt
					if nonCritOnly != "" {
						cl += ":after-non-critical-" + nonCritOnly
					}
					out = append(out, vrt.Violation{Clause: cl, Detail: ctx})
				}
			}
		} else {
			if gotErr == nil && gotSt == "ERROR" {
				// the failure is visible in the reply's state but the RPC itself reports success
				out = append(out, vrt.Violation{Clause: "failed-transition-answered-without-rpc-error:" + target, Detail: ctx})
			} else if gotErr == nil {
				out = append(out, vrt.Violation{Clause: "success-despite-critical-failure:" + target + ":" + strings.Join(critFail, "+"), Detail: ctx})
			}
			if gotSt == dest[target] {
				out = append(out, vrt.Violation{Clause: "destination-reported-despite-critical-failure:" + target, Detail: ctx})
			}
			for _, e := range w.EnvEvents[evFrom:] {
				if e.State == dest[target] && e.Error == "" {
					out = append(out, vrt.Violation{Clause: "destination-published-despite-critical-failure:" + target, Detail: ctx + fmt.Sprintf(" event=%+v", e)})
					break
				}
			}
			if seen[dest[target]] {
				out = append(out, vrt.Violation{Clause: "destination-observed-despite-critical-failure:" + target, Detail: ctx + fmt.Sprintf(" GetEnvironment reported %s while the request was in progress / settling (states seen: %v)", dest[target], seen)})
			}
			if finalSt != "ERROR" && finalSt != "" && finalSt != "DONE" {
				out = append(out, vrt.Violation{Clause: "not-in-ERROR-after-failed-transition:" + target + ":" + finalSt, Detail: ctx})
			}
			if len(leftover) > 0 {
				sort.Strings(leftover)
				out = append(out, vrt.Violation{Clause: "environment-listed-healthy-after-failed-creation:" + target, Detail: ctx + fmt.Sprintf(" listed: %v", leftover)})
			}
		}
		return
	}
	name, alphaDoc := s.name+"-"+target, "whole alphabet"
	if len(s.crit) >= 3 {
		if full {
			name += "-full"
		} else {
			alphaDoc = "without the slow / late outcomes"
		}
	}
	return &vrt.Scenario{Name: name, Prop: "C02", Body: body, Check: check, Quick: q, Thorough: t,
		Setup:          coresim.ResetStore,
		Cfg:            vrt.Config{Preempt: coresim.InterComponent, NoLockPoints: true, FreeSwitchCost: true, Horizon: 30 * time.Minute},
		DeadlockClause: "request-hangs:" + target, PanicClause: "panic",
		NonTrivial: func(x *vrt.Exec) bool { return reached },
		Doc:        fmt.Sprintf("shape %s, outcomes assigned at %s (%s)", s.name, target, alphaDoc)}
}

// history: a failure confined to the non-critical tasks at one transition, then the rest of the environment's
// life (the statement's "never make a transition fail" is not limited to the transition the failure happens in:
// the failed non-critical task is still there - in the wrong state, dead, or answering late - when the next
// transitions command the workflow).
func history(s shape, q, t vrt.Bounds) *vrt.Scenario {
	type step struct {
		name, event, dest, taskDest string
		op                          pb.ControlEnvironmentRequest_Optype
	}
	steps := []step{
		{"CONFIGURE", "CONFIGURE", "CONFIGURED", "CONFIGURED", 0}, // inside NewEnvironment
		{"START", "START", "RUNNING", "RUNNING", pb.ControlEnvironmentRequest_START_ACTIVITY},
		{"STOP", "STOP", "CONFIGURED", "CONFIGURED", pb.ControlEnvironmentRequest_STOP_ACTIVITY},
		{"RESET", "RESET", "DEPLOYED", "STANDBY", pb.ControlEnvironmentRequest_RESET},
		{"CONFIGURE2", "CONFIGURE", "CONFIGURED", "CONFIGURED", pb.ControlEnvironmentRequest_CONFIGURE},
		{"START2", "START", "RUNNING", "RUNNING", pb.ControlEnvironmentRequest_START_ACTIVITY},
		{"STOP2", "STOP", "CONFIGURED", "CONFIGURED", pb.ControlEnvironmentRequest_STOP_ACTIVITY},
	}
	failures := []coresim.Outcome{coresim.ErrSource, coresim.ErrError, coresim.Undeliverable, coresim.Silent, coresim.Dies, coresim.LateReply}
	type result struct {
		st         string
		err        error
		vt         time.Duration
		stragglers []string
		nothing    bool // no task of the environment was alive when the request came: nothing to command
	}
	var (
		at         int
		assign     []coresim.Outcome
		res        []result
		finalSt    string
		deployRace string
	)
	label := func() string {
		var as []string
		for i, a := range assign {
			if s.crit[i] {
				as = append(as, "-")
			} else {
				as = append(as, oname(a))
			}
		}
		return fmt.Sprintf("shape=%s non-critical outcomes at %s: %v", s.name, steps[at].name, as)
	}
	return &vrt.Scenario{Name: "after-" + s.name, Prop: "C02", Quick: q, Thorough: t,
		Doc:            fmt.Sprintf("shape %s: the non-critical tasks fail at one of CONFIGURE/START/STOP/RESET, then every later transition up to a second STOP", s.name),
		Setup:          coresim.ResetStore,
		Cfg:            vrt.Config{Preempt: coresim.InterComponent, NoLockPoints: true, FreeSwitchCost: true, Horizon: 60 * time.Minute},
		DeadlockClause: "request-hangs:after-non-critical-failure", PanicClause: "panic",
		NonTrivial: func(x *vrt.Exec) bool { return len(res) > at },
		Body: func() {
			assign, res, finalSt, deployRace = nil, nil, "", ""
			at = vrt.ChooseFree(4, "transition at which the non-critical tasks fail")
			for i := range s.crit {
				if s.crit[i] {
					assign = append(assign, coresim.OK)
				} else {
					assign = append(assign, failures[vrt.ChooseFree(len(failures), "outcome")])
				}
			}
			cur := -1
			m := coresim.NewMaster(agents()...)
			m.Behaviour = func(t *coresim.SimTask, kind string) coresim.Outcome {
				if cur == at && kind == steps[at].event {
					if i := taskIndex(s, t); i >= 0 {
						return assign[i]
					}
				}
				return coresim.OK
			}
			w := coresim.NewWorld(m)
			id := ""
			for k, sp := range steps {
				cur = k
				r := result{nothing: k > 0 && len(m.AliveTasks()) == 0}
				t0 := vrt.VNow()
				if k == 0 {
					id, r.st, r.err = w.Create(wfName(s), nil)
					if r.err != nil && strings.Contains(r.err.Error(), "workflow deployment timed out") {
						deployRace = r.err.Error()
					}
				} else {
					r.st, r.err = w.Control(id, sp.op)
				}
				r.vt = vrt.VNow() - t0
				if r.err == nil {
					r.stragglers = notThere(s, m, id, sp.taskDest)
				}
				res = append(res, r)
				vrt.Logf("%s -> err=%v state=%s vt=%v", sp.name, r.err != nil, r.st, r.vt.Round(time.Second))
				if r.err != nil || r.st != sp.dest {
					break
				}
				vrt.Quiesce("between-requests")
			}
			vrt.Sleep(160 * time.Second) // a late reply of the failed transition arrives at the latest now
			vrt.Quiesce("settled")
			if id != "" {
				finalSt, _ = w.EnvState(id)
			}
			vrt.Logf("%s final=%s", label(), finalSt)
		},
		Check: func(x *vrt.Exec) (out []vrt.Violation) {
			if deployRace != "" {
				return []vrt.Violation{{Clause: "deploy-timed-out-although-every-task-reported-running", Detail: fmt.Sprintf("shape=%s: every launched task was reported TASK_RUNNING by the master at once, yet: %s", s.name, deployRace)}}
			}
			for k, r := range res {
				sp := steps[k]
				when := "at-the-failure"
				if k > at {
					when = "later:" + sp.name
				} else if k < at {
					when = "before-any-failure:" + sp.name
				}
				ctx := fmt.Sprintf("%s; %s: err=%v state=%s vt=%v\n%s", label(), sp.name, r.err, r.st, r.vt, strings.Join(x.Log, "\n"))
				if r.err != nil || r.st != sp.dest {
					out = append(out, vrt.Violation{Clause: "non-critical-failure-failed-a-transition:at=" + steps[at].name + ":" + when, Detail: ctx})
					return
				}
				if len(r.stragglers) > 0 {
					out = append(out, vrt.Violation{Clause: "destination-reported-but-critical-task-not-there:" + when, Detail: ctx + fmt.Sprintf("\ncritical tasks not in %s: %v", sp.taskDest, r.stragglers)})
				}
				if r.nothing && r.vt > time.Second {
					out = append(out, vrt.Violation{Clause: "nothing-to-command-but-not-at-once:" + sp.name, Detail: ctx})
				}
			}
			if len(res) == len(steps) && finalSt != steps[len(steps)-1].dest {
				out = append(out, vrt.Violation{Clause: "destination-not-kept-after-successful-transition:after-non-critical-failure:" + finalSt, Detail: label() + "\n" + strings.Join(x.Log, "\n")})
			}
			return
		}}
}

// pair: two environments (one critical task each, different hosts and detectors) are taken through the same
// transition at the same time. "Every critical task of ITS workflow": what the other environment's task does
// must not decide this environment's transition, in either direction.
func pairScenario(op string, q, t vrt.Bounds) *vrt.Scenario {
	alpha := []coresim.Outcome{coresim.OK, coresim.ErrSource, coresim.Silent, coresim.SlowReply}
	wfs := [2]string{"c02-c", "c02-pb"}
	classes := [2]string{"c02c0", "c02pb0"}
	var (
		assign  [2]coresim.Outcome
		gotSt   [2]string
		gotErr  [2]error
		finalSt [2]string
		reached bool
		setup   string
	)
	return &vrt.Scenario{Name: "pair-" + op, Prop: "C02", Quick: q, Thorough: t,
		Doc:            "two environments in " + op + " at the same time, every pair of outcomes from {ok, error reply, silent, slow reply}",
		Setup:          coresim.ResetStore,
		Cfg:            vrt.Config{Preempt: coresim.InterComponent, NoLockPoints: true, FreeSwitchCost: true, Horizon: 30 * time.Minute},
		DeadlockClause: "request-hangs:two-environments:" + op, PanicClause: "panic",
		NonTrivial: func(x *vrt.Exec) bool { return reached },
		Body: func() {
			reached, setup = false, ""
			for k := range assign {
				assign[k] = alpha[vrt.ChooseFree(len(alpha), "outcome")]
				gotSt[k], gotErr[k], finalSt[k] = "", nil, ""
			}
			armed := false
			m := coresim.NewMaster(agents()...)
			m.Behaviour = func(t *coresim.SimTask, kind string) coresim.Outcome {
				if armed && kind == eventOf[op] {
					for k := range classes {
						if t.Class == classes[k] {
							return assign[k]
						}
					}
				}
				return coresim.OK
			}
			w := coresim.NewWorld(m)
			var ids [2]string
			for k := range wfs {
				id, st, err := w.Create(wfs[k], nil)
				if err != nil || st != "CONFIGURED" {
					setup = fmt.Sprintf("creating %s: state=%s err=%v", wfs[k], st, err)
					vrt.Logf("setup failed: %s", setup)
					return
				}
				ids[k] = id
			}
			armed, reached = true, true
			done := 0
			for k := range ids {
				k := k
				vrt.GoFG(fmt.Sprintf("client%d", k), func() {
					gotSt[k], gotErr[k] = w.Control(ids[k], opOf[op])
					done++
				})
			}
			vrt.WaitUntil("both-requests-answered", func() bool { return done == 2 })
			vrt.Quiesce("after-requests")
			vrt.Sleep(2 * time.Second)
			vrt.Quiesce("settled")
			for k := range ids {
				finalSt[k], _ = w.EnvState(ids[k])
			}
			vrt.Logf("pair %s assign=[%s %s] -> A: err=%v state=%s final=%s | B: err=%v state=%s final=%s", op, oname(assign[0]), oname(assign[1]),
				gotErr[0] != nil, gotSt[0], finalSt[0], gotErr[1] != nil, gotSt[1], finalSt[1])
		},
		Check: func(x *vrt.Exec) (out []vrt.Violation) {
			if setup != "" {
				if strings.Contains(setup, "workflow deployment timed out") {
					return []vrt.Violation{{Clause: "deploy-timed-out-although-every-task-reported-running", Detail: setup}}
				}
				return []vrt.Violation{{Clause: "setup-step-failed:" + op, Detail: setup}}
			}
			if !reached {
				return nil
			}
			for k := range assign {
				other := oname(assign[1-k])
				ctx := fmt.Sprintf("%s: environment %d of 2, own task %s, the other environment's task %s: err=%v state=%s final=%s\n%s", op, k, oname(assign[k]), other, gotErr[k], gotSt[k], finalSt[k], strings.Join(x.Log, "\n"))
				if okClass(assign[k]) {
					if gotErr[k] != nil || gotSt[k] != dest[op] || finalSt[k] != dest[op] {
						out = append(out, vrt.Violation{Clause: "transition-failed-though-own-critical-task-ok:" + op + ":other-environment-" + other, Detail: ctx})
					}
				} else {
					if gotErr[k] == nil || gotSt[k] == dest[op] {
						out = append(out, vrt.Violation{Clause: "success-despite-critical-failure:" + op + ":" + oname(assign[k]) + ":other-environment-" + other, Detail: ctx})
					}
					if finalSt[k] != "ERROR" {
						out = append(out, vrt.Violation{Clause: "not-in-ERROR-after-failed-transition:" + op + ":" + finalSt[k] + ":other-environment-" + other, Detail: ctx})
					}
				}
			}
			return
		}}
}

// zero tasks: a workflow consisting of one (non-critical) integration call only.
func emptyScenario() *vrt.Scenario {
	var results []string
	var vts []time.Duration
	return &vrt.Scenario{Name: "0-all", Prop: "C02", Doc: "workflow with nothing to command: every transition must succeed at once",
		Setup: coresim.ResetStore,
		Cfg:   vrt.Config{Preempt: coresim.InterComponent, NoLockPoints: true, FreeSwitchCost: true, Horizon: 30 * time.Minute},
		Quick: vrt.Bounds{Dev: 0, Seconds: 60}, Thorough: vrt.Bounds{Dev: 1, Seconds: 300},
		DeadlockClause: "nothing-to-command-but-request-hangs", PanicClause: "panic",
		Body: func() {
			results, vts = nil, nil
			w := coresim.NewWorld(coresim.NewMaster(agents()...))
			t0 := vrt.VNow()
			id, st, err := w.Create("c02-0", nil)
			results = append(results, fmt.Sprintf("CREATE:%s:%v", st, err != nil))
			vts = append(vts, vrt.VNow()-t0)
			if err != nil {
				vrt.Logf("create failed: %v", err)
				return
			}
			for _, ph := range []string{"START", "STOP", "RESET", "CONFIGURE2"} {
				t0 = vrt.VNow()
				st, err = w.Control(id, opOf[ph])
				results = append(results, fmt.Sprintf("%s:%s:%v", ph, st, err != nil))
				vts = append(vts, vrt.VNow()-t0)
				if err != nil {
					vrt.Logf("%s failed: %v", ph, err)
					break
				}
			}
			vrt.Logf("results %v", results)
		},
		Check: func(x *vrt.Exec) (out []vrt.Violation) {
			want := []string{"CREATE:CONFIGURED:false", "START:RUNNING:false", "STOP:CONFIGURED:false", "RESET:DEPLOYED:false", "CONFIGURE2:CONFIGURED:false"}
			for i, wnt := range want {
				if i >= len(results) {
					break
				}
				op := strings.SplitN(wnt, ":", 2)[0]
				if results[i] != wnt {
					out = append(out, vrt.Violation{Clause: "nothing-to-command-but-transition-fails:" + op, Detail: fmt.Sprintf("got %v\n%s", results, strings.Join(x.Log, "\n"))})
					break
				}
				if vts[i] > time.Second {
					out = append(out, vrt.Violation{Clause: "nothing-to-command-but-not-at-once:" + op, Detail: fmt.Sprintf("%s took %v of virtual time", op, vts[i])})
				}
			}
			return
		}}
}

func main() {
	var specs []coresim.WorkflowSpec
	specs = append(specs, coresim.WorkflowSpec{Name: "c02-0", Hosts: []string{"hostA"}, Calls: []string{
		"  - name: \"call1\"\n    call:\n      func: sim.Call(\"c1\")\n      trigger: before_START_ACTIVITY\n      timeout: 5s\n      critical: false\n"}})
	for _, s := range shapes {
		specs = append(specs, specOf(s))
	}
	// second environment of the pair scenarios: one critical task on hostB (its own detector)
	specs = append(specs, coresim.WorkflowSpec{Name: "c02-pb", Hosts: []string{"hostB"}, Tasks: []coresim.TaskSpec{{Name: "t0", Class: "c02pb0", Mode: "direct", Critical: true, Host: "hostB"}}})
	coresim.GlobalSetup(specs...)
	var scs []*vrt.Scenario
	for k, s := range shapes {
		for _, tg := range []string{"DEPLOY", "CONFIGURE", "START", "STOP", "RESET", "CONFIGURE2"} {
			if len(s.crit) >= 3 {
				scs = append(scs, scenario(s, tg, false, vrt.Bounds{Dev: 0, Seconds: 100}, vrt.Bounds{Dev: 1, Seconds: 60}))
			}
			// thorough budget: the shapes added by the gap analysis get 20 s each (a capped run says exhaustive=false),
			// which keeps the thorough tier of the property at about half an hour
			tb := vrt.Bounds{Dev: 1, Seconds: 60}
			if k >= 7 {
				tb.Seconds = 20
			}
			scs = append(scs, scenario(s, tg, true, vrt.Bounds{Dev: 0, Seconds: 100}, tb))
		}
	}
	for _, s := range shapes {
		nonCritical := false
		for _, c := range s.crit {
			nonCritical = nonCritical || !c
		}
		if nonCritical {
			scs = append(scs, history(s, vrt.Bounds{Dev: 0, Seconds: 100}, vrt.Bounds{Dev: 1, Seconds: 45}))
		}
	}
	for _, op := range []string{"START", "RESET"} {
		scs = append(scs, pairScenario(op, vrt.Bounds{Dev: 0, Seconds: 100}, vrt.Bounds{Dev: 1, Seconds: 120}))
	}
	scs = append(scs, emptyScenario())
	vrt.Main(scs)
}

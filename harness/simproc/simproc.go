// Package simproc is a deterministic stand-in for the parts of os/exec,
// syscall.Kill and os.FindProcess that the executor uses. It is NOT instrumented:
// everything that blocks or races goes through the vrt API, so the simulated
// processes live inside the cooperative scheduler.
//
// The rewriter maps `import "os/exec"` of executor/executable and
// executor/executorcmd to this package (import_subst) and the call sites of
// syscall.Kill / os.FindProcess to Kill / FindProcess (subst).
//
// Model (written from fork(2)/execve(2)/kill(2)/wait(2)/setpgid(2) and the
// os/exec documentation, not from the executor):
//   - a process has a pid, a process group id, a parent, a program (a vrt thread)
//     and a disposition for SIGTERM/SIGINT (default: terminate; or ignore);
//     SIGKILL always terminates; signal 0 only tests for existence;
//   - kill(pid>0) addresses one process, kill(-pgid) every member of the group;
//     ESRCH if nothing is addressed; a zombie is still addressed (no effect);
//   - a process that dies and whose parent is the executor stays a zombie (its
//     pid exists) until (*Cmd).Wait reaps it; every other process is reaped at
//     once (by its parent shell or by init); children of a dying process are
//     re-parented to init and keep running in the same group;
//   - before (*Cmd).Wait has returned Cmd.ProcessState is nil, exactly as in
//     os/exec, and the methods of a nil *ProcessState dereference it;
//   - a pipe returned by StdoutPipe/StderrPipe reports EOF when no running
//     process of those that inherited it is left, and is closed by Wait.
package simproc

import (
	"context"
	"errors"
	"fmt"
	"io"
	"os"
	"strings"
	"syscall"
	"time"

	vrt "github.com/AliceO2Group/Control/verif_vrt"
)

// ErrNotFound mirrors exec.ErrNotFound.
var ErrNotFound = errors.New("executable file not found in $PATH")

// Error mirrors exec.Error.
type Error struct {
	Name string
	Err  error
}

func (e *Error) Error() string { return "exec: " + fmt.Sprintf("%q", e.Name) + ": " + e.Err.Error() }
func (e *Error) Unwrap() error { return e.Err }

// Program is what a simulated process does; returning means exit(0).
type Program func(p *Proc)

// World is the simulated kernel of one execution.
type World struct {
	Procs   []*Proc // every process ever created, in creation order
	byPid   map[int]*Proc
	nextPid int
	// StartHook decides what (*Cmd).Start does: the program to run, or an error
	// (fork/exec failure: Process stays nil, as in os/exec).
	StartHook func(c *Cmd) (Program, error)
	// Signals is the list of kill(2) calls made so far ("<sig>-><pid>=<errno|ok>").
	Signals []string
}

// W is the world of the current execution; the harness calls Reset in its body.
var W *World

// Reset starts a fresh world.
func Reset(start func(c *Cmd) (Program, error)) *World {
	W = &World{byPid: map[int]*Proc{}, nextPid: 4000, StartHook: start}
	return W
}

// Proc is one simulated process.
type Proc struct {
	Pid, Pgid int
	Name      string
	Parent    *Proc // nil: child of the executor (or re-parented to init, see Orphan)
	Orphan    bool  // re-parented to init
	// IgnoreTermInt: SIGTERM and SIGINT are ignored.
	IgnoreTermInt bool
	// OnSignal, if set, sees every delivered signal other than SIGKILL/0 first; returning true
	// means the process handled it itself (custom disposition).
	OnSignal func(sig syscall.Signal) bool

	root     *Proc
	running  bool
	exited   bool // normal exit (exit code valid)
	code     int
	sig      syscall.Signal // terminating signal if !exited
	reaped   bool
	children []*Proc
	w        *World
	diedAt   time.Duration
	crashed  bool // terminated by a signal nobody sent with Kill (see Crash)
}

func (w *World) newProc(name string, parent *Proc, pgid int) *Proc {
	w.nextPid++
	p := &Proc{Pid: w.nextPid, Name: name, Parent: parent, running: true, w: w}
	p.root = p
	if parent != nil {
		p.root = parent.root
	}
	if pgid == 0 {
		pgid = p.Pid
	}
	p.Pgid = pgid
	w.Procs = append(w.Procs, p)
	w.byPid[p.Pid] = p
	if parent != nil {
		parent.children = append(parent.children, p)
	}
	return p
}

// Alive: the process is running (not a zombie, not gone).
func (p *Proc) Alive() bool { return p.running }

// Zombie: dead but not yet reaped (its pid still exists).
func (p *Proc) Zombie() bool { return !p.running && !p.reaped }

// Root is the process started by the executor that this one descends from.
func (p *Proc) Root() *Proc { return p.root }

// Signaled: the process was terminated by a signal.
func (p *Proc) Signaled() bool { return !p.running && !p.exited }

// ExitCode of a process that ended (-1 if terminated by a signal).
func (p *Proc) ExitCode() int {
	if p.running || !p.exited {
		return -1
	}
	return p.code
}

// DiedAt is the virtual time of death.
func (p *Proc) DiedAt() time.Duration { return p.diedAt }

// Status describes how the process ended ("running", "exit status N", "signal: killed", ...).
func (p *Proc) Status() string {
	if p.running {
		return "running"
	}
	return (&ProcessState{pid: p.Pid, exited: p.exited, code: p.code, sig: p.sig}).String()
}

// Exit ends the process normally (called from its own program).
func (p *Proc) Exit(code int) {
	if !p.running {
		return
	}
	p.die(true, code, 0)
}

// Crash ends the process by a signal that does not come from the executor: one it raised itself
// (SIGSEGV, SIGABRT) or one from outside (the OOM killer, an operator). Nothing is added to Signals.
func (p *Proc) Crash(sig syscall.Signal) {
	if !p.running {
		return
	}
	p.crashed = true
	p.die(false, -1, sig)
}

// Crashed: the process was terminated by a signal that was not sent through Kill (see Crash).
func (p *Proc) Crashed() bool { return p.crashed }

func (p *Proc) die(exited bool, code int, sig syscall.Signal) {
	p.running = false
	p.exited, p.code, p.sig = exited, code, sig
	p.diedAt = vrt.VNow()
	for _, c := range p.children {
		if c.running {
			c.Parent, c.Orphan = nil, true
		}
	}
	if p.Parent != nil || p.Orphan {
		// reaped at once by its parent (a shell in wait) or by init
		p.reaped = true
		delete(p.w.byPid, p.Pid)
	}
}

// Fork creates a child process in the same process group.
func (p *Proc) Fork(name string, prog Program) *Proc {
	if !p.running {
		// a process that has been terminated does not get to fork any more
		return &Proc{Name: name, Parent: p, root: p.root, w: p.w, reaped: true, sig: syscall.SIGKILL}
	}
	c := p.w.newProc(name, p, p.Pgid)
	vrt.Go("proc:"+name, func() {
		if c.running {
			prog(c)
		}
		c.Exit(0)
	})
	return c
}

// Sleep lets virtual time pass for the process; false if it died meanwhile.
func (p *Proc) Sleep(d time.Duration) bool {
	if !p.running {
		return false
	}
	deadline := vrt.VNow() + d
	_ = vrt.After(d) // a pending timer makes the clock advance
	vrt.WaitUntil("proc-sleep:"+p.Name, func() bool { return !p.running || vrt.VNow() >= deadline })
	return p.running
}

// WaitDeath parks the program until the process has been terminated.
func (p *Proc) WaitDeath() {
	vrt.WaitUntil("proc-runs:"+p.Name, func() bool { return !p.running })
}

// WaitFor parks the program until cond holds or the process died; false if it died.
func (p *Proc) WaitFor(cond func() bool) bool {
	vrt.WaitUntil("proc-waits:"+p.Name, func() bool { return !p.running || cond() })
	return p.running
}

// Group lists the running members of a process group.
func (w *World) Group(pgid int) []*Proc {
	var out []*Proc
	for _, p := range w.Procs {
		if p.Pgid == pgid && p.running {
			out = append(out, p)
		}
	}
	return out
}

// Running lists every running process.
func (w *World) Running() []*Proc {
	var out []*Proc
	for _, p := range w.Procs {
		if p.running {
			out = append(out, p)
		}
	}
	return out
}

func sigName(s syscall.Signal) string {
	switch s {
	case 0:
		return "0"
	case syscall.SIGTERM:
		return "TERM"
	case syscall.SIGINT:
		return "INT"
	case syscall.SIGKILL:
		return "KILL"
	}
	return fmt.Sprintf("SIG%d", int(s))
}

func (w *World) deliver(p *Proc, sig syscall.Signal) {
	if !p.running || sig == 0 {
		return
	}
	if sig != syscall.SIGKILL {
		if p.OnSignal != nil && p.OnSignal(sig) {
			return
		}
		if p.IgnoreTermInt && (sig == syscall.SIGTERM || sig == syscall.SIGINT) {
			return
		}
	}
	p.die(false, -1, sig)
}

// Kill replaces syscall.Kill. It is a scheduling point.
func Kill(pid int, sig syscall.Signal) error {
	w := W
	if w == nil {
		return syscall.ESRCH
	}
	vrt.Yield("kill(2)")
	err := w.kill(pid, sig)
	res := "ok"
	if err != nil {
		res = err.Error()
	}
	if sig != 0 {
		w.Signals = append(w.Signals, fmt.Sprintf("%s->%d=%s", sigName(sig), pid, res))
	}
	return err
}

func (w *World) kill(pid int, sig syscall.Signal) error {
	switch {
	case pid > 0:
		p := w.byPid[pid]
		if p == nil {
			return syscall.ESRCH
		}
		w.deliver(p, sig)
		return nil
	case pid < -1:
		var members []*Proc
		for _, p := range w.Procs {
			if p.Pgid == -pid && !p.reaped {
				members = append(members, p)
			}
		}
		if len(members) == 0 {
			return syscall.ESRCH
		}
		for _, p := range members {
			w.deliver(p, sig)
		}
		return nil
	}
	// pid 0 / -1 would address the executor's own group / everything: never meant here
	return syscall.EINVAL
}

// ---------------------------------------------------------------------------
// os.Process / os.ProcessState look-alikes
// ---------------------------------------------------------------------------

// Process mirrors os.Process.
type Process struct {
	Pid  int
	proc *Proc
	cmd  *Cmd
}

// FindProcess replaces os.FindProcess: on Unix it always succeeds.
func FindProcess(pid int) (*Process, error) {
	return &Process{Pid: pid}, nil
}

// Signal mirrors (*os.Process).Signal: ESRCH is reported as os.ErrProcessDone.
func (p *Process) Signal(sig os.Signal) error {
	if p == nil {
		return os.ErrInvalid
	}
	s, ok := sig.(syscall.Signal)
	if !ok {
		return errors.New("os: unsupported signal type")
	}
	if p.proc != nil && p.proc.reaped {
		return os.ErrProcessDone
	}
	if err := Kill(p.Pid, s); err != nil {
		if err == syscall.ESRCH {
			return os.ErrProcessDone
		}
		return err
	}
	return nil
}

func (p *Process) Kill() error    { return p.Signal(syscall.SIGKILL) }
func (p *Process) Release() error { return nil }

// Wait mirrors (*os.Process).Wait for a child started through Cmd.
func (p *Process) Wait() (*ProcessState, error) {
	if p.proc == nil {
		return nil, syscall.ECHILD
	}
	return p.proc.reap()
}

func (p *Proc) reap() (*ProcessState, error) {
	vrt.WaitUntil("wait4:"+p.Name, func() bool { return !p.running })
	if p.reaped {
		return nil, syscall.ECHILD
	}
	p.reaped = true
	delete(p.w.byPid, p.Pid)
	return &ProcessState{pid: p.Pid, exited: p.exited, code: p.code, sig: p.sig}, nil
}

// ProcessState mirrors os.ProcessState. As with the original, calling a method
// on a nil *ProcessState dereferences the nil pointer.
type ProcessState struct {
	pid    int
	exited bool
	code   int
	sig    syscall.Signal
}

func (s *ProcessState) Pid() int      { return s.pid }
func (s *ProcessState) Exited() bool  { return s.exited }
func (s *ProcessState) Success() bool { return s.exited && s.code == 0 }
func (s *ProcessState) Sys() any      { return nil }
func (s *ProcessState) SysUsage() any { return nil }
func (s *ProcessState) ExitCode() int {
	if s == nil {
		return -1 // os.ProcessState.ExitCode is documented to return -1 for nil
	}
	if !s.exited {
		return -1
	}
	return s.code
}
func (s *ProcessState) SystemTime() time.Duration { return 0 }
func (s *ProcessState) UserTime() time.Duration   { return 0 }
func (s *ProcessState) String() string {
	if s == nil {
		return "<nil>"
	}
	if s.exited {
		return fmt.Sprintf("exit status %d", s.code)
	}
	switch s.sig {
	case syscall.SIGKILL:
		return "signal: killed"
	case syscall.SIGTERM:
		return "signal: terminated"
	case syscall.SIGINT:
		return "signal: interrupt"
	case syscall.SIGSEGV:
		return "signal: segmentation fault"
	case syscall.SIGABRT:
		return "signal: aborted"
	}
	return fmt.Sprintf("signal: %d", int(s.sig))
}

// ExitError mirrors exec.ExitError.
type ExitError struct {
	*ProcessState
	Stderr []byte
}

func (e *ExitError) Error() string { return e.ProcessState.String() }

// ---------------------------------------------------------------------------
// exec.Cmd look-alike
// ---------------------------------------------------------------------------

// Cmd mirrors exec.Cmd (the subset the executor touches).
type Cmd struct {
	Path         string
	Args         []string
	Env          []string
	Dir          string
	Stdin        io.Reader
	Stdout       io.Writer
	Stderr       io.Writer
	ExtraFiles   []*os.File
	SysProcAttr  *syscall.SysProcAttr
	Process      *Process
	ProcessState *ProcessState
	Err          error
	Cancel       func() error
	WaitDelay    time.Duration

	ctx       context.Context
	pipes     []*pipe
	waited    bool
	ctxKilled bool
}

func Command(name string, arg ...string) *Cmd {
	return &Cmd{Path: name, Args: append([]string{name}, arg...)}
}

func CommandContext(ctx context.Context, name string, arg ...string) *Cmd {
	if ctx == nil {
		panic("nil Context")
	}
	c := Command(name, arg...)
	c.ctx = ctx
	return c
}

func (c *Cmd) String() string { return strings.Join(c.Args, " ") }

func (c *Cmd) Environ() []string { return c.Env }

type pipe struct {
	cmd    *Cmd
	closed bool
}

func (p *pipe) holdersRunning() bool {
	if p.cmd.Process == nil || p.cmd.Process.proc == nil {
		return false
	}
	root := p.cmd.Process.proc
	// the started process and everything forked from it inherited the write end
	var any func(q *Proc) bool
	any = func(q *Proc) bool {
		if q.running {
			return true
		}
		for _, c := range q.children {
			if any(c) {
				return true
			}
		}
		return false
	}
	return any(root)
}

func (p *pipe) Read(b []byte) (int, error) {
	vrt.WaitUntil("pipe-read", func() bool {
		return p.closed || (p.cmd.Process != nil && !p.holdersRunning())
	})
	if p.closed {
		return 0, os.ErrClosed
	}
	return 0, io.EOF
}

func (p *pipe) Close() error {
	p.closed = true
	return nil
}

func (c *Cmd) newPipe() (io.ReadCloser, error) {
	if c.Process != nil {
		return nil, errors.New("exec: pipe after process started")
	}
	p := &pipe{cmd: c}
	c.pipes = append(c.pipes, p)
	return p, nil
}

func (c *Cmd) StdoutPipe() (io.ReadCloser, error) {
	if c.Stdout != nil {
		return nil, errors.New("exec: Stdout already set")
	}
	return c.newPipe()
}

func (c *Cmd) StderrPipe() (io.ReadCloser, error) {
	if c.Stderr != nil {
		return nil, errors.New("exec: Stderr already set")
	}
	return c.newPipe()
}

// Start mirrors (*exec.Cmd).Start.
func (c *Cmd) Start() error {
	if c.Process != nil {
		return errors.New("exec: already started")
	}
	if c.Err != nil {
		return c.Err
	}
	w := W
	if w == nil || w.StartHook == nil {
		return &Error{Name: c.Path, Err: ErrNotFound}
	}
	if c.ctx != nil && c.ctx.Err() != nil {
		return c.ctx.Err()
	}
	vrt.Yield("fork+exec")
	prog, err := w.StartHook(c)
	if err != nil {
		for _, p := range c.pipes {
			p.closed = true
		}
		return err
	}
	pgid := 1 // the executor's own group
	if c.SysProcAttr != nil && c.SysProcAttr.Setpgid {
		pgid = 0 // = its own pid
		if c.SysProcAttr.Pgid != 0 {
			pgid = c.SysProcAttr.Pgid
		}
	}
	name := "child"
	if len(c.Args) > 0 {
		name = c.Args[len(c.Args)-1]
	}
	p := w.newProc(name, nil, pgid)
	c.Process = &Process{Pid: p.Pid, proc: p, cmd: c}
	vrt.Go("proc:"+name, func() {
		if p.running {
			prog(p)
		}
		p.Exit(0)
	})
	if c.ctx != nil && c.ctx.Done() != nil {
		ctx := c.ctx
		vrt.Go("exec-ctx-watch", func() {
			vrt.WaitUntil("exec-ctx-watch", func() bool { return !p.running || ctx.Err() != nil })
			if p.running {
				c.ctxKilled = true
				_ = c.Process.Kill()
			}
		})
	}
	return nil
}

// Wait mirrors (*exec.Cmd).Wait: blocks until the child has exited, reaps it,
// sets ProcessState, closes the pipes.
func (c *Cmd) Wait() error {
	if c.Process == nil {
		return errors.New("exec: not started")
	}
	if c.waited {
		return errors.New("exec: Wait was already called")
	}
	c.waited = true
	st, err := c.Process.Wait()
	if err != nil {
		return err
	}
	c.ProcessState = st
	for _, p := range c.pipes {
		p.closed = true
	}
	if c.ctxKilled && c.ctx != nil && c.ctx.Err() != nil {
		return c.ctx.Err()
	}
	if !st.Success() {
		return &ExitError{ProcessState: st}
	}
	return nil
}

func (c *Cmd) Run() error {
	if err := c.Start(); err != nil {
		return err
	}
	return c.Wait()
}

func (c *Cmd) Output() ([]byte, error) {
	err := c.Run()
	return nil, err
}

func (c *Cmd) CombinedOutput() ([]byte, error) { return c.Output() }

// LookPath mirrors exec.LookPath (everything is found).
func LookPath(file string) (string, error) { return file, nil }

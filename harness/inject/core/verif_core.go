//go:build verif

package core

import (
	"context"

	"github.com/AliceO2Group/Control/core/environment"
	"github.com/AliceO2Group/Control/core/task"
	"github.com/AliceO2Group/Control/core/the"
	"github.com/mesos/mesos-go/api/v1/lib/scheduler/calls"
)

// VerifCore is one life of the core, built by the same steps as core.Run()
// minus gRPC/net listeners, signals and metrics.
type VerifCore struct {
	Rpc     *RpcServer
	Taskman *task.Manager
	Envman  *environment.Manager
	Cancel  func()
}

// NewCoreForVerif starts a core whose Mesos client is the given Caller.
func NewCoreForVerif(caller calls.Caller) (*VerifCore, error) {
	ctx, cancel := context.WithCancel(context.Background())
	state, err := newGlobalState(cancel)
	if err != nil {
		cancel()
		return nil, err
	}
	task.SetCallerForVerif(state.taskman, caller)
	_ = the.RepoManager()
	rpc := &RpcServer{state: state, envStreams: newSafeStreamsMap()}
	state.taskman.Start(ctx)
	return &VerifCore{Rpc: rpc, Taskman: state.taskman, Envman: state.environments, Cancel: cancel}, nil
}

// SetDefaultsForVerif applies the core's real configuration defaults.
func SetDefaultsForVerif() error { return setDefaults() }

//go:build verif

package workflow

// SetRootParentForVerif links a workflow root to its parent (the environment's
// ParentAdapter), as workflow.Load does for a loaded workflow.
func SetRootParentForVerif(root Role, p Updatable) { root.setParent(p) }

//go:build verif

package workflow

import (
	"github.com/AliceO2Group/Control/core/task/constraint"
	"gopkg.in/yaml.v3"
)

// LoadRoleTreeForVerifC05 unmarshals a workflow template exactly as Load's
// loadSubworkflow does (no repository, no template processing).
func LoadRoleTreeForVerifC05(yamlDoc []byte) (Role, error) {
	root := new(aggregatorRole)
	err := yaml.Unmarshal(yamlDoc, root)
	if err != nil {
		return nil, err
	}
	return root, nil
}

// ConstraintsOfForVerifC05 exposes the merged constraints of a role.
func ConstraintsOfForVerifC05(r Role) constraint.Constraints { return r.getConstraints() }

//go:build verif

package workflow

import (
	"fmt"

	"github.com/AliceO2Group/Control/common/event"
	"github.com/AliceO2Group/Control/common/gera"
	"github.com/AliceO2Group/Control/common/utils/uid"
	"github.com/AliceO2Group/Control/core/repos"
	"github.com/AliceO2Group/Control/core/task"
	"github.com/AliceO2Group/Control/core/task/sm"
	"github.com/spf13/viper"
	"gopkg.in/yaml.v3"
)

// VerifTree is a role tree loaded the way workflow.Load loads it (YAML
// unmarshalling of the real role types, reparenting to a real ParentAdapter,
// real ProcessTemplates incl. include resolution and iterator expansion), with
// the workflow repository replaced by an in-memory map of documents.
type VerifTree struct {
	Root     Role
	Adapter  *ParentAdapter
	States   chan sm.State    // everything ParentAdapter.updateState was handed
	Statuses chan task.Status // everything ParentAdapter.updateStatus was handed
}

// VerifLoad mirrors the loadSubworkflow closure of Load (load.go) with
// os.ReadFile replaced by a lookup in docs; docs["root"] is the top document.
func VerifLoad(docs map[string]string, sendEvents func(event.Event)) (*VerifTree, error) {
	if !viper.IsSet("config_endpoint") {
		viper.Set("config_endpoint", "mock://")
	}
	defaults, vars, userVars := gera.MakeMap[string, string](), gera.MakeMap[string, string](), gera.MakeMap[string, string]()
	envId := uid.New()
	if sendEvents == nil {
		sendEvents = func(event.Event) {}
	}
	adapter := NewParentAdapter(
		func() uid.ID { return envId },
		func() uint32 { return 0 },
		func() gera.Map[string, string] { return defaults },
		func() gera.Map[string, string] { return vars },
		func() gera.Map[string, string] { return userVars },
		sendEvents)
	_, repo, err := repos.NewRepo("/verif/git/ControlWorkflows", "", "/verif/repos")
	if err != nil {
		return nil, err
	}
	var loadSubworkflow LoadSubworkflowFunc = func(workflowPathExpr string, parent Updatable) (root *aggregatorRole, workflowRepo repos.IRepo, err error) {
		var doc string
		found := false
		// the repo resolves "name" to "<repo>/workflows/name@rev": look the bare name up
		for name, d := range docs {
			if workflowPathExpr == name || containsWorkflowName(workflowPathExpr, name) {
				doc, found = d, true
			}
		}
		if !found {
			return nil, nil, fmt.Errorf("verif: no document for %q", workflowPathExpr)
		}
		workflowRepo = &repo
		root = new(aggregatorRole)
		root.parent = parent
		err = yaml.Unmarshal([]byte(doc), root)
		if err != nil {
			return nil, nil, err
		}
		if parent != nil {
			root.setParent(parent)
		}
		return
	}
	root, wfRepo, err := loadSubworkflow("root", adapter)
	if err != nil {
		return nil, err
	}
	err = root.ProcessTemplates(wfRepo, loadSubworkflow, map[string]string{})
	if err != nil {
		return nil, err
	}
	t := &VerifTree{Root: root, Adapter: adapter}
	t.Resubscribe()
	return t, nil
}

func containsWorkflowName(expr, name string) bool {
	// ".../workflows/<name>@<rev>" or ".../workflows/<name>"
	for i := 0; i+len(name) <= len(expr); i++ {
		if expr[i:i+len(name)] == name {
			before := i == 0 || expr[i-1] == '/'
			after := i+len(name) == len(expr) || expr[i+len(name)] == '@'
			if before && after {
				return true
			}
		}
	}
	return false
}

// Resubscribe installs fresh, amply buffered subscription channels (the
// adapter's sends are non-blocking, a large buffer means nothing is dropped).
func (t *VerifTree) Resubscribe() {
	t.States = make(chan sm.State, 4096)
	t.Statuses = make(chan task.Status, 4096)
	t.Adapter.SubscribeToStateChange("verif", t.States)
	t.Adapter.SubscribeToStatusChange("verif", t.Statuses)
}

func verifBase(r Role) *roleBase {
	switch t := r.(type) {
	case *aggregatorRole:
		return &t.roleBase
	case *includeRole:
		return &t.aggregatorRole.roleBase
	case *taskRole:
		return &t.roleBase
	case *callRole:
		return &t.roleBase
	}
	panic(fmt.Sprintf("verif: unexpected role type %T", r))
}

// VerifKind names the concrete role type.
func VerifKind(r Role) string {
	switch r.(type) {
	case *aggregatorRole:
		return "aggregator"
	case *includeRole:
		return "include"
	case *taskRole:
		return "task"
	case *callRole:
		return "call"
	case *iteratorRole:
		return "iterator"
	}
	return fmt.Sprintf("%T", r)
}

// VerifSnapshot appends the cached (state, status) of every role of the
// subtree, pre-order; VerifRestore writes such a snapshot back. These two
// fields are the only mutable data of the update path, so restoring them is
// equivalent to rebuilding the tree and replaying the prefix.
func VerifSnapshot(r Role, buf []byte) []byte {
	b := verifBase(r)
	buf = append(buf, byte(b.state.state), byte(b.status.status))
	for _, c := range r.GetRoles() {
		buf = VerifSnapshot(c, buf)
	}
	return buf
}

func VerifRestore(r Role, buf []byte) []byte {
	b := verifBase(r)
	b.state.state, b.status.status = sm.State(buf[0]), task.Status(buf[1])
	buf = buf[2:]
	for _, c := range r.GetRoles() {
		buf = VerifRestore(c, buf)
	}
	return buf
}

//go:build verif

package workflow

import (
	"fmt"

	"github.com/AliceO2Group/Control/core/repos"
	"gopkg.in/yaml.v3"
)

// SubworkflowLoaderForVerifC14 is the loadSubworkflow closure of Load() (load.go)
// with the repository lookup and file read replaced by an in-memory table of
// documents: real YAML unmarshalling of the role tree, attachment to the parent.
func SubworkflowLoaderForVerifC14(docs map[string][]byte, repo repos.IRepo) LoadSubworkflowFunc {
	return func(workflowPathExpr string, parent Updatable) (root *aggregatorRole, workflowRepo repos.IRepo, err error) {
		yamlDoc, ok := docs[workflowPathExpr]
		if !ok {
			return nil, nil, fmt.Errorf("no such workflow template: %s", workflowPathExpr)
		}
		workflowRepo = repo
		root = new(aggregatorRole)
		root.parent = parent
		err = yaml.Unmarshal(yamlDoc, root)
		if err != nil {
			return nil, nil, err
		}
		if parent != nil {
			root.setParent(parent)
		}
		return
	}
}

// LoadFromYAMLForVerifC14 loads the top-level document the way Load() does before
// template processing (which is left to the caller: Role.ProcessTemplates is exported).
func LoadFromYAMLForVerifC14(yamlDoc []byte, parent Updatable) (Role, error) {
	root, _, err := SubworkflowLoaderForVerifC14(map[string][]byte{"": yamlDoc}, nil)("", parent)
	if err != nil {
		return nil, err
	}
	return root, nil
}

// RawRolesForVerifC14 returns the direct children of a role as unmarshalled:
// iterators are not flattened (GetRoles flattens them and shows nothing before
// expansion); for an iterator, the children of its role template.
func RawRolesForVerifC14(r Role) []Role {
	switch x := r.(type) {
	case *aggregatorRole:
		return x.Roles
	case *iteratorRole:
		if at, ok := x.template.(*aggregatorTemplate); ok {
			return at.Roles
		}
	}
	return nil
}

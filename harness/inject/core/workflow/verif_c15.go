//go:build verif

package workflow

import (
	"errors"
	"fmt"
	"sort"

	"github.com/AliceO2Group/Control/core/repos"
	"gopkg.in/yaml.v3"
)

// VerifC15Load does what workflow.Load does between reading the YAML document
// and the end of template processing: the root (and every `include`d
// sub-workflow) is unmarshalled by the real yaml code into a real
// aggregatorRole, parented like Load's loadSubworkflow closure does, and the
// real ProcessTemplates runs on it. Only the file/repository access of Load is
// replaced: documents come from docs (key "" = the root document, other keys =
// include identifiers as resolved by repo.ResolveSubworkflowTemplateIdentifier).
func VerifC15Load(docs map[string]string, parent Updatable, repo repos.IRepo, baseConfigStack map[string]string) (Role, error) {
	var loadSub LoadSubworkflowFunc = func(expr string, parent Updatable) (root *aggregatorRole, r repos.IRepo, err error) {
		doc, ok := docs[expr]
		if !ok {
			return nil, nil, errors.New("verif: no such workflow template: " + expr)
		}
		root = new(aggregatorRole)
		root.parent = parent
		err = yaml.Unmarshal([]byte(doc), root)
		if err != nil {
			return nil, nil, err
		}
		if parent != nil {
			root.setParent(parent)
		}
		return root, repo, nil
	}
	root, _, err := loadSub("", parent)
	if err != nil {
		return nil, fmt.Errorf("verif-unmarshal: %w", err)
	}
	err = root.ProcessTemplates(repo, loadSub, baseConfigStack)
	return root, err
}

// VerifC15Node is what the harness can see of one role of the processed tree.
type VerifC15Node struct {
	Depth                                        int
	Kind, Path, Name                             string
	Enabled                                      bool
	Class, Func, Return, Trigger, Await, Timeout string
	Critical                                     bool
	Defaults, Vars, UserVars, Stack              map[string]string
	Constraints, Connect, Bind                   []string
}

// VerifC15Dump lists the roles of the processed tree as the rest of the core
// sees it (GetRoles(): iterator nodes are transparent), depth first, in order.
func VerifC15Dump(root Role) []VerifC15Node {
	var out []VerifC15Node
	var walk func(r Role, depth int)
	walk = func(r Role, depth int) {
		n := VerifC15Node{Depth: depth}
		var rb *roleBase
		switch t := r.(type) {
		case *aggregatorRole:
			n.Kind, rb = "agg", &t.roleBase
		case *includeRole:
			n.Kind, rb = "agg", &t.roleBase // an include role becomes the included aggregator
		case *taskRole:
			n.Kind, rb = "task", &t.roleBase
			n.Class, n.Trigger, n.Await, n.Timeout, n.Critical = t.LoadTaskClass, t.Trigger, t.Await, t.Timeout, t.Critical
		case *callRole:
			n.Kind, rb = "call", &t.roleBase
			n.Func, n.Return, n.Trigger, n.Await, n.Timeout, n.Critical = t.FuncCall, t.ReturnVar, t.Trigger, t.Await, t.Timeout, t.Critical
		case *iteratorRole:
			n.Kind, n.Path = "UNEXPANDED-ITERATOR", r.GetPath()
			out = append(out, n)
			return
		default:
			n.Kind = fmt.Sprintf("UNKNOWN %T", r)
			out = append(out, n)
			return
		}
		n.Path, n.Name, n.Enabled = r.GetPath(), r.GetName(), r.IsEnabled()
		n.Defaults, n.Vars, n.UserVars, _ = r.ConsolidatedVarMaps()
		n.Stack, _ = r.ConsolidatedVarStack()
		for _, c := range r.getConstraints() {
			n.Constraints = append(n.Constraints, c.Attribute+"="+c.Value)
		}
		sort.Strings(n.Constraints)
		for _, c := range rb.Connect {
			n.Connect = append(n.Connect, c.Name+">"+c.Target)
		}
		for _, c := range rb.Bind {
			n.Bind = append(n.Bind, c.Name+"<"+c.Global)
		}
		out = append(out, n)
		for _, c := range r.GetRoles() {
			if c == nil {
				out = append(out, VerifC15Node{Depth: depth + 1, Kind: "NIL-ROLE"})
				continue
			}
			walk(c, depth+1)
		}
	}
	walk(root, 0)
	return out
}

//go:build verif

package callable

// VerifKey gives map iteration over *Call keys a deterministic order.
func (c *Call) VerifKey() string { return c.GetName() + "|" + c.Func + "|" + c.Traits.Trigger }

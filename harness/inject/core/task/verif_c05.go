//go:build verif

package task

import (
	"context"

	"github.com/AliceO2Group/Control/common/utils/safeacks"
	"github.com/AliceO2Group/Control/common/utils/uid"
	"github.com/AliceO2Group/Control/core/task/schedutil"
	"github.com/AliceO2Group/Control/core/task/taskclass"
	mesos "github.com/mesos/mesos-go/api/v1/lib"
	"github.com/mesos/mesos-go/api/v1/lib/scheduler"
	"github.com/mesos/mesos-go/api/v1/lib/scheduler/calls"
)

// NewManagerForVerifC05 builds a Manager + schedulerState the way NewManager /
// NewScheduler do, minus everything that touches the network or the process
// (HTTP scheduler client, metrics HTTP server, credentials, command queue,
// framework-id store): the Mesos client is the given Caller. The executor info
// comes from the real schedutil.PrepareExecutorInfo.
func NewManagerForVerifC05(cli calls.Caller, executorCPU, executorMemory float64) (*Manager, error) {
	taskman := &Manager{
		classes:        taskclass.NewClasses(),
		roster:         newRoster(),
		ackKilledTasks: safeacks.NewAcks(),
	}
	executorInfo, err := schedutil.PrepareExecutorInfo(
		"/opt/o2/bin/o2-aliecs-executor", "",
		schedutil.BuildWantsExecutorResources(executorCPU, executorMemory), 0)
	if err != nil {
		return nil, err
	}
	tasksToDeploy := make(chan *ResourceOffersDeploymentRequest, MAX_CONCURRENT_DEPLOY_REQUESTS)
	state := &schedulerState{
		taskman:            taskman,
		tasksToDeploy:      tasksToDeploy,
		reviveOffersTrg:    make(chan struct{}),
		wantsTaskResources: mesos.Resources{},
		executor:           executorInfo,
		metricsAPI:         newMetricsAPI(),
		cli:                cli,
		shutdown:           func() {},
	}
	taskman.schedulerState = state
	taskman.tasksToDeploy = tasksToDeploy
	taskman.reviveOffersTrg = state.reviveOffersTrg
	return taskman, nil
}

// VerifC05AddClass registers a task template under the key descriptors refer to.
func (m *Manager) VerifC05AddClass(key string, c *taskclass.Class) {
	m.classes.UpdateClass(key, c)
}

// VerifC05Deployed is one entry of the DeploymentMap reported by the handler.
type VerifC05Deployed struct {
	Task       *Task
	Descriptor *Descriptor
}

type VerifC05Round struct {
	HandlerErr   error
	GotOutcome   bool
	Deployed     []VerifC05Deployed
	Undeployed   Descriptors
	Undeployable Descriptors
}

// VerifC05OfferRound queues a deployment request (if request is true) exactly as
// acquireTasks does and then delivers one OFFERS event to the real handler.
func (m *Manager) VerifC05OfferRound(ctx context.Context, offers []mesos.Offer, ds Descriptors, envId uid.ID, request bool) (out VerifC05Round) {
	outcomeCh := make(chan ResourceOffersOutcome, 1) // the requester is ready to receive
	if request {
		m.tasksToDeploy <- &ResourceOffersDeploymentRequest{
			tasksToDeploy: ds,
			envId:         envId,
			outcomeCh:     outcomeCh,
		}
	}
	ev := &scheduler.Event{Type: scheduler.Event_OFFERS, Offers: &scheduler.Event_Offers{Offers: offers}}
	out.HandlerErr = m.schedulerState.resourceOffers(m.fidStore)(ctx, ev)
	select {
	case o := <-outcomeCh:
		out.GotOutcome = true
		for t, d := range o.deployed {
			out.Deployed = append(out.Deployed, VerifC05Deployed{Task: t, Descriptor: d})
		}
		out.Undeployed = o.undeployed
		out.Undeployable = o.undeployable
	default:
	}
	return
}

//go:build verif

package task

import (
	schedmetrics "github.com/AliceO2Group/Control/core/metrics"
	"github.com/mesos/mesos-go/api/v1/lib/scheduler/calls"
)

// SetCallerForVerif replaces the HTTP client of the scheduler by the given
// Caller, wrapped by the same call rules the real one gets (framework id, logging, metrics).
func SetCallerForVerif(m *Manager, c calls.Caller) {
	m.schedulerState.cli = c
	m.schedulerState.setupCli()
}

// VerifKey gives map iteration over *Task keys a deterministic order.
func (t *Task) VerifKey() string { return t.taskId }

// VerifKey gives map iteration over *Descriptor keys a deterministic order.
func (d *Descriptor) VerifKey() string {
	p := ""
	if d.TaskRole != nil {
		p = d.TaskRole.GetPath()
	}
	return p + "|" + d.TaskClassName
}

// OwnerForVerif returns the id of the environment owning the task ("" if none).
func (t *Task) OwnerForVerif() string {
	// ownership as the API reports it: the environment of the role the task is attached to
	// (IsLocked() additionally wants agent and executor ids, which a failed agent/executor blanks)
	if t == nil || t.GetParent() == nil {
		return ""
	}
	return t.GetEnvironmentId().String()
}

// LockedForVerif: what KillTasks / Cleanup / acquireTasks take for "owned" (parent role plus agent and executor id).
func (t *Task) LockedForVerif() bool { return t != nil && t.IsLocked() }

// ActiveForVerif: the core has seen the task running (status ACTIVE).
func (t *Task) ActiveForVerif() bool {
	if t == nil {
		return false
	}
	return t.status == ACTIVE // read without the lock: only ever called under the cooperative scheduler
}

// RosterAppendHookForVerif, if set, is told the id of every task handed to roster.append (the call is put in
// front of that method's body by goinstr, see harness/instr.json entry_hooks): an exact roster history,
// where a poll could miss a task that is appended and dropped again between two polls.
var RosterAppendHookForVerif func(taskId string)

func rosterAppendedForVerif(t *Task) {
	if RosterAppendHookForVerif != nil && t != nil {
		RosterAppendHookForVerif(t.taskId)
	}
}

// RosterForVerif snapshots the roster.
func (m *Manager) RosterForVerif() Tasks { return m.roster.getTasks() }

var verifMetricsRegistered bool

// initMetricsForVerif replaces initMetrics at its call site: same metrics API,
// but no HTTP handler / listener and a single prometheus registration per process.
func initMetricsForVerif() *metricsAPI {
	if !verifMetricsRegistered {
		verifMetricsRegistered = true
		schedmetrics.Register()
	}
	return newMetricsAPI()
}

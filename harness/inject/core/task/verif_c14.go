//go:build verif

package task

import (
	"errors"

	"github.com/AliceO2Group/Control/core/task/taskclass"
	mesos "github.com/mesos/mesos-go/api/v1/lib"
)

// NewTaskForVerifC14 builds a Task for the given class and task role through the
// real constructor used by the scheduler (newTaskForMesosOffer), with a Manager
// that only holds the class registry.
func NewTaskForVerifC14(class *taskclass.Class, role interface{}, hostname string) (*Task, error) {
	pr, ok := role.(parentRole)
	if !ok {
		return nil, errors.New("role cannot parent a task")
	}
	m := &Manager{classes: taskclass.NewClasses()}
	m.classes.UpdateClass(class.Identifier.Name, class)
	offer := &mesos.Offer{Hostname: hostname, AgentID: mesos.AgentID{Value: "agent"}, ID: mesos.OfferID{Value: "offer"}}
	d := &Descriptor{TaskRole: pr, TaskClassName: class.Identifier.Name}
	t := m.newTaskForMesosOffer(offer, d, nil, mesos.ExecutorID{Value: "executor"})
	pr.SetTask(t)
	return t, nil
}

// BuildTaskCommandForVerifC14 is what the scheduler does at launch:
// taskPtr.BuildTaskCommand(descriptor.TaskRole).
func (t *Task) BuildTaskCommandForVerifC14() error {
	return t.BuildTaskCommand(t.parent)
}

//go:build verif

package the

import (
	"github.com/AliceO2Group/Control/common/event"
	"github.com/AliceO2Group/Control/common/event/topic"
)

// SetEventWriterForVerif installs a writer for a topic (in-process capture of published events).
func SetEventWriterForVerif(t topic.Topic, w event.Writer) {
	mu.Lock()
	defer mu.Unlock()
	writers[t] = w
}

// ResetEventWritersForVerif forgets all writers.
func ResetEventWritersForVerif() {
	mu.Lock()
	defer mu.Unlock()
	clear(writers)
}

//go:build verif

package environment

import (
	"github.com/AliceO2Group/Control/common/utils/uid"
	"github.com/AliceO2Group/Control/core/task"
	"github.com/AliceO2Group/Control/core/workflow"
)

// NewEnvironmentForVerif builds an Environment through the real constructor
// and attaches an already built workflow tree and a hook-task handler.
func NewEnvironmentForVerif(userVars map[string]string, id uid.ID, wf workflow.Role, hookHandler func(task.Tasks) error) (*Environment, error) {
	env, err := newEnvironment(userVars, id)
	if err != nil {
		return nil, err
	}
	env.workflow = wf
	workflow.LinkChildrenToParents(wf)
	workflow.SetRootParentForVerif(wf, env.wfAdapter)
	env.hookHandlerF = hookHandler
	return env, nil
}

// ScriptedTransition is a Transition whose body is supplied by the harness
// (the Transition interface has unexported methods).
type ScriptedTransition struct {
	Name     string
	Body     func(env *Environment) error
	CheckErr error
}

func (t ScriptedTransition) eventName() string { return t.Name }
func (t ScriptedTransition) check() error      { return t.CheckErr }
func (t ScriptedTransition) do(env *Environment) error {
	if t.Body == nil {
		return nil
	}
	return t.Body(env)
}

// PendingAwaitForVerif counts the calls started and not yet awaited.
func (env *Environment) PendingAwaitForVerif() (n int) {
	for _, m := range env.callsPendingAwait {
		for _, calls := range m {
			n += len(calls)
		}
	}
	return
}

// ForceStateForVerif positions the FSM (setup only, like the repo's own tests do).
func (env *Environment) ForceStateForVerif(s string) { env.Sm.SetState(s) }

// CancelPendingForVerif runs the manager's cancellation of never-awaited calls.
func CancelPendingForVerif(env *Environment) { (&Manager{}).cancelCallsPendingAwait(env) }

// SetWorkflowForVerif replaces the workflow tree (a wrapper that also carries hook tasks).
func (env *Environment) SetWorkflowForVerif(wf workflow.Role) { env.workflow = wf }

// SetHookHandlerForVerif replaces the function that asks the task manager to trigger hook tasks.
func (env *Environment) SetHookHandlerForVerif(f func(task.Tasks) error) { env.hookHandlerF = f }

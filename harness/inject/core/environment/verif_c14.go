//go:build verif

package environment

import (
	"github.com/AliceO2Group/Control/common/utils/uid"
	"github.com/AliceO2Group/Control/core/workflow"
)

// NewEnvironmentParentForVerifC14 creates an environment through the real
// newEnvironment (global defaults/vars from the configuration service, user
// vars from the caller) and returns what CreateEnvironment hands to
// workflow.Load: the parent adapter and the base config stack.
func NewEnvironmentParentForVerifC14(userVars map[string]string) (workflow.Updatable, map[string]string, error) {
	env, err := newEnvironment(userVars, uid.New())
	if err != nil {
		return nil, nil, err
	}
	return env.wfAdapter, env.BaseConfigStack, nil
}

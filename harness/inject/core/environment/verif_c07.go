//go:build verif

package environment

import (
	"context"

	"github.com/AliceO2Group/Control/common/utils/uid"
	"github.com/AliceO2Group/Control/core/workflow"
)

// c07NopTransition: the task-level part of a transition does nothing; everything
// else (FSM callbacks of the real newEnvironment) runs as is.
type c07NopTransition struct{ baseTransition }

func (t c07NopTransition) do(*Environment) error { return nil }

// NewConfiguredEnvC07 builds an environment with the real constructor, gives it an
// empty workflow and puts its state machine in CONFIGURED.
func NewConfiguredEnvC07() (*Environment, error) {
	env, err := newEnvironment(map[string]string{}, uid.New())
	if err != nil {
		return nil, err
	}
	env.workflow = workflow.NewAggregatorRole("root", []workflow.Role{})
	workflow.LinkChildrenToParents(env.workflow)
	env.Sm.SetState("CONFIGURED")
	return env, nil
}

// FireC07 runs one FSM event of the environment with a no-op task transition.
func (env *Environment) FireC07(event string) error {
	return env.Sm.Event(context.Background(), event, c07NopTransition{baseTransition{name: event}})
}

// RunNumberVarC07 returns the run_number variable the workflow sees.
func (env *Environment) RunNumberVarC07() (string, bool) {
	return env.workflow.GetVars().Get("run_number")
}

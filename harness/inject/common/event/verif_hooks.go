//go:build verif

package event

import (
	"github.com/AliceO2Group/Control/common/event/topic"
	"github.com/AliceO2Group/Control/common/monitoring"
	"github.com/segmentio/kafka-go"
)

// NewKafkaWriterForVerif builds a writer through the real constructor and
// swaps the (unexported) write function before either loop has run.
func NewKafkaWriterForVerif(write func([]kafka.Message)) *KafkaWriter {
	w := NewWriterWithTopic(topic.Topic("verif"))
	w.writeFunction = func(m []kafka.Message, _ *monitoring.Metric) { write(m) }
	return w
}

// WriterFactoryForVerif, when set, builds the writers the core creates on the first use of a topic
// (call sites of NewWriterWithTopic are routed through NewWriterWithTopicForVerifHook by the rewriter).
var WriterFactoryForVerif func(topic.Topic) *KafkaWriter

func NewWriterWithTopicForVerifHook(t topic.Topic) *KafkaWriter {
	if WriterFactoryForVerif != nil {
		return WriterFactoryForVerif(t)
	}
	return NewWriterWithTopic(t)
}

//go:build verif

package uid

import (
	vrt "github.com/AliceO2Group/Control/verif_vrt"
)

const verifAlphabet = "123456789ABCDEFGHJKLMNPQRSTUVWXYZabcdefghijkmnopqrstuvwxyz" // base58, standard source (what indigo uses)

// NewForVerif replaces New() at every call site of the instrumented packages:
// inside a controlled execution ids are a per-execution counter in the same
// (decomposable, order-preserving) base58 encoding; outside it is New().
func NewForVerif() ID {
	if !vrt.Active() {
		return New()
	}
	n := uint64(1)<<40 + vrt.Counter("uid")
	var b []byte
	for n > 0 {
		b = append([]byte{verifAlphabet[n%58]}, b...)
		n /= 58
	}
	return ID(b)
}

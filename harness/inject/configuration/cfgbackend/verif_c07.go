//go:build verif

package cfgbackend

import (
	"net/http"

	"github.com/hashicorp/consul/api"
)

// UseHTTPClientForVerif re-points a ConsulSource that was built by the real
// constructor at the same address, but over the given http.Client (C07: the
// harness supplies a client whose Transport is a simulated Consul KV store).
// Nothing of GetNextUInt32 is touched.
func (cc *ConsulSource) UseHTTPClientForVerif(hc *http.Client) error {
	cfg := api.DefaultConfig()
	cfg.Address = cc.uri
	cfg.HttpClient = hc
	cli, err := api.NewClient(cfg)
	if err != nil {
		return err
	}
	cc.kv = cli.KV()
	return nil
}

//go:build verif

package cfgbackend

import (
	"net/http"

	"github.com/hashicorp/consul/api"
)

// SetHTTPClientForCoresim re-points a ConsulSource built by the real constructor
// at the same address, over the given http.Client (simulated Consul KV store).
func (cc *ConsulSource) SetHTTPClientForCoresim(hc *http.Client) error {
	cfg := api.DefaultConfig()
	cfg.Address = cc.uri
	cfg.HttpClient = hc
	cli, err := api.NewClient(cfg)
	if err != nil {
		return err
	}
	cc.kv = cli.KV()
	return nil
}

//go:build verif

package executor

import (
	"io"
	"time"

	"github.com/AliceO2Group/Control/executor/executable"
	mesos "github.com/mesos/mesos-go/api/v1/lib"
	"github.com/mesos/mesos-go/api/v1/lib/encoding"
	"github.com/mesos/mesos-go/api/v1/lib/executor"
	"github.com/mesos/mesos-go/api/v1/lib/executor/calls"
)

// VerifExecutor runs the real eventLoop with the real event handler
// (buildEventHandler: handleLaunchEvent, handleKillEvent, handleMessageEvent,
// performStatusUpdate, sendOutgoingMessage) on an internalState whose agent
// connection is an injected calls.Sender and whose event source is a channel
// fed by the harness instead of the HTTP response decoder.
type VerifExecutor struct {
	state *internalState
	feed  chan executor.Event
	// Subscriptions counts how often the event loop was (re)entered: like Run() with
	// framework checkpointing enabled (the core's default), a handler error ends the
	// loop and the executor subscribes again after its 1 s backoff.
	Subscriptions int
	LoopErrs      []string
}

// NewForVerif mirrors the internalState literal of Run().
func NewForVerif(cli calls.Sender) *VerifExecutor {
	return &VerifExecutor{
		state: &internalState{
			cli:            cli,
			unackedTasks:   make(map[mesos.TaskID]mesos.TaskInfo),
			unackedUpdates: make(map[string]executor.Call_Update),
			failedTasks:    make(map[mesos.TaskID]mesos.TaskStatus),
			killedTasks:    make(map[mesos.TaskID]mesos.TaskStatus),
			activeTasks:    make(map[mesos.TaskID]executable.Task),
			statusCh:       make(chan mesos.TaskStatus, 1024),
			messageCh:      make(chan []byte),
		},
		feed: make(chan executor.Event),
	}
}

// subscription is the response body of one SUBSCRIBE call: a decoder of agent events.
type subscription struct {
	v      *VerifExecutor
	closed chan struct{}
}

// Decode implements encoding.Decoder: the next event from the agent.
func (s *subscription) Decode(u encoding.Unmarshaler) error {
	select {
	case e := <-s.v.feed:
		*(u.(*executor.Event)) = e
		return nil
	case <-s.closed:
		return io.ErrClosedPipe
	}
}

// Start runs the subscription loop of Run() in its own goroutine.
func (v *VerifExecutor) Start() {
	go func() {
		handler := buildEventHandler(v.state)
		for {
			sub := &subscription{v: v, closed: make(chan struct{})}
			v.Subscriptions++
			err := eventLoop(v.state, sub, handler)
			close(sub.closed) // resp.Close()
			if err != nil {
				v.LoopErrs = append(v.LoopErrs, err.Error())
			}
			if v.state.shouldQuit {
				return
			}
			time.Sleep(1 * time.Second) // <-shouldReconnect: backoff.Notifier(1s, ...)
		}
	}()
}

// Feed hands one agent event to the executor (blocks until a subscription takes it).
func (v *VerifExecutor) Feed(e executor.Event) { v.feed <- e }

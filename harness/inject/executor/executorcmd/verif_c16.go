//go:build verif

package executorcmd

import (
	"github.com/AliceO2Group/Control/common/controlmode"
	"github.com/AliceO2Group/Control/executor/executorcmd/transitioner"
	pb "github.com/AliceO2Group/Control/executor/protos"
	"github.com/sirupsen/logrus"
)

// NewClientForVerif is the tail of NewClient without the gRPC dial: the real
// RpcClient (real, unexported doTransition) and the real transitioner for the
// given control mode, on top of a caller-supplied pb.OccClient.
func NewClientForVerif(occ pb.OccClient, controlMode controlmode.ControlMode, log *logrus.Entry) *RpcClient {
	client := &RpcClient{OccClient: occ}
	client.Transitioner = transitioner.NewTransitioner(controlMode, client.doTransition)
	client.Log = log
	return client
}

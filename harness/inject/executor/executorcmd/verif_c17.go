//go:build verif

package executorcmd

import (
	"github.com/AliceO2Group/Control/common/controlmode"
	"github.com/sirupsen/logrus"
)

// NewClientHook, when set by a harness, stands in for the gRPC dial of NewClient
// (the call site in ControllableTask.Launch is redirected to NewClientForVerifHook
// by the rewriter's substitution table). It returns a client built with
// NewClientForVerif, or nil for a dial failure - the two results NewClient has.
var NewClientHook func(controlPort uint64, controlMode controlmode.ControlMode, controlTransport ControlTransport, log *logrus.Entry) *RpcClient

func NewClientForVerifHook(controlPort uint64, controlMode controlmode.ControlMode, controlTransport ControlTransport, log *logrus.Entry) *RpcClient {
	if NewClientHook != nil {
		return NewClientHook(controlPort, controlMode, controlTransport, log)
	}
	return NewClient(controlPort, controlMode, controlTransport, log)
}

//go:build verif

package local

import (
	"errors"
	"net/http"

	"github.com/AliceO2Group/Control/configuration/cfgbackend"
)

// UseHTTPClientForVerif routes the Consul client of a consul:// backed Service
// through the given http.Client (C07: a simulated Consul KV store).
func (s *Service) UseHTTPClientForVerif(hc *http.Client) error {
	cs, ok := s.src.(*cfgbackend.ConsulSource)
	if !ok {
		return errors.New("verif: not a consul:// backed Service")
	}
	return cs.UseHTTPClientForVerif(hc)
}

// NewServiceOverHTTPForVerif builds a Service through the real constructor
// (NewService -> cfgbackend.NewSource -> NewConsulSource) for a consul:// URI
// and then routes its Consul client through the given http.Client.
func NewServiceOverHTTPForVerif(uri string, hc *http.Client) (*Service, error) {
	svc, err := NewService(uri)
	if err != nil {
		return nil, err
	}
	if err = svc.UseHTTPClientForVerif(hc); err != nil {
		return nil, err
	}
	return svc, nil
}

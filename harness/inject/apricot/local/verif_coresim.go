//go:build verif

package local

import (
	"errors"
	"net/http"

	"github.com/AliceO2Group/Control/configuration/cfgbackend"
)

// SetHTTPClientForCoresim routes the Consul client of a consul:// backed Service through hc.
func (s *Service) SetHTTPClientForCoresim(hc *http.Client) error {
	cs, ok := s.src.(*cfgbackend.ConsulSource)
	if !ok {
		return errors.New("verif: not a consul:// backed Service")
	}
	return cs.SetHTTPClientForCoresim(hc)
}

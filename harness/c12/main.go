// C12: each control command gets exactly one answer per target, never someone else's.
//
// Real controlcommands.Servent + CommandQueue (instrumented) with an injected
// SendFunc. The simulator plays the executors: per (command, target) it answers
// according to a behaviour from a finite alphabet; every reply is handed to the
// real Servent.ProcessResponse by its own thread (as core/task/scheduler.go
// does). Response timeouts run on the virtual clock.
//
// Inputs enumerated exhaustively (vrt.ChooseFree, no deviation cost): the behaviour
// of every (command, target) and the order in which the in-time replies arrive
// (a reply handler may start only when its label is next in the chosen sequence).
// Schedules: every choice sequence with at most Dev deviations from the default
// schedule (preemption, non-default thread at a blocking point, timer order,
// select arm; in the race* scenarios also "a pending timer fires now").
//
// The oracle below is written from the property statement only: replies are
// attributed by (command id, sender); a (command, target) slot of the result is
// either a reply that was delivered for exactly that pair in time, or an error.
package main

import (
	"encoding/json"
	"fmt"
	"io"
	"os"
	"sort"
	"strings"
	"time"

	"github.com/AliceO2Group/Control/common/utils/uid"
	cc "github.com/AliceO2Group/Control/core/controlcommands"
	vrt "github.com/AliceO2Group/Control/verif_vrt"
	mesos "github.com/mesos/mesos-go/api/v1/lib"
	"github.com/rs/xid"
	"github.com/sirupsen/logrus"
)

// ---------------------------------------------------------------- alphabet

type beh int

const (
	bReply      beh = iota // answers in time, success
	bErrReply              // answers in time, with an error payload
	bSendFail              // the send function reports failure, nothing is delivered
	bSilent                // never answers
	bDup                   // answers twice in time (two independent deliveries)
	bLate                  // answers after the response timeout has expired
	bForeign               // answers in time but the reply carries another command's id
	bUnknownTgt            // answers in time with the right id, but from a sender that is no target
	bAtDeadline            // answers exactly at the instant the timeout expires
	bLateDup               // answers in time, and once more after the timeout
)

var behName = map[beh]string{bReply: "reply", bErrReply: "errreply", bSendFail: "sendfail", bSilent: "silent", bDup: "dup",
	bLate: "late", bForeign: "foreignid", bUnknownTgt: "unknowntarget", bAtDeadline: "atdeadline", bLateDup: "latedup"}

var (
	alphaCore = []beh{bReply, bErrReply, bSendFail, bSilent, bDup, bLate, bForeign, bUnknownTgt}
	alphaFull = []beh{bReply, bErrReply, bSendFail, bSilent, bDup, bLate, bForeign, bUnknownTgt, bAtDeadline, bLateDup}
	alphaRace = []beh{bReply, bSilent, bDup, bLate, bForeign}
)

const (
	eps    = time.Millisecond // slack for the few microseconds the virtual clock moves per time.Now()
	settle = 1000 * time.Second
)

var timeouts = []time.Duration{10 * time.Second, 7 * time.Second}

const createdWithTimeout = 90 * time.Second // what a command is created with (handbook: 90 s unless the caller sets another)

// tmo is the response timeout of command c in this scenario.
func (w *world) tmo(c int) time.Duration {
	if w.p.defaultTimeout {
		return createdWithTimeout
	}
	return timeouts[c]
}

func (p params) kind(c int) string {
	if c < len(p.kinds) && p.kinds[c] != "" {
		return p.kinds[c]
	}
	return "transition"
}

func mkTarget(s string) cc.MesosCommandTarget {
	return cc.MesosCommandTarget{AgentId: mesos.AgentID{Value: "agent-" + s}, ExecutorId: mesos.ExecutorID{Value: "exec-" + s}, TaskId: mesos.TaskID{Value: "task-" + s}}
}

var (
	allTargets = manyTargets(70)
	strangerT  = mkTarget("stranger")
)

const strangerIdx = 99

func manyTargets(n int) (out []cc.MesosCommandTarget) {
	for i := 0; i < n; i++ {
		out = append(out, mkTarget(fmt.Sprint(i)))
	}
	return
}

// patterns: behaviour assignments of a command with many targets (position, number of targets)
type pattern struct {
	name string
	f    func(pos, n int) beh
}

var widePatterns = []pattern{
	{"all-reply", func(pos, n int) beh { return bReply }},
	{"all-silent", func(pos, n int) beh { return bSilent }},
	{"all-silent-but-the-last", func(pos, n int) beh {
		if pos == n-1 {
			return bReply
		}
		return bSilent
	}},
	{"all-silent-but-the-first", func(pos, n int) beh {
		if pos == 0 {
			return bErrReply
		}
		return bSilent
	}},
	{"every-other-silent", func(pos, n int) beh {
		if pos%2 == 0 {
			return bSilent
		}
		return bReply
	}},
	{"all-late", func(pos, n int) beh { return bLate }},
	{"sendfail-silent-reply-in-turn", func(pos, n int) beh { return []beh{bSendFail, bSilent, bReply}[pos%3] }},
}

// ---------------------------------------------------------------- records

type sendRec struct {
	cmd, tgt int // -1 = id / receiver the harness never issued
	seq      int
	at       time.Duration
	failed   bool
	listed   string // what the copy handed to the send function lists as its targets ("t1", "t0+t1", ...)
}

// one reply object built by the simulator and (maybe) handed to ProcessResponse
type delivery struct {
	obj              cc.MesosCommandResponse
	originC, originT int // which (command, target) behaviour produced it
	k                int // ordinal within that behaviour
	claimC           int // command whose id the reply carries (-1: an id nobody issued)
	sender           int // target index of the sender (strangerIdx: not a target)
	isErr            bool
	started, done    bool
	seq              int
	at               time.Duration
}

func (d *delivery) String() string {
	return fmt.Sprintf("reply#%d of c%d/t%d (claims c%d, sender t%d, at %v)", d.k, d.originC, d.originT, d.claimC, d.sender, d.at)
}

type completion struct {
	val cc.MesosCommandResponse
	err error // direct mode: second return value of RunCommand
	at  time.Duration
}

type params struct {
	name      string
	targets   [][]int // per command: indices into allTargets
	alphabet  []beh
	direct    bool // concurrent Servent.RunCommand calls instead of the queue
	timerRace bool // timers may fire while threads are still runnable => no timing clauses
	// kinds: per command "transition" (default) or "hook" (MesosCommand_TriggerHook, answered by
	// MesosCommandResponse_TriggerHook); defaultTimeout: the commands keep the response timeout they are
	// created with (90 s) instead of the 10 s / 7 s the other scenarios set
	kinds          []string
	defaultTimeout bool
	// patterns: the behaviours are not chosen per target but by one of these assignment patterns, and the
	// replies arrive in target order (commands with many targets)
	patterns []pattern
	q, t     vrt.Bounds
	doc            string
}

type world struct {
	p       params
	patName []string
	ids     []xid.ID
	assign  [][]beh // [cmd][position in targets[cmd]]
	sends   []*sendRec
	dels    []*delivery
	compl   [][]completion
	enqErr  []error
	seq     int
	settled bool
	servent *cc.Servent
	// arrival order of the in-time replies: per group (queue: one group per command, labels =
	// target index; direct: one group, labels = command index) a sequence of labels; a handler
	// may start only when its label is next. Enumerated exhaustively as an input.
	order  [][]int
	cursor []int
}

func (w *world) cmdIndex(id xid.ID) int {
	for i, x := range w.ids {
		if x == id {
			return i
		}
	}
	return -1
}

func tgtIndex(t cc.MesosCommandTarget) int {
	for i, x := range allTargets {
		if x == t {
			return i
		}
	}
	if t == strangerT {
		return strangerIdx
	}
	return -1
}

func (w *world) behOf(c, t int) (beh, bool) {
	if c < 0 || c >= len(w.p.targets) {
		return 0, false
	}
	for pos, ti := range w.p.targets[c] {
		if ti == t {
			return w.assign[c][pos], true
		}
	}
	return 0, false
}

// reply builds what the scheduler would have unmarshalled from the executor's MESSAGE.
func (w *world) reply(cmd cc.MesosCommand, originC, originT int, id xid.ID, sender cc.MesosCommandTarget, errStr string) *delivery {
	k := 0
	for _, d := range w.dels {
		if d.originC == originC && d.originT == originT {
			k++
		}
	}
	tag := fmt.Sprintf("c%d/t%d#%d", originC, originT, k)
	base := cc.MesosCommandResponseBase{
		CommandName:   cmd.GetName(),
		CommandId:     id,
		EnvironmentId: cmd.GetEnvironmentId(),
		ErrorString:   errStr,
		MessageType:   "MesosCommandResponse",
	}
	var obj cc.MesosCommandResponse = &cc.MesosCommandResponse_Transition{MesosCommandResponseBase: base, CurrentState: tag, TaskId: sender.TaskId.Value}
	if w.p.kind(originC) == "hook" {
		obj = &cc.MesosCommandResponse_TriggerHook{MesosCommandResponseBase: base, TaskId: sender.TaskId.Value}
	}
	d := &delivery{obj: obj, originC: originC, originT: originT, k: k, claimC: w.cmdIndex(id), sender: tgtIndex(sender), isErr: errStr != ""}
	w.dels = append(w.dels, d)
	return d
}

// handOver: one goroutine per incoming MESSAGE, like the scheduler's incomingMessageHandler.
func (w *world) handOver(d *delivery, sender cc.MesosCommandTarget, delay time.Duration) {
	g, label := d.originC, d.originT
	if w.p.direct {
		g, label = 0, d.originC
	}
	vrt.Go("reply-handler", func() {
		if delay > 0 {
			vrt.Sleep(delay)
		} else {
			vrt.WaitUntil("arrival-order", func() bool {
				return w.cursor[g] >= len(w.order[g]) || w.order[g][w.cursor[g]] == label
			})
			w.cursor[g]++
		}
		w.seq++
		d.seq, d.at, d.started = w.seq, vrt.VNow(), true
		w.servent.ProcessResponse(d.obj, sender)
		d.done = true
	})
}

func (w *world) send(cmd cc.MesosCommand, rcv cc.MesosCommandTarget) error {
	c, t := w.cmdIndex(cmd.GetId()), tgtIndex(rcv)
	w.seq++
	s := &sendRec{cmd: c, tgt: t, seq: w.seq, at: vrt.VNow(), listed: listedTargets(cmd)}
	w.sends = append(w.sends, s)
	b, ok := w.behOf(c, t)
	if !ok {
		return nil // oracle flags the stray send; the stranger stays silent
	}
	tmo := w.tmo(c)
	switch b {
	case bReply:
		w.handOver(w.reply(cmd, c, t, cmd.GetId(), rcv, ""), rcv, 0)
	case bErrReply:
		w.handOver(w.reply(cmd, c, t, cmd.GetId(), rcv, fmt.Sprintf("task-side failure c%d/t%d", c, t)), rcv, 0)
	case bSendFail:
		s.failed = true
		return fmt.Errorf("sendfail c%d/t%d", c, t)
	case bSilent:
	case bDup:
		w.handOver(w.reply(cmd, c, t, cmd.GetId(), rcv, ""), rcv, 0)
		w.handOver(w.reply(cmd, c, t, cmd.GetId(), rcv, ""), rcv, 0)
	case bLate:
		w.handOver(w.reply(cmd, c, t, cmd.GetId(), rcv, ""), rcv, tmo+tmo/2)
	case bForeign:
		id := xid.New() // an id nobody issued
		if len(w.ids) > 1 {
			id = w.ids[1-c] // the other command's id
		}
		w.handOver(w.reply(cmd, c, t, id, rcv, ""), rcv, 0)
	case bUnknownTgt:
		w.handOver(w.reply(cmd, c, t, cmd.GetId(), strangerT, ""), strangerT, 0)
	case bAtDeadline:
		w.handOver(w.reply(cmd, c, t, cmd.GetId(), rcv, ""), rcv, tmo)
	case bLateDup:
		w.handOver(w.reply(cmd, c, t, cmd.GetId(), rcv, ""), rcv, 0)
		w.handOver(w.reply(cmd, c, t, cmd.GetId(), rcv, ""), rcv, tmo+tmo/2)
	}
	return nil
}

// listedTargets: the targets a command lists on the wire (the executor reads them from the JSON the
// scheduler's send function marshals, see core/task/scheduler.go sendCommand).
func listedTargets(cmd cc.MesosCommand) string {
	b, err := json.Marshal(cmd)
	if err != nil {
		return "unmarshalable:" + err.Error()
	}
	var head struct {
		TargetList []cc.MesosCommandTarget `json:"targetList"`
	}
	if err := json.Unmarshal(b, &head); err != nil {
		return "unparsable:" + err.Error()
	}
	var l []string
	for _, t := range head.TargetList {
		switch i := tgtIndex(t); i {
		case -1:
			l = append(l, "unknown")
		case strangerIdx:
			l = append(l, "stranger")
		default:
			l = append(l, fmt.Sprintf("t%d", i))
		}
	}
	sort.Strings(l)
	if len(l) == 0 {
		return "nobody"
	}
	return strings.Join(l, "+")
}

// inTime is the number of replies a behaviour produces before the timeout.
func inTime(b beh) int {
	switch b {
	case bReply, bErrReply, bForeign, bUnknownTgt, bLateDup:
		return 1
	case bDup:
		return 2
	}
	return 0
}

// chooseOrder enumerates (as a free input) every distinct sequence of the multiset of labels.
func chooseOrder(count map[int]int, what string) []int {
	var seq []int
	for {
		var labels []int
		for l, n := range count {
			if n > 0 {
				labels = append(labels, l)
			}
		}
		if len(labels) == 0 {
			return seq
		}
		sort.Ints(labels)
		l := labels[vrt.ChooseFree(len(labels), what)]
		count[l]--
		seq = append(seq, l)
	}
}

func behString(p params, assign [][]beh) string {
	var parts []string
	for c := range assign {
		for pos, b := range assign[c] {
			parts = append(parts, fmt.Sprintf("c%d/t%d=%s", c, p.targets[c][pos], behName[b]))
		}
	}
	return strings.Join(parts, " ")
}

// ---------------------------------------------------------------- scenario

func scenario(p params) *vrt.Scenario {
	var w *world

	body := func() {
		w = &world{p: p}
		n := len(p.targets)
		w.compl = make([][]completion, n)
		w.enqErr = make([]error, n)
		w.assign = make([][]beh, n)
		for c := 0; c < n; c++ {
			w.assign[c] = make([]beh, len(p.targets[c]))
			if p.patterns != nil {
				pt := p.patterns[vrt.ChooseFree(len(p.patterns), fmt.Sprintf("pattern c%d", c))]
				w.patName = append(w.patName, pt.name)
				for pos := range p.targets[c] {
					w.assign[c][pos] = pt.f(pos, len(p.targets[c]))
				}
				continue
			}
			for pos := range p.targets[c] {
				w.assign[c][pos] = p.alphabet[vrt.ChooseFree(len(p.alphabet), fmt.Sprintf("behaviour c%d/t%d", c, p.targets[c][pos]))]
			}
		}
		if p.patterns != nil {
			for c := 0; c < n; c++ {
				var seq []int
				for pos, ti := range p.targets[c] {
					for k := 0; k < inTime(w.assign[c][pos]); k++ {
						seq = append(seq, ti)
					}
				}
				w.order = append(w.order, seq)
			}
		} else if p.direct {
			cnt := map[int]int{}
			for c := 0; c < n; c++ {
				cnt[c] = inTime(w.assign[c][0])
			}
			w.order = [][]int{chooseOrder(cnt, "arrival order")}
		} else {
			for c := 0; c < n; c++ {
				cnt := map[int]int{}
				for pos, ti := range p.targets[c] {
					cnt[ti] += inTime(w.assign[c][pos])
				}
				w.order = append(w.order, chooseOrder(cnt, fmt.Sprintf("arrival order c%d", c)))
			}
		}
		w.cursor = make([]int, len(w.order))
		if p.patterns != nil {
			vrt.Logf("patterns %v over %d targets", w.patName, len(p.targets[0]))
		} else {
			vrt.Logf("assign %s arrival %v", behString(p, w.assign), w.order)
		}

		w.servent = cc.NewServent(w.send)
		cmds := make([]cc.MesosCommand, n)
		for c := 0; c < n; c++ {
			var rcv []cc.MesosCommandTarget
			for _, ti := range p.targets[c] {
				rcv = append(rcv, allTargets[ti])
			}
			if p.kind(c) == "hook" {
				h := cc.NewMesosCommand_TriggerHook(uid.ID(fmt.Sprintf("env%d", c)), rcv)
				if !p.defaultTimeout {
					h.ResponseTimeout = timeouts[c]
				}
				cmds[c] = h
			} else {
				tr := cc.NewMesosCommand_Transition(uid.ID(fmt.Sprintf("env%d", c)), rcv, "STANDBY", "CONFIGURE", "CONFIGURED", nil)
				if !p.defaultTimeout {
					tr.ResponseTimeout = timeouts[c] // as core/task/manager.go does for CONFIGURE
				}
				cmds[c] = tr
			}
			w.ids = append(w.ids, cmds[c].GetId())
		}

		finished := 0
		if p.direct {
			// concurrent callers of the servent itself: both calls are in flight at the same time
			for c := 0; c < n; c++ {
				c := c
				vrt.GoFG(fmt.Sprintf("caller%d", c), func() {
					tgt := allTargets[p.targets[c][0]]
					res, err := w.servent.RunCommand(cmds[c].MakeSingleTarget(tgt), tgt)
					w.compl[c] = append(w.compl[c], completion{val: res, err: err, at: vrt.VNow()})
					finished++
				})
			}
		} else {
			q := cc.NewCommandQueue(w.servent)
			q.Start()
			for c := 0; c < n; c++ {
				c := c
				vrt.GoFG(fmt.Sprintf("client%d", c), func() {
					notify := make(chan cc.MesosCommandResponse) // unbuffered, like every caller in core/task/manager.go
					if err := q.Enqueue(cmds[c], notify); err != nil {
						w.enqErr[c] = err
						finished++
						return
					}
					v := vrt.Recv[cc.MesosCommandResponse](notify)
					w.compl[c] = append(w.compl[c], completion{val: v, at: vrt.VNow()})
					finished++
					// anything further on this channel is a second completion
					vrt.Go("extra-listener", func() {
						for {
							v := vrt.Recv[cc.MesosCommandResponse](notify)
							w.compl[c] = append(w.compl[c], completion{val: v, at: vrt.VNow()})
						}
					})
				})
			}
		}
		vrt.WaitUntil("all-commands-completed", func() bool { return finished == n })
		vrt.Sleep(settle) // let every late reply arrive
		w.settled = true
		for c := 0; c < n; c++ {
			vrt.Logf("c%d -> %s", c, w.describe(c))
		}
		stuck := 0
		for _, d := range w.dels {
			if d.started && !d.done {
				stuck++
			}
		}
		if stuck > 0 {
			// Not a violation of C12 as written (the scheduler runs one goroutine per incoming
			// reply, so nothing else waits for it); recorded as part of the outcome.
			vrt.Logf("note: %d reply handler(s) still blocked inside ProcessResponse", stuck)
			if os.Getenv("C12_STUCK_IS_VIOLATION") != "" { // diagnostic switch, never set by ./check
				vrt.Fail("diagnostic-reply-handler-stuck", "%d reply handler(s) never returned from ProcessResponse [%s]", stuck, behString(p, w.assign))
			}
		}
	}

	check := func(x *vrt.Exec) []vrt.Violation {
		if w == nil || !w.settled {
			return nil // deadlock / panic are reported by the engine under their own clauses
		}
		return w.oracle()
	}

	return &vrt.Scenario{
		Name: p.name, Prop: "C12", Doc: p.doc,
		Cfg:   vrt.Config{TimerRace: p.timerRace, FreeSwitchCost: true},
		Setup: func() { logrus.SetOutput(io.Discard) },
		Body:  body, Check: check,
		Quick: p.q, Thorough: p.t,
		DeadlockClause: "never-completes", PanicClause: "panic",
		NonTrivial: func(x *vrt.Exec) bool { return w != nil && w.settled },
	}
}

// ---------------------------------------------------------------- observation

// slots returns the per-target view of a command's result.
func (w *world) slots(c int, r cc.MesosCommandResponse) (map[int]cc.MesosCommandResponse, []vrt.Violation) {
	var out []vrt.Violation
	tg := w.p.targets[c]
	if w.p.direct {
		tg = tg[:1]
	}
	if len(tg) == 1 {
		return map[int]cc.MesosCommandResponse{tg[0]: r}, nil
	}
	mr, ok := r.(*cc.MesosCommandMultiResponse)
	if !ok || mr == nil || !r.IsMultiResponse() {
		out = append(out, vrt.Violation{Clause: "result-not-per-target", Detail: fmt.Sprintf("c%d has %d targets but its result %T does not hold one entry per target [%s]", c, len(tg), r, behString(w.p, w.assign))})
		return nil, out
	}
	m := map[int]cc.MesosCommandResponse{}
	for k, v := range mr.GetResponses() {
		ti := tgtIndex(k)
		isT := false
		for _, t := range tg {
			isT = isT || t == ti
		}
		if !isT {
			out = append(out, vrt.Violation{Clause: "result-extra-target", Detail: fmt.Sprintf("c%d result has an entry for %s which is not one of its targets [%s]", c, k.TaskId.Value, behString(w.p, w.assign))})
			continue
		}
		m[ti] = v
	}
	return m, out
}

func isNil(r cc.MesosCommandResponse) bool {
	if r == nil {
		return true
	}
	switch v := r.(type) {
	case *cc.MesosCommandResponseBase:
		return v == nil
	case *cc.MesosCommandResponse_Transition:
		return v == nil
	case *cc.MesosCommandResponse_TriggerHook:
		return v == nil
	case *cc.MesosCommandMultiResponse:
		return v == nil
	}
	return false
}

func (w *world) findDelivery(r cc.MesosCommandResponse) *delivery {
	for _, d := range w.dels {
		if d.obj == r {
			return d
		}
	}
	return nil
}

func (w *world) describeSlot(r cc.MesosCommandResponse, rerr error) string {
	if rerr != nil {
		return "error(" + classifyErr(rerr.Error()) + ")"
	}
	if isNil(r) {
		return "nil"
	}
	if d := w.findDelivery(r); d != nil {
		s := fmt.Sprintf("reply(c%d/t%d", d.originC, d.originT)
		if d.isErr {
			s += ",err"
		}
		return s + ")"
	}
	if e := r.Err(); e != nil {
		return "error(" + classifyErr(e.Error()) + ")"
	}
	return "fabricated-success"
}

func classifyErr(s string) string {
	switch {
	case strings.Contains(s, "sendfail"):
		return "send"
	case strings.TrimSpace(s) == "":
		return "blank"
	default:
		return "noanswer"
	}
}

func (w *world) describe(c int) string {
	if w.enqErr[c] != nil {
		return "enqueue refused"
	}
	if len(w.compl[c]) == 0 {
		return "no completion"
	}
	var parts []string
	for i, cp := range w.compl[c] {
		if w.p.direct {
			parts = append(parts, fmt.Sprintf("t%d=%s", w.p.targets[c][0], w.describeSlot(cp.val, cp.err)))
			continue
		}
		if isNil(cp.val) {
			parts = append(parts, fmt.Sprintf("completion%d=nil", i))
			continue
		}
		sl, _ := w.slots(c, cp.val)
		var ks []int
		for k := range sl {
			ks = append(ks, k)
		}
		sort.Ints(ks)
		for _, k := range ks {
			parts = append(parts, fmt.Sprintf("t%d=%s", k, w.describeSlot(sl[k], nil)))
		}
	}
	if len(w.compl[c]) > 1 {
		parts = append(parts, fmt.Sprintf("(%d completions)", len(w.compl[c])))
	}
	return strings.Join(parts, " ")
}

// ---------------------------------------------------------------- oracle (from the statement)

func (w *world) oracle() (out []vrt.Violation) {
	ctx := "[" + behString(w.p, w.assign) + "]"
	fail := func(clause, f string, a ...any) {
		out = append(out, vrt.Violation{Clause: clause, Detail: fmt.Sprintf(f, a...) + " " + ctx})
	}
	timing := !w.p.timerRace

	// the send function: one attempt per (command, target), nothing else
	for c := range w.p.targets {
		tg := w.p.targets[c]
		if w.p.direct {
			tg = tg[:1]
		}
		for _, t := range tg {
			n := 0
			for _, s := range w.sends {
				if s.cmd == c && s.tgt == t {
					n++
				}
			}
			if n != 1 {
				fail(fmt.Sprintf("send-count:%d", min(n, 2)), "c%d was handed to the send function %d times for target t%d, want once", c, n, t)
			}
		}
	}
	for _, s := range w.sends {
		if _, ok := w.behOf(s.cmd, s.tgt); !ok {
			fail("sent-to-non-target", "send function called with command index %d for receiver index %d which is not a (command, target) pair of the scenario", s.cmd, s.tgt)
			continue
		}
		// what goes to target t is the command for t: the executor acts on the targets the copy lists
		if want := fmt.Sprintf("t%d", s.tgt); s.listed != want {
			fail("sent-copy-not-addressed-to-its-receiver:"+w.p.kind(s.cmd), "c%d: the copy handed to the send function for receiver t%d lists the targets %s", s.cmd, s.tgt, s.listed)
		}
	}

	for c := range w.p.targets {
		if w.enqErr[c] != nil {
			fail("enqueue-refused", "c%d: %v", c, w.enqErr[c])
			continue
		}
		// exactly once
		if len(w.compl[c]) != 1 {
			fail("completed-twice", "c%d completed %d times", c, len(w.compl[c]))
		}
		if len(w.compl[c]) == 0 {
			continue
		}
		cp := w.compl[c][0]

		// within its response timeout, counted from when it began to be sent to the tasks: the timeout belongs to
		// the command, not to each target in turn (the first send marks the moment the queue took the command up;
		// time spent queueing behind another command is not counted)
		var firstSend *sendRec
		for _, s := range w.sends {
			if s.cmd == c && (firstSend == nil || s.seq < firstSend.seq) {
				firstSend = s
			}
		}
		if timing && firstSend != nil && cp.at > firstSend.at+w.tmo(c)+eps {
			fail("completed-after-timeout", "c%d was first sent at %v with response timeout %v but completed at %v", c, firstSend.at, w.tmo(c), cp.at)
		}

		var sl map[int]cc.MesosCommandResponse
		if w.p.direct {
			// RunCommand: (response, error); an error return is the error slot
			t := w.p.targets[c][0]
			if cp.err != nil {
				sl = map[int]cc.MesosCommandResponse{t: cc.NewMesosCommandResponse(w.dummyCmd(c), cp.err)}
			} else {
				sl = map[int]cc.MesosCommandResponse{t: cp.val}
			}
		} else {
			if isNil(cp.val) {
				fail("result-missing", "c%d completed with a nil result", c)
				continue
			}
			if cp.val.GetCommandId() != w.ids[c] {
				fail("result-of-other-command", "the result delivered for c%d carries the id of command index %d", c, w.cmdIndex(cp.val.GetCommandId()))
			}
			var vs []vrt.Violation
			sl, vs = w.slots(c, cp.val)
			out = append(out, vs...)
			if sl == nil {
				continue
			}
		}

		tg := w.p.targets[c]
		if w.p.direct {
			tg = tg[:1]
		}
		for _, t := range tg {
			e, have := sl[t]
			if !have || isNil(e) {
				fail("result-missing-target", "c%d: the result holds nothing for target t%d", c, t)
				continue
			}
			var snd *sendRec
			for _, s := range w.sends {
				if s.cmd == c && s.tgt == t {
					snd = s
					break
				}
			}
			if snd == nil {
				continue // already reported under send-count
			}
			deadline := snd.at + w.tmo(c)
			// replies attributed to (c,t): carry c's id and come from t
			var own []*delivery
			mustReply := false
			for _, d := range w.dels {
				if d.claimC == c && d.sender == t && d.started {
					own = append(own, d)
					if !snd.failed && d.seq > snd.seq && d.at < deadline-eps {
						mustReply = true
					}
				}
			}
			d := w.findDelivery(e)
			switch {
			case d != nil: // the slot holds a reply object built by the simulator
				if snd.failed {
					fail("reply-for-unsent", "c%d/t%d: sending failed, yet the slot holds %v", c, t, d)
					break
				}
				if d.claimC != c || d.sender != t {
					rel := "other-command"
					switch {
					case d.claimC == c && d.sender == strangerIdx:
						rel = "unknown-sender"
					case d.claimC == c:
						rel = "other-target"
					case d.claimC < 0:
						rel = "unknown-id"
					case d.sender != t:
						rel = "other-command-and-target"
					}
					fail("foreign-reply:"+rel, "c%d/t%d: the slot holds %v, which is not attributed to this command and target", c, t, d)
					break
				}
				if timing && d.at > deadline+eps {
					fail("late-reply-completed", "c%d/t%d: deadline %v, but the slot holds %v", c, t, deadline, d)
				}
			default: // produced by the code under test: must be an error that says something
				err := e.Err()
				if err == nil || strings.TrimSpace(err.Error()) == "" {
					fail("fabricated-success", "c%d/t%d: the slot holds a response without error that no target sent (%T)", c, t, e)
					break
				}
				if snd.failed {
					if !strings.Contains(err.Error(), "sendfail") {
						fail("send-error-not-reported", "c%d/t%d: sending failed with 'sendfail c%d/t%d' but the slot says %q", c, t, c, t, err.Error())
					}
					break
				}
				if strings.Contains(err.Error(), "sendfail") {
					fail("send-error-misattributed", "c%d/t%d: sending succeeded but the slot says %q", c, t, err.Error())
					break
				}
				if timing && mustReply {
					fail("answered-but-reported-silent", "c%d/t%d: %d repl(ies) attributed to this command and target were delivered before the deadline %v (first: %v), yet the slot says %q", c, t, len(own), deadline, own[0], err.Error())
				}
			}
		}
	}
	return out
}

// dummyCmd lets the direct-mode error return be viewed as an error slot.
func (w *world) dummyCmd(c int) cc.MesosCommand {
	return &cc.MesosCommandBase{Name: "direct", Id: w.ids[c]}
}

func upTo(n int) (out []int) {
	for i := 0; i < n; i++ {
		out = append(out, i)
	}
	return
}

func main() {
	T0, T01 := []int{0}, []int{0, 1}
	vrt.Main([]*vrt.Scenario{
		scenario(params{name: "q1x1", targets: [][]int{T0}, alphabet: alphaFull,
			q: vrt.Bounds{Dev: 3, Seconds: 60}, t: vrt.Bounds{Dev: 5, Seconds: 300},
			doc: "queue, 1 command x 1 target, 10 behaviours"}),
		scenario(params{name: "q1x2", targets: [][]int{T01}, alphabet: alphaFull,
			q: vrt.Bounds{Dev: 2, Seconds: 120}, t: vrt.Bounds{Dev: 3, Seconds: 900},
			doc: "queue, 1 command x 2 targets, 10^2 behaviour assignments x arrival orders"}),
		scenario(params{name: "q2x1", targets: [][]int{T0, T0}, alphabet: alphaCore,
			q: vrt.Bounds{Dev: 2, Seconds: 120}, t: vrt.Bounds{Dev: 3, Seconds: 900},
			doc: "queue, 2 concurrent clients x the same single target, 8^2 assignments"}),
		scenario(params{name: "q2mix", targets: [][]int{T01, {1}}, alphabet: alphaCore,
			q: vrt.Bounds{Dev: 1, Seconds: 120}, t: vrt.Bounds{Dev: 2, Seconds: 900},
			doc: "queue, command 0 -> {t0,t1}, command 1 -> {t1}, 8^3 assignments x arrival orders"}),
		scenario(params{name: "q2x2", targets: [][]int{T01, T01}, alphabet: alphaCore,
			q: vrt.Bounds{Dev: 0, Seconds: 120}, t: vrt.Bounds{Dev: 1, Seconds: 900},
			doc: "queue, 2 commands x 2 shared targets, 8^4 assignments x arrival orders"}),
		scenario(params{name: "direct2", targets: [][]int{T0, T0}, alphabet: alphaCore, direct: true,
			q: vrt.Bounds{Dev: 2, Seconds: 120}, t: vrt.Bounds{Dev: 3, Seconds: 900},
			doc: "2 concurrent Servent.RunCommand calls (different commands, same target), 8^2 assignments x arrival orders"}),
		scenario(params{name: "hook1x2", targets: [][]int{T01}, alphabet: alphaFull, kinds: []string{"hook"}, defaultTimeout: true,
			q: vrt.Bounds{Dev: 1, Seconds: 120}, t: vrt.Bounds{Dev: 3, Seconds: 900},
			doc: "queue, 1 TriggerHook command x 2 targets with the response timeout it is created with (90 s), 10^2 assignments x arrival orders"}),
		scenario(params{name: "mix2x1", targets: [][]int{T0, T0}, alphabet: alphaCore, kinds: []string{"transition", "hook"},
			q: vrt.Bounds{Dev: 1, Seconds: 120}, t: vrt.Bounds{Dev: 3, Seconds: 900},
			doc: "queue, a transition command and a TriggerHook command to the same target, 8^2 assignments"}),
		scenario(params{name: "wide1x70", targets: [][]int{upTo(70)}, patterns: widePatterns,
			q: vrt.Bounds{Dev: 0, Seconds: 60}, t: vrt.Bounds{Dev: 1, Seconds: 600},
			doc: "queue, 1 command x 70 targets, 7 assignment patterns (all answer / all silent / all but one silent / alternating / all late / send failures mixed in), replies in target order"}),
		scenario(params{name: "wide2x70", targets: [][]int{upTo(70), upTo(70)}, patterns: widePatterns,
			q: vrt.Bounds{Dev: 0, Seconds: 60}, t: vrt.Bounds{Dev: 0, Seconds: 600},
			doc: "queue, 2 concurrent commands x the same 70 targets, 7 x 7 assignment patterns"}),
		scenario(params{name: "race1x1", targets: [][]int{T0}, alphabet: alphaRace, timerRace: true,
			q: vrt.Bounds{Dev: 3, Seconds: 60}, t: vrt.Bounds{Dev: 4, Seconds: 600},
			doc: "queue, 1x1, timers may fire at any scheduling point (reply racing the timeout); no timing clauses"}),
		scenario(params{name: "race2x1", targets: [][]int{T0, T0}, alphabet: alphaRace, timerRace: true,
			q: vrt.Bounds{Dev: 2, Seconds: 120}, t: vrt.Bounds{Dev: 3, Seconds: 900},
			doc: "queue, 2 commands x same target, timers may fire at any scheduling point; no timing clauses"}),
	})
}

#!/bin/bash
# Detection demo for C12: applies each mutants/C12/*.patch to a scratch copy of /repo
# (never to /repo itself) and runs ./check C12 against it. Usage: harness/c12/mutants.sh [tier]
set -u
V=$(cd "$(dirname "$0")/../.." && pwd)
TIER=${1:-quick}
SCRATCH=${SCRATCH:-/tmp/repo-c12}
export GOFLAGS=-mod=mod GOPROXY=off GOSUMDB=off GOTOOLCHAIN=local
export VERIF_WORK=${VERIF_WORK_MUT:-/tmp/vw-c12-mut}
[ -f "$V/evidence/C12.json" ] && cp "$V/evidence/C12.json" /tmp/C12-evidence.keep
for p in "$V"/mutants/C12/${2:-}*.patch; do
  rm -rf "$SCRATCH"; mkdir -p "$SCRATCH"
  rsync -a --exclude .git "${VERIF_REPO_BASE:-/repo}/" "$SCRATCH/"
  (cd "$SCRATCH" && git apply --unsafe-paths "$p") || { echo "$(basename "$p"): PATCH DOES NOT APPLY"; continue; }
  out=$(cd "$V" && VERIF_REPO="$SCRATCH" ./check C12 --tier "$TIER" 2>&1); rc=$?
  echo "=== $(basename "$p"): exit $rc"
  echo "$out" | grep -E '^  [a-z0-9]+:|^C12 tier|ENGINE' | cut -c1-260
done
rm -rf "$SCRATCH"
[ -f /tmp/C12-evidence.keep ] && mv /tmp/C12-evidence.keep "$V/evidence/C12.json"
exit 0

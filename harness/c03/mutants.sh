#!/bin/bash
# Applies every mutants/C03/*.patch to a scratch copy of /repo (never to /repo itself),
# runs the C03 harness (quick tier) on it and prints the violation signatures
# (scenario-independent clauses) that the unchanged tree does not have.
# Usage: harness/c03/mutants.sh [patch ...]        (env TIER=thorough for the deeper tier)
set -u
V=$(cd "$(dirname "$0")/../.." && pwd)
SRC=${VERIF_REPO_SRC:-/repo}
S0=/tmp/repo-c03-base
S=/tmp/repo-c03
TIER=${TIER:-quick}
export GOFLAGS=-mod=mod GOPROXY=off GOSUMDB=off GOTOOLCHAIN=local
export VERIF_WORK=${VERIF_WORK_MUT:-/tmp/vw-c03m}
clauses() { # $1 = repo -> sorted clause list
  local b
  b=$(cd "$V" && VERIF_REPO=$1 python3 tools/vlib.py build c03 | tail -1) || return 1
  "$b" -tier "$TIER" | sed -n 's/^  FOUND clause="\([^"]*\)".*/\1/p' | sort -u
}
rm -rf "$S0" "$S"; cp -r "$SRC" "$S0"
clauses "$S0" > /tmp/c03-base.txt || { echo "baseline does not build"; exit 3; }
echo "baseline clauses: $(wc -l < /tmp/c03-base.txt)"
sed 's/^/    /' /tmp/c03-base.txt
rc=0
[ $# -gt 0 ] || set -- "$V"/mutants/C03/[0-9]*.patch
for p in "$@"; do
  n=$(basename "$p" .patch)
  rm -rf "$S"; cp -r "$S0" "$S"
  (cd "$S" && git apply "$p") || { echo "$n: PATCH DOES NOT APPLY"; rc=1; continue; }
  clauses "$S" > /tmp/c03-mut.txt || { echo "$n: DOES NOT BUILD"; rc=1; continue; }
  new=$(comm -13 /tmp/c03-base.txt /tmp/c03-mut.txt)
  if [ -n "$new" ]; then echo "$n: CAUGHT"; echo "$new" | sed 's/^/    /'
  elif [ "${n#0-}" != "$n" ]; then echo "$n: (candidate fix) remaining clauses: $(wc -l < /tmp/c03-mut.txt)"; sed 's/^/    /' /tmp/c03-mut.txt
  else echo "$n: NOT CAUGHT"; rc=1; fi
done
rm -rf "$S" "$S0" /tmp/c03-base.txt /tmp/c03-mut.txt
exit $rc

// C03: failure of a critical task drives a live environment to ERROR; the same
// failure of a non-critical task never changes the environment's state.
//
// Whole-core simulation (package coresim): the real RPC handlers, environment
// manager + FSM, error watcher (subscribeToWfState), role tree, task manager
// and scheduler event handlers run on a simulated Mesos master / executors.
// An environment is brought to CONFIGURED or RUNNING on the default schedule,
// then exactly one failure is injected: every (victim task, failure kind,
// instant) of a finite grid, and on top of it every schedule within the
// deviation bound (deviations are only counted/explored from the injection on).
package main

import (
	"context"
	"encoding/json"
	"fmt"
	"sort"
	"strings"
	"time"

	"github.com/AliceO2Group/Control/common/event"
	evpb "github.com/AliceO2Group/Control/common/protos"
	pb "github.com/AliceO2Group/Control/core/protos"
	occpb "github.com/AliceO2Group/Control/executor/protos"
	"github.com/AliceO2Group/Control/verif_h/coresim"
	vrt "github.com/AliceO2Group/Control/verif_vrt"
	mesos "github.com/mesos/mesos-go/api/v1/lib"
)

// ---- input grid ------------------------------------------------------------------

type tspec struct {
	crit bool
	mode string
	host string
	// group: the role sits inside an aggregator role of that name (root -> group -> task role)
	group string
	// omitCrit: the role carries no `critical` key at all: the documented default (critical: true) applies
	omitCrit bool
	// trigger: for mode "hook": the moment the hook task is triggered at (it is deployed with the others and sits idle until then)
	trigger string
}

type shape struct {
	name  string
	tasks []tspec
	// calls: extra call roles of the workflow; failCalls: sim.Call tags that fail in every execution of the shape
	calls     []string
	failCalls []string
	// hookTerminates: triggered hook tasks run and finish (TASK_FINISHED) instead of sitting there
	hookTerminates bool
}

// Non-critical tasks live on hostB alone so that executor/agent loss with a
// non-critical victim takes down non-critical tasks only.
var shapes = []shape{
	{name: "cn", tasks: []tspec{{crit: true, mode: "direct", host: "hostA"}, {crit: false, mode: "direct", host: "hostB"}}},
	{name: "ccn", tasks: []tspec{{crit: true, mode: "fairmq", host: "hostA"}, {crit: true, mode: "direct", host: "hostA"}, {crit: false, mode: "fairmq", host: "hostB"}}},
	{name: "cnn", tasks: []tspec{{crit: true, mode: "direct", host: "hostA"}, {crit: false, mode: "fairmq", host: "hostB"}, {crit: false, mode: "direct", host: "hostB"}}},
	{name: "bn", tasks: []tspec{{crit: true, mode: "basic", host: "hostA"}, {crit: false, mode: "direct", host: "hostB"}}},
	{name: "cc", tasks: []tspec{{crit: true, mode: "direct", host: "hostA"}, {crit: true, mode: "direct", host: "hostA"}}},
	// nested tree: the critical task and a non-critical sibling share an aggregator, a second aggregator holds
	// only a non-critical task (the failure has to travel task role -> aggregator -> root -> environment,
	// and a non-critical ERROR must not leak into the aggregator's state)
	{name: "gcn", tasks: []tspec{{crit: true, mode: "direct", host: "hostA", group: "g1"}, {crit: false, mode: "direct", host: "hostB", group: "g1"},
		{crit: false, mode: "fairmq", host: "hostB", group: "g2"}}},
	// the critical task does not say `critical` at all (handbook: the assumed default is critical: true)
	{name: "dn", tasks: []tspec{{crit: true, mode: "direct", host: "hostA", omitCrit: true}, {crit: false, mode: "direct", host: "hostB"}}},
	// the workflow has a critical call at before_GO_ERROR that always fails: the gentle GO_ERROR of the error
	// watcher (and of the API) is refused and the state has to be forced
	{name: "cnk", tasks: []tspec{{crit: true, mode: "direct", host: "hostA"}, {crit: false, mode: "direct", host: "hostB"}},
		calls:     []string{"  - name: \"goerr-hook\"\n    call:\n      func: sim.Call(\"c03-goerr-hook\")\n      trigger: before_GO_ERROR\n      timeout: 5s\n      critical: true\n"},
		failCalls: []string{"c03-goerr-hook"}},
	// hook tasks: a critical and a non-critical cleanup hook (trigger DESTROY: deployed with the environment, idle until the teardown)
	// next to a critical controllable task; a hook task is a task of the environment like any other
	{name: "chh", tasks: []tspec{{crit: true, mode: "direct", host: "hostA"}, {crit: true, mode: "hook", host: "hostA", trigger: "DESTROY"},
		{crit: false, mode: "hook", host: "hostB", trigger: "DESTROY"}}},
	// a critical hook task at after_START_ACTIVITY that runs and finishes: by the time the activity runs one
	// critical role of the tree is DONE - the failure of the other critical task must still reach the environment
	{name: "chd", tasks: []tspec{{crit: true, mode: "direct", host: "hostA"}, {crit: true, mode: "hook", host: "hostA", trigger: "after_START_ACTIVITY"},
		{crit: false, mode: "direct", host: "hostB"}}, hookTerminates: true},
}

// failure kinds (statement: process dies / Mesos reports failed, lost, killed /
// executor or agent lost / announces an internal error)
const (
	kNone      = iota // fault-free reference run
	kFailed           // process dies: the executor reports TASK_FAILED
	kLost             // TASK_LOST
	kKilled           // TASK_KILLED (not requested by the framework)
	kExec             // executor lost: FAILURE(agent, executor)
	kAgent            // agent lost: FAILURE(agent)
	kAgentLost        // agent lost as Mesos reports it: TASK_LOST per task, then FAILURE(agent)
	kInternal         // device announces TASK_INTERNAL_ERROR (controllable tasks)
	kReconLost        // lost with its agent while the core was disconnected: TASK_LOST learnt from the reconciliation after the resubscription
	kFinished         // process of a controllable task ends with exit status 0: the executor reports TASK_FINISHED (executor/executable/controllabletask.go)
	kBasicExit        // process of a basic task ends with exit status 1 while the activity runs: the executor reports BASIC_TASK_TERMINATED only (basictaskcommon.go), the Mesos task stays RUNNING
	nKinds
)

var kindName = [...]string{"none", "TASK_FAILED", "TASK_LOST", "TASK_KILLED", "executor-lost", "agent-lost", "agent-lost+TASK_LOST", "TASK_INTERNAL_ERROR", "TASK_LOST-by-reconciliation",
	"TASK_FINISHED", "basic-process-exit-1"}

type phase struct {
	name  string
	start bool // environment is RUNNING at the time of the injection
	op    string
	src   string
	dst   string
	event string // task-level event name of the racing request
	// pre: requests made (and answered successfully) on the default schedule before the injection, instead of
	// `start`: the history behind the live state (a second run, CONFIGURED after a run, CONFIGURED after RESET+CONFIGURE)
	pre []string
	// prefault: before the injection the last non-critical task of the shape dies (TASK_FAILED) and a virtual
	// second passes: the injected failure is the second of a fault sequence
	prefault bool
}

var phases = []phase{
	{name: "idle-CONFIGURED", src: "CONFIGURED", dst: "CONFIGURED"},
	{name: "idle-RUNNING", start: true, src: "RUNNING", dst: "RUNNING"},
	{name: "race-START", op: "START_ACTIVITY", src: "CONFIGURED", dst: "RUNNING", event: "START"},
	{name: "race-STOP", start: true, op: "STOP_ACTIVITY", src: "RUNNING", dst: "CONFIGURED", event: "STOP"},
	{name: "race-RESET", op: "RESET", src: "CONFIGURED", dst: "DEPLOYED", event: "RESET"},
}

// history phases: the same live states reached by a longer history, and as the second fault of a sequence
var historyPhases = []phase{
	{name: "idle-CONFIGURED-after-run", src: "CONFIGURED", dst: "CONFIGURED", pre: []string{"START_ACTIVITY", "STOP_ACTIVITY"}},
	{name: "idle-RUNNING-second-run", start: true, src: "RUNNING", dst: "RUNNING", pre: []string{"START_ACTIVITY", "STOP_ACTIVITY", "START_ACTIVITY"}},
	{name: "idle-CONFIGURED-reconfigured", src: "CONFIGURED", dst: "CONFIGURED", pre: []string{"RESET", "CONFIGURE"}},
	{name: "idle-RUNNING-after-noncritical-failure", start: true, src: "RUNNING", dst: "RUNNING", pre: []string{"START_ACTIVITY"}, prefault: true},
	{name: "idle-CONFIGURED-after-noncritical-failure", src: "CONFIGURED", dst: "CONFIGURED", pre: []string{}, prefault: true},
}

var opOf = map[string]pb.ControlEnvironmentRequest_Optype{"START_ACTIVITY": pb.ControlEnvironmentRequest_START_ACTIVITY,
	"STOP_ACTIVITY": pb.ControlEnvironmentRequest_STOP_ACTIVITY, "RESET": pb.ControlEnvironmentRequest_RESET, "CONFIGURE": pb.ControlEnvironmentRequest_CONFIGURE}

var opDst = map[string]string{"START_ACTIVITY": "RUNNING", "STOP_ACTIVITY": "CONFIGURED", "RESET": "DEPLOYED", "CONFIGURE": "CONFIGURED"}

func wfName(s shape) string         { return "c03-" + s.name }
func className(s shape, i int) string { return fmt.Sprintf("c03%s%d", s.name, i) }

func specOf(s shape) coresim.WorkflowSpec {
	wf := coresim.WorkflowSpec{Name: wfName(s), Hosts: []string{"hostA"}, Calls: s.calls}
	for i, t := range s.tasks {
		wf.Tasks = append(wf.Tasks, coresim.TaskSpec{Name: fmt.Sprintf("t%d", i), Class: className(s, i), Mode: t.mode, Critical: t.crit, Host: t.host,
			Group: t.group, OmitCritical: t.omitCrit, Trigger: t.trigger})
	}
	return wf
}

func agents() []*coresim.Agent {
	return []*coresim.Agent{
		{ID: "agentA", Host: "hostA", Attributes: map[string]string{"machine_id": "hostA"}, Cpus: 8, Mem: 8192, PortLo: 9000, PortHi: 40000},
		{ID: "agentB", Host: "hostB", Attributes: map[string]string{"machine_id": "hostB"}, Cpus: 8, Mem: 8192, PortLo: 9000, PortHi: 40000},
	}
}

// ---- one observation of the environment through the API -------------------------

type obs struct {
	state  string
	runEnd string // user var run_end_time_ms
	rn     uint32
	tasks  string
	err    error
}

func observe(w *coresim.World, id string) obs {
	rep, err := w.Core.Rpc.GetEnvironment(context.Background(), &pb.GetEnvironmentRequest{Id: id})
	if err != nil || rep == nil || rep.Environment == nil {
		return obs{err: err, state: "(gone)"}
	}
	e := rep.Environment
	var ts []string
	for _, t := range e.Tasks {
		ts = append(ts, t.GetState()+"/"+t.GetStatus())
	}
	sort.Strings(ts)
	return obs{state: e.State, runEnd: e.UserVars["run_end_time_ms"], rn: e.CurrentRunNumber, tasks: strings.Join(ts, ",")}
}

// armed: schedule deviations are explored from the injection on (the setup
// runs on the default schedule, see Config.Preempt below).
var armed bool

func preempt(kind vrt.OpKind, site string) bool {
	return armed && coresim.InterComponent(kind, site)
}

// ---- scenario --------------------------------------------------------------------

type result struct {
	victim, kind, instant int
	setupErr              string
	injected              bool
	injectedAt            time.Duration
	envAtInject           string // FSM state seen through the API right before the injection (idle) / src (race)
	deadCritical          bool
	dead                  []string
	reqState              string
	reqErr                error
	reqDone               bool
	after                 []obs // observations at quiescence, +1 s, +5 s (virtual)
	evFrom, runEvFrom     int
	runStarted            bool   // a run was active when the failure hit, or became active afterwards
	runEndAtInject        string // run_end_time_ms as reported right before the injection (a stamp of an earlier run must not count for this one)
	runNumber             uint32 // number of that run
	kills                 int
	stops                 int
}

// kind groups: the Mesos-level failures and the device-level announcement are
// explored as separate scenarios (a finding in one does not stop the other at a lower bound).
var groups = map[string][]int{
	"mesos":  {kNone, kFailed, kLost, kKilled, kExec, kAgent, kAgentLost, kReconLost},
	"device": {kNone, kInternal},
	"failed": {kFailed},
	// one representative per handling path (status update / executor FAILURE / agent FAILURE preceded by status updates)
	"mesos-core": {kFailed, kExec, kAgentLost, kReconLost},
	// the process ends on its own without Mesos or the executor calling it a failure: exit status 0 of a
	// controllable task (TASK_FINISHED), exit status 1 of a basic task's process (device event only)
	"exit": {kNone, kFinished, kBasicExit},
}

func scenario(s shape, ph phase, group string, q, t vrt.Bounds) *vrt.Scenario {
	kinds := groups[group]
	if ph.op != "" {
		// a dropped connection also loses the replies of the request in flight: the statement does not
		// say what becomes of that request (C18 covers reconnection), so the reconciliation-learnt loss
		// is injected while no request is in flight only
		var ks []int
		for _, k := range kinds {
			if k != kReconLost {
				ks = append(ks, k)
			}
		}
		kinds = ks
	}
	var (
		r result
		w *coresim.World
	)
	n := len(s.tasks)
	nInst := 1
	if ph.op != "" {
		nCmd := 0 // hook tasks are not commanded by the environment's transitions
		for _, t := range s.tasks {
			if t.mode != "hook" {
				nCmd++
			}
		}
		nInst = 1 + 2*nCmd // 0: concurrent with the request; 2k-1/2k: before/after the reply to the k-th task command
	}
	body := func() {
		armed = false
		r = result{}
		r.victim = vrt.ChooseFree(n, "victim")
		r.kind = kinds[vrt.ChooseFree(len(kinds), "kind")]
		r.instant = vrt.ChooseFree(nInst, "instant")
		if r.kind == kInternal && (s.tasks[r.victim].mode == "basic" || s.tasks[r.victim].mode == "hook") {
			r.kind = kNone // a basic task has no device that could announce anything
		}
		if r.kind == kFinished && (s.tasks[r.victim].mode == "basic" || s.tasks[r.victim].mode == "hook") {
			r.kind = kNone // TASK_FINISHED of a basic task is what its executor sends when the task is killed on request
		}
		if r.kind == kBasicExit && (s.tasks[r.victim].mode != "basic" || ph.src != "RUNNING") {
			r.kind = kNone // the process of a basic task exists only while the activity runs
		}
		for _, tag := range s.failCalls {
			coresim.CallFail[tag] = true
		}
		m := coresim.NewMaster(agents()...)
		m.LostIsSilent = true
		m.HookTerminates = s.hookTerminates
		if s.hookTerminates && s.tasks[r.victim].mode == "hook" {
			r.kind = kNone // the hook task is gone by the time anything could be injected (hook tasks as victims: shape chh)
		}
		w = coresim.NewWorld(m)
		id, st, err := w.Create(wfName(s), nil)
		if err != nil || st != "CONFIGURED" {
			r.setupErr = fmt.Sprintf("create: state=%s err=%v", st, err)
			return
		}
		pre := ph.pre
		if pre == nil && ph.start {
			pre = []string{"START_ACTIVITY"}
		}
		for _, op := range pre {
			st, err = w.Control(id, opOf[op])
			if err != nil || st != opDst[op] {
				r.setupErr = fmt.Sprintf("%s: state=%s err=%v", op, st, err)
				return
			}
		}
		vrt.Quiesce("settled")
		if ph.prefault {
			// first fault of the sequence: the last non-critical task dies; nothing may come of it
			var first *coresim.SimTask
			for i := range s.tasks {
				if !s.tasks[i].crit {
					for _, tid := range m.TaskOrder {
						if m.Tasks[tid].Class == className(s, i) {
							first = m.Tasks[tid]
						}
					}
				}
			}
			if first == nil || !first.Alive {
				r.setupErr = "no non-critical task for the first fault"
				return
			}
			m.FailTask(first, mesos.TASK_FAILED)
			vrt.Quiesce("first-fault")
			vrt.Sleep(1 * time.Second)
			vrt.Quiesce("first-fault+1s")
		}
		o0 := observe(w, id)
		r.envAtInject = o0.state
		if o0.state != ph.src {
			r.setupErr = fmt.Sprintf("settled in %s, want %s", o0.state, ph.src)
			return
		}
		r.runNumber = o0.rn
		r.runStarted = ph.start
		r.runEndAtInject = o0.runEnd
		var victim *coresim.SimTask
		for _, tid := range m.TaskOrder {
			if m.Tasks[tid].Class == className(s, r.victim) {
				victim = m.Tasks[tid]
			}
		}
		if victim != nil && !victim.Alive && s.hookTerminates && s.tasks[r.victim].mode == "hook" {
			r.kind = kNone // the hook task has run and finished: fault-free continuation
		} else if victim == nil || (!victim.Alive && !ph.prefault) {
			r.setupErr = "victim task not launched"
			return
		}
		if !victim.Alive {
			r.kind = kNone // the victim is the task that died as the first fault: fault-free continuation
		}
		r.evFrom, r.runEvFrom = len(w.EnvEvents), len(w.RunEvents)
		kills0 := len(m.CallsOf("KILL"))
		inject := func() {
			if r.injected {
				return
			}
			r.injected = true
			r.injectedAt = vrt.VNow()
			var dead []*coresim.SimTask
			switch r.kind {
			case kNone:
			case kFailed, kLost, kKilled:
				dead = []*coresim.SimTask{victim}
				m.FailTask(victim, map[int]mesos.TaskState{kFailed: mesos.TASK_FAILED, kLost: mesos.TASK_LOST, kKilled: mesos.TASK_KILLED}[r.kind])
			case kReconLost:
				dead = []*coresim.SimTask{victim}
				m.LoseWhileDisconnected(victim)
			case kFinished:
				dead = []*coresim.SimTask{victim}
				m.FailTask(victim, mesos.TASK_FINISHED)
			case kBasicExit:
				dead = []*coresim.SimTask{victim}
				// the Mesos task (the executor's wrapper) stays RUNNING; what the executor sends is the device event only
				m.DeviceEvent(victim, map[string]any{"type": int(occpb.DeviceEventType_BASIC_TASK_TERMINATED), "origin": map[string]any{
					"agentId": map[string]string{"value": victim.AgentID}, "executorId": map[string]string{"value": victim.ExecutorID}, "taskId": map[string]string{"value": victim.ID}},
					"labels": map[string]string{"environmentId": id}, "exitCode": 1, "voluntaryTermination": true, "finalMesosState": int(mesos.TASK_FAILED)})
			case kExec, kAgent, kAgentLost:
				for _, tid := range m.TaskOrder {
					if t := m.Tasks[tid]; t.Alive && t.AgentID == victim.AgentID && (r.kind != kExec || t.ExecutorID == victim.ExecutorID) {
						dead = append(dead, t)
					}
				}
				switch r.kind {
				case kExec:
					m.FailExecutor(victim.AgentID, victim.ExecutorID)
				case kAgent:
					m.FailAgent(victim.AgentID)
				case kAgentLost:
					for _, t := range dead {
						m.FailTask(t, mesos.TASK_LOST)
					}
					m.FailAgent(victim.AgentID)
				}
			case kInternal:
				dead = []*coresim.SimTask{victim}
				victim.State = "ERROR" // the device is in its ERROR state and stays there
				// what executor/executable/controllabletask.go forwards: the DeviceEvent only
				de := event.NewDeviceEvent(event.DeviceEventOrigin{AgentId: mesos.AgentID{Value: victim.AgentID},
					ExecutorId: mesos.ExecutorID{Value: victim.ExecutorID}, TaskId: mesos.TaskID{Value: victim.ID}}, occpb.DeviceEventType_TASK_INTERNAL_ERROR)
				de.SetLabels(map[string]string{"detector": "TST", "environmentId": id})
				b, _ := json.Marshal(de)
				payload := map[string]any{}
				_ = json.Unmarshal(b, &payload)
				m.DeviceEvent(victim, payload)
			}
			for _, t := range dead {
				r.dead = append(r.dead, t.Class)
				for i := range s.tasks {
					if t.Class == className(s, i) && s.tasks[i].crit {
						r.deadCritical = true
					}
				}
			}
		}
		armed = true
		if ph.op == "" {
			inject()
		} else {
			seen := 0
			if r.instant == 0 {
				vrt.GoFG("injector", inject)
			} else {
				m.Behaviour = func(t *coresim.SimTask, kind string) coresim.Outcome {
					if kind == ph.event {
						seen++
						if r.instant == 2*seen-1 {
							inject()
							if !t.Alive { // the command was on its way to a task that has just died
								if r.kind == kExec || r.kind == kAgent || r.kind == kAgentLost {
									return coresim.Silent // nobody left to answer
								}
								return coresim.ErrSource // its executor answers with an error
							}
						}
					}
					return coresim.OK
				}
				m.AfterCall = func(c *coresim.CallRec) {
					if c.Type == "MESSAGE" && strings.HasPrefix(c.Detail, ph.event) && r.instant == 2*seen {
						inject()
					}
				}
			}
			r.reqState, r.reqErr = w.Control(id, opOf[ph.op])
			r.reqDone = true
			m.AfterCall = nil
			m.Behaviour = func(*coresim.SimTask, string) coresim.Outcome { return coresim.OK }
		}
		vrt.Quiesce("after-fault")
		if ph.op != "" {
			// race phases: deviations are explored while the request and the failure are in flight;
			// the delayed reaction after this quiescence is the one explored by the idle phases
			armed = false
		}
		r.after = append(r.after, observe(w, id))
		vrt.Sleep(1 * time.Second)
		vrt.Quiesce("after-fault+1s")
		r.after = append(r.after, observe(w, id))
		vrt.Sleep(4 * time.Second)
		vrt.Quiesce("after-fault+5s")
		r.after = append(r.after, observe(w, id))
		for _, e := range w.RunEvents[r.runEvFrom:] { // a run of the history that ended before the injection is not this failure's business
			if e.Transition == "START_ACTIVITY" && e.TransitionStatus == evpb.OpStatus_DONE_OK && e.Error == "" {
				r.runStarted = true
				r.runNumber = e.RunNumber
			}
		}
		r.kills = len(m.CallsOf("KILL")) - kills0
		for _, c := range m.CallsOf("MESSAGE") {
			if c.VT >= int64(r.injectedAt) && strings.HasPrefix(c.Detail, "STOP") {
				r.stops++
			}
		}
		var sts []string
		for _, o := range r.after {
			sts = append(sts, o.state)
		}
		vrt.Logf("%s %s victim=t%d(%s) kind=%s instant=%d dead=%v -> req=%s/%v states=%v tasks=%s runEnd=%v runEvents=%s envEvents=%s",
			s.name, ph.name, r.victim, critStr(s.tasks[r.victim].crit), kindName[r.kind], r.instant, r.dead, r.reqState, r.reqErr != nil, sts,
			r.after[len(r.after)-1].tasks, r.after[len(r.after)-1].runEnd != "", runEvStr(w.RunEvents[r.runEvFrom:]), envEvStr(w.EnvEvents[r.evFrom:]))
	}
	check := func(x *vrt.Exec) (out []vrt.Violation) {
		if r.setupErr != "" {
			return []vrt.Violation{{Clause: "setup-failed:" + ph.name, Detail: r.setupErr}}
		}
		if !r.injected {
			return []vrt.Violation{{Clause: "fault-not-injected:" + ph.name, Detail: fmt.Sprintf("instant %d never reached", r.instant)}}
		}
		final := r.after[len(r.after)-1]
		ctx := strings.Join(x.Log, "\n")
		kn := kindName[r.kind]
		if r.deadCritical {
			// --- a critical task failed on its own ---
			switch {
			case final.state == "ERROR" || final.state == "DONE" || final.state == "(gone)":
			case final.state == "RUNNING":
				out = append(out, vrt.Violation{Clause: "still-RUNNING-with-dead-critical-task:" + kn + ":" + ph.name, Detail: ctx})
			default:
				out = append(out, vrt.Violation{Clause: "not-in-ERROR-after-critical-failure:" + kn + ":" + ph.name + ":" + final.state, Detail: ctx})
			}
			if r.runStarted && final.state != "RUNNING" {
				ended := final.runEnd != "" && final.runEnd != r.runEndAtInject
				for _, e := range w.RunEvents[r.runEvFrom:] {
					if e.RunNumber == r.runNumber && (e.Transition == "STOP_ACTIVITY" || e.Transition == "GO_ERROR") {
						ended = true
					}
				}
				if !ended {
					out = append(out, vrt.Violation{Clause: "end-of-run-not-recorded:" + kn + ":" + ph.name, Detail: ctx})
				}
			}
			return
		}
		// --- fault-free run, or only non-critical tasks failed: nothing about the environment's state may differ ---
		cl := "non-critical-failure-changed-the-environment-state:" + kn + ":" + ph.name
		if r.kind == kNone {
			cl = "fault-free-run-deviates:" + ph.name
		}
		var diffs []string
		if ph.op != "" && (r.reqErr != nil || r.reqState != ph.dst) {
			diffs = append(diffs, fmt.Sprintf("request answered state=%s err=%v, fault-free: %s/<nil>", r.reqState, r.reqErr, ph.dst))
		}
		for i, o := range r.after {
			if o.state != ph.dst {
				diffs = append(diffs, fmt.Sprintf("observation %d: state %s, fault-free: %s", i, o.state, ph.dst))
				break
			}
		}
		if got, want := stateSeq(w.EnvEvents[r.evFrom:]), wantSeq(ph); got != want {
			diffs = append(diffs, fmt.Sprintf("published states %s, fault-free: %s", got, want))
		}
		if got, want := runEvStr(w.RunEvents[r.runEvFrom:]), wantRunEv(ph); got != want {
			diffs = append(diffs, fmt.Sprintf("run events %s, fault-free: %s", got, want))
		}
		if len(diffs) > 0 {
			out = append(out, vrt.Violation{Clause: cl, Detail: strings.Join(diffs, "; ") + "\n" + ctx})
		}
		// a clause of its own for the gravest way of changing the state (the recorded TASK_INTERNAL_ERROR defect *stops the run* of a
		// healthy environment; an environment driven to ERROR by a non-critical task is another defect and must not hide behind it)
		if r.kind != kNone && final.state == "ERROR" {
			out = append(out, vrt.Violation{Clause: "non-critical-failure-drove-the-environment-to-ERROR:" + kn + ":" + ph.name, Detail: strings.Join(diffs, "; ") + "\n" + ctx})
		}
		return
	}
	return &vrt.Scenario{Name: s.name + "-" + ph.name + "-" + group, Prop: "C03", Body: body, Check: check, Quick: q, Thorough: t,
		Setup: func() {
			armed = false
			coresim.ResetStore()
			for tag := range coresim.CallFail {
				delete(coresim.CallFail, tag)
			}
		},
		Cfg:            vrt.Config{Preempt: preempt, FreeSwitchCost: true, Horizon: 30 * time.Minute, Frozen: func() bool { return !armed }},
		DeadlockClause: "hangs-after-task-failure:" + ph.name, PanicClause: "panic",
		NonTrivial: func(x *vrt.Exec) bool { return r.injected && r.kind != kNone },
		Doc:        fmt.Sprintf("shape %s (%s), one failure injected %s", s.name, shapeDoc(s), ph.name)}
}

func critStr(c bool) string {
	if c {
		return "critical"
	}
	return "non-critical"
}

func shapeDoc(s shape) string {
	var p []string
	for i, t := range s.tasks {
		p = append(p, fmt.Sprintf("t%d:%s/%s@%s", i, critStr(t.crit), t.mode, t.host))
	}
	return strings.Join(p, " ")
}

// stateSeq: the published environment states, consecutive duplicates removed.
func stateSeq(evs []coresim.EnvEvent) string {
	var seq []string
	for _, e := range evs {
		st := e.State
		if len(seq) == 0 || seq[len(seq)-1] != st {
			seq = append(seq, st)
		}
	}
	return strings.Join(seq, ">")
}

func wantSeq(ph phase) string {
	if ph.op == "" {
		return ""
	}
	return ph.src + ">" + ph.dst
}

func envEvStr(evs []coresim.EnvEvent) string {
	var tr []string
	for _, e := range evs {
		if len(tr) == 0 || tr[len(tr)-1] != e.Transition {
			tr = append(tr, e.Transition)
		}
	}
	return stateSeq(evs) + "[" + strings.Join(tr, ",") + "]"
}

func runEvStr(evs []*evpb.Ev_RunEvent) string {
	var p []string
	for _, e := range evs {
		p = append(p, e.Transition+":"+e.TransitionStatus.String())
	}
	return strings.Join(p, ",")
}

func wantRunEv(ph phase) string {
	switch ph.op {
	case "START_ACTIVITY", "STOP_ACTIVITY":
		return ph.op + ":STARTED," + ph.op + ":DONE_OK"
	}
	return ""
}

func main() {
	var specs []coresim.WorkflowSpec
	for _, s := range shapes {
		specs = append(specs, specOf(s))
	}
	coresim.GlobalSetup(specs...)
	b := func(dev, sec int) vrt.Bounds { return vrt.Bounds{Dev: dev, Seconds: sec} }
	var scs []*vrt.Scenario
	newShape := map[string]bool{"gcn": true, "dn": true, "cnk": true, "chh": true, "chd": true}
	for _, s := range shapes {
		for _, ph := range phases {
			switch {
			case s.name == "cc":
				// focus: two critical tasks only, process death only, deeper schedule bound
				if ph.op != "" {
					deep := 2
					if ph.name == "race-RESET" {
						deep = 1
					}
					scs = append(scs, scenario(s, ph, "failed", b(1, 100), b(deep, 900)))
				}
			case newShape[s.name]:
				// nested tree / default critical trait / refused GO_ERROR: Mesos-level kinds only (the recorded
				// device-level defect does not depend on the shape); the whole grid on the default schedule, one
				// kind per handling path with deviations where the order of role updates and watcher can matter
				// (the quick tier leaves out the combinations that add nothing on the default schedule: registry quick_scenarios)
				if s.name == "chd" && ph.op == "START_ACTIVITY" {
					// default schedule only: a deviation inside START lets the recorded C09 defect fire (the completion of the
					// hook task is announced before the environment listens for it, the hook is then reported as timed out),
					// which sends the environment to ERROR for a reason that is not the injected failure - the C09 check
					// reports that one
					scs = append(scs, scenario(s, ph, "mesos", b(0, 100), b(0, 600)))
					break
				}
				scs = append(scs, scenario(s, ph, "mesos", b(0, 100), b(1, 600)))
				if ph.op == "" && s.name != "dn" {
					scs = append(scs, scenario(s, ph, "mesos-core", b(1, 100), b(2, 600)))
				}
			case ph.op == "":
				scs = append(scs, scenario(s, ph, "mesos", b(1, 100), b(2, 600)))
				scs = append(scs, scenario(s, ph, "device", b(1, 100), b(2, 600)))
			case s.name == "cn":
				scs = append(scs, scenario(s, ph, "mesos", b(1, 100), b(1, 600)))
				scs = append(scs, scenario(s, ph, "device", b(1, 100), b(1, 600)))
			default:
				// larger shapes: the whole grid on the default schedule, one kind per handling path with deviations
				scs = append(scs, scenario(s, ph, "mesos", b(0, 100), b(0, 100)))
				scs = append(scs, scenario(s, ph, "mesos-core", b(0, 100), b(1, 900)))
				scs = append(scs, scenario(s, ph, "device", b(0, 100), b(1, 600)))
			}
			// the process ends on its own without anybody calling it a failure: controllable tasks (cn), a basic task (bn;
			// its process exists only while the activity runs)
			if s.name == "cn" || (s.name == "bn" && ph.src == "RUNNING") {
				if ph.op == "" {
					scs = append(scs, scenario(s, ph, "exit", b(1, 100), b(2, 600)))
				} else {
					scs = append(scs, scenario(s, ph, "exit", b(0, 100), b(1, 600)))
				}
			}
		}
		// the same live states behind a longer history / as the second fault of a sequence (Mesos-level kinds, one per handling path)
		for _, ph := range historyPhases {
			if (!ph.prefault && s.name == "cn") || (ph.prefault && s.name == "cnn") {
				scs = append(scs, scenario(s, ph, "mesos-core", b(1, 100), b(2, 600)))
			}
		}
	}
	vrt.Main(scs)
}

// C16: the task state reported after a transition is the device's real state.
//
// Seam: the REAL executorcmd.RpcClient.doTransition and the REAL transitioner
// (FAIRMQ and DIRECT), driven through the real ExecutorCommand_Transition
// (Commit + PrepareResponse), on top of a simulated device (simdevice) that
// implements pb.OccClient. The simulated device is a scripted state machine
// written from the OCC documentation (occ/README.md, the FairMQ device state
// machine, the wire contract of the OCC Transition call); every step it is asked
// to perform gets its outcome from vrt.ChooseFree, so the explorer enumerates
// every outcome sequence exhaustively (deviation bound 0 = all free choices).
//
// The oracle knows nothing about how the executor sequences its steps. It looks
// at ground truth (the state the simulated device is really in, what the device
// told the executor, whether a transport error hid an answer) and at what the
// executor reported, and applies the clauses of the property statement.
package main

import (
	"context"
	"fmt"
	"io"
	"strings"

	"github.com/AliceO2Group/Control/common/controlmode"
	"github.com/AliceO2Group/Control/common/utils/uid"
	"github.com/AliceO2Group/Control/executor/executorcmd"
	pb "github.com/AliceO2Group/Control/executor/protos"
	vrt "github.com/AliceO2Group/Control/verif_vrt"
	"github.com/sirupsen/logrus"
	"google.golang.org/grpc"
	"google.golang.org/grpc/codes"
	"google.golang.org/grpc/status"
)

// ---------------------------------------------------------------------------
// device models (from the OCC / FairMQ documentation, not from the executor)
// ---------------------------------------------------------------------------

type machine struct {
	name string
	mode controlmode.ControlMode
	// trans[state][event] = state reached when the step is performed
	trans map[string]map[string]string
	// image[device state] = O² task state; intermediate states have no image
	image map[string]string
	// invalidIsReply: an event that is not valid in the current state is answered
	// with an in-place reply (OCC library) rather than a call error (FairMQ plugin)
	invalidIsReply bool
	errorState     string
	doneState      string
	states         []string // every state, for the anysrc scenarios
}

// FairMQ device state machine as driven through the OCC plugin (only the
// stable states and the transitions between them; BINDING, CONNECTING, ... are
// traversed automatically inside one step).
var fairmqMachine = &machine{
	name: "FAIRMQ", mode: controlmode.FAIRMQ,
	trans: map[string]map[string]string{
		"IDLE":                {"INIT DEVICE": "INITIALIZING DEVICE", "END": "EXITING"},
		"INITIALIZING DEVICE": {"COMPLETE INIT": "INITIALIZED"},
		"INITIALIZED":         {"BIND": "BOUND", "RESET DEVICE": "IDLE"},
		"BOUND":               {"CONNECT": "DEVICE READY", "RESET DEVICE": "IDLE"},
		"DEVICE READY":        {"INIT TASK": "READY", "RESET DEVICE": "IDLE"},
		"READY":               {"RUN": "RUNNING", "RESET TASK": "DEVICE READY"},
		"RUNNING":             {"STOP": "READY"},
		"ERROR":               {"END": "EXITING"},
		"EXITING":             {},
	},
	// property C16, state map: STANDBY=IDLE, CONFIGURED=READY, RUNNING, ERROR, DONE=EXITING
	image:      map[string]string{"IDLE": "STANDBY", "READY": "CONFIGURED", "RUNNING": "RUNNING", "ERROR": "ERROR", "EXITING": "DONE"},
	errorState: "ERROR", doneState: "EXITING",
	states: []string{"IDLE", "INITIALIZING DEVICE", "INITIALIZED", "BOUND", "DEVICE READY", "READY", "RUNNING", "ERROR", "EXITING"},
}

// OCC state machine for directly controlled tasks (occ/README.md).
var directMachine = &machine{
	name: "DIRECT", mode: controlmode.DIRECT,
	trans: map[string]map[string]string{
		"STANDBY":    {"CONFIGURE": "CONFIGURED", "EXIT": "DONE"},
		"CONFIGURED": {"START": "RUNNING", "RESET": "STANDBY", "EXIT": "DONE"},
		"RUNNING":    {"STOP": "CONFIGURED"},
		"ERROR":      {"RECOVER": "STANDBY", "EXIT": "DONE"},
		"DONE":       {},
	},
	image:          map[string]string{"STANDBY": "STANDBY", "CONFIGURED": "CONFIGURED", "RUNNING": "RUNNING", "ERROR": "ERROR", "DONE": "DONE"},
	invalidIsReply: true,
	errorState:     "ERROR", doneState: "DONE",
	states: []string{"STANDBY", "CONFIGURED", "RUNNING", "ERROR", "DONE"},
}

// deviceStateFor is the inverse of image on the stable states.
func (m *machine) deviceStateFor(o2 string) string {
	for d, s := range m.image {
		if s == o2 {
			return d
		}
	}
	return ""
}

// outcomes of one device step
const (
	oDone                = iota // performed; the device says so
	oRefused                    // not performed, the device stays where it is and says so
	oError                      // the device goes to its ERROR state and says so
	oTransportBefore            // the call fails before the device acted
	oTransportAfter             // the device performed the step, the answer is lost
	oTransportAfterError        // the device went to ERROR, the answer is lost
)

var outcomeName = []string{"done", "refused", "error", "transport-before", "transport-after", "transport-after-error"}

// reply is what an adversarial device answers in the reply-matrix scenario.
type reply struct {
	ok      bool
	trigger pb.StateChangeTrigger
	sameEvt bool
	state   string
	isNil   bool
}

// simdevice implements pb.OccClient.
type simdevice struct {
	m         *machine
	state     string
	nOutcomes int
	matrix    bool // adversarial reply enumeration instead of step outcomes

	calls       int
	steps       []string // "<event>@<state>=<outcome>" for every step the device decided on
	transport   bool     // some call ended in a transport error
	known       bool     // the last thing that changed/confirmed the state was answered to the executor
	firstBogus  string   // first request whose srcState did not match the device
	lastEvt     string   // last event the device decided on
	lastDone    bool
	lastFrom    string
	lastReply   *reply
	rolledBack  bool // a rollback step was performed
	rollbackSet map[string]string
}

func (d *simdevice) EventStream(ctx context.Context, in *pb.EventStreamRequest, opts ...grpc.CallOption) (pb.Occ_EventStreamClient, error) {
	return nil, status.Error(codes.Unimplemented, "simdevice")
}
func (d *simdevice) StateStream(ctx context.Context, in *pb.StateStreamRequest, opts ...grpc.CallOption) (pb.Occ_StateStreamClient, error) {
	return nil, status.Error(codes.Unimplemented, "simdevice")
}
func (d *simdevice) GetState(ctx context.Context, in *pb.GetStateRequest, opts ...grpc.CallOption) (*pb.GetStateReply, error) {
	return &pb.GetStateReply{State: d.state}, nil
}

func (d *simdevice) Transition(ctx context.Context, in *pb.TransitionRequest, opts ...grpc.CallOption) (*pb.TransitionReply, error) {
	d.calls++
	evt, src := in.GetTransitionEvent(), in.GetSrcState()
	// OCC contract: a request whose source state is not the current state is rejected, nothing happens
	if src != d.state {
		if d.firstBogus == "" {
			d.firstBogus = fmt.Sprintf("%s(src=%s)", evt, src)
		}
		return nil, status.Error(codes.InvalidArgument, "transition not possible: state mismatch: source: "+src+" current: "+d.state)
	}
	if d.state == d.m.doneState {
		return nil, status.Error(codes.FailedPrecondition, "transition not possible: current state: "+d.state)
	}
	target, valid := d.m.trans[d.state][evt]
	if !valid {
		if d.m.invalidIsReply {
			d.known = true
			return &pb.TransitionReply{Trigger: pb.StateChangeTrigger_DEVICE_INTENTIONAL, State: d.state, TransitionEvent: evt, Ok: false}, nil
		}
		return nil, status.Error(codes.Internal, "no transitions made, current state stays "+d.state)
	}
	if d.matrix {
		return d.matrixReply(evt, target)
	}
	from := d.state
	o := vrt.ChooseFree(d.nOutcomes, fmt.Sprintf("outcome of %s@%s", evt, from))
	d.steps = append(d.steps, fmt.Sprintf("%s@%s=%s", evt, from, outcomeName[o]))
	d.lastEvt, d.lastFrom, d.lastDone = evt, from, false
	switch o {
	case oDone:
		d.state, d.known, d.lastDone = target, true, true
		if d.rollbackSet[from] == evt {
			d.rolledBack = true
		}
		return &pb.TransitionReply{Trigger: pb.StateChangeTrigger_EXECUTOR, State: d.state, TransitionEvent: evt, Ok: true}, nil
	case oRefused:
		d.known = true
		return &pb.TransitionReply{Trigger: pb.StateChangeTrigger_DEVICE_INTENTIONAL, State: d.state, TransitionEvent: evt, Ok: false}, nil
	case oError:
		d.state, d.known = d.m.errorState, true
		return &pb.TransitionReply{Trigger: pb.StateChangeTrigger_DEVICE_ERROR, State: d.state, TransitionEvent: evt, Ok: false}, nil
	case oTransportBefore:
		d.transport, d.known = true, false
		return nil, status.Error(codes.Unavailable, "transport is closing")
	case oTransportAfter:
		d.state, d.transport, d.known, d.lastDone = target, true, false, true
		if d.rollbackSet[from] == evt {
			d.rolledBack = true
		}
		return nil, status.Error(codes.Unavailable, "transport is closing")
	default:
		d.state, d.transport, d.known = d.m.errorState, true, false
		return nil, status.Error(codes.Unavailable, "transport is closing")
	}
}

// matrixReply: the device answers with every combination of reply fields; it is
// always truthful about the state it is in (it really goes where it says).
func (d *simdevice) matrixReply(evt, target string) (*pb.TransitionReply, error) {
	from := d.state
	if vrt.ChooseFree(2, "nil reply") == 1 {
		d.lastReply = &reply{isNil: true}
		d.steps = append(d.steps, fmt.Sprintf("%s@%s=nil-reply", evt, from))
		return nil, nil
	}
	r := &reply{}
	r.ok = vrt.ChooseFree(2, "ok") == 0
	r.trigger = []pb.StateChangeTrigger{pb.StateChangeTrigger_EXECUTOR, pb.StateChangeTrigger_DEVICE_INTENTIONAL, pb.StateChangeTrigger_DEVICE_ERROR}[vrt.ChooseFree(3, "trigger")]
	r.sameEvt = vrt.ChooseFree(2, "event") == 0
	var other string
	for _, s := range d.m.states { // some stable state that is neither target, source nor ERROR
		if s != target && s != from && s != d.m.errorState && d.m.image[s] != "" {
			other = s
			break
		}
	}
	r.state = []string{target, from, d.m.errorState, other}[vrt.ChooseFree(4, "state")]
	d.state, d.known, d.lastReply = r.state, true, r
	repEvt := evt
	if !r.sameEvt {
		repEvt = "SOMETHING ELSE"
	}
	d.steps = append(d.steps, fmt.Sprintf("%s@%s=reply{ok=%v,%s,evt=%v,state=%s}", evt, from, r.ok, r.trigger, r.sameEvt, r.state))
	return &pb.TransitionReply{Trigger: r.trigger, State: r.state, TransitionEvent: repEvt, Ok: r.ok}, nil
}

// ---------------------------------------------------------------------------
// cases
// ---------------------------------------------------------------------------

type tcase struct {
	m          *machine
	evt        string
	src, dst   string // O² states named in the request
	actual     string // device state at the start (device vocabulary)
	multiStep  bool
	rollbackOf map[string]string // intermediate device state -> rollback event (from the property's mechanism)
	hist       string            // history scenarios: what the same client did before this request ("" = fresh client)
}

func (c tcase) id() string {
	s := fmt.Sprintf("%s/%s/%s", c.m.name, c.evt, c.src)
	if c.actual != c.m.deviceStateFor(c.src) {
		s += "(device in " + c.actual + ")"
	}
	if c.hist != "" {
		s += " after " + c.hist
	}
	return s
}

// class is the witness used in clause signatures: stale requests (the device is
// not in the claimed source) collapse into one class per event.
func (c tcase) class() string {
	h := ""
	if c.hist != "" {
		h = ":after=" + c.hist
	}
	if c.actual != c.m.deviceStateFor(c.src) {
		return fmt.Sprintf("%s/%s/stale-source", c.m.name, c.evt) + h
	}
	return fmt.Sprintf("%s/%s/%s", c.m.name, c.evt, c.src) + h
}

var o2dst = map[string]string{"CONFIGURE": "CONFIGURED", "START": "RUNNING", "STOP": "CONFIGURED", "RESET": "STANDBY", "EXIT": "DONE"}

// the transitions of the task state machine (handbook): event, source
var validPairs = [][2]string{
	{"CONFIGURE", "STANDBY"}, {"START", "CONFIGURED"}, {"STOP", "RUNNING"}, {"RESET", "CONFIGURED"},
	{"EXIT", "STANDBY"}, {"EXIT", "CONFIGURED"}, {"EXIT", "ERROR"},
}

func mkcase(m *machine, evt, src, actual string) tcase {
	c := tcase{m: m, evt: evt, src: src, dst: o2dst[evt], actual: actual}
	if m == fairmqMachine {
		switch {
		case evt == "CONFIGURE":
			// CONFIGURE = INIT DEVICE, COMPLETE INIT, BIND, CONNECT, INIT TASK with RESET DEVICE rollback
			c.multiStep = true
			c.rollbackOf = map[string]string{"INITIALIZED": "RESET DEVICE", "BOUND": "RESET DEVICE", "DEVICE READY": "RESET DEVICE"}
		case evt == "RESET", evt == "EXIT" && src == "CONFIGURED":
			// RESET = RESET TASK, RESET DEVICE with INIT TASK rollback; EXIT resets first
			c.multiStep = true
			c.rollbackOf = map[string]string{"DEVICE READY": "INIT TASK"}
		}
	}
	return c
}

func isValidPair(evt, src string) bool {
	for _, p := range validPairs {
		if p[0] == evt && p[1] == src {
			return true
		}
	}
	return false
}

func validCases(m *machine) (out []tcase) {
	for _, p := range validPairs {
		out = append(out, mkcase(m, p[0], p[1], m.deviceStateFor(p[1])))
	}
	return
}

// every event x every claimed source x every actual device state
func anyCases(m *machine) (out []tcase) {
	for _, evt := range []string{"CONFIGURE", "START", "STOP", "RESET", "EXIT"} {
		for _, src := range []string{"STANDBY", "CONFIGURED", "RUNNING", "ERROR"} {
			for _, actual := range m.states {
				if isValidPair(evt, src) && actual == m.deviceStateFor(src) {
					continue // covered by the main scenario
				}
				out = append(out, mkcase(m, evt, src, actual))
			}
		}
	}
	return
}

func singleStepCases(m *machine) (out []tcase) {
	for _, c := range validCases(m) {
		if !c.multiStep {
			out = append(out, c)
		}
	}
	return
}

// ---------------------------------------------------------------------------
// scenario
// ---------------------------------------------------------------------------

type result struct {
	c           tcase
	d           *simdevice
	state       string // state field of the transition response
	failed      bool   // the response carries an error
	commitState string
	commitErr   error
	finished    bool
}

func scenario(name, doc string, cases []tcase, matrix bool, nOutcomes int) *vrt.Scenario {
	var res *result
	mk := func(nOutcomes int) func() {
		return func() {
			res = nil
			c := cases[vrt.ChooseFree(len(cases), "case")]
			d := &simdevice{m: c.m, state: c.actual, nOutcomes: nOutcomes, matrix: matrix, rollbackSet: c.rollbackOf}
			lg := logrus.New()
			lg.SetOutput(io.Discard)
			rpc := executorcmd.NewClientForVerif(d, c.m.mode, logrus.NewEntry(lg).WithField("id", "task-c16"))
			cmd := executorcmd.NewLocalExecutorCommand_Transition(rpc.Transitioner, uid.New(), nil, c.src, c.evt, c.dst, nil)
			cmd.Arguments = map[string]string{"some.key": "some value"}
			r := &result{c: c, d: d}
			res = r
			r.commitState, r.commitErr = cmd.Commit()
			resp := cmd.PrepareResponse(r.commitErr, r.commitState, "task-c16")
			r.state, r.failed = resp.CurrentState, resp.Err() != nil
			r.finished = true
			vrt.Logf("%s steps=[%s] bogus=%q device=%s reported=%q failed=%v", c.id(), strings.Join(d.steps, ", "), d.firstBogus, d.state, r.state, r.failed)
		}
	}
	sc := &vrt.Scenario{Name: name, Prop: "C16", Doc: doc,
		Setup: func() { logrus.SetOutput(io.Discard) },
		Check: func(x *vrt.Exec) []vrt.Violation {
			if res == nil || !res.finished {
				return nil
			}
			return oracle(res)
		},
		NonTrivial:  func(x *vrt.Exec) bool { return res != nil && res.finished && res.d.calls > 0 },
		Quick:       vrt.Bounds{Dev: 0, Seconds: 60},
		Thorough:    vrt.Bounds{Dev: 0, Seconds: 600},
		PanicClause: "panic", DeadlockClause: "transition-hangs",
	}
	sc.Body = mk(nOutcomes)
	return sc
}

// ---------------------------------------------------------------------------
// oracle: the property statement, clause by clause
// ---------------------------------------------------------------------------

func oracle(r *result) (out []vrt.Violation) {
	c, d := r.c, r.d
	fail := func(clause, format string, a ...any) {
		out = append(out, vrt.Violation{Clause: clause, Detail: fmt.Sprintf(format, a...) +
			fmt.Sprintf("\ncase %s (request %s %s->%s, device started in %s)\ndevice steps: [%s]\nfirst request sent with a source state the device was not in: %q\ndevice really in: %s (image %q)\nreported: state=%q error=%v (%v)",
				c.id(), c.evt, c.src, c.dst, c.actual, strings.Join(d.steps, ", "), d.firstBogus, d.state, c.m.image[d.state], r.state, r.failed, r.commitErr)})
	}
	img := c.m.image[d.state]
	devDst := c.m.deviceStateFor(c.dst)

	// observation point 2: the state field / error of the transition response are what Commit returned
	if r.state != r.commitState || r.failed != (r.commitErr != nil) {
		fail("response-differs-from-commit:"+c.class(), "Commit returned (%q, %v) but the response says state=%q failed=%v", r.commitState, r.commitErr, r.state, r.failed)
	}
	// clause 1: a reported (non-empty) state is the image of the state the device is really in
	if r.state != "" && r.state != img {
		fail(fmt.Sprintf("wrong-state:%s:reported=%s,device=%s", c.m.name, r.state, d.state), "the reported state is not the image of the device state")
	}
	// clause 2: success is reported only if the device reached the destination
	if !r.failed && d.state != devDst {
		fail(fmt.Sprintf("success-not-at-destination:%s", c.class()), "success reported, but the device is in %s, not in %s", d.state, devDst)
	} else if !r.failed && r.state != c.dst {
		fail(fmt.Sprintf("success-with-other-state:%s", c.class()), "success reported with state %q, which is not the destination %s", r.state, c.dst)
	}
	// mechanism: a reply is accepted only if ok, executor-triggered, same event and expected state
	if d.matrix && !r.failed && d.lastReply != nil {
		lr := d.lastReply
		switch {
		case lr.isNil:
			fail("success-despite-unaccepted-reply:"+c.m.name+":nil-reply", "success reported on an empty reply")
		case !lr.ok:
			fail("success-despite-unaccepted-reply:"+c.m.name+":ok=false", "success reported although the device said the step failed")
		case lr.trigger != pb.StateChangeTrigger_EXECUTOR:
			fail("success-despite-unaccepted-reply:"+c.m.name+":trigger", "success reported although the state change was not triggered by the executor (%s)", lr.trigger)
		case !lr.sameEvt:
			fail("success-despite-unaccepted-reply:"+c.m.name+":event", "success reported on a reply for another event")
		}
	}
	// clause 1, unknown state: after a transport error the executor cannot know
	// where the device is, and reporting the empty state with an error is accepted.
	// Without one, every answer the device gave was delivered: if the device told
	// the executor the state it is (still) in, "unknown" is not the image of it.
	if r.state == "" && img != "" && d.known {
		after := d.firstBogus
		if after == "" {
			after = "-"
		}
		fail(fmt.Sprintf("unknown-reported-although-device-answered:%s:after=%s", c.class(), after),
			"the device told the executor it is in %s and has not moved since, but the executor reports the empty (unknown) state", d.state)
	}
	// clause 3: a multi-step transition that cannot complete is rolled back to its
	// source state whenever the device accepts the rollback. Judged only when the
	// executor saw every answer (no transport error) and the device started in the source.
	if c.multiStep && !d.transport && c.actual == c.m.deviceStateFor(c.src) && d.state != devDst {
		if rb, ok := c.rollbackOf[d.state]; ok {
			// stuck in an intermediate state that has a rollback step: fine only if
			// the device was asked for it and did not accept
			if !(d.lastEvt == rb && d.lastFrom == d.state && !d.lastDone) {
				fail(fmt.Sprintf("not-rolled-back:%s:left-in=%s", c.class(), d.state), "the device is left in %s; it was never asked for (and so never refused) the rollback step %s", d.state, rb)
			}
		}
		if d.rolledBack && d.state != c.actual {
			fail(fmt.Sprintf("not-rolled-back:%s:moved-after-rollback-to=%s", c.class(), d.state), "the device accepted the rollback to %s but ends in %s", c.actual, d.state)
		}
	}
	return out
}

// ---------------------------------------------------------------------------
// histories: several requests through ONE client and ONE transitioner, as in the
// life of a task (the statement speaks of "a transition request", the executor
// serves many with the same objects: whatever one request leaves behind in them
// must not colour the report of the next one)
// ---------------------------------------------------------------------------

// what the task did before the requests under test: every device step done (handbook order)
var walks = [][]string{
	{}, {"CONFIGURE"}, {"CONFIGURE", "START"}, {"CONFIGURE", "RESET"}, {"CONFIGURE", "START", "STOP"}, {"CONFIGURE", "START", "STOP", "RESET"},
}

// eventsFrom: the requests the task state machine (handbook) allows in an O² state
func eventsFrom(src string) (out []string) {
	for _, p := range validPairs {
		if p[1] == src {
			out = append(out, p[0])
		}
	}
	return
}

// begin: a new request arrives at the same device; the bookkeeping of the oracle starts afresh, the device stays where it is
func (d *simdevice) begin(c tcase, nOutcomes int) {
	d.nOutcomes, d.rollbackSet = nOutcomes, c.rollbackOf
	d.calls, d.steps, d.transport, d.known, d.firstBogus = 0, nil, false, false, ""
	d.lastEvt, d.lastDone, d.lastFrom, d.lastReply, d.rolledBack = "", false, "", nil, false
}

func history(name, doc string, m *machine) *vrt.Scenario {
	var results []*result
	var complete bool
	body := func() {
		results, complete = nil, false
		walk := walks[vrt.ChooseFree(len(walks), "walk")]
		d := &simdevice{m: m, state: m.deviceStateFor("STANDBY")}
		lg := logrus.New()
		lg.SetOutput(io.Discard)
		rpc := executorcmd.NewClientForVerif(d, m.mode, logrus.NewEntry(lg).WithField("id", "task-c16"))
		var hist []string
		commit := func(evt string, nOutcomes int) *result {
			// the core addresses the task in the state it was last told (truthfully) the task is in
			c := mkcase(m, evt, m.image[d.state], d.state)
			c.hist = strings.Join(hist, "+")
			d.begin(c, nOutcomes)
			cmd := executorcmd.NewLocalExecutorCommand_Transition(rpc.Transitioner, uid.New(), nil, c.src, c.evt, c.dst, nil)
			cmd.Arguments = map[string]string{"some.key": "some value"}
			r := &result{c: c}
			r.commitState, r.commitErr = cmd.Commit()
			resp := cmd.PrepareResponse(r.commitErr, r.commitState, "task-c16")
			r.state, r.failed = resp.CurrentState, resp.Err() != nil
			r.finished = true
			snap := *d
			r.d = &snap
			results = append(results, r)
			tag := evt
			if r.failed {
				tag += "(failed)"
			}
			hist = append(hist, tag)
			vrt.Logf("%s steps=[%s] bogus=%q device=%s reported=%q failed=%v", c.id(), strings.Join(d.steps, ", "), d.firstBogus, d.state, r.state, r.failed)
			return r
		}
		for _, evt := range walk {
			if r := commit(evt, 1); r.failed {
				return // judged like every other request, but it is not the history that was asked for
			}
		}
		// two requests in a row with every outcome of every device step; the second one (any request
		// the handbook allows in the state the device is really in: a retry after a rolled back attempt,
		// the next step after a success, EXIT after an error) only if the core can know that state
		for k := 0; k < 2; k++ {
			src := m.image[d.state]
			evs := eventsFrom(src)
			if len(evs) == 0 || (len(results) > 0 && results[len(results)-1].d.transport) {
				break
			}
			commit(evs[vrt.ChooseFree(len(evs), "event")], 6)
		}
		complete = true
	}
	return &vrt.Scenario{Name: name, Prop: "C16", Doc: doc, Body: body,
		Setup: func() { logrus.SetOutput(io.Discard) },
		Check: func(x *vrt.Exec) (out []vrt.Violation) {
			for _, r := range results {
				if r.finished {
					out = append(out, oracle(r)...)
				}
			}
			return out
		},
		NonTrivial:  func(x *vrt.Exec) bool { return complete && len(results) > 0 && results[len(results)-1].d.calls > 0 },
		Quick:       vrt.Bounds{Dev: 0, Seconds: 120},
		Thorough:    vrt.Bounds{Dev: 0, Seconds: 600},
		PanicClause: "panic", DeadlockClause: "transition-hangs",
	}
}

// ---------------------------------------------------------------------------
// state map (Direct enumeration)
// ---------------------------------------------------------------------------

func statemap() *vrt.Scenario {
	return &vrt.Scenario{Name: "statemap", Prop: "C16", Doc: "FromDeviceState of the real RpcClient for every device state of both control modes",
		Direct: func(r *vrt.DirectReport, tier string) {
			lg := logrus.New()
			lg.SetOutput(io.Discard)
			for _, m := range []*machine{fairmqMachine, directMachine} {
				rpc := executorcmd.NewClientForVerif(&simdevice{m: m}, m.mode, logrus.NewEntry(lg))
				for _, s := range append(append([]string{}, m.states...), "", "NO SUCH STATE") {
					got, want := rpc.FromDeviceState(s), m.image[s]
					if m == directMachine && want == "" {
						want = s // a directly controlled task speaks the O² vocabulary: identity
					}
					cls := "stable"
					if m.image[s] == "" {
						cls = "no-image"
					}
					verdict := "ok"
					if got != want {
						verdict = "WRONG"
						r.Fail(fmt.Sprintf("state-map:%s:%s", m.name, s), "FromDeviceState(%q) = %q, want %q", s, got, want)
					}
					r.Count(m.name + "/" + cls + "/" + verdict)
					r.Samples = append(r.Samples, fmt.Sprintf("%s FromDeviceState(%q)=%q", m.name, s, got))
				}
			}
			r.Notes = append(r.Notes, "grid: every device state of the FairMQ and OCC machines, the empty string and an unknown name")
		}}
}

func main() {
	vrt.Main([]*vrt.Scenario{
		scenario("fairmq", "FAIRMQ transitioner: every task transition from its source state, every outcome of every device step", validCases(fairmqMachine), false, 6),
		scenario("direct", "DIRECT transitioner: every task transition from its source state, every outcome of the device step", validCases(directMachine), false, 6),
		scenario("fairmq-anysrc", "FAIRMQ: every event x every claimed source x every actual device state (stale or impossible requests; all but the pairs of the main scenario)", anyCases(fairmqMachine), false, 6),
		scenario("direct-anysrc", "DIRECT: every event x every claimed source x every actual device state (all but the pairs of the main scenario)", anyCases(directMachine), false, 6),
		scenario("reply-matrix-fairmq", "FAIRMQ single-step transitions: every combination of reply fields (ok, trigger, event, state) and the empty reply", singleStepCases(fairmqMachine), true, 1),
		scenario("reply-matrix-direct", "DIRECT transitions: every combination of reply fields (ok, trigger, event, state) and the empty reply", singleStepCases(directMachine), true, 1),
		history("fairmq-history", "FAIRMQ, one client for the whole life of the task: a walk of successful transitions (none, CONFIGURE, CONFIGURE START, CONFIGURE RESET, CONFIGURE START STOP, CONFIGURE START STOP RESET), then two requests in a row (each: any request allowed in the device's real state), every outcome of every device step of both", fairmqMachine),
		history("direct-history", "DIRECT, one client for the whole life of the task: the same walks, then two requests in a row, every outcome of every device step of both", directMachine),
		statemap(),
	})
}

// smoke test of the core simulator (not a property check)
package main

import (
	"fmt"

	pb "github.com/AliceO2Group/Control/core/protos"
	"github.com/AliceO2Group/Control/verif_h/coresim"
	vrt "github.com/AliceO2Group/Control/verif_vrt"
)

func main() {
	wf := coresim.WorkflowSpec{Name: "wf1", Hosts: []string{"hostA"}, Tasks: []coresim.TaskSpec{
		{Name: "t1", Class: "c1", Mode: "direct", Critical: true, Host: "hostA"},
		{Name: "t2", Class: "c2", Mode: "direct", Critical: false, Host: "hostA"},
	}}
	coresim.GlobalSetup(wf)
	vrt.Main([]*vrt.Scenario{{
		Name: "smoke", Prop: "X",
		Cfg: vrt.Config{Preempt: func(k vrt.OpKind, s string) bool { return k != vrt.OpLock && k != vrt.OpRLock }, FreeSwitchCost: true},
		Body: func() {
			m := coresim.NewMaster(&coresim.Agent{ID: "agentA", Host: "hostA", Attributes: map[string]string{"machine_id": "hostA"}, Cpus: 4, Mem: 4096, PortLo: 9000, PortHi: 40000})
			w := coresim.NewWorld(m)
			vrt.Logf("subscribed fid=%s", m.FID)
			id, st, err := w.Create("wf1", nil)
			vrt.Logf("create -> %s %s err=%v", id, st, err)
			st, err = w.Control(id, pb.ControlEnvironmentRequest_START_ACTIVITY)
			vrt.Logf("start -> %s err=%v", st, err)
			st, err = w.Control(id, pb.ControlEnvironmentRequest_STOP_ACTIVITY)
			vrt.Logf("stop -> %s err=%v", st, err)
			err = w.Destroy(id, false, false, false)
			vrt.Logf("destroy err=%v envs=%v", err, w.Envs())
			vrt.Quiesce("end")
			for _, c := range m.Calls {
				vrt.Logf("call %s task=%s %s", c.Type, c.Task, c.Detail)
			}
			for _, t := range m.Tasks {
				vrt.Logf("task %s class=%s alive=%v state=%s msgs=%v", t.ID, t.Class, t.Alive, t.State, t.Messages)
			}
			vrt.Logf("vtime %v", vrt.VNow())
		},
		Quick: vrt.Bounds{Dev: 0, Seconds: 60},
	}})
	fmt.Println("done")
}

package coresim

import (
	"time"

	"github.com/AliceO2Group/Control/common/utils/uid"
	"github.com/AliceO2Group/Control/core/integration"
	"github.com/AliceO2Group/Control/core/workflow/callable"
	vrt "github.com/AliceO2Group/Control/verif_vrt"
)

// CallLog records every call of the "sim" integration plugin (role path of the call).
var CallLog []string

// CallFail makes sim.Call("<tag>") fail when CallFail[tag] is set.
var CallFail = map[string]bool{}

// CallDelay makes sim.Call("<tag>") take that much virtual time (a slow integrated service).
var CallDelay = map[string]time.Duration{}

type simPlugin struct{}

func (p *simPlugin) GetName() string                                       { return "sim" }
func (p *simPlugin) GetPrettyName() string                                 { return "verif sim plugin" }
func (p *simPlugin) GetEndpoint() string                                   { return "verif://sim" }
func (p *simPlugin) GetConnectionState() string                            { return "READY" }
func (p *simPlugin) GetData(_ []any) string                                { return "" }
func (p *simPlugin) GetEnvironmentsData(_ []uid.ID) map[uid.ID]string      { return nil }
func (p *simPlugin) GetEnvironmentsShortData(_ []uid.ID) map[uid.ID]string { return nil }
func (p *simPlugin) Init(_ string) error                                   { return nil }
func (p *simPlugin) Destroy() error                                        { return nil }
func (p *simPlugin) ObjectStack(_, _ map[string]string) map[string]interface{} {
	return map[string]interface{}{}
}
func (p *simPlugin) CallStack(data interface{}) map[string]interface{} {
	call, ok := data.(*callable.Call)
	if !ok {
		return nil
	}
	return map[string]interface{}{
		"Call": func(tag string) string {
			CallLog = append(CallLog, tag+"@"+call.Traits.Trigger)
			if OnPluginCall != nil {
				OnPluginCall(tag, call.Traits.Trigger)
			}
			if d := CallDelay[tag]; d > 0 {
				vrt.Sleep(d)
			}
			if CallFail[tag] {
				call.VarStack["__call_error"] = "sim call " + tag + " failed"
			}
			return ""
		},
	}
}

// OnPluginCall lets a harness observe plugin calls as they happen.
var OnPluginCall func(tag, trigger string)

func registerPlugin() {
	integration.RegisterPlugin("sim", "simEndpoint", func(string) integration.Plugin { return &simPlugin{} })
}

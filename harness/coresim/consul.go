package coresim

import (
	"encoding/base64"
	"encoding/json"
	"fmt"
	"io"
	"net/http"
	"sort"
	"strconv"
	"strings"
)

// Consul is a simulated Consul KV store behind an http.RoundTripper
// (GET single/recurse/keys, PUT with optional cas, DELETE; ModifyIndex semantics).
type Consul struct {
	KV    map[string]*kvEnt
	Index uint64
	Puts  []string
}

type kvEnt struct {
	Value          string
	Create, Modify uint64
}

// NewConsul creates an empty store.
func NewConsul() *Consul { return &Consul{KV: map[string]*kvEnt{}, Index: 10} }

// Set writes a key directly (fixture setup).
func (c *Consul) Set(key, value string) {
	c.Index++
	if e, ok := c.KV[key]; ok {
		e.Value, e.Modify = value, c.Index
	} else {
		c.KV[key] = &kvEnt{Value: value, Create: c.Index, Modify: c.Index}
	}
}

// Get reads a key directly.
func (c *Consul) Get(key string) (string, bool) {
	e, ok := c.KV[key]
	if !ok {
		return "", false
	}
	return e.Value, true
}

func (c *Consul) resp(req *http.Request, code int, body string) *http.Response {
	h := http.Header{}
	h.Set("X-Consul-Index", strconv.FormatUint(c.Index, 10))
	h.Set("X-Consul-LastContact", "0")
	h.Set("X-Consul-KnownLeader", "true")
	h.Set("Content-Type", "application/json")
	return &http.Response{StatusCode: code, Status: fmt.Sprintf("%d", code), Header: h, Body: io.NopCloser(strings.NewReader(body)), Request: req, Proto: "HTTP/1.1", ProtoMajor: 1, ProtoMinor: 1}
}

type kvJSON struct {
	LockIndex   uint64
	Key         string
	Flags       uint64
	Value       string
	CreateIndex uint64
	ModifyIndex uint64
}

// RoundTrip implements http.RoundTripper.
func (c *Consul) RoundTrip(req *http.Request) (*http.Response, error) {
	if !strings.HasPrefix(req.URL.Path, "/v1/kv/") {
		return c.resp(req, 404, ""), nil
	}
	key := strings.TrimPrefix(req.URL.Path, "/v1/kv/")
	q := req.URL.Query()
	switch req.Method {
	case "GET":
		_, recurse := q["recurse"]
		_, keysOnly := q["keys"]
		var names []string
		for k := range c.KV {
			if (recurse || keysOnly) && strings.HasPrefix(k, key) || k == key {
				names = append(names, k)
			}
		}
		sort.Strings(names)
		if len(names) == 0 {
			return c.resp(req, 404, ""), nil
		}
		if keysOnly {
			sep := q.Get("separator")
			seen := map[string]bool{}
			var out []string
			for _, k := range names {
				if sep != "" {
					rest := k[len(key):]
					if i := strings.Index(rest, sep); i >= 0 {
						k = key + rest[:i+len(sep)]
					}
				}
				if !seen[k] {
					seen[k] = true
					out = append(out, k)
				}
			}
			b, _ := json.Marshal(out)
			return c.resp(req, 200, string(b)), nil
		}
		var out []kvJSON
		for _, k := range names {
			e := c.KV[k]
			out = append(out, kvJSON{Key: k, Value: base64.StdEncoding.EncodeToString([]byte(e.Value)), CreateIndex: e.Create, ModifyIndex: e.Modify})
		}
		b, _ := json.Marshal(out)
		return c.resp(req, 200, string(b)), nil
	case "PUT":
		body, _ := io.ReadAll(req.Body)
		if cas, ok := q["cas"]; ok {
			want, _ := strconv.ParseUint(cas[0], 10, 64)
			e, exists := c.KV[key]
			if (want == 0 && exists) || (want != 0 && (!exists || e.Modify != want)) {
				return c.resp(req, 200, "false"), nil
			}
		}
		c.Set(key, string(body))
		c.Puts = append(c.Puts, key)
		return c.resp(req, 200, "true"), nil
	case "DELETE":
		c.Index++
		delete(c.KV, key)
		return c.resp(req, 200, "true"), nil
	}
	return c.resp(req, 405, ""), nil
}

package coresim

import (
	"github.com/mesos/mesos-go/api/v1/lib/scheduler"
)

// Additions for harnesses that break and re-establish the subscription (C18).
// Kept in a file of their own; nothing here changes the behaviour of Master.Call.

// TakeUndelivered closes the current subscription stream exactly like Drop and
// returns the events that had been queued on it but were not read yet, so that a
// harness can decide which of them Mesos would deliver again (unacknowledged
// status updates are retried, framework messages are not).
func (m *Master) TakeUndelivered() []*scheduler.Event {
	var out []*scheduler.Event
	for _, b := range m.queue {
		ev := &scheduler.Event{}
		if err := ev.Unmarshal(b); err == nil {
			out = append(out, ev)
		}
	}
	m.Drop()
	return out
}

// PushEvent queues one event on the current subscription stream.
func (m *Master) PushEvent(ev *scheduler.Event) { m.push(ev) }

// Connected tells whether a subscription stream is open.
func (m *Master) Connected() bool { return m.connected }

// Package coresim closes the whole core: real task.Manager, scheduler event
// handlers, CommandQueue/Servent, environment.Manager and RpcServer methods
// (called in-process) on top of a simulated Mesos master, simulated
// agents/executors and a generated workflow repository + configuration file.
package coresim

import (
	"context"
	"encoding/json"
	"errors"
	"fmt"
	"io"
	"sort"
	"strings"
	"time"

	"github.com/AliceO2Group/Control/common"
	"github.com/AliceO2Group/Control/core/controlcommands"
	vrt "github.com/AliceO2Group/Control/verif_vrt"
	mesos "github.com/mesos/mesos-go/api/v1/lib"
	"github.com/mesos/mesos-go/api/v1/lib/encoding"
	"github.com/mesos/mesos-go/api/v1/lib/scheduler"
)

// Outcome of one interaction with a simulated task.
type Outcome int

const (
	OK            Outcome = iota // does what it is asked
	ErrSource                    // error reply, task stays in the source state
	ErrError                     // error reply, task goes to ERROR
	Undeliverable                // the Caller returns an error for the MESSAGE
	Silent                       // no reply ever
	Dies                         // the task dies (TASK_FAILED), no reply
	NeverRunning                 // launch: accepted but never reports TASK_RUNNING
	LaunchFails                  // launch: TASK_FAILED instead of TASK_RUNNING
	SlowLaunch                   // launch: TASK_RUNNING is reported one virtual second after the ACCEPT (an executor that takes its time to come up)
	LateLaunch                   // launch: TASK_RUNNING is reported Master.LateLaunchDelay after the ACCEPT (default 75 s: after a 30 s deployment timeout)
	SlowReply                    // transition: done and acknowledged Master.SlowReplyDelay after the command arrived (default 60 s: within the response timeouts)
	LateReply                    // transition: done and acknowledged Master.LateReplyDelay after the command arrived (default 150 s: after every response timeout)
)

func (o Outcome) String() string {
	return [...]string{"ok", "err-source", "err-ERROR", "undeliverable", "silent", "dies", "never-running", "launch-fails", "slow-launch", "late-launch", "slow-reply", "late-reply"}[o]
}

// Agent is one simulated Mesos agent.
type Agent struct {
	ID, Host   string
	Attributes map[string]string
	Cpus, Mem  float64
	PortLo     uint64
	PortHi     uint64
	Executors  []string
	Lost       bool
}

// SimTask is what the master knows about a launched task.
type SimTask struct {
	ID, Name, AgentID, ExecutorID string
	Info                          mesos.TaskInfo
	Cmd                           common.TaskCommandInfo
	Class                         string // short task class name (from the task name)
	MesosState                    mesos.TaskState
	State                         string // device state machine state
	Alive                         bool
	Kills                         int
	EnvID                         string
	Messages                      []string // events of commands received (CONFIGURE, START, ...)
	LaunchOrder                   int
	// Args keeps, per transition event, the `arguments` of the last command of that kind
	// this task's executor received (nil map until the first one arrives).
	Args map[string]map[string]string
}

// CallRec is one call the framework made.
type CallRec struct {
	Type   string
	FID    string
	Task   string // task id for KILL / MESSAGE
	Detail string
	VT     int64
}

// Master is the simulated Mesos master. It survives core restarts.
type Master struct {
	Agents    []*Agent
	Tasks     map[string]*SimTask
	TaskOrder []string
	Calls     []CallRec
	FID       string
	// subscription stream of the current core life
	queue     [][]byte
	connected bool
	epoch     int
	offerSeq  int
	offers    map[string]*Agent // outstanding offers
	// Behaviour decides how a task reacts: kind is "launch", a transition event name, "hook" or "kill".
	Behaviour func(t *SimTask, kind string) Outcome
	// OnCall lets a harness observe calls as they happen (ownership joins).
	OnCall func(c *CallRec)
	// Observe is called at every framework call before OnCall (set by World: ownership history).
	Observe func()
	// AutoOffers: answer REVIVE (and SUBSCRIBE) with an offer round.
	AutoOffers     bool
	Reconcile      bool // answer implicit reconciliation with one update per known task
	launchSeq      int
	SubscribeCount int
	// HookTerminates: a triggered hook task runs to termination (BASIC_TASK_TERMINATED device event + final status).
	HookTerminates bool
	// AfterCall, if set, runs after a framework call has been handled completely
	// (replies / status updates it caused are already in the event stream).
	AfterCall func(c *CallRec)
	// LostIsSilent: MESSAGE calls for tasks whose executor or agent was reported lost
	// (FailExecutor / FailAgent) are accepted but nobody answers them (Mesos MESSAGE is
	// best effort); default false = the error reply of a live executor without that task.
	LostIsSilent bool
	lostExec     map[string]bool
	// ReconcileOmitExecutor: reconciliation answers are master-generated updates; the executor id is an optional
	// field of a task status and is left out of them when this is set
	ReconcileOmitExecutor bool
	// tasks lost while the framework was not connected (LoseWhileDisconnected): the implicit
	// reconciliation after the resubscription is the only way the framework learns about them
	reconLost map[string]bool
	// delays of the outcomes LateLaunch / SlowReply / LateReply (0 = the defaults named at the outcomes)
	LateLaunchDelay, SlowReplyDelay, LateReplyDelay time.Duration
	// OfferDelay > 0: the offer round that answers a REVIVE arrives that much (virtual time) later instead of
	// within the call (a master that takes a moment: the caller is parked on its outcome channel by then)
	OfferDelay time.Duration
	// ReconcileDelay > 0: the answers to a RECONCILE call reach the framework that much (virtual time) later.
	ReconcileDelay time.Duration
}

// NewMaster creates a master with the given agents.
func NewMaster(agents ...*Agent) *Master {
	return &Master{Agents: agents, Tasks: map[string]*SimTask{}, offers: map[string]*Agent{}, AutoOffers: true, Reconcile: true,
		Behaviour: func(*SimTask, string) Outcome { return OK }}
}

func (m *Master) push(ev *scheduler.Event) {
	b, err := ev.Marshal()
	if err != nil {
		panic(err)
	}
	m.queue = append(m.queue, b)
}

// Drop closes the current subscription stream (connection loss / core crash).
func (m *Master) Drop() {
	m.connected = false
	m.epoch++
	m.queue = nil
}

type stream struct {
	m     *Master
	epoch int
}

func (s *stream) Close() error { return nil }
func (s *stream) Decode(u encoding.Unmarshaler) error {
	m := s.m
	vrt.WaitUntil("mesos-event-stream", func() bool { return len(m.queue) > 0 || m.epoch != s.epoch })
	if m.epoch != s.epoch {
		return io.EOF
	}
	b := m.queue[0]
	m.queue = m.queue[1:]
	return u.Unmarshal(b)
}

type nullResp struct{}

func (nullResp) Close() error                      { return nil }
func (nullResp) Decode(encoding.Unmarshaler) error { return io.EOF }

func (m *Master) rec(c CallRec) *CallRec {
	c.VT = int64(vrt.VNow())
	m.Calls = append(m.Calls, c)
	r := &m.Calls[len(m.Calls)-1]
	if m.Observe != nil {
		m.Observe()
	}
	if m.OnCall != nil {
		m.OnCall(r)
	}
	return r
}

// Call implements calls.Caller.
func (m *Master) Call(ctx context.Context, c *scheduler.Call) (mesos.Response, error) {
	n0 := len(m.Calls)
	resp, err := m.call(ctx, c)
	if m.AfterCall != nil && len(m.Calls) > n0 {
		m.AfterCall(&m.Calls[len(m.Calls)-1])
	}
	return resp, err
}

func (m *Master) call(ctx context.Context, c *scheduler.Call) (mesos.Response, error) {
	fid := ""
	if c.FrameworkID != nil {
		fid = c.FrameworkID.Value
	}
	switch c.GetType() {
	case scheduler.Call_SUBSCRIBE:
		m.SubscribeCount++
		if f := c.GetSubscribe().GetFrameworkInfo().GetID(); f != nil && fid == "" {
			fid = f.Value
		}
		m.rec(CallRec{Type: "SUBSCRIBE", FID: fid})
		if fid == "" {
			if m.FID == "" {
				m.FID = "fw-0001"
			}
			fid = m.FID
		} else {
			m.FID = fid
		}
		m.epoch++
		m.queue = nil
		m.connected = true
		m.push(&scheduler.Event{Type: scheduler.Event_SUBSCRIBED, Subscribed: &scheduler.Event_Subscribed{FrameworkID: &mesos.FrameworkID{Value: fid}}})
		return &stream{m, m.epoch}, nil
	case scheduler.Call_REVIVE:
		m.rec(CallRec{Type: "REVIVE", FID: fid})
		if m.AutoOffers {
			if m.OfferDelay > 0 {
				vrt.AfterFunc(m.OfferDelay, m.SendOffers)
			} else {
				m.SendOffers()
			}
		}
	case scheduler.Call_DECLINE:
		var ids []string
		for _, o := range c.GetDecline().GetOfferIDs() {
			ids = append(ids, o.Value)
			delete(m.offers, o.Value)
		}
		m.rec(CallRec{Type: "DECLINE", FID: fid, Detail: strings.Join(ids, ",")})
	case scheduler.Call_ACCEPT:
		m.accept(fid, c.GetAccept())
	case scheduler.Call_KILL:
		return m.kill(fid, c.GetKill())
	case scheduler.Call_MESSAGE:
		return m.message(fid, c.GetMessage())
	case scheduler.Call_RECONCILE:
		m.rec(CallRec{Type: "RECONCILE", FID: fid})
		if m.Reconcile && m.ReconcileDelay > 0 {
			// the answers are those of the instant of the call; they reach the framework later
			var evs []*scheduler.Event
			for _, id := range m.TaskOrder {
				if t := m.Tasks[id]; t.Alive && !m.reconLost[id] {
					r, ms := mesos.REASON_RECONCILIATION, t.MesosState
					evs = append(evs, &scheduler.Event{Type: scheduler.Event_UPDATE, Update: &scheduler.Event_Update{Status: mesos.TaskStatus{
						TaskID: mesos.TaskID{Value: t.ID}, State: &ms, AgentID: &mesos.AgentID{Value: t.AgentID},
						ExecutorID: &mesos.ExecutorID{Value: t.ExecutorID}, Reason: &r, Source: mesos.SOURCE_MASTER.Enum()}}})
				}
			}
			ep := m.epoch
			vrt.AfterFunc(m.ReconcileDelay, func() {
				if m.epoch != ep || !m.connected {
					return
				}
				for _, ev := range evs {
					m.push(ev)
				}
			})
		} else if m.Reconcile {
			for _, id := range m.TaskOrder {
				t := m.Tasks[id]
				if m.reconLost[id] {
					// the master no longer has the task's agent: TASK_LOST, reason RECONCILIATION (answered once)
					delete(m.reconLost, id)
					r, st := mesos.REASON_RECONCILIATION, mesos.TASK_LOST
					msg := "agent removed while the framework was disconnected"
					m.push(&scheduler.Event{Type: scheduler.Event_UPDATE, Update: &scheduler.Event_Update{Status: mesos.TaskStatus{
						TaskID: mesos.TaskID{Value: t.ID}, State: &st, AgentID: &mesos.AgentID{Value: t.AgentID},
						ExecutorID: &mesos.ExecutorID{Value: t.ExecutorID}, Reason: &r, Message: &msg, Source: mesos.SOURCE_MASTER.Enum()}}})
					continue
				}
				if t.Alive {
					r := mesos.REASON_RECONCILIATION
					st := mesos.TaskStatus{TaskID: mesos.TaskID{Value: t.ID}, State: &t.MesosState, AgentID: &mesos.AgentID{Value: t.AgentID},
						ExecutorID: &mesos.ExecutorID{Value: t.ExecutorID}, Reason: &r, Source: mesos.SOURCE_MASTER.Enum()}
					if m.ReconcileOmitExecutor {
						st.ExecutorID = nil
					}
					m.push(&scheduler.Event{Type: scheduler.Event_UPDATE, Update: &scheduler.Event_Update{Status: st}})
				}
			}
		}
	case scheduler.Call_ACKNOWLEDGE:
		m.rec(CallRec{Type: "ACKNOWLEDGE", FID: fid, Task: c.GetAcknowledge().GetTaskID().Value})
	default:
		m.rec(CallRec{Type: c.GetType().String(), FID: fid})
	}
	return nullResp{}, nil
}

// SendOffers pushes one OFFERS event with one offer per live agent.
func (m *Master) SendOffers() {
	if !m.connected {
		return
	}
	var offers []mesos.Offer
	for _, a := range m.Agents {
		if a.Lost {
			continue
		}
		m.offerSeq++
		oid := fmt.Sprintf("offer-%04d", m.offerSeq)
		m.offers[oid] = a
		o := mesos.Offer{ID: mesos.OfferID{Value: oid}, FrameworkID: mesos.FrameworkID{Value: m.FID}, AgentID: mesos.AgentID{Value: a.ID}, Hostname: a.Host}
		var names []string
		for k := range a.Attributes {
			names = append(names, k)
		}
		sort.Strings(names)
		for _, k := range names {
			o.Attributes = append(o.Attributes, mesos.Attribute{Name: k, Type: mesos.TEXT, Text: &mesos.Value_Text{Value: a.Attributes[k]}})
		}
		cpus, mem := a.Cpus, a.Mem
		usedPorts := map[uint64]bool{}
		for _, t := range m.Tasks {
			if t.Alive && t.AgentID == a.ID {
				for _, r := range t.Info.Resources {
					switch r.GetName() {
					case "cpus":
						cpus -= r.GetScalar().GetValue()
					case "mem":
						mem -= r.GetScalar().GetValue()
					case "ports":
						for _, rg := range r.GetRanges().GetRange() {
							for p := rg.Begin; p <= rg.End; p++ {
								usedPorts[p] = true
							}
						}
					}
				}
			}
		}
		o.Resources = append(o.Resources,
			mesos.Resource{Name: "cpus", Type: mesos.SCALAR.Enum(), Scalar: &mesos.Value_Scalar{Value: cpus}},
			mesos.Resource{Name: "mem", Type: mesos.SCALAR.Enum(), Scalar: &mesos.Value_Scalar{Value: mem}})
		if a.PortHi >= a.PortLo && a.PortHi > 0 {
			var rs []mesos.Value_Range
			start := uint64(0)
			in := false
			for p := a.PortLo; p <= a.PortHi; p++ {
				if !usedPorts[p] {
					if !in {
						start, in = p, true
					}
				} else if in {
					rs = append(rs, mesos.Value_Range{Begin: start, End: p - 1})
					in = false
				}
			}
			if in {
				rs = append(rs, mesos.Value_Range{Begin: start, End: a.PortHi})
			}
			o.Resources = append(o.Resources, mesos.Resource{Name: "ports", Type: mesos.RANGES.Enum(), Ranges: &mesos.Value_Ranges{Range: rs}})
		}
		for _, e := range a.Executors {
			o.ExecutorIDs = append(o.ExecutorIDs, mesos.ExecutorID{Value: e})
		}
		offers = append(offers, o)
	}
	if len(offers) > 0 {
		m.push(&scheduler.Event{Type: scheduler.Event_OFFERS, Offers: &scheduler.Event_Offers{Offers: offers}})
	}
}

func (m *Master) agent(id string) *Agent {
	for _, a := range m.Agents {
		if a.ID == id {
			return a
		}
	}
	return nil
}

func (m *Master) status(t *SimTask, st mesos.TaskState, msg string) {
	t.MesosState = st
	s := st
	uuid := []byte(fmt.Sprintf("st-%s-%d", t.ID, len(m.Calls)))
	m.push(&scheduler.Event{Type: scheduler.Event_UPDATE, Update: &scheduler.Event_Update{Status: mesos.TaskStatus{
		TaskID: mesos.TaskID{Value: t.ID}, State: &s, AgentID: &mesos.AgentID{Value: t.AgentID},
		ExecutorID: &mesos.ExecutorID{Value: t.ExecutorID}, Message: &msg, UUID: uuid, Source: mesos.SOURCE_EXECUTOR.Enum()}}})
}

func (m *Master) accept(fid string, a *scheduler.Call_Accept) {
	var oids []string
	for _, o := range a.GetOfferIDs() {
		oids = append(oids, o.Value)
		delete(m.offers, o.Value)
	}
	n := 0
	for _, op := range a.GetOperations() {
		if op.GetType() != mesos.Offer_Operation_LAUNCH {
			continue
		}
		for _, ti := range op.GetLaunch().GetTaskInfos() {
			n++
			m.launchSeq++
			t := &SimTask{ID: ti.TaskID.Value, Name: ti.Name, AgentID: ti.AgentID.Value, Info: ti, State: "STANDBY", Alive: true, LaunchOrder: m.launchSeq}
			if ti.Executor != nil {
				t.ExecutorID = ti.Executor.ExecutorID.Value
			}
			_ = json.Unmarshal(ti.Data, &t.Cmd)
			if i := strings.Index(ti.Name, "#"); i >= 0 {
				t.Class = ti.Name[:i]
				if j := strings.LastIndex(t.Class, "/"); j >= 0 {
					t.Class = t.Class[j+1:]
				}
				if j := strings.Index(t.Class, "@"); j >= 0 {
					t.Class = t.Class[:j]
				}
			}
			for _, l := range ti.GetLabels().GetLabels() {
				if l.Key == "environmentId" && l.Value != nil {
					t.EnvID = *l.Value
				}
			}
			m.Tasks[t.ID] = t
			m.TaskOrder = append(m.TaskOrder, t.ID)
			if ag := m.agent(t.AgentID); ag != nil && t.ExecutorID != "" {
				have := false
				for _, e := range ag.Executors {
					if e == t.ExecutorID {
						have = true
					}
				}
				if !have {
					ag.Executors = append(ag.Executors, t.ExecutorID)
				}
			}
			switch m.Behaviour(t, "launch") {
			case NeverRunning:
				t.MesosState = mesos.TASK_STAGING
			case LaunchFails:
				t.Alive = false
				m.status(t, mesos.TASK_FAILED, "launch failed")
			case SlowLaunch:
				t.MesosState = mesos.TASK_STAGING
				tt := t
				vrt.AfterFunc(time.Second, func() {
					if tt.Alive && tt.MesosState == mesos.TASK_STAGING {
						m.status(tt, mesos.TASK_RUNNING, "")
					}
				})
			case LateLaunch:
				t.MesosState = mesos.TASK_STAGING
				tt := t
				d := m.LateLaunchDelay
				if d == 0 {
					d = 75 * time.Second
				}
				vrt.AfterFunc(d, func() {
					if tt.Alive && tt.MesosState == mesos.TASK_STAGING {
						m.status(tt, mesos.TASK_RUNNING, "")
					}
				})
			default:
				m.status(t, mesos.TASK_RUNNING, "")
			}
		}
	}
	m.rec(CallRec{Type: "ACCEPT", FID: fid, Detail: fmt.Sprintf("offers=%s tasks=%d", strings.Join(oids, ","), n)})
}

func (m *Master) kill(fid string, k *scheduler.Call_Kill) (mesos.Response, error) {
	id := k.GetTaskID().Value
	m.rec(CallRec{Type: "KILL", FID: fid, Task: id})
	t := m.Tasks[id]
	if t == nil {
		return nullResp{}, nil
	}
	t.Kills++
	switch m.Behaviour(t, "kill") {
	case Undeliverable:
		return nil, errors.New("simulated: KILL call failed")
	case Silent:
		return nullResp{}, nil
	}
	if t.Alive {
		t.Alive = false
		t.State = "DONE"
		m.status(t, mesos.TASK_KILLED, "killed on request")
	}
	return nullResp{}, nil
}

// message delivers a framework message to the simulated executor of the target task.
func (m *Master) message(fid string, msg *scheduler.Call_Message) (mesos.Response, error) {
	var head struct {
		Name       string `json:"name"`
		TargetList []struct {
			TaskId struct{ Value string } `json:"taskId"`
		} `json:"targetList"`
	}
	_ = json.Unmarshal(msg.Data, &head)
	tid := ""
	if len(head.TargetList) == 1 {
		tid = head.TargetList[0].TaskId.Value
	}
	t := m.Tasks[tid]
	reply := func(payload any) {
		b, _ := json.Marshal(payload)
		m.push(&scheduler.Event{Type: scheduler.Event_MESSAGE, Message: &scheduler.Event_Message{
			AgentID: msg.AgentID, ExecutorID: msg.ExecutorID, Data: b}})
	}
	switch head.Name {
	case "MesosCommand_Transition":
		var cmd controlcommands.MesosCommand_Transition
		_ = json.Unmarshal(msg.Data, &cmd)
		r := m.rec(CallRec{Type: "MESSAGE", FID: fid, Task: tid, Detail: cmd.Event})
		if t != nil && m.LostIsSilent && m.lostExec[t.AgentID+"/"+t.ExecutorID] {
			r.Detail += " (executor lost, dropped)"
			return nullResp{}, nil
		}
		if t == nil || !t.Alive {
			reply(controlcommands.NewMesosCommandResponse_Transition(&cmd, fmt.Errorf("no active task %s", tid), "", tid))
			return nullResp{}, nil
		}
		t.Messages = append(t.Messages, cmd.Event)
		if t.Args == nil {
			t.Args = map[string]map[string]string{}
		}
		args := map[string]string{}
		for k, v := range cmd.Arguments {
			args[k] = v
		}
		t.Args[cmd.Event] = args
		switch o := m.Behaviour(t, cmd.Event); o {
		case Undeliverable:
			r.Detail += " (undeliverable)"
			return nil, errors.New("simulated: MESSAGE call failed")
		case Silent:
		case Dies:
			t.Alive = false
			t.State = "DONE"
			m.status(t, mesos.TASK_FAILED, "task died during "+cmd.Event)
		case ErrSource:
			reply(controlcommands.NewMesosCommandResponse_Transition(&cmd, fmt.Errorf("transition %s refused", cmd.Event), t.State, tid))
		case ErrError:
			t.State = "ERROR"
			reply(controlcommands.NewMesosCommandResponse_Transition(&cmd, fmt.Errorf("transition %s failed, device in ERROR", cmd.Event), "ERROR", tid))
		case SlowReply, LateReply:
			// the device takes its time: the transition happens, and is acknowledged, only after the delay
			d := m.SlowReplyDelay
			if d == 0 {
				d = 60 * time.Second
			}
			if o == LateReply {
				if d = m.LateReplyDelay; d == 0 {
					d = 150 * time.Second
				}
			}
			tt, c := t, cmd
			vrt.AfterFunc(d, func() {
				if !tt.Alive {
					return
				}
				if tt.State != c.Source {
					reply(controlcommands.NewMesosCommandResponse_Transition(&c, fmt.Errorf("task is in %s, not in %s", tt.State, c.Source), tt.State, tid))
				} else {
					tt.State = c.Destination
					reply(controlcommands.NewMesosCommandResponse_Transition(&c, nil, tt.State, tid))
				}
			})
		default:
			if t.State != cmd.Source {
				reply(controlcommands.NewMesosCommandResponse_Transition(&cmd, fmt.Errorf("task is in %s, not in %s", t.State, cmd.Source), t.State, tid))
			} else {
				t.State = cmd.Destination
				reply(controlcommands.NewMesosCommandResponse_Transition(&cmd, nil, t.State, tid))
			}
		}
	case "MesosCommand_TriggerHook":
		var cmd controlcommands.MesosCommand_TriggerHook
		_ = json.Unmarshal(msg.Data, &cmd)
		m.rec(CallRec{Type: "MESSAGE", FID: fid, Task: tid, Detail: "TRIGGER"})
		if t == nil || !t.Alive {
			reply(controlcommands.NewMesosCommandResponse_TriggerHook(&cmd, fmt.Errorf("no active task %s", tid), tid))
			return nullResp{}, nil
		}
		t.Messages = append(t.Messages, "TRIGGER")
		switch m.Behaviour(t, "hook") {
		case Undeliverable:
			return nil, errors.New("simulated: MESSAGE call failed")
		case Silent:
		default:
			reply(controlcommands.NewMesosCommandResponse_TriggerHook(&cmd, nil, tid))
			if m.HookTerminates {
				// the hook process runs and terminates: kind "hook-exit" decides how
				var exit int
				voluntary := true
				final := mesos.TASK_FINISHED
				switch m.Behaviour(t, "hook-exit") {
				case ErrSource:
					exit, final = 3, mesos.TASK_FAILED
				case ErrError:
					voluntary, final = false, mesos.TASK_KILLED
				case Dies:
					// the process was killed by a signal (segfault, OOM killer): Go's ProcessState.ExitCode() is -1,
					// the executor reports that together with voluntaryTermination=true and TASK_FAILED
					exit, final = -1, mesos.TASK_FAILED
				case Silent:
					return nullResp{}, nil // never terminates: the environment's hook timeout must fire
				}
				t.Alive = false
				t.State = "DONE"
				m.DeviceEvent(t, map[string]any{"type": 2 /* BASIC_TASK_TERMINATED */, "origin": map[string]any{
					"agentId": map[string]string{"value": t.AgentID}, "executorId": map[string]string{"value": t.ExecutorID}, "taskId": map[string]string{"value": t.ID}},
					"labels": map[string]string{"environmentId": t.EnvID}, "exitCode": exit, "voluntaryTermination": voluntary, "finalMesosState": int(final)})
				m.status(t, final, "hook terminated")
			}
		}
	default:
		m.rec(CallRec{Type: "MESSAGE", FID: fid, Task: tid, Detail: head.Name})
	}
	return nullResp{}, nil
}

// FailTask makes a task terminate on its own with the given Mesos state.
func (m *Master) FailTask(t *SimTask, st mesos.TaskState) {
	if !t.Alive {
		return
	}
	t.Alive = false
	t.State = "DONE"
	m.status(t, st, "task terminated on its own")
}

// LoseWhileDisconnected: the subscription is dropped, and while the framework is away the task is lost
// with its agent (no status update can be delivered). When the framework resubscribes and reconciles,
// the master answers TASK_LOST with REASON_RECONCILIATION for it - the only notification there will be.
func (m *Master) LoseWhileDisconnected(t *SimTask) {
	if !t.Alive {
		return
	}
	m.Drop()
	t.Alive = false
	t.State = "DONE"
	t.MesosState = mesos.TASK_LOST
	if m.reconLost == nil {
		m.reconLost = map[string]bool{}
	}
	m.reconLost[t.ID] = true
}

// FailExecutor reports the loss of an executor (FAILURE event).
func (m *Master) FailExecutor(agentID, execID string) {
	if m.lostExec == nil {
		m.lostExec = map[string]bool{}
	}
	m.lostExec[agentID+"/"+execID] = true
	for _, t := range m.Tasks {
		if t.ExecutorID == execID {
			t.Alive = false
		}
	}
	st := int32(1)
	m.push(&scheduler.Event{Type: scheduler.Event_FAILURE, Failure: &scheduler.Event_Failure{
		AgentID: &mesos.AgentID{Value: agentID}, ExecutorID: &mesos.ExecutorID{Value: execID}, Status: &st}})
}

// FailAgent reports the loss of an agent (FAILURE event without executor).
func (m *Master) FailAgent(agentID string) {
	if a := m.agent(agentID); a != nil {
		a.Lost = true
	}
	if m.lostExec == nil {
		m.lostExec = map[string]bool{}
	}
	for _, t := range m.Tasks {
		if t.AgentID == agentID {
			t.Alive = false
			m.lostExec[agentID+"/"+t.ExecutorID] = true
		}
	}
	m.push(&scheduler.Event{Type: scheduler.Event_FAILURE, Failure: &scheduler.Event_Failure{AgentID: &mesos.AgentID{Value: agentID}}})
}

// DeviceEvent sends an executor->framework device event (e.g. TASK_INTERNAL_ERROR, END_OF_STREAM, BASIC_TASK_TERMINATED).
func (m *Master) DeviceEvent(t *SimTask, payload map[string]any) {
	payload["_messageType"] = "DeviceEvent"
	b, _ := json.Marshal(payload)
	m.push(&scheduler.Event{Type: scheduler.Event_MESSAGE, Message: &scheduler.Event_Message{
		AgentID: mesos.AgentID{Value: t.AgentID}, ExecutorID: mesos.ExecutorID{Value: t.ExecutorID}, Data: b}})
}

// AliveTasks lists the tasks the master still holds alive, in launch order.
func (m *Master) AliveTasks() []*SimTask {
	var out []*SimTask
	for _, id := range m.TaskOrder {
		if t := m.Tasks[id]; t.Alive {
			out = append(out, t)
		}
	}
	return out
}

// CallsOf filters the call log.
func (m *Master) CallsOf(typ string) []CallRec {
	var out []CallRec
	for _, c := range m.Calls {
		if c.Type == typ {
			out = append(out, c)
		}
	}
	return out
}

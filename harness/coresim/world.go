package coresim

import (
	"context"
	"fmt"
	"io"
	stdlog "log"
	"os"
	"path/filepath"
	"sort"
	"strings"

	"net/http"

	"github.com/AliceO2Group/Control/apricot"
	"github.com/AliceO2Group/Control/apricot/local"
	"time"

	"github.com/AliceO2Group/Control/common/event/topic"
	evpb "github.com/AliceO2Group/Control/common/protos"
	"github.com/AliceO2Group/Control/core"
	pb "github.com/AliceO2Group/Control/core/protos"
	"github.com/AliceO2Group/Control/core/task"
	"github.com/AliceO2Group/Control/core/the"
	vrt "github.com/AliceO2Group/Control/verif_vrt"
	"github.com/sirupsen/logrus"
	"github.com/spf13/viper"
)

// TaskSpec describes one task role of a generated workflow.
type TaskSpec struct {
	Name       string // role name
	Class      string // task class name (file tasks/<class>.yaml)
	Mode       string // direct | fairmq | basic | hook
	Critical   bool
	Host       string // machine_id constraint ("" = anywhere)
	Trigger    string // for hooks
	Extra      string // extra YAML lines of the role (indented 4 spaces)
	ClassExtra string // extra YAML of the task class (top level)
	Cpu, Mem   float64
	// Group, if not empty, nests the role inside an aggregator role of that name
	// (consecutive tasks with the same Group share one aggregator): root -> group -> role.
	Group string
	// OmitCritical leaves the `critical` trait out of the role (the handbook's default applies: critical)
	OmitCritical bool
}

// WorkflowSpec describes a generated workflow template.
type WorkflowSpec struct {
	Name  string
	Hosts []string // value of the `hosts` variable (JSON list) -> detectors
	Tasks []TaskSpec
	Calls []string // extra YAML role blocks (call roles), indented 2 spaces
	Vars  map[string]string
	// RootExtra is extra YAML of the root role (top level of the file, not indented).
	RootExtra string
	// GroupExtra is extra YAML of an aggregator role created by TaskSpec.Group (indented 4 spaces).
	GroupExtra map[string]string
}

var (
	fixDir     string
	fixWritten = map[string]bool{}
)

// Dir returns the process-wide fixture directory.
func Dir() string {
	if fixDir == "" {
		d, err := os.MkdirTemp(os.Getenv("VERIF_WORK"), "coresim-")
		if err != nil {
			d, _ = os.MkdirTemp("", "coresim-")
		}
		fixDir = d
		vrt.AtExit(func() { os.RemoveAll(d) })
		os.MkdirAll(filepath.Join(d, "repo", ".git"), 0o755)
		os.MkdirAll(filepath.Join(d, "repo", "workflows"), 0o755)
		os.MkdirAll(filepath.Join(d, "repo", "tasks"), 0o755)
		os.MkdirAll(filepath.Join(d, "work"), 0o755)
	}
	return fixDir
}

// Inventory maps hosts to detectors for the configuration backend.
var Inventory = map[string]string{"hostA": "TST", "hostB": "ITS", "hostC": "TST"}

// Store is the simulated Consul of the process; its content is reset by ResetStore.
var Store = NewConsul()

type storeRT struct{}

func (storeRT) RoundTrip(r *http.Request) (*http.Response, error) { return Store.RoundTrip(r) }

// ResetStore restores the initial configuration content (call in Scenario.Setup).
func ResetStore() {
	Store = NewConsul()
	for h, det := range Inventory {
		Store.Set("o2/hardware/detectors/"+det+"/flps/"+h+"/cards", "{}")
	}
	Store.Set("o2/runtime/aliecs/defaults/verif_default", "1")
	Store.Set("o2/runtime/aliecs/vars/verif_var", "1")
	Store.Set("o2/runtime/aliecs/default_repo", filepath.Join(Dir(), "repo"))
}

// GlobalSetup prepares viper, the configuration store and the repository once per process.
func GlobalSetup(wfs ...WorkflowSpec) {
	stdlog.SetOutput(io.Discard)
	if os.Getenv("VERIF_LOG") == "" {
		logrus.SetOutput(io.Discard)
		logrus.SetLevel(logrus.PanicLevel)
	} else {
		logrus.SetLevel(logrus.DebugLevel)
	}
	d := Dir()
	for _, wf := range wfs {
		WriteWorkflow(wf)
	}
	if err := core.SetDefaultsForVerif(); err != nil {
		panic(err)
	}
	viper.Set("enableKafka", false)
	viper.Set("configCache", false)
	viper.Set("config_endpoint", "consul://simconsul:8500")
	viper.Set("coreWorkingDir", filepath.Join(d, "work"))
	viper.Set("reposPath", filepath.Join(d, "repos"))
	viper.Set("defaultRepo", filepath.Join(d, "repo"))
	viper.Set("globalDefaultRevision", "local")
	viper.Set("executor", "/bin/o2control-executor")
	viper.Set("executorCPU", 0.01)
	viper.Set("executorMemory", 1.0)
	viper.Set("mesosReviveBurst", 3)
	viper.Set("mesosReviveWait", "1s")
	viper.Set("mesosFailoverTimeout", "168h")
	viper.Set("mesosCheckpoint", true)
	viper.Set("mesosFrameworkName", "verif")
	viper.Set("mesosFrameworkUser", "root")
	viper.Set("mesosFrameworkRole", "*")
	viper.Set("reuseUnlockedTasks", false)
	registerPlugin()
	viper.Set("integrationPlugins", []string{"sim"})
	viper.Set("simEndpoint", "verif://sim")
	ResetStore()
	svc, ok := apricot.Instance().(*local.Service)
	if !ok {
		panic("coresim: apricot instance is not a local service")
	}
	if err := svc.SetHTTPClientForCoresim(&http.Client{Transport: storeRT{}}); err != nil {
		panic(err)
	}
}

// WriteWorkflow generates workflows/<name>.yaml and the task classes it uses.
func WriteWorkflow(wf WorkflowSpec) {
	d := Dir()
	var b strings.Builder
	fmt.Fprintf(&b, "name: %s\n", wf.Name)
	b.WriteString("defaults:\n")
	hosts := "[]"
	if len(wf.Hosts) > 0 {
		hosts = "[\"" + strings.Join(wf.Hosts, "\",\"") + "\"]"
	}
	fmt.Fprintf(&b, "  hosts: '%s'\n  deploy_timeout: \"30s\"\n", hosts)
	var vk []string
	for k := range wf.Vars {
		vk = append(vk, k)
	}
	sort.Strings(vk)
	for _, k := range vk {
		fmt.Fprintf(&b, "  %s: %q\n", k, wf.Vars[k])
	}
	if wf.RootExtra != "" {
		b.WriteString(wf.RootExtra)
	}
	b.WriteString("roles:\n")
	curGroup := ""
	for _, t := range wf.Tasks {
		var rb strings.Builder
		fmt.Fprintf(&rb, "  - name: %q\n", t.Name)
		if t.Host != "" {
			fmt.Fprintf(&rb, "    constraints:\n      - attribute: machine_id\n        value: %q\n", t.Host)
		}
		if t.Extra != "" {
			rb.WriteString(t.Extra)
		}
		if t.OmitCritical {
			fmt.Fprintf(&rb, "    task:\n      load: %s\n", t.Class)
		} else {
			fmt.Fprintf(&rb, "    task:\n      load: %s\n      critical: %v\n", t.Class, t.Critical)
		}
		if t.Trigger != "" {
			fmt.Fprintf(&rb, "      trigger: %s\n      timeout: 10s\n", t.Trigger)
		}
		if t.Group != curGroup {
			curGroup = t.Group
			if curGroup != "" {
				fmt.Fprintf(&b, "  - name: %q\n", curGroup)
				if x := wf.GroupExtra[curGroup]; x != "" {
					b.WriteString(x)
				}
				b.WriteString("    roles:\n")
			}
		}
		if curGroup != "" {
			for _, l := range strings.SplitAfter(rb.String(), "\n") {
				if l != "" {
					b.WriteString("    " + l)
				}
			}
		} else {
			b.WriteString(rb.String())
		}
		writeClass(t)
	}
	for _, c := range wf.Calls {
		b.WriteString(c)
	}
	os.WriteFile(filepath.Join(d, "repo", "workflows", wf.Name+".yaml"), []byte(b.String()), 0o644)
}

// RemoveWorkflow deletes the files WriteWorkflow generated for wf (harnesses that
// generate one workflow per explored input call it at the end of the execution).
func RemoveWorkflow(wf WorkflowSpec) {
	d := Dir()
	os.Remove(filepath.Join(d, "repo", "workflows", wf.Name+".yaml"))
	for _, t := range wf.Tasks {
		os.Remove(filepath.Join(d, "repo", "tasks", t.Class+".yaml"))
	}
}

func writeClass(t TaskSpec) {
	d := Dir()
	cpu, mem := t.Cpu, t.Mem
	if cpu == 0 {
		cpu = 0.1
	}
	if mem == 0 {
		mem = 16
	}
	var b strings.Builder
	fmt.Fprintf(&b, "name: %s\ncontrol:\n  mode: %s\nwants:\n  cpu: %v\n  memory: %v\n", t.Class, t.Mode, cpu, mem)
	b.WriteString("command:\n  shell: true\n  value: \"/bin/true\"\n  user: root\n")
	if t.ClassExtra != "" {
		b.WriteString(t.ClassExtra)
	}
	os.WriteFile(filepath.Join(d, "repo", "tasks", t.Class+".yaml"), []byte(b.String()), 0o644)
}

// EnvEvent is one captured environment event (published state reports).
type EnvEvent struct {
	Env, State, Transition, Step, Message, Error string
}

type capWriter struct{ w *World }

func (c *capWriter) WriteEvent(e interface{}) { c.WriteEventWithTimestamp(e, time.Time{}) }
func (c *capWriter) WriteEventWithTimestamp(e interface{}, ts time.Time) {
	switch ev := e.(type) {
	case *evpb.Ev_EnvironmentEvent:
		c.w.EnvEvents = append(c.w.EnvEvents, EnvEvent{ev.EnvironmentId, ev.State, ev.Transition, ev.TransitionStep, ev.Message, ev.Error})
	case *evpb.Ev_RunEvent:
		c.w.RunEvents = append(c.w.RunEvents, ev)
		c.w.RunEventTS = append(c.w.RunEventTS, ts)
	}
}
func (c *capWriter) Close() {}

// World is one execution's closed system.
type World struct {
	M          *Master
	Core       *core.VerifCore
	Life       int
	EnvEvents  []EnvEvent
	RunEvents  []*evpb.Ev_RunEvent
	RunEventTS []time.Time
	// ownership history (see Poll): task id -> environment it was seen locked by; task ids the core saw ACTIVE
	EverOwned    map[string]string
	EverActive   map[string]bool
	EverInRoster map[string]bool
}

// NewWorld starts a core (life 1) on top of master m. Call inside a controlled execution.
func NewWorld(m *Master) *World {
	w := &World{M: m, EverOwned: map[string]string{}, EverActive: map[string]bool{}, EverInRoster: map[string]bool{}}
	m.Observe = w.Poll
	task.RosterAppendHookForVerif = func(id string) { w.EverInRoster[id] = true }
	vrt.OnIdle(w.Poll)
	w.StartCore()
	return w
}

// Poll records the ownership history: which environment each roster task was seen locked by, and
// whether the core ever saw it ACTIVE. Called at every framework call reaching the master and by
// the RPC helpers before and after every request.
func (w *World) Poll() {
	if w.Core == nil || w.Core.Taskman == nil || w.EverOwned == nil {
		return
	}
	for _, t := range w.Core.Taskman.RosterForVerif() {
		id := t.GetTaskId()
		if w.EverInRoster != nil {
			w.EverInRoster[id] = true
		}
		if o := t.OwnerForVerif(); o != "" {
			w.EverOwned[id] = o
		}
		if t.ActiveForVerif() {
			w.EverActive[id] = true
		}
	}
}

// StartCore starts a (new) core life.
func (w *World) StartCore() {
	the.ResetEventWritersForVerif()
	the.SetEventWriterForVerif(topic.Environment, &capWriter{w})
	the.SetEventWriterForVerif(topic.Run, &capWriter{w})
	CallLog = nil
	c, err := core.NewCoreForVerif(w.M)
	if err != nil {
		panic(err)
	}
	w.Core = c
	w.Life++
	// let it subscribe
	vrt.Quiesce("core-start")
}

// RPC helpers -------------------------------------------------------------------------

// Create calls the NewEnvironment RPC.
func (w *World) Create(workflow string, vars map[string]string) (id string, state string, err error) {
	w.Poll()
	defer w.Poll()
	rep, err := w.Core.Rpc.NewEnvironment(context.Background(), &pb.NewEnvironmentRequest{WorkflowTemplate: workflow, Vars: vars})
	if rep != nil && rep.Environment != nil {
		id, state = rep.Environment.Id, rep.Environment.State
	}
	return
}

// Control calls the ControlEnvironment RPC.
func (w *World) Control(id string, op pb.ControlEnvironmentRequest_Optype) (state string, err error) {
	w.Poll()
	defer w.Poll()
	rep, err := w.Core.Rpc.ControlEnvironment(context.Background(), &pb.ControlEnvironmentRequest{Id: id, Type: op})
	if rep != nil {
		state = rep.State
	}
	return
}

// Destroy calls the DestroyEnvironment RPC.
func (w *World) Destroy(id string, force, allowRunning, keepTasks bool) error {
	w.Poll()
	defer w.Poll()
	_, err := w.Core.Rpc.DestroyEnvironment(context.Background(), &pb.DestroyEnvironmentRequest{Id: id, Force: force, AllowInRunningState: allowRunning, KeepTasks: keepTasks})
	return err
}

// EnvState returns the state reported by GetEnvironment ("" + error if unknown).
func (w *World) EnvState(id string) (string, error) {
	rep, err := w.Core.Rpc.GetEnvironment(context.Background(), &pb.GetEnvironmentRequest{Id: id})
	if err != nil || rep == nil || rep.Environment == nil {
		return "", err
	}
	return rep.Environment.State, nil
}

// Envs lists environment ids and states.
func (w *World) Envs() map[string]string {
	out := map[string]string{}
	rep, err := w.Core.Rpc.GetEnvironments(context.Background(), &pb.GetEnvironmentsRequest{ShowAll: true})
	if err == nil && rep != nil {
		for _, e := range rep.Environments {
			out[e.Id] = e.State
		}
	}
	return out
}

// Cleanup calls the CleanupTasks RPC.
func (w *World) Cleanup(ids []string) error {
	_, err := w.Core.Rpc.CleanupTasks(context.Background(), &pb.CleanupTasksRequest{TaskIds: ids})
	return err
}

// ActiveDetectors calls GetActiveDetectors.
func (w *World) ActiveDetectors() []string {
	rep, err := w.Core.Rpc.GetActiveDetectors(context.Background(), &pb.Empty{})
	if err != nil || rep == nil {
		return nil
	}
	out := append([]string{}, rep.Detectors...)
	sort.Strings(out)
	return out
}

// TaskOwners maps every task in the core's roster to its owning environment ("" = none).
func (w *World) TaskOwners() map[string]string {
	out := map[string]string{}
	for _, t := range w.Core.Taskman.RosterForVerif() {
		out[t.GetTaskId()] = t.OwnerForVerif()
	}
	return out
}

// TaskLocked maps every task in the core's roster to Task.IsLocked().
func (w *World) TaskLocked() map[string]bool {
	out := map[string]bool{}
	for _, t := range w.Core.Taskman.RosterForVerif() {
		out[t.GetTaskId()] = t.LockedForVerif()
	}
	return out
}

// InterComponent is the point policy of the whole-core harnesses (see DESIGN 2.1).
func InterComponent(kind vrt.OpKind, site string) bool {
	switch kind {
	case vrt.OpLock, vrt.OpRLock:
		return false
	}
	return true
}

// BreakFixture writes the deliberately broken fixture files used by creation-failure scenarios.
func BreakFixture() {
	d := Dir()
	os.WriteFile(filepath.Join(d, "repo", "workflows", "c06-badyaml.yaml"), []byte("name: c06-badyaml\nroles:\n  - name: [unclosed\n    task: {load: x\n"), 0o644)
	os.Remove(filepath.Join(d, "repo", "tasks", "c06noclass.yaml"))
	// workflow c06-noclass refers to a class whose file is missing
	if b, err := os.ReadFile(filepath.Join(d, "repo", "workflows", "c06-noclass.yaml")); err == nil {
		os.WriteFile(filepath.Join(d, "repo", "workflows", "c06-noclass.yaml"), []byte(strings.ReplaceAll(string(b), "load: c06a", "load: c06missing")), 0o644)
	}
	// class file whose name field does not match its file name
	os.WriteFile(filepath.Join(d, "repo", "tasks", "c06m.yaml"), []byte("name: someothername\ncontrol:\n  mode: direct\nwants:\n  cpu: 0.1\n  memory: 16\ncommand:\n  shell: true\n  value: \"/bin/true\"\n  user: root\n"), 0o644)
}

// EnvTasksAndDetectors returns the task ids in the environment's role tree and its included detectors.
func (w *World) EnvTasksAndDetectors(id string) (tasks []string, detectors []string) {
	rep, err := w.Core.Rpc.GetEnvironment(context.Background(), &pb.GetEnvironmentRequest{Id: id})
	if err != nil || rep == nil || rep.Environment == nil {
		return nil, nil
	}
	for _, t := range rep.Environment.Tasks {
		tasks = append(tasks, t.TaskId)
	}
	detectors = append(detectors, rep.Environment.IncludedDetectors...)
	sort.Strings(detectors)
	return
}

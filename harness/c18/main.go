// C18: a restarted core kills what it no longer owns, and only that.
//
// Whole-core simulation (package coresim) with two lives of the core inside one
// execution. The simulated Mesos master and the simulated Consul store survive
// the crash; the core's threads are frozen at the crash instant
// (vrt.FreezeOthers = kill -9) and a new core is started through the same real
// start-up path (core.NewCoreForVerif -> newGlobalState -> task.NewManager,
// which reads aliecs/mesos_fid from the store).
//
// Fault points are enumerated exhaustively (free choices, no sampling):
//   - crash: in front of every call the core makes to the master, from its very
//     first SUBSCRIBE to the last ACKNOWLEDGE of the teardown, plus "after the
//     script". Between two consecutive calls neither the master nor the store
//     changes, so these are all the crash points that life 2 can tell apart.
//   - reconnection: right after every call (what that call left on the stream
//     is in flight when the connection breaks) and at every quiescent step
//     boundary (DEPLOYED+CONFIGURED, RUNNING, CONFIGURED again, destroyed).
//
// The oracle is written from the statement, see check*().
package main

import (
	"context"
	"errors"
	"fmt"
	"os"
	"runtime"
	"sort"
	"strings"
	"time"

	"github.com/AliceO2Group/Control/core"
	pb "github.com/AliceO2Group/Control/core/protos"
	"github.com/AliceO2Group/Control/core/the"
	"github.com/AliceO2Group/Control/verif_h/coresim"
	vrt "github.com/AliceO2Group/Control/verif_vrt"
	mesos "github.com/mesos/mesos-go/api/v1/lib"
	"github.com/mesos/mesos-go/api/v1/lib/encoding"
	"github.com/mesos/mesos-go/api/v1/lib/scheduler"
)

// ---------------------------------------------------------------------------------------
// the connection between one life of the core and the master

type callRec struct {
	Life      int
	N         int // ordinal among the calls of this life (1-based)
	Type      string
	FID       string // framework id the core put on the call ("" = none)
	Task      string
	Detail    string
	Owner     string // KILL: environment the task was locked by in this life's roster at the instant of the call
	Recon     bool   // KILL: this life had been sent a reconciliation update for the task before
	Teardown  bool   // KILL: the operator had asked for the teardown of Owner before
	Rejected  string // not forwarded to the master: why
	MesosSt   string // KILL: state the master held for the task
	TaskAlive bool
	VT        time.Duration // virtual time of the call
	Class     string        // KILL: class of the task
	EnvID     string        // KILL: environment the task was launched for
	// KILL: the call was issued while the task manager was handling a status update (the reconciliation branch),
	// not by a kill / cleanup request
	ViaStatusUpdate bool
	EverInRoster    bool // KILL: the roster of this life has ever been seen holding the task
	TeardownEnv     bool // KILL: the operator had asked for the teardown of EnvID before
	TaskLife        int  // KILL: life of the core that launched the task
}

// sim is the per-execution state shared by all lives.
type sim struct {
	m       *coresim.Master
	calls   []callRec
	perLife map[int]int
	cores   map[int]*core.VerifCore
	dead    map[int]bool
	taskFID map[string]string // framework a task was launched under
	fidSeq  int
	fidOf   map[int]string // framework id the master registered a life under (last SUBSCRIBE)
	told    map[int]string // framework id a life has been told (a SUBSCRIBED event was read by it)
	// reconciliation updates sent, per life
	recon map[int]map[string]string // life -> task -> mesos state reported
	// status updates read but not acknowledged yet (Mesos retries them after a reconnection)
	unacked      map[string]*scheduler.Event
	unackedOrder []string
	redeliver    []*scheduler.Event
	teardown     map[string]bool // environments whose teardown the operator requested
	envLife      map[string]int  // environment -> life of the core in which its creation succeeded
	envFailed    map[string]bool // environments a request of which failed (the API then moves them to ERROR / tears them down)
	// fault injection
	mode      string // "crash" | "reconnect" | ""
	faultLife int
	armed     bool
	crashed   bool
	faultAt   string // description of the chosen fault point
	drops     int
	slowKill  time.Duration // the master takes this long to answer a KILL call (the caller waits)
	faultCall string        // reconnect: kind of the call right after which the connection was dropped ("" = idle / timed)
	// roster history per life (sampled at every call and at every idle moment): tasks ever seen in the roster
	inRoster map[int]map[string]bool
	taskLife map[string]int // life of the core that launched the task
	// environments that have come to an end on their own (their creation failed): index into calls from which on
	endedAt map[string]int
}

// sample records which tasks the roster of the given life holds right now.
func (s *sim) sample(life int) {
	c := s.cores[life]
	if c == nil || c.Taskman == nil || s.dead[life] {
		return
	}
	if s.inRoster[life] == nil {
		s.inRoster[life] = map[string]bool{}
	}
	for _, t := range c.Taskman.RosterForVerif() {
		s.inRoster[life][t.GetTaskId()] = true
	}
}

// watch makes the roster history complete enough: besides every call, every moment at which the system waits.
func (s *sim) watch(w *coresim.World) {
	vrt.OnIdle(func() { s.sample(w.Life) })
}

// viaStatusUpdate: is the calling thread inside the task manager's message handler (status updates, and with
// them the reconciliation branch, are handled there; kill and cleanup requests are not)?
func viaStatusUpdate() bool {
	pcs := make([]uintptr, 64)
	n := runtime.Callers(2, pcs)
	frames := runtime.CallersFrames(pcs[:n])
	for {
		f, more := frames.Next()
		if strings.HasSuffix(f.Function, "(*Manager).handleMessage") {
			return true
		}
		if !more {
			return false
		}
	}
}

func newSim(m *coresim.Master) *sim {
	return &sim{m: m, perLife: map[int]int{}, cores: map[int]*core.VerifCore{}, dead: map[int]bool{}, taskFID: map[string]string{},
		fidOf: map[int]string{}, told: map[int]string{}, recon: map[int]map[string]string{}, unacked: map[string]*scheduler.Event{}, teardown: map[string]bool{}, envLife: map[string]int{}, envFailed: map[string]bool{},
		inRoster: map[int]map[string]bool{}, taskLife: map[string]int{}, endedAt: map[string]int{}}
}

type link struct {
	s    *sim
	life int
}

func never() bool { return false }

// statusRetry is the agents' retry interval for unacknowledged status updates (Mesos: 10 s, doubling).
const statusRetry = 10 * time.Second

type obsStream struct {
	s     *sim
	life  int
	inner mesos.Response
}

func (o *obsStream) Close() error { return o.inner.Close() }
func (o *obsStream) Decode(u encoding.Unmarshaler) error {
	err := o.inner.Decode(u)
	if err != nil {
		return err
	}
	if ev, ok := u.(*scheduler.Event); ok && ev.GetType() == scheduler.Event_SUBSCRIBED {
		o.s.told[o.life] = ev.GetSubscribed().GetFrameworkID().GetValue()
	}
	if ev, ok := u.(*scheduler.Event); ok && ev.GetType() == scheduler.Event_UPDATE {
		if uuid := ev.GetUpdate().Status.UUID; len(uuid) > 0 {
			cp := &scheduler.Event{}
			if b, e := ev.Marshal(); e == nil && cp.Unmarshal(b) == nil {
				if _, have := o.s.unacked[string(uuid)]; !have {
					o.s.unackedOrder = append(o.s.unackedOrder, string(uuid))
				}
				o.s.unacked[string(uuid)] = cp
			}
		}
	}
	return nil
}

type nullResp struct{}

func (nullResp) Close() error                      { return nil }
func (nullResp) Decode(encoding.Unmarshaler) error { return errors.New("EOF") }

func callFID(c *scheduler.Call) string {
	if c.FrameworkID != nil && c.FrameworkID.Value != "" {
		return c.FrameworkID.Value
	}
	if f := c.GetSubscribe().GetFrameworkInfo().GetID(); f != nil {
		return f.Value
	}
	return ""
}

func (s *sim) owner(life int, task string) string {
	c := s.cores[life]
	if c == nil {
		return ""
	}
	for _, t := range c.Taskman.RosterForVerif() {
		if t.GetTaskId() == task {
			return t.OwnerForVerif()
		}
	}
	return ""
}

// breakConnection drops the subscription stream; unacknowledged status updates will be retried.
func (s *sim) breakConnection() {
	pend := s.m.TakeUndelivered()
	s.drops++
	var again []*scheduler.Event
	for _, id := range s.unackedOrder {
		if ev := s.unacked[id]; ev != nil {
			again = append(again, ev)
		}
	}
	for _, ev := range pend {
		if ev.GetType() == scheduler.Event_UPDATE && len(ev.GetUpdate().Status.UUID) > 0 {
			again = append(again, ev)
		}
	}
	s.unacked, s.unackedOrder = map[string]*scheduler.Event{}, nil
	s.redeliver = append(s.redeliver, again...)
}

// Call implements calls.Caller for one life of the core.
func (l *link) Call(ctx context.Context, c *scheduler.Call) (mesos.Response, error) {
	s := l.s
	if s.dead[l.life] {
		// a thread of a killed process that had not been frozen yet: it can do nothing any more
		vrt.WaitUntil("dead-process", never)
	}
	typ := c.GetType().String()
	s.sample(l.life)
	// --- crash point: in front of this call
	if s.armed && s.mode == "crash" && l.life == s.faultLife {
		if vrt.ChooseFree(2, "crash-before-call") == 1 {
			s.armed = false
			s.crashed = true
			s.dead[l.life] = true
			s.faultAt = fmt.Sprintf("before call #%d %s", s.perLife[l.life]+1, describe(c))
			vrt.WaitUntil("dead-process", never)
		}
	}
	s.perLife[l.life]++
	rec := callRec{Life: l.life, N: s.perLife[l.life], Type: typ, FID: callFID(c)}
	defer func() {
		// --- reconnection point: right after this call
		if s.armed && s.mode == "reconnect" && l.life == s.faultLife {
			if vrt.ChooseFree(2, "drop-after-call") == 1 {
				s.armed = false
				s.faultAt = fmt.Sprintf("after call #%d %s", rec.N, describe(c))
				s.faultCall = describe(c)
				s.breakConnection()
			}
		}
	}()
	fwd := c
	switch c.GetType() {
	case scheduler.Call_SUBSCRIBE:
		fid := rec.FID
		if fid == "" {
			// a framework that registers without an id is a new framework
			s.fidSeq++
			fid = fmt.Sprintf("fw-%04d", s.fidSeq)
			cc := *c
			sub := *c.Subscribe
			fi := *sub.FrameworkInfo
			fi.ID = &mesos.FrameworkID{Value: fid}
			sub.FrameworkInfo = &fi
			cc.Subscribe = &sub
			cc.FrameworkID = &mesos.FrameworkID{Value: fid}
			fwd = &cc
		}
		s.fidOf[l.life] = fid
		s.calls = append(s.calls, rec)
		resp, err := s.m.Call(ctx, fwd)
		if err != nil {
			return resp, err
		}
		if len(s.redeliver) > 0 {
			// status updates the core never acknowledged are retried by the agents, whatever the framework does
			evs, at := s.redeliver, s.drops
			s.redeliver = nil
			vrt.Go("agent-status-update-retry", func() {
				vrt.Sleep(statusRetry)
				if s.drops == at && s.m.Connected() && !s.dead[l.life] {
					for _, ev := range evs {
						s.m.PushEvent(ev)
					}
				}
			})
		}
		return &obsStream{s, l.life, resp}, nil
	}
	if !s.m.Connected() || s.fidOf[l.life] != rec.FID {
		rec.Rejected = "framework is not subscribed"
		if k := c.GetKill(); k != nil {
			rec.Task = k.TaskID.Value
		}
		s.calls = append(s.calls, rec)
		return nil, errors.New("simulated master: 403 framework is not subscribed")
	}
	switch c.GetType() {
	case scheduler.Call_ACCEPT:
		before := len(s.m.TaskOrder)
		resp, err := s.m.Call(ctx, c)
		for _, id := range s.m.TaskOrder[before:] {
			s.taskFID[id] = rec.FID
			s.taskLife[id] = l.life
		}
		rec.Detail = fmt.Sprintf("tasks=%d", len(s.m.TaskOrder)-before)
		s.calls = append(s.calls, rec)
		return resp, err
	case scheduler.Call_RECONCILE:
		// the master answers for the tasks of the asking framework only
		var hidden []*coresim.SimTask
		if s.recon[l.life] == nil {
			s.recon[l.life] = map[string]string{}
		}
		var names []string
		for _, id := range s.m.TaskOrder {
			t := s.m.Tasks[id]
			if !t.Alive {
				continue
			}
			if s.taskFID[id] != rec.FID {
				t.Alive = false
				hidden = append(hidden, t)
				continue
			}
			s.recon[l.life][id] = t.MesosState.String()
			names = append(names, t.MesosState.String())
		}
		resp, err := s.m.Call(ctx, c)
		for _, t := range hidden {
			t.Alive = true
		}
		rec.Detail = "answers=" + strings.Join(names, ",")
		s.calls = append(s.calls, rec)
		return resp, err
	case scheduler.Call_KILL:
		id := c.GetKill().GetTaskID().Value
		rec.Task = id
		rec.Owner = s.owner(l.life, id)
		_, rec.Recon = s.recon[l.life][id]
		rec.Teardown = s.teardown[rec.Owner]
		rec.VT = vrt.VNow()
		if t := s.m.Tasks[id]; t != nil {
			rec.MesosSt, rec.TaskAlive, rec.Class, rec.EnvID = t.MesosState.String(), t.Alive, t.Class, t.EnvID
		}
		rec.ViaStatusUpdate = viaStatusUpdate()
		rec.EverInRoster = s.inRoster[l.life][id]
		rec.TeardownEnv = s.teardown[rec.EnvID]
		rec.TaskLife = s.taskLife[id]

		if s.taskFID[id] != rec.FID {
			rec.Rejected = "task belongs to another framework"
			s.calls = append(s.calls, rec)
			return nullResp{}, nil
		}
		s.calls = append(s.calls, rec)
		if t := s.m.Tasks[id]; t == nil || !t.Alive {
			// Mesos: a KILL for a task the master does not hold as active makes it reconcile that task
			// explicitly; the framework is told the terminal state (TASK_LOST) with REASON_RECONCILIATION.
			s.m.Calls = append(s.m.Calls, coresim.CallRec{Type: "KILL", FID: rec.FID, Task: id, Detail: "not active"})
			st, r := mesos.TASK_LOST, mesos.REASON_RECONCILIATION
			agent := c.GetKill().GetAgentID()
			s.m.PushEvent(&scheduler.Event{Type: scheduler.Event_UPDATE, Update: &scheduler.Event_Update{Status: mesos.TaskStatus{
				TaskID: mesos.TaskID{Value: id}, State: &st, AgentID: agent, Reason: &r, Source: mesos.SOURCE_MASTER.Enum()}}})
			return nullResp{}, nil
		}
		resp, err := s.m.Call(ctx, c)
		if s.slowKill > 0 {
			vrt.Sleep(s.slowKill) // the master acted at once, its answer to the call takes its time
		}
		return resp, err
	case scheduler.Call_ACKNOWLEDGE:
		rec.Task = c.GetAcknowledge().GetTaskID().Value
		delete(s.unacked, string(c.GetAcknowledge().GetUUID()))
		s.calls = append(s.calls, rec)
		return s.m.Call(ctx, c)
	}
	n0 := len(s.m.Calls)
	resp, err := s.m.Call(ctx, c)
	if len(s.m.Calls) > n0 {
		rec.Task, rec.Detail = s.m.Calls[n0].Task, s.m.Calls[n0].Detail
	}
	s.calls = append(s.calls, rec)
	return resp, err
}

func describe(c *scheduler.Call) string {
	switch c.GetType() {
	case scheduler.Call_MESSAGE:
		var ev string
		d := string(c.GetMessage().GetData())
		for _, e := range []string{"CONFIGURE", "START", "STOP", "RESET", "EXIT", "TriggerHook"} {
			if strings.Contains(d, "\"event\":\""+e+"\"") || (e == "TriggerHook" && strings.Contains(d, "MesosCommand_TriggerHook")) {
				ev = e
			}
		}
		return "MESSAGE/" + ev
	}
	return c.GetType().String()
}

// ---------------------------------------------------------------------------------------
// world

func agents() []*coresim.Agent {
	return []*coresim.Agent{
		{ID: "agentA", Host: "hostA", Attributes: map[string]string{"machine_id": "hostA"}, Cpus: 8, Mem: 8192, PortLo: 9000, PortHi: 40000},
		{ID: "agentB", Host: "hostB", Attributes: map[string]string{"machine_id": "hostB"}, Cpus: 8, Mem: 8192, PortLo: 9000, PortHi: 40000},
	}
}

// startCore starts one life of the core on its own connection (same steps as coresim.World.StartCore).
func startCore(w *coresim.World, s *sim) (life int) {
	the.ResetEventWritersForVerif()
	w.Life++
	life = w.Life
	c, err := core.NewCoreForVerif(&link{s, life})
	if err != nil {
		panic(err)
	}
	w.Core = c
	s.cores[life] = c
	vrt.Quiesce("core-start")
	return
}

func settle(d time.Duration) {
	vrt.Quiesce("settle")
	vrt.Sleep(d)
	vrt.Quiesce("settle2")
}

func tasksOf(w *coresim.World) []string {
	rep, err := w.Core.Rpc.GetTasks(context.Background(), &pb.GetTasksRequest{})
	var out []string
	if err == nil && rep != nil {
		for _, t := range rep.Tasks {
			out = append(out, t.TaskId)
		}
	}
	sort.Strings(out)
	return out
}

type shape struct {
	name   string
	wfs    []string // workflows created one after the other (one environment each)
	script []string // steps
}

// steps: "create:<i>", "start:<i>", "stop:<i>", "destroy:<i>"
var (
	specs = []coresim.WorkflowSpec{
		{Name: "c18-one", Hosts: []string{"hostA"}, Tasks: []coresim.TaskSpec{
			{Name: "t0", Class: "c18one0", Mode: "direct", Critical: true, Host: "hostA"}}},
		{Name: "c18-two", Hosts: []string{"hostA"}, Tasks: []coresim.TaskSpec{
			{Name: "t0", Class: "c18two0", Mode: "direct", Critical: true, Host: "hostA"},
			{Name: "t1", Class: "c18two1", Mode: "fairmq", Critical: false, Host: "hostB"}}},
		{Name: "c18-b", Hosts: []string{"hostB"}, Tasks: []coresim.TaskSpec{
			{Name: "t0", Class: "c18b0", Mode: "direct", Critical: true, Host: "hostB"}}},
		{Name: "c18-stg", Hosts: []string{"hostA"}, Tasks: []coresim.TaskSpec{
			{Name: "t0", Class: "c18stg0", Mode: "direct", Critical: true, Host: "hostA"},
			{Name: "t1", Class: "c18stg1", Mode: "direct", Critical: true, Host: "hostB"}}},
	}
	shapes = map[string]shape{
		"one":  {"one", []string{"c18-one"}, []string{"create:0", "start:0", "stop:0", "destroy:0"}},
		"two":  {"two", []string{"c18-two"}, []string{"create:0", "start:0", "stop:0", "destroy:0"}},
		"envs": {"envs", []string{"c18-one", "c18-b"}, []string{"create:0", "start:0", "create:1", "destroy:1", "stop:0", "destroy:0"}},
		// a cleanup request that names the tasks of a live environment sits in the history
		"cleanup": {"cleanup", []string{"c18-two"}, []string{"create:0", "cleanupids:0", "start:0", "stop:0", "destroy:0"}},
		// the second task is accepted by the agent but never reports TASK_RUNNING: the master holds it in TASK_STAGING
		"staging": {"staging", []string{"c18-stg"}, []string{"create:0"}},
	}
)

// run executes the operator's script on the current life; stops at the first failing step.
type runner struct {
	w       *coresim.World
	s       *sim
	sh      shape
	ids     []string
	results []string
	done    bool
	// quiescent reconnection
	boundary func(step int)
}

func (r *runner) run() {
	r.ids = make([]string, len(r.sh.wfs))
	for i, st := range r.sh.script {
		var op string
		var k int
		fmt.Sscanf(strings.Replace(st, ":", " ", 1), "%s %d", &op, &k)
		var state string
		var err error
		switch op {
		case "create":
			launchedBefore := len(r.s.m.TaskOrder)
			r.ids[k], state, err = r.w.Create(r.sh.wfs[k], nil)
			if err == nil {
				r.s.envLife[r.ids[k]] = r.w.Life
			} else {
				// the environment this request launched tasks for has come to an end on its own
				for _, id := range r.s.m.TaskOrder[launchedBefore:] {
					if e := r.s.m.Tasks[id].EnvID; e != "" {
						if _, have := r.s.endedAt[e]; !have {
							r.s.endedAt[e] = len(r.s.calls)
						}
					}
				}
			}
		case "cleanupids":
			// a CleanupTasks request naming the tasks of a live environment: legal, and must change nothing
			ts, _ := r.w.EnvTasksAndDetectors(r.ids[k])
			err = r.w.Cleanup(ts)
			state = fmt.Sprintf("named=%d", len(ts))
		case "start":
			state, err = r.w.Control(r.ids[k], pb.ControlEnvironmentRequest_START_ACTIVITY)
		case "stop":
			state, err = r.w.Control(r.ids[k], pb.ControlEnvironmentRequest_STOP_ACTIVITY)
		case "destroy":
			r.s.teardown[r.ids[k]] = true
			err = r.w.Destroy(r.ids[k], false, false, false)
			if err != nil {
				err = r.w.Destroy(r.ids[k], true, true, false)
			}
			state = "gone"
		}
		r.results = append(r.results, fmt.Sprintf("%s=%s/%v", st, state, err != nil))
		if err != nil && k < len(r.ids) && r.ids[k] != "" {
			r.s.envFailed[r.ids[k]] = true
		}
		if err != nil {
			// clean up what exists, then stop
			for j, id := range r.ids {
				if id != "" && !r.s.teardown[id] {
					r.s.teardown[id] = true
					_ = r.w.Destroy(r.ids[j], true, true, false)
				}
			}
			break
		}
		if r.boundary != nil {
			r.boundary(i)
		}
	}
	r.done = true
}

type aliveTask struct{ ID, State, Env, FID string }

func (s *sim) alive() (out []aliveTask) {
	for _, t := range s.m.AliveTasks() {
		out = append(out, aliveTask{t.ID, t.MesosState.String(), t.EnvID, s.taskFID[t.ID]})
	}
	return
}

func states(a []aliveTask) string {
	var l []string
	for _, t := range a {
		l = append(l, t.State)
	}
	return "[" + strings.Join(l, " ") + "]"
}

var nonTerminal = []mesos.TaskState{mesos.TASK_RUNNING, mesos.TASK_STAGING, mesos.TASK_STARTING, mesos.TASK_KILLING, mesos.TASK_UNKNOWN}

// ---------------------------------------------------------------------------------------
// restart scenarios

type restartObs struct {
	faultAt       string
	life1Calls    int
	life1FID      string // framework id life 1 was told by the master ("" = it was killed before it read SUBSCRIBED)
	aliveAtCrash  []aliveTask
	life2Sub      []callRec
	life2Calls    []callRec
	survivors     []aliveTask
	envs2         map[string]string
	tasks2        []string
	frozen        int
	reached       bool
	newEnvState   string
	newEnvErr     error
	newEnvTasks   []string
	newEnvChecked bool
}

// restartScenario: life 1 runs the script of the shape and is killed at the chosen point; life 2 starts.
// mesosStates: at the crash instant the master's view of every live task is additionally enumerated over all non-terminal states.
// newEnv: after life 2 has settled, the operator creates a fresh environment in it.
func restartScenario(name string, sh shape, mesosStates, newEnv bool, q, t vrt.Bounds) *vrt.Scenario {
	return restartScenarioX(name, sh, mesosStates, newEnv, false, q, t)
}

// restartScenarioX, reconnect2: a fault sequence - the core is killed while its environment is RUNNING (fixed crash
// point), and the connection of the second life is dropped right after one of ITS calls (every one of them is tried:
// the SUBSCRIBE, the implicit RECONCILE whose answers are then lost in flight, each KILL, each ACKNOWLEDGE). The second
// life resubscribes; when everything has settled the statement must hold all the same: same framework identity on
// every subscription, every task of the previous life asked to terminate and dead.
func restartScenarioX(name string, sh shape, mesosStates, newEnv, reconnect2 bool, q, t vrt.Bounds) *vrt.Scenario {
	return restartScenarioY(name, sh, mesosStates, newEnv, reconnect2, false, q, t)
}

func restartScenarioY(name string, sh shape, mesosStates, newEnv, reconnect2, earlyEnv bool, q, t vrt.Bounds) *vrt.Scenario {
	var o restartObs
	var s *sim
	body := func() {
		o = restartObs{}
		m := coresim.NewMaster(agents()...)
		m.Behaviour = func(t *coresim.SimTask, kind string) coresim.Outcome {
			if kind == "launch" && t.Class == "c18stg1" {
				return coresim.NeverRunning
			}
			return coresim.OK
		}
		s = newSim(m)
		s.mode, s.faultLife, s.armed = "crash", 1, !mesosStates && !reconnect2
		w := &coresim.World{M: m}
		s.watch(w)
		r := &runner{w: w, s: s, sh: sh}
		if mesosStates || reconnect2 {
			// fixed crash point: the environment is RUNNING and idle
			r.sh.script = []string{"create:0", "start:0"}
		}
		vrt.GoFG("life1", func() {
			startCore(w, s)
			r.run()
		})
		vrt.WaitUntil("crash-or-script-done", func() bool { return s.crashed || r.done })
		if !s.crashed {
			vrt.Quiesce("life1-idle")
			s.armed = false
			s.crashed, s.dead[1] = true, true
			s.faultAt = "after the script (" + strings.Join(r.results, " ") + ")"
		}
		// ---- kill -9
		o.frozen = vrt.FreezeOthers()
		s.m.Drop()
		s.unacked, s.unackedOrder, s.redeliver = map[string]*scheduler.Event{}, nil, nil
		o.faultAt = s.faultAt
		o.life1Calls = s.perLife[1]
		o.life1FID = s.told[1]
		if mesosStates {
			for _, t := range s.m.AliveTasks() {
				t.MesosState = nonTerminal[vrt.ChooseFree(len(nonTerminal), "mesos-state-at-crash")]
			}
		}
		o.aliveAtCrash = s.alive()
		// ---- life 2
		if reconnect2 {
			s.mode, s.faultLife, s.armed, s.faultAt = "reconnect", 2, true, ""
		}
		earlyID, earlyDone := "", false
		_ = earlyDone
		if earlyEnv {
			// the operator's next request is already there when the new life starts: the creation of a fresh
			// environment runs while the core subscribes and the master answers the reconciliation
			// (the master answers the reconciliation a little later than at once, the offers later still)
			s.m.ReconcileDelay, s.m.OfferDelay = 5*time.Millisecond, 10*time.Millisecond
			the.ResetEventWritersForVerif()
			w.Life++
			c, err := core.NewCoreForVerif(&link{s, w.Life})
			if err != nil {
				panic(err)
			}
			w.Core = c
			s.cores[w.Life] = c
			earlyDone = false
			vrt.GoFG("early-create", func() {
				earlyID, o.newEnvState, o.newEnvErr = w.Create(sh.wfs[0], nil)
				earlyDone = true
			})
			vrt.WaitUntil("early-create-done", func() bool { return earlyDone })
			vrt.Quiesce("core-start")
		} else {
			startCore(w, s)
		}
		settle(5 * time.Second)
		if reconnect2 {
			// unacknowledged status updates are retried by the agents after statusRetry
			settle(2 * statusRetry)
			s.armed = false
			if s.faultAt == "" {
				s.faultAt = "no drop"
			}
			o.faultAt += "; connection of life 2: " + s.faultAt
		}
		o.reached = true
		for _, c := range s.calls {
			if c.Life == 2 {
				o.life2Calls = append(o.life2Calls, c)
				if c.Type == "SUBSCRIBE" {
					o.life2Sub = append(o.life2Sub, c)
				}
			}
		}
		o.survivors = s.alive()
		o.envs2 = envsOf(w)
		o.tasks2 = tasksOf(w)
		if earlyEnv {
			// the environment asked for in this life, and the tasks this life launched, belong to it
			delete(o.envs2, earlyID)
			var prev []string
			for _, id := range o.tasks2 {
				if s.taskLife[id] != w.Life {
					prev = append(prev, id)
				}
			}
			o.tasks2 = prev
		}
		kills := 0
		for _, c := range o.life2Calls {
			if c.Type == "KILL" {
				kills++
			}
		}
		sub := "-"
		if len(o.life2Sub) > 0 {
			sub = o.life2Sub[0].FID
		}
		if earlyEnv {
			seq := ""
			for _, c := range o.life2Calls {
				seq += fmt.Sprintf(" %s@%v", c.Type, c.VT)
			}
			vrt.Logf("life 2 calls:%s", seq)
		}
		vrt.Logf("crash %s | master: fid=%s alive=%s | life2: subscribe fid=%q kills=%d survivors=%s envs=%d tasks=%d",
			o.faultAt, o.life1FID, states(o.aliveAtCrash), sub, kills, states(o.survivors), len(o.envs2), len(o.tasks2))
		if newEnv {
			before := len(s.m.TaskOrder)
			_, o.newEnvState, o.newEnvErr = w.Create(sh.wfs[0], nil)
			settle(5 * time.Second)
			o.newEnvChecked = true
			for _, id := range s.m.TaskOrder[before:] {
				if !s.m.Tasks[id].Alive {
					o.newEnvTasks = append(o.newEnvTasks, id)
				}
			}
			vrt.Logf("life2 new environment: state=%s err=%v launched=%d dead=%d", o.newEnvState, o.newEnvErr != nil, len(s.m.TaskOrder)-before, len(o.newEnvTasks))
		}
	}
	check := func(x *vrt.Exec) (out []vrt.Violation) {
		dump(x, s)
		if !o.reached {
			return nil
		}
		ctx := strings.Join(x.Log, "\n")
		// (1) same framework identity, provided life 1 ever learnt it (the id arrives with SUBSCRIBED; the next thing
		// the master hears from the core, the point in front of which we kill it, comes after that event was handled).
		if o.life1FID != "" {
			if len(o.life2Sub) == 0 {
				out = append(out, vrt.Violation{Clause: "restart:new-life-never-subscribes", Detail: ctx})
			} else if o.life2Sub[0].FID != o.life1FID {
				out = append(out, vrt.Violation{Clause: "restart:subscribes-under-different-framework-id", Detail: fmt.Sprintf("life 1 was framework %q, life 2 subscribed as %q\n%s", o.life1FID, o.life2Sub[0].FID, ctx)})
			}
			for _, c := range o.life2Sub {
				if c.FID != o.life1FID && c.FID == o.life2Sub[0].FID {
					break // reported above
				}
				if c.FID != o.life1FID {
					out = append(out, vrt.Violation{Clause: "restart:resubscribes-under-different-framework-id", Detail: fmt.Sprintf("life 1 was framework %q, life 2 subscribed again as %q\n%s", o.life1FID, c.FID, ctx)})
					break
				}
			}
			for _, c := range o.life2Calls {
				if c.Type != "SUBSCRIBE" && c.FID != o.life1FID {
					out = append(out, vrt.Violation{Clause: "restart:call-under-different-framework-id:" + c.Type, Detail: fmt.Sprintf("%+v\n%s", c, ctx)})
					break
				}
			}
		}
		// (2) every task the master still held alive is killed
		for _, a := range o.aliveAtCrash {
			asked := false
			for _, c := range o.life2Calls {
				if c.Type == "KILL" && c.Task == a.ID && c.Rejected == "" {
					asked = true
				}
			}
			still := false
			for _, sv := range o.survivors {
				if sv.ID == a.ID {
					still = true
				}
			}
			if !asked || still {
				out = append(out, vrt.Violation{Clause: "restart:task-survives-unowned:" + a.State, Detail: fmt.Sprintf("task %s (%s, environment %s of the previous life) kill-requested=%v still-alive=%v\n%s", a.ID, a.State, a.Env, asked, still, ctx)})
				break
			}
		}
		// (3) the roster / environment list is that of the current life only
		if len(o.envs2) != 0 {
			out = append(out, vrt.Violation{Clause: "restart:new-life-lists-environments", Detail: fmt.Sprintf("%v\n%s", o.envs2, ctx)})
		}
		if len(o.tasks2) != 0 {
			out = append(out, vrt.Violation{Clause: "restart:new-life-lists-tasks", Detail: fmt.Sprintf("%v\n%s", o.tasks2, ctx)})
		}
		// (4) and only that
		// (a creation that fails for reasons of its own - deployment races are C02's business - cleans up after
		// itself and is not judged here; a kill caused by a reconciliation answer is caught by ownedKills below)
		if o.newEnvChecked && o.newEnvErr == nil && len(o.newEnvTasks) > 0 {
			out = append(out, vrt.Violation{Clause: "restart:task-of-new-environment-killed", Detail: fmt.Sprintf("%v\n%s", o.newEnvTasks, ctx)})
		}
		out = append(out, ownedKills(s, "restart", ctx)...)
		return
	}
	return &vrt.Scenario{Name: name, Prop: "C18", Body: body, Check: check, Quick: q, Thorough: t,
		Setup:          coresim.ResetStore,
		Cfg:            vrt.Config{Preempt: coresim.InterComponent, FreeSwitchCost: true, Horizon: 30 * time.Minute},
		DeadlockClause: "restart:hang", PanicClause: "panic",
		NonTrivial: func(x *vrt.Exec) bool { return o.reached && len(o.aliveAtCrash) > 0 },
		Doc:        fmt.Sprintf("core killed at every call boundary of script %v (shape %s), new core started; mesosStates=%v newEnv=%v", sh.script, sh.name, mesosStates, newEnv)}
}

// ownedKills: a KILL call for a task that, at that instant, was in the roster of the calling life and locked by an
// environment whose teardown nobody asked for, after that life had been sent a reconciliation update for the task.
func ownedKills(s *sim, what, ctx string) (out []vrt.Violation) {
	for i, c := range s.calls {
		if c.Type == "KILL" && c.ViaStatusUpdate && c.Recon && c.Owner == "" && !c.EverInRoster && c.TaskLife == c.Life && c.EnvID != "" && !c.TeardownEnv {
			if end, ended := s.endedAt[c.EnvID]; !ended || i < end {
				// the task was launched by this life for an environment that nobody asked to tear down and that has not
				// come to an end; the roster of this life has never held it (launched tasks are handed to the roster only
				// when the whole deployment request returns), so the reconciliation branch takes it for a stranger
				at := "idle"
				if s.faultCall != "" {
					at = "connection-dropped-right-after-" + s.faultCall
				}
				out = append(out, vrt.Violation{Clause: "reconciliation-kills-task-of-live-environment:launched-not-yet-in-roster:" + what + ":" + at,
					Detail: fmt.Sprintf("life %d call #%d KILL %s (%s) at %v, issued while handling a status update: launched by this life for environment %s (being created, no teardown requested, not failed), never seen in the roster so far; the master had answered the implicit reconciliation with %s for it\n%s",
						c.Life, c.N, c.Task, c.Class, c.VT, c.EnvID, s.recon[c.Life][c.Task], ctx)})
				return
			}
		}
		if c.Type == "KILL" && c.Owner == "" && c.Recon && c.EnvID != "" && s.envLife[c.EnvID] == c.Life && !s.teardown[c.EnvID] && !s.envFailed[c.EnvID] {
			// the roster of this life no longer knows the task, yet it was launched for an environment that this life
			// created successfully, that nobody asked to tear down and that has not failed on its own
			out = append(out, vrt.Violation{Clause: "reconciliation-kills-task-of-live-environment:forgotten-by-the-roster:" + what,
				Detail: fmt.Sprintf("life %d call #%d KILL %s: launched for environment %s (created in this life, no teardown requested), not in the roster any more; the master had answered the implicit reconciliation with %s for it\n%s",
					c.Life, c.N, c.Task, c.EnvID, s.recon[c.Life][c.Task], ctx)})
			return
		}
		if c.Type == "KILL" && c.Owner != "" && c.Recon && !c.Teardown {
			out = append(out, vrt.Violation{Clause: "reconciliation-kills-task-owned-by-live-environment:" + what,
				Detail: fmt.Sprintf("life %d call #%d KILL %s: the task was locked by environment %s (no teardown requested), the master had answered the implicit reconciliation with %s for it\n%s",
					c.Life, c.N, c.Task, c.Owner, s.recon[c.Life][c.Task], ctx)})
			return
		}
	}
	return
}

// ---------------------------------------------------------------------------------------
// reconnection scenarios (same life)

type reconObs struct {
	faultAt                 string
	aliveAt                 []aliveTask
	results                 []string
	reached                 bool
	quiescent               bool
	stateBefore, stateAfter map[string]string
	aliveAfter              []aliveTask
	subs                    int
	recons                  int
}

func reconnectScenario(name string, sh shape, q, t vrt.Bounds) *vrt.Scenario {
	return reconnectScenarioX(name, sh, false, 0, q, t)
}

// reconnectScenarioX, mesosStates: the only reconnection is the idle one after "start:0" (environment RUNNING), and
// the state the master reports for every live task in its reconciliation answer is enumerated over all non-terminal
// Mesos states: whatever the master says about a task that a live environment owns, the answer must not get it killed.
// Shapes with a task that never reports TASK_RUNNING (staging): the creation is still in progress when the connection
// breaks, the master answers TASK_STAGING for a task that the deploying environment owns but the core has not seen active.
// timedDrop > 0: one more reconnection point, that long after the start of the script while nothing calls the master
// (shape staging: the deployment waits for a task that never reports TASK_RUNNING; the tasks are in the roster, locked).
func reconnectScenarioX(name string, sh shape, mesosStates bool, timedDrop time.Duration, q, t vrt.Bounds) *vrt.Scenario {
	var o reconObs
	var s *sim
	body := func() {
		o = reconObs{}
		m := coresim.NewMaster(agents()...)
		m.Behaviour = func(t *coresim.SimTask, kind string) coresim.Outcome {
			if kind == "launch" && t.Class == "c18stg1" {
				return coresim.NeverRunning
			}
			return coresim.OK
		}
		s = newSim(m)
		s.mode, s.faultLife, s.armed = "reconnect", 1, !mesosStates
		w := &coresim.World{M: m}
		s.watch(w)
		r := &runner{w: w, s: s, sh: sh}
		r.boundary = func(step int) {
			if mesosStates {
				if sh.script[step] != "start:0" {
					return
				}
				vrt.Quiesce("step-boundary")
				var asg []string
				for _, t := range s.m.AliveTasks() {
					t.MesosState = nonTerminal[vrt.ChooseFree(len(nonTerminal), "mesos-state-reported")]
					asg = append(asg, t.MesosState.String())
				}
				s.faultAt = "idle after step " + sh.script[step] + ", master reports " + strings.Join(asg, ",")
			} else {
				if !s.armed || step == len(sh.script)-1 {
					return
				}
				vrt.Quiesce("step-boundary")
				if vrt.ChooseFree(2, "drop-at-boundary") == 0 {
					return
				}
				s.armed = false
				s.faultAt = "idle after step " + sh.script[step]
			}
			o.quiescent = true
			o.stateBefore = envsOf(w)
			o.aliveAt = s.alive()
			s.breakConnection()
			settle(5 * time.Second)
			o.stateAfter = envsOf(w)
			o.aliveAfter = s.alive()
		}
		startCore(w, s)
		if timedDrop > 0 {
			vrt.Go("connection", func() {
				vrt.Sleep(timedDrop)
				if s.armed && !r.done && vrt.ChooseFree(2, "drop-while-waiting") == 1 {
					s.armed = false
					s.faultAt = fmt.Sprintf("at %v, while the request waits and nothing calls the master", timedDrop)
					s.breakConnection()
				}
			})
		}
		r.run()
		settle(2 * statusRetry)
		o.reached = true
		o.faultAt = s.faultAt
		if s.armed || (mesosStates && s.drops == 0) {
			o.faultAt = "none"
		}
		o.results = r.results
		for _, c := range s.calls {
			switch c.Type {
			case "SUBSCRIBE":
				o.subs++
			case "RECONCILE":
				o.recons++
			}
		}
		kills := 0
		for _, c := range s.calls {
			if c.Type == "KILL" && c.Owner != "" && !c.Teardown {
				kills++
			}
		}
		var ans []string
		for _, c := range s.calls {
			if c.Type == "RECONCILE" && c.N > 2 {
				ans = append(ans, c.Detail)
			}
		}
		vrt.Logf("reconnect %s | reconciliation %v | kills of owned tasks=%d | script %v | quiescent: %v -> %v", o.faultAt, ans, kills, r.results, o.stateBefore, o.stateAfter)
	}
	check := func(x *vrt.Exec) (out []vrt.Violation) {
		dump(x, s)
		if !o.reached {
			return nil
		}
		ctx := strings.Join(x.Log, "\n")
		what := "reconnect-in-flight" // the connection broke while the core was working
		if o.quiescent {
			what = "reconnect-idle" // nothing was going on
		}
		out = append(out, ownedKills(s, what, ctx)...)
		if s.drops > 0 && o.subs < 2 {
			out = append(out, vrt.Violation{Clause: "reconnect:core-does-not-resubscribe", Detail: ctx})
		}
		for _, c := range s.calls {
			if c.Type == "SUBSCRIBE" && c.N > 2 && c.FID != s.told[1] {
				out = append(out, vrt.Violation{Clause: "reconnect:resubscribes-under-different-framework-id", Detail: fmt.Sprintf("%+v\n%s", c, ctx)})
				break
			}
		}
		if o.quiescent && len(out) == 0 {
			// nothing was in flight: the reconnection must be invisible
			if fmt.Sprint(o.stateBefore) != fmt.Sprint(o.stateAfter) {
				out = append(out, vrt.Violation{Clause: "reconnect:environment-state-changed-by-idle-reconnection", Detail: fmt.Sprintf("%v -> %v\n%s", o.stateBefore, o.stateAfter, ctx)})
			} else if fmt.Sprint(o.aliveAt) != fmt.Sprint(o.aliveAfter) {
				out = append(out, vrt.Violation{Clause: "reconnect:tasks-changed-by-idle-reconnection", Detail: fmt.Sprintf("%v -> %v\n%s", o.aliveAt, o.aliveAfter, ctx)})
			}
		}
		return
	}
	return &vrt.Scenario{Name: name, Prop: "C18", Body: body, Check: check, Quick: q, Thorough: t,
		Setup:          coresim.ResetStore,
		Cfg:            vrt.Config{Preempt: coresim.InterComponent, FreeSwitchCost: true, Horizon: 30 * time.Minute},
		DeadlockClause: "reconnect:hang", PanicClause: "panic",
		NonTrivial: func(x *vrt.Exec) bool { return o.reached && s.drops > 0 },
		Doc:        fmt.Sprintf("subscription dropped after every call and at every idle step boundary of script %v (shape %s); the core resubscribes and reconciles", sh.script, sh.name)}
}

// ---------------------------------------------------------------------------------------
// reconnection while two environments are busy: A is being torn down against a master that is slow
// to answer KILL calls, B is being created, and the connection breaks in between.

func overlapScenario(name string, q, t vrt.Bounds) *vrt.Scenario {
	var s *sim
	var reached bool
	var createAt time.Duration
	var errB error
	var stB, idB string
	body := func() {
		reached, errB, stB, idB = false, nil, "", ""
		m := coresim.NewMaster(agents()...)
		s = newSim(m)
		w := &coresim.World{M: m}
		s.watch(w)
		startCore(w, s)
		idA, _, err := w.Create("c18-one", nil)
		if err != nil {
			vrt.Logf("setup failed: %v", err)
			return
		}
		s.slowKill = time.Second
		order := vrt.ChooseFree(2, "who-comes-first") // 0: destroy A first, then create B; 1: the other way round
		var wg vrt.WaitGroup
		wg.Add(3)
		vrt.GoFG("destroyA", func() {
			if order == 1 {
				vrt.Sleep(200 * time.Millisecond)
			}
			s.teardown[idA] = true
			_ = w.Destroy(idA, true, true, false)
			wg.Done()
		})
		vrt.GoFG("createB", func() {
			if order == 0 {
				vrt.Sleep(200 * time.Millisecond)
			}
			createAt = vrt.VNow()
			idB, stB, errB = w.Create("c18-b", nil)
			wg.Done()
		})
		vrt.GoFG("connection", func() {
			vrt.Sleep(time.Duration(300+200*vrt.ChooseFree(4, "drop-at")) * time.Millisecond)
			s.faultAt = fmt.Sprintf("at %v", vrt.VNow())
			s.breakConnection()
			wg.Done()
		})
		wg.Wait()
		settle(2 * statusRetry)
		reached = true
		vrt.Logf("overlap order=%d drop %s | create B: id=%s state=%s err=%v", order, s.faultAt, idB, stB, errB != nil)
	}
	check := func(x *vrt.Exec) (out []vrt.Violation) {
		dump(x, s)
		if !reached {
			return nil
		}
		ctx := strings.Join(x.Log, "\n")
		out = append(out, ownedKills(s, "reconnect-overlap", ctx)...)
		// B's task belongs to a live environment from the moment it is launched for it: nobody asked for
		// B's teardown, and B cannot have failed on its own yet (its deployment timeout is 30 s)
		for _, c := range s.calls {
			if c.Type == "KILL" && c.Class == "c18b0" && c.Recon && c.VT < createAt+25*time.Second {
				out = append(out, vrt.Violation{Clause: "reconciliation-kills-task-of-live-environment:launched-not-yet-in-roster",
					Detail: fmt.Sprintf("life %d call #%d KILL %s at %v: launched for environment B (created from %v on, no teardown requested), the master had answered the implicit reconciliation with %s for it\n%s",
						c.Life, c.N, c.Task, c.VT, createAt, s.recon[c.Life][c.Task], ctx)})
				break
			}
		}
		return
	}
	return &vrt.Scenario{Name: name, Prop: "C18", Body: body, Check: check, Quick: q, Thorough: t,
		Setup:          coresim.ResetStore,
		Cfg:            vrt.Config{Preempt: coresim.InterComponent, FreeSwitchCost: true, Horizon: 30 * time.Minute},
		DeadlockClause: "reconnect:hang", PanicClause: "panic",
		NonTrivial: func(x *vrt.Exec) bool { return reached && s.drops > 0 },
		Doc:        "environment A torn down against a master that takes 1 s per KILL call, environment B created 200 ms earlier/later, the subscription dropped at 300/500/700/900 ms; the core resubscribes and reconciles"}
}

func dump(x *vrt.Exec, s *sim) {
	if os.Getenv("C18_DUMP") != "" {
		fmt.Fprintln(os.Stderr, strings.Join(x.Log, "\n"))
	}
	if os.Getenv("C18_DUMP") == "2" {
		var pk []string
		for _, e := range x.Picks() {
			pk = append(pk, fmt.Sprint(e.Pick))
		}
		fmt.Fprintf(os.Stderr, "   picks=%s\n", strings.TrimRight(strings.Join(pk, ","), ",0"))
		for _, c := range s.calls {
			fmt.Fprintf(os.Stderr, "   %+v\n", c)
		}
	}
}

// envsOf lists all environments (also non-public ones) of the current life.
func envsOf(w *coresim.World) map[string]string {
	out := map[string]string{}
	rep, err := w.Core.Rpc.GetEnvironments(context.Background(), &pb.GetEnvironmentsRequest{ShowAll: true, ShowTaskInfos: false})
	if err == nil && rep != nil {
		for _, e := range rep.Environments {
			out[e.Id] = e.State
		}
	}
	return out
}

func main() {
	coresim.GlobalSetup(specs...)
	q0 := vrt.Bounds{Dev: 0, Seconds: 100}
	t1 := vrt.Bounds{Dev: 1, Seconds: 600}
	t2 := vrt.Bounds{Dev: 2, Seconds: 900}
	vrt.Main([]*vrt.Scenario{
		restartScenario("restart-one", shapes["one"], false, false, q0, t2),
		restartScenario("restart-two", shapes["two"], false, false, q0, t1),
		restartScenario("restart-envs", shapes["envs"], false, false, q0, t1),
		restartScenario("restart-staging", shapes["staging"], false, false, q0, t2),
		restartScenario("restart-states", shapes["two"], true, false, q0, t1),
		restartScenario("restart-newenv", shapes["two"], false, true, q0, t1),
		reconnectScenario("reconnect-one", shapes["one"], q0, t2),
		reconnectScenario("reconnect-two", shapes["two"], q0, t1),
		reconnectScenario("reconnect-envs", shapes["envs"], q0, t1),
		reconnectScenario("reconnect-cleanup", shapes["cleanup"], q0, t1),
		reconnectScenarioX("reconnect-states", shapes["two"], true, 0, q0, t1),
		reconnectScenarioX("reconnect-staging", shapes["staging"], false, 5*time.Second, q0, t1),
		restartScenarioX("restart-reconnect", shapes["two"], false, false, true, vrt.Bounds{Dev: 1, Seconds: 100}, t1),
		restartScenario("restart-cleanup", shapes["cleanup"], false, false, q0, t1),
		overlapScenario("reconnect-overlap", q0, t1),
		restartScenarioY("restart-earlyenv", shapes["one"], false, false, false, true, q0, t1),
	})
}

#!/bin/sh
# Detection demo for C20: applies every mutants/C20/*.patch to a scratch copy of the
# repository (never to /repo itself) and runs ./check C20 against it.
# usage: harness/c20/mutants.sh [tier]      (default quick)
set -u
HERE=$(cd "$(dirname "$0")/../.." && pwd)
TIER=${1:-quick}
SRC=${VERIF_REPO:-/repo}
SCRATCH=${C20_SCRATCH:-/tmp/repo-c20-mut}
export VERIF_WORK=${C20_MUT_WORK:-/tmp/vw-c20-mut} GOFLAGS=-mod=mod GOPROXY=off GOSUMDB=off GOTOOLCHAIN=local
rm -rf "$SCRATCH" && mkdir -p "$SCRATCH" || exit 2
(cd "$SRC" && tar --exclude=.git -cf - .) | (cd "$SCRATCH" && tar xf -) || exit 2
(cd "$SCRATCH" && git init -q . && git add -A >/dev/null 2>&1 && git -c user.email=v@v -c user.name=v commit -qm base) || exit 2
[ -f "$HERE/evidence/C20.json" ] && cp "$HERE/evidence/C20.json" "$VERIF_WORK.evidence.bak" 2>/dev/null
missed=0
for p in "$HERE"/mutants/C20/*.patch; do
	n=$(basename "$p" .patch)
	(cd "$SCRATCH" && git checkout -q . && git apply "$p") || { echo "MUTANT $n: patch does not apply"; missed=1; continue; }
	out=$(cd "$HERE" && VERIF_REPO="$SCRATCH" ./check C20 --tier "$TIER" 2>&1)
	rc=$?
	if [ $rc -eq 1 ]; then
		echo "MUTANT $n: CAUGHT"
		echo "$out" | grep -v '^VIOLATION' | grep '^  ' | cut -c1-220 | sed 's/^/    /'
	else
		echo "MUTANT $n: NOT CAUGHT (exit $rc)"
		echo "$out" | tail -3
		missed=1
	fi
done
[ -f "$VERIF_WORK.evidence.bak" ] && mv "$VERIF_WORK.evidence.bak" "$HERE/evidence/C20.json"
rm -rf "$SCRATCH"
exit $missed

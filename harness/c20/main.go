// C20: configuration lookups return the most specific existing entry; query
// strings parse to what they spell; payloads are templated with exactly the
// supplied variables.
//
// Real code: apricot/local.Service (NewService over a generated file:// YAML
// backend: ResolveComponentQuery, GetComponentConfiguration,
// GetAndProcessComponentConfiguration) and configuration/componentcfg
// (NewQuery, NewEntriesQuery, NewQueryParameters, Raw/Path/AbsoluteRaw).
// Everything is a pure product enumeration (Direct scenarios); the reference
// models live in ref.go.
package main

import (
	"fmt"
	"io"
	"os"
	"path/filepath"
	"sort"
	"strconv"
	"strings"

	"github.com/AliceO2Group/Control/apricot/local"
	apricotpb "github.com/AliceO2Group/Control/apricot/protos"
	"github.com/AliceO2Group/Control/configuration/componentcfg"
	vrt "github.com/AliceO2Group/Control/verif_vrt"
	"github.com/sirupsen/logrus"
)

// ---- small helpers ---------------------------------------------------------

// failer keeps one violation per clause.
type failer struct {
	r    *vrt.DirectReport
	seen map[string]bool
	pfx  string // goes in front of every clause (history scenarios: what happened before the request)
}

func newFailer(r *vrt.DirectReport) *failer { return &failer{r: r, seen: map[string]bool{}} }

func (f *failer) fail(clause, format string, a ...any) {
	clause = f.pfx + clause
	if f.seen[clause] {
		return
	}
	f.seen[clause] = true
	f.r.Fail(clause, format, a...)
}

// guard turns a panic of the code under test into a violation.
func guard(f *failer, clause string, witness func() string, body func()) {
	defer func() {
		if e := recover(); e != nil {
			msg := fmt.Sprint(e)
			if len(msg) > 60 {
				msg = msg[:60]
			}
			f.fail(clause+":panic:"+msg, "%s panicked: %v", witness(), e)
		}
	}()
	body()
}

func runTypeNames() map[string]bool {
	out := map[string]bool{}
	for _, n := range apricotpb.RunType_name {
		out[n] = true
	}
	return out
}

func scratchDir() string {
	base := os.Getenv("VERIF_WORK")
	if base != "" {
		os.MkdirAll(base, 0o755)
	}
	d, err := os.MkdirTemp(base, "c20-")
	if err != nil {
		panic(err)
	}
	return d
}

// writeBackend writes the tree as the YAML file the file:// backend reads:
// o2: components: <component>: <RUNTYPE>: <role>: <entry>[/<sub-entry>]: "content".
// Every key and value is a double-quoted scalar, so YAML typing cannot interfere.
func writeBackend(path string, t tree) {
	type node map[string]any
	root := node{}
	for _, k := range t.keys() {
		cur := root
		parts := strings.Split(k, "/")
		for _, p := range parts[:len(parts)-1] {
			nx, ok := cur[p].(node)
			if !ok {
				nx = node{}
				cur[p] = nx
			}
			cur = nx
		}
		cur[parts[len(parts)-1]] = t[k]
	}
	var b strings.Builder
	var emit func(n node, indent string)
	emit = func(n node, indent string) {
		var ks []string
		for k := range n {
			ks = append(ks, k)
		}
		sort.Strings(ks)
		for _, k := range ks {
			switch v := n[k].(type) {
			case node:
				b.WriteString(indent + strconv.Quote(k) + ":\n")
				emit(v, indent+"  ")
			case string:
				b.WriteString(indent + strconv.Quote(k) + ": " + strconv.Quote(v) + "\n")
			}
		}
	}
	b.WriteString("\"o2\":\n  \"components\":\n")
	if len(root) == 0 {
		b.WriteString("    \"zz-empty\":\n      \"ANY\":\n        \"any\":\n          \"placeholder\": \"x\"\n")
	}
	emit(root, "    ")
	if err := os.WriteFile(path, []byte(b.String()), 0o644); err != nil {
		panic(err)
	}
}

func newService(path string) *local.Service {
	svc, err := local.NewService("file://" + path)
	if err != nil {
		panic(fmt.Sprintf("cannot open generated backend %s: %v", path, err))
	}
	return svc
}

func rtOf(name string) apricotpb.RunType { return apricotpb.RunType(apricotpb.RunType_value[name]) }

func rtName(rt apricotpb.RunType) string { return apricotpb.RunType_name[int32(rt)] }

func queryString(q *componentcfg.Query) string {
	if q == nil {
		return "<nil>"
	}
	return q.Component + "/" + rtName(q.RunType) + "/" + q.RoleName + "/" + q.EntryKey
}

// ---- scenario 1: fallback resolution ---------------------------------------

func classOfName(n string, specific []string, wildcard string) string {
	if n == wildcard {
		return "wildcard"
	}
	for _, s := range specific {
		if s == n {
			return "specific"
		}
	}
	return "absent"
}

func resolveScenario(r *vrt.DirectReport, tier string) {
	f := newFailer(r)
	dir := scratchDir()
	defer os.RemoveAll(dir)
	file := filepath.Join(dir, "backend.yaml")

	runTypes := []string{"PHYSICS", "TECHNICAL", "ANY"}
	roles := []string{"r1", "any"}
	if tier == "thorough" {
		runTypes = []string{"PHYSICS", "TECHNICAL", "ANY"}
		roles = []string{"r1", "r2", "any"}
	}
	var cells [][2]string
	for _, rt := range runTypes {
		for _, ro := range roles {
			cells = append(cells, [2]string{rt, ro})
		}
	}
	// queries: every stored run type / role, the wildcards themselves, and one run type / role nothing is stored under
	qRunTypes := append(append([]string{}, runTypes...), "COSMICS")
	qRoles := append(append([]string{}, roles...), "r9")
	// e1 follows the existence pattern, e2 the complementary pattern (so that existence is per entry, not per
	// folder), sub/e3 follows the pattern again (entry in a sub-folder)
	// e0 follows the pattern too but its content is the empty string: it exists all the same
	entries := []string{"e1", "e2", "sub/e3", "e0"}
	qEntries := append(append([]string{}, entries...), "e9")
	components := []string{"c1", "c9"} // c9 has no entries at all; c2 is a distractor that has everything

	nPatterns := 1 << len(cells)
	for pat := 0; pat < nPatterns; pat++ {
		t := tree{}
		for i, c := range cells {
			in := pat&(1<<i) != 0
			for _, e := range entries {
				has := in
				if e == "e2" {
					has = !in
				}
				if has {
					k := "c1/" + c[0] + "/" + c[1] + "/" + e
					t[k] = "payload of " + k
					if e == "e0" {
						t[k] = ""
					}
				}
			}
			for _, e := range qEntries {
				k := "c2/" + c[0] + "/" + c[1] + "/" + e
				t[k] = "payload of " + k
			}
		}
		writeBackend(file, t)
		svc := newService(file)
		for _, comp := range components {
			for _, rt := range qRunTypes {
				for _, ro := range qRoles {
					for _, e := range qEntries {
						checkResolve(r, f, svc, t, comp, rt, ro, e, runTypes, roles)
					}
				}
			}
		}
	}
	r.Notes = append(r.Notes, fmt.Sprintf("grid: all %d existence patterns over cells %v x entries %v (e2 = complementary pattern, e0 = entries whose content is the empty string) x queries: components %v x run types %v x roles %v x entries %v; distractor component c2 always complete",
		nPatterns, cells, entries, components, qRunTypes, qRoles, qEntries))
}

func checkResolve(r *vrt.DirectReport, f *failer, svc *local.Service, t tree, comp, rt, ro, e string, runTypes, roles []string) {
	wantPath, step := refResolve(t, comp, rt, ro, e)
	// existence bits of the four candidates, most specific first
	bits := ""
	for _, c := range [4][2]string{{rt, ro}, {"ANY", ro}, {rt, "any"}, {"ANY", "any"}} {
		if _, ok := t[comp+"/"+c[0]+"/"+c[1]+"/"+e]; ok {
			bits += "1"
		} else {
			bits += "0"
		}
	}
	qclass := classOfName(rt, runTypes[:len(runTypes)-1], "ANY") + "-runtype/" + classOfName(ro, roles[:len(roles)-1], "any") + "-role"
	r.Count(fmt.Sprintf("query=%s exist=%s -> step%d", qclass, bits, step))
	site := fmt.Sprintf("query=%s exist=%s", qclass, bits)
	witness := func() string { return fmt.Sprintf("query %s/%s/%s/%s over tree %v", comp, rt, ro, e, t.keys()) }

	// through the front door: the string form of the query
	var q *componentcfg.Query
	var err error
	guard(f, "resolve-call", witness, func() {
		q, err = componentcfg.NewQuery(comp + "/" + rt + "/" + ro + "/" + e)
	})
	if err != nil || q == nil {
		f.fail("wellformed-query-rejected", "%s: NewQuery failed: %v", witness(), err)
		return
	}
	before := *q
	var res *componentcfg.Query
	guard(f, "resolve-call", witness, func() { res, err = svc.ResolveComponentQuery(q) })
	if *q != before {
		f.fail("input-query-mutated", "%s: query changed to %s", witness(), queryString(q))
	}
	switch {
	case step == 0 && err == nil:
		f.fail("none-exists-but-resolved", "%s: no candidate exists, yet resolved to %s", witness(), queryString(res))
	case step != 0 && err != nil:
		f.fail(fmt.Sprintf("exists-but-failed:step%d:%s", step, site), "%s: want %s (step %d), got error %v", witness(), wantPath, step, err)
	case step != 0:
		got := queryString(res)
		if got != wantPath {
			gotStep := "other"
			for i, c := range [4][2]string{{rt, ro}, {"ANY", ro}, {rt, "any"}, {"ANY", "any"}} {
				if got == comp+"/"+c[0]+"/"+c[1]+"/"+e {
					gotStep = fmt.Sprintf("step%d", i+1)
					break
				}
			}
			if _, ok := t[got]; !ok {
				f.fail("resolved-path-does-not-exist:"+site, "%s: resolved to %s which is not in the tree (want %s)", witness(), got, wantPath)
			}
			f.fail(fmt.Sprintf("wrong-candidate:want-step%d-got-%s:%s", step, gotStep, site), "%s: resolved to %s, want %s", witness(), got, wantPath)
		} else {
			if res.Raw() != wantPath || res.AbsoluteRaw() != "o2/components/"+wantPath {
				f.fail("resolved-prints-differently", "%s: Raw()=%q AbsoluteRaw()=%q want %q", witness(), res.Raw(), res.AbsoluteRaw(), wantPath)
			}
			// the resolved path exists: its payload is retrievable and is the one stored there
			var pl string
			var gerr error
			guard(f, "resolve-call", witness, func() { pl, gerr = svc.GetComponentConfiguration(res) })
			if gerr != nil || pl != t[wantPath] {
				f.fail("resolved-payload-wrong:"+site, "%s: payload of resolved %s = %q, %v; want %q", witness(), got, pl, gerr, t[wantPath])
			}
		}
	}
	// plain retrieval never falls back by itself: the exact path or an error
	var pl string
	var gerr error
	guard(f, "get", witness, func() { pl, gerr = svc.GetComponentConfiguration(q) })
	exact := comp + "/" + rt + "/" + ro + "/" + e
	if want, ok := t[exact]; ok {
		if gerr != nil || pl != want {
			f.fail("get:existing-entry-wrong-payload:"+qclass, "%s: got %q, %v; want %q", witness(), pl, gerr, want)
		}
	} else if gerr == nil {
		f.fail("get:missing-entry-returns-payload:"+site, "%s: no entry at %s, yet payload %q without error", witness(), exact, pl)
	}
}

// ---- scenario: resolution after the configuration changed ------------------------

// resolveHistoryScenario: ONE service over a backend whose content changes between requests (entries
// appear, disappear, change their content). A query must resolve against what exists at the time of
// the request, whatever the same service was asked before.
func resolveHistoryScenario(r *vrt.DirectReport, tier string) {
	f := newFailer(r)
	f.pfx = "after-change:"
	dir := scratchDir()
	defer os.RemoveAll(dir)
	file := filepath.Join(dir, "backend.yaml")
	runTypes := []string{"PHYSICS", "ANY"}
	roles := []string{"r1", "any"}
	if tier == "thorough" {
		runTypes = []string{"PHYSICS", "TECHNICAL", "ANY"} // 6 cells, 4096 ordered pairs of patterns
	}
	var cells [][2]string
	for _, rt := range runTypes {
		for _, ro := range roles {
			cells = append(cells, [2]string{rt, ro})
		}
	}
	entries := []string{"e1", "sub/e3"}
	qRunTypes := append(append([]string{}, runTypes...), "COSMICS")
	qRoles := []string{"r1", "any", "r9"}
	mk := func(pat, gen int) tree {
		t := tree{}
		for i, c := range cells {
			if pat&(1<<i) != 0 {
				for _, e := range entries {
					k := "c1/" + c[0] + "/" + c[1] + "/" + e
					t[k] = fmt.Sprintf("payload of %s (written %d)", k, gen)
				}
			}
		}
		return t
	}
	nPatterns := 1 << len(cells)
	pairs := 0
	for p1 := 0; p1 < nPatterns; p1++ {
		for p2 := 0; p2 < nPatterns; p2++ {
			// a fresh service per pair: first every query against pattern p1, then the file changes to p2
			t1 := mk(p1, 1)
			writeBackend(file, t1)
			svc := newService(file)
			f.pfx = "" // the first round is the plain property (also decided by the resolve scenario)
			for _, rt := range qRunTypes {
				for _, ro := range qRoles {
					for _, e := range entries {
						checkResolve(r, f, svc, t1, "c1", rt, ro, e, runTypes, roles)
					}
				}
			}
			t2 := mk(p2, 2)
			writeBackend(file, t2)
			f.pfx = "after-change:"
			for _, rt := range qRunTypes {
				for _, ro := range qRoles {
					for _, e := range entries {
						checkResolve(r, f, svc, t2, "c1", rt, ro, e, runTypes, roles)
					}
				}
			}
			pairs++
		}
	}
	r.Notes = append(r.Notes, fmt.Sprintf("grid: all %d ordered pairs of existence patterns over cells %v x entries %v on one service instance each (backend file rewritten in between, contents differ between the two writes) x queries: run types %v x roles %v, asked before and after the change", pairs, cells, entries, qRunTypes, qRoles))
}

// ---- scenario 2/3: path query strings --------------------------------------

// checkPath runs NewQuery and NewEntriesQuery on s.
func checkPath(r *vrt.DirectReport, f *failer, s string, runTypes map[string]bool) {
	for _, withEntry := range []bool{true, false} {
		fn := "NewEntriesQuery"
		if withEntry {
			fn = "NewQuery"
		}
		ref, verdict := refParsePath(s, withEntry, runTypes)
		var (
			err             error
			comp, rt, ro, e string
			raw, path, abs  string
			isNil           bool
		)
		guard(f, fn, func() string { return fmt.Sprintf("%s(%q)", fn, s) }, func() {
			if withEntry {
				var q *componentcfg.Query
				q, err = componentcfg.NewQuery(s)
				if err == nil {
					if q == nil {
						isNil = true
						return
					}
					comp, rt, ro, e = q.Component, rtName(q.RunType), q.RoleName, q.EntryKey
					raw, path, abs = q.Raw(), q.Path(), q.AbsoluteRaw()
				}
			} else {
				var q *componentcfg.EntriesQuery
				q, err = componentcfg.NewEntriesQuery(s)
				if err == nil {
					if q == nil {
						isNil = true
						return
					}
					comp, rt, ro = q.Component, rtName(q.RunType), q.RoleName
				}
			}
		})
		accepted := err == nil
		vs := [...]string{"malformed", "wellformed", "unspecified"}[verdict]
		class := fn + " " + vs
		if ref.why != "" {
			class += "(" + ref.why + ")"
		}
		if accepted {
			class += " -> accepted"
		} else {
			class += " -> rejected"
		}
		r.Count(class)
		if isNil {
			f.fail(fn+":nil-without-error", "%s(%q) returned nil, nil", fn, s)
			continue
		}
		switch {
		case verdict == vReject && accepted:
			f.fail(fn+":accepted-malformed:"+ref.why, "%s(%q) accepted as %s/%s/%s/%s; malformed: %s", fn, s, comp, rt, ro, e, ref.why)
			continue
		case verdict == vAccept && !accepted:
			f.fail(fn+":rejected-wellformed", "%s(%q) = %v; spells component=%q runtype=%q role=%q entry=%q", fn, s, err, ref.component, ref.runType, ref.role, ref.entry)
			continue
		}
		if !accepted {
			continue
		}
		for _, c := range []struct{ field, got, want string }{
			{"component", comp, ref.component}, {"runtype", rt, ref.runType}, {"role", ro, ref.role}, {"entry", e, ref.entry},
		} {
			if c.got != c.want {
				f.fail(fn+":wrong-"+c.field, "%s(%q): %s = %q, spelled %q", fn, s, c.field, c.got, c.want)
			}
		}
		if withEntry {
			if raw != ref.trimmed {
				f.fail(fn+":raw-differs", "NewQuery(%q).Raw() = %q, want %q", s, raw, ref.trimmed)
			}
			if path != ref.trimmed {
				f.fail(fn+":path-differs", "NewQuery(%q).Path() = %q, want %q", s, path, ref.trimmed)
			}
			if abs != "o2/components/"+ref.trimmed {
				f.fail(fn+":absolute-differs", "NewQuery(%q).AbsoluteRaw() = %q, want %q", s, abs, "o2/components/"+ref.trimmed)
			}
		}
	}
}

// allStrings calls fn for every concatenation of at most maxLen tokens, shortest first.
func allStrings(tokens []string, maxLen int, fn func(s string)) int64 {
	var n int64
	idx := make([]int, maxLen)
	buf := make([]byte, 0, 128)
	for l := 0; l <= maxLen; l++ {
		for i := range idx[:l] {
			idx[i] = 0
		}
		for {
			buf = buf[:0]
			for _, k := range idx[:l] {
				buf = append(buf, tokens[k]...)
			}
			fn(string(buf))
			n++
			i := l - 1
			for i >= 0 {
				idx[i]++
				if idx[i] < len(tokens) {
					break
				}
				idx[i] = 0
				i--
			}
			if i < 0 {
				break
			}
		}
	}
	return n
}

func pathStringsScenario(r *vrt.DirectReport, tier string) {
	f := newFailer(r)
	rts := runTypeNames()
	for _, must := range []string{"ANY", "PHYSICS", "TECHNICAL", "COSMICS", "SYNTHETIC"} {
		if !rts[must] {
			f.fail("documented-runtype-missing:"+must, "run type %s is not in the run type enum", must)
		}
	}
	tokens := []string{"a", "Z", "0", "-", "/", " ", "=", "ANY"}
	maxLen := 7
	if tier == "thorough" {
		tokens = []string{"a", "Z", "0", "-", "_", "/", " ", "=", "ANY"}
		maxLen = 8
	}
	n := allStrings(tokens, maxLen, func(s string) { checkPath(r, f, s, rts) })
	r.Notes = append(r.Notes, fmt.Sprintf("grid: all %d concatenations of at most %d tokens from %q, each given to NewQuery and NewEntriesQuery", n, maxLen, tokens))
	r.Samples = append(r.Samples, sampleParse("a/ANY/a/a-Z"), sampleParse(" a/ANY/Z/0 "), sampleParse("a/ANYZ/a/a"))
}

func sampleParse(s string) string {
	q, err := componentcfg.NewQuery(s)
	if err != nil {
		return fmt.Sprintf("NewQuery(%q) -> error %v", s, err)
	}
	return fmt.Sprintf("NewQuery(%q) -> component=%q runtype=%s role=%q entry=%q Raw=%q", s, q.Component, rtName(q.RunType), q.RoleName, q.EntryKey, q.Raw())
}

func pathProductScenario(r *vrt.DirectReport, tier string) {
	f := newFailer(r)
	rts := runTypeNames()
	comps := []string{"", "c", "qc", "aAzZ09-_", "-", "_", "a b", " c", "c ", "c=", "c.", "c\n", "ç", "c&d", "c:d"}
	var rtl []string
	for n := range rts {
		rtl = append(rtl, n)
	}
	sort.Strings(rtl)
	rtl = append(rtl, "", "any", "Any", "physics", "Physics", "ANYX", "XANY", "AN", "NY", "ANY ", " ANY", "A NY", "FOO", "PHYSICS_", "0", "-", "_", "CALIBRATION", "CALIBRATION_", "300", "1", "ANY.", "ANY=")
	roles := []string{"", "any", "r", "flp001", "aAzZ09-_", "-", "_", "r 1", " r", "r ", "r=", "r.", "r\t", "ANY", "é", "r,1", "r[0]"}
	entries := []string{"", "e", "ctp-raw-qc", "aAzZ09-_", "tpc/clusters", "a/b/c", "e/", "/e", "e//f", "/", "e f", " e", "e ", "e=f", "e.json", "e\nf", "resolve", "e/resolve", "é", "e?x", "e&f", "e,f", "e[0]", "e\"f"}
	outer := []string{"", " ", "  ", "\t", "\n", " \t\n"}
	if tier != "thorough" {
		outer = []string{"", " ", "\n"}
		comps = comps[:10]
		roles = roles[:12]
	}
	seps := []string{"/"}
	var n int64
	for _, c := range comps {
		for _, rt := range rtl {
			for _, ro := range roles {
				for _, sep := range seps {
					for _, pre := range outer {
						for _, post := range outer {
							// three-part form
							checkPath(r, f, pre+c+sep+rt+sep+ro+post, rts)
							n++
							for _, e := range entries {
								checkPath(r, f, pre+c+sep+rt+sep+ro+sep+e+post, rts)
								n++
							}
						}
					}
				}
			}
		}
	}
	r.Notes = append(r.Notes, fmt.Sprintf("grid: %d strings = blanks %q x components %q x run types %q x roles %q x (no entry | entries %q) x blanks; each given to NewQuery and NewEntriesQuery", n, outer, comps, rtl, roles, entries))
	r.Samples = append(r.Samples, sampleParse("qc/PHYSICS/flp001/tpc/clusters"), sampleParse("qc/physics/any/ctp-raw-qc"), sampleParse("\tqc/ANY/any/e.json"))
}

// ---- scenario 4/5: parameter strings ---------------------------------------

func checkParams(r *vrt.DirectReport, f *failer, s string) {
	ref, verdict := refParseParams(s)
	var p *componentcfg.QueryParameters
	var err error
	guard(f, "NewQueryParameters", func() string { return fmt.Sprintf("NewQueryParameters(%q)", s) }, func() {
		p, err = componentcfg.NewQueryParameters(s)
	})
	accepted := err == nil
	class := [...]string{"malformed", "wellformed", "unspecified"}[verdict]
	if ref.why != "" {
		class += "(" + ref.why + ")"
	}
	if verdict != vReject {
		class += fmt.Sprintf(" vars=%d process=%v", len(ref.vars), ref.hasProcess)
	}
	if accepted {
		class += " -> accepted"
	} else {
		class += " -> rejected"
	}
	r.Count(class)
	switch {
	case accepted && p == nil:
		f.fail("NewQueryParameters:nil-without-error", "NewQueryParameters(%q) returned nil, nil", s)
		return
	case verdict == vReject && accepted:
		f.fail("NewQueryParameters:accepted-malformed:"+ref.why, "NewQueryParameters(%q) accepted: vars=%v process=%v; malformed: %s", s, p.VarStack, p.ProcessTemplates, ref.why)
		return
	case verdict == vAccept && !accepted:
		f.fail("NewQueryParameters:rejected-wellformed", "NewQueryParameters(%q) = %v; spells vars=%v process=%v", s, err, ref.vars, ref.process)
		return
	}
	if !accepted || ref.why == "empty" {
		return
	}
	if len(p.VarStack) != len(ref.vars) {
		extra := "extra"
		if len(p.VarStack) < len(ref.vars) {
			extra = "missing"
		}
		f.fail("NewQueryParameters:variables-"+extra, "NewQueryParameters(%q): vars=%v, spelled %v", s, p.VarStack, ref.vars)
	}
	for k, v := range ref.vars {
		if got, ok := p.VarStack[k]; !ok {
			f.fail("NewQueryParameters:variable-lost", "NewQueryParameters(%q): variable %q missing; vars=%v", s, k, p.VarStack)
		} else if got != v {
			f.fail("NewQueryParameters:variable-value-changed", "NewQueryParameters(%q): %q=%q, spelled %q", s, k, got, v)
		}
	}
	if ref.hasProcess && (ref.processKnown || verdict == vGray) && p.ProcessTemplates != ref.process {
		f.fail("NewQueryParameters:process-flag-wrong", "NewQueryParameters(%q): ProcessTemplates=%v, spelled %v", s, p.ProcessTemplates, ref.process)
	}
}

func paramStringsScenario(r *vrt.DirectReport, tier string) {
	f := newFailer(r)
	tokens := []string{"a", "b", "1", "=", "&", " ", ",", "%", "process", "true"}
	maxLen := 6
	if tier == "thorough" {
		tokens = []string{"a", "b", "1", "=", "&", " ", ",", "\"", "%", "+", "process", "true"}
		maxLen = 7
	}
	n := allStrings(tokens, maxLen, func(s string) { checkParams(r, f, s) })
	r.Notes = append(r.Notes, fmt.Sprintf("grid: all %d concatenations of at most %d tokens from %q given to NewQueryParameters", n, maxLen, tokens))
	r.Samples = append(r.Samples, sampleParams("a=1&b=a,b"), sampleParams("a=1&a=b"), sampleParams("process=true&a=%1"))
}

func sampleParams(s string) string {
	p, err := componentcfg.NewQueryParameters(s)
	if err != nil {
		return fmt.Sprintf("NewQueryParameters(%q) -> error %v", s, err)
	}
	var ks []string
	for k, v := range p.VarStack {
		ks = append(ks, k+"="+v)
	}
	sort.Strings(ks)
	return fmt.Sprintf("NewQueryParameters(%q) -> process=%v vars=%v", s, p.ProcessTemplates, ks)
}

func paramProductScenario(r *vrt.DirectReport, tier string) {
	f := newFailer(r)
	pairs := []string{
		"a=1", "b=2", "a=2", "C_D3=C,C,C", "detectors=[\"MCH\",\"MID\"]", "run-type=PHYSICS", "process=true", "process=false",
		"process=1", "process=yes", "process=", "process", "a=", "=1", "a", "a==1", "a=1=2", "a b=1", "a=1 2", "a=%20", "a=b+c",
		"a=b;c=d", "a.b=1", "a=1.5", "a=x/y", "a='1'", "é=1", "a=é", "aAzZ09-_=aAzZ09-_", "[a]=1", "a={b}", "a=b#c", "a=?", "process=TRUE",
	}
	if tier != "thorough" {
		pairs = pairs[:22]
	}
	outer := []string{"", " ", "\n"}
	joins := []string{"&"}
	var n int64
	run := func(core string) {
		for _, pre := range outer {
			for _, post := range outer {
				checkParams(r, f, pre+core+post)
				n++
			}
		}
	}
	run("")
	run("&")
	for _, p1 := range pairs {
		run(p1)
		run("&" + p1)
		run(p1 + "&")
		run("?" + p1)
		for _, p2 := range pairs {
			for _, j := range joins {
				run(p1 + j + p2)
			}
			run(p1 + "&&" + p2)
			run(p1 + " & " + p2)
			run(p1 + ";" + p2)
			for _, p3 := range pairs {
				run(p1 + "&" + p2 + "&" + p3)
			}
		}
	}
	r.Notes = append(r.Notes, fmt.Sprintf("grid: %d strings = blanks x (1..3 pairs from %q joined by '&', plus '&&', ' & ', ';', leading/trailing '&', leading '?') x blanks", n, pairs))
	r.Samples = append(r.Samples, sampleParams("process=true&a=aaa&b=123&C_D3=C,C,C&detectors=[\"MCH\",\"MID\"]"), sampleParams("a=1&&b=2"))
}

// ---- scenario 6: payload templating ----------------------------------------

type binding map[string]string

func (b binding) String() string {
	var ks []string
	for k, v := range b {
		ks = append(ks, k+"="+strconv.Quote(v))
	}
	sort.Strings(ks)
	return "{" + strings.Join(ks, ",") + "}"
}

func payloadScenario(r *vrt.DirectReport, tier string) {
	f := newFailer(r)
	dir := scratchDir()
	defer os.RemoveAll(dir)
	file := filepath.Join(dir, "backend.yaml")

	lit := func(s string) seg { return seg{lit: s} }
	v := func(n string) seg { return seg{varName: n} }
	inc := func(n string) seg { return seg{include: n} }
	// entry contents with 0..2 template variables (directly or through an included sibling)
	templates := []struct {
		name string
		segs []seg
	}{
		{"plain", []seg{lit("plain text, no variables")}},
		{"one", []seg{lit("A<"), v("v1"), lit(">B")}},
		{"two", []seg{v("v1"), lit(" - "), v("v2")}},
		{"swapped", []seg{v("v2"), v("v1")}},
		{"twice", []seg{v("v1"), lit("+"), v("v1")}},
		{"with-include", []seg{lit("head "), v("v1"), lit(" "), inc("part")}},
		{"part", []seg{lit("[part "), v("v2"), lit("]")}},
		{"json", []seg{lit("{\"list\": \""), v("v1"), lit("\", \"n\": "), v("v2"), lit("}")}},
		// the utility functions the handbook offers to entry contents: they look variables up themselves
		{"override", []seg{lit("o="), {override: "v1"}, lit(";")}},
		{"override-legacy", []seg{{override: "v1", legacy: true}, lit("|"), v("v2")}},
		{"override-and-plain", []seg{v("v1"), lit("|"), {override: "v1"}}},
	}
	siblings := map[string][]seg{}
	for _, tp := range templates {
		siblings[tp.name] = tp.segs
	}
	// the same templates live under two folders; the other folder's "part" differs, to see that inclusion is per folder
	t := tree{}
	for _, tp := range templates {
		t["c1/PHYSICS/r1/"+tp.name] = source(tp.segs)
		t["c1/ANY/any/"+tp.name] = "other folder " + source(tp.segs)
		t["c1/PHYSICS/r1/deep/"+tp.name] = source(tp.segs)
	}
	writeBackend(file, t)

	values := []string{"x", "y1"}
	if tier == "thorough" {
		values = []string{"x", "a,b_c-d", ""}
	}
	// all bindings: each of v1, v2, p_v1 (p_v1 is used by the override templates only) absent or one of the values
	var bindings []binding
	opts := len(values) + 1
	total := opts * opts * opts
	for k := 0; k < total; k++ {
		b := binding{}
		kk := k
		for _, name := range []string{"v1", "v2", "p_v1"} {
			o := kk % opts
			kk /= opts
			if o > 0 {
				b[name] = values[o-1]
			}
		}
		bindings = append(bindings, b)
	}
	folders := []string{"c1/PHYSICS/r1", "c1/PHYSICS/r1/deep"}
	var calls int64
	for _, folder := range folders {
		for _, tp := range templates {
			q, err := componentcfg.NewQuery(folder + "/" + tp.name)
			if err != nil {
				f.fail("wellformed-query-rejected", "NewQuery(%q): %v", folder+"/"+tp.name, err)
				continue
			}
			nvars := map[string]bool{}
			var count func(s []seg)
			count = func(s []seg) {
				for _, x := range s {
					if x.varName != "" {
						nvars[x.varName] = true
					}
					if x.upper != "" {
						nvars[x.upper] = true
					}
					if x.override != "" {
						nvars[x.override], nvars["p_"+x.override] = true, true
					}
					if x.include != "" {
						count(siblings[x.include])
					}
				}
			}
			count(tp.segs)
			// every ordered pair of bindings on one fresh service: the second call must not see anything of the first
			for _, b1 := range bindings {
				for _, b2 := range bindings {
					svc := newService(file)
					for i, b := range []binding{b1, b2} {
						supplied := 0
						for k := range b {
							if nvars[k] {
								supplied++
							}
						}
						want := render(tp.segs, siblings, b)
						in := map[string]string{}
						for k, v := range b {
							in[k] = v
						}
						var got string
						var gerr error
						witness := func() string {
							return fmt.Sprintf("entry %s/%s = %q, call %d with %v (previous call %v)", folder, tp.name, source(tp.segs), i+1, b, b1)
						}
						guard(f, "process-call", witness, func() { got, gerr = svc.GetAndProcessComponentConfiguration(q, in) })
						calls++
						verdict := "ok"
						site := fmt.Sprintf("template=%s vars-used=%d supplied=%d call=%d", tp.name, len(nvars), supplied, i+1)
						suppliedClass := "some-used-variables-supplied"
						switch supplied {
						case 0:
							suppliedClass = "no-used-variable-supplied"
						case len(nvars):
							suppliedClass = "all-used-variables-supplied"
						}
						if gerr != nil {
							verdict = "error"
							f.fail("processing-error:"+tp.name, "%s: error %v", witness(), gerr)
						} else if got != want {
							verdict = "differs"
							kind := "wrong-payload"
							if i == 1 && got == render(tp.segs, siblings, b1) && b1.String() != b.String() {
								kind = "payload-of-previous-variables"
							}
							f.fail(kind+":"+suppliedClass, "%s: got %q, want %q", witness(), got, want)
						}
						if len(in) != len(b) {
							f.fail("supplied-variables-mutated", "%s: variables now %v", witness(), in)
						}
						r.Count(site + " -> " + verdict)
					}
				}
			}
			// unprocessed retrieval returns the content verbatim
			svc := newService(file)
			raw, gerr := svc.GetComponentConfiguration(q)
			r.Count("verbatim template=" + tp.name)
			if gerr != nil || raw != source(tp.segs) {
				f.fail("verbatim-differs:"+tp.name, "GetComponentConfiguration(%s/%s) = %q, %v; want %q", folder, tp.name, raw, gerr, source(tp.segs))
			}
		}
	}
	// an entry that does not exist yields an error, with or without variables
	svc := newService(file)
	for _, b := range bindings {
		q, _ := componentcfg.NewQuery("c1/PHYSICS/r1/nothing-here")
		_, gerr := svc.GetAndProcessComponentConfiguration(q, b)
		r.Count("missing entry -> error")
		if gerr == nil {
			f.fail("missing-entry-without-error", "GetAndProcessComponentConfiguration(c1/PHYSICS/r1/nothing-here, %v) returned no error", b)
		}
	}
	r.Notes = append(r.Notes, fmt.Sprintf("grid: folders %v x %d templates (0..2 variables, sibling inclusion, sub-folder) x all ordered pairs of %d bindings (v1,v2,p_v1 each absent or one of %q) on a fresh service = %d processed retrievals", folders, len(templates), len(bindings), values, calls))
	r.Samples = append(r.Samples, fmt.Sprintf("entry %q with {v1=x} -> %q", source(templates[2].segs), render(templates[2].segs, siblings, binding{"v1": "x"})))
}

// ---- scenario: payloads on one service across folders, entries and content changes ----

// payloadHistoryScenario: two processed retrievals in a row on ONE service, of entries in the same or in
// different folders (same and different entry names, inclusion of a sibling that differs per folder), each
// with its own variables; then the content of the second entry is changed, the template cache invalidated
// (the documented way to make a change visible) and the entry retrieved again.
func payloadHistoryScenario(r *vrt.DirectReport, tier string) {
	f := newFailer(r)
	dir := scratchDir()
	defer os.RemoveAll(dir)
	file := filepath.Join(dir, "backend.yaml")
	lit := func(s string) seg { return seg{lit: s} }
	v := func(n string) seg { return seg{varName: n} }
	base := map[string][]seg{
		"one":          {lit("A<"), v("v1"), lit(">B")},
		"with-include": {lit("head "), v("v1"), lit(" "), {include: "part"}},
		"part":         {lit("[part "), v("v2"), lit("]")},
		"override":     {lit("o="), {override: "v1"}, lit(";")},
	}
	names := []string{"one", "with-include", "part", "override"}
	folders := []string{"c1/PHYSICS/r1", "c1/ANY/any", "c1/PHYSICS/r1/deep", "c2/PHYSICS/r1"}
	// per folder the same entry names with contents that differ by a folder mark
	content := func(folder string, gen int) map[string][]seg {
		m := map[string][]seg{}
		for _, n := range names {
			mark := fmt.Sprintf("<%s#%d>", folder, gen)
			m[n] = append([]seg{lit(mark)}, base[n]...)
		}
		return m
	}
	write := func(gens map[string]int) map[string]map[string][]seg {
		all := map[string]map[string][]seg{}
		t := tree{}
		for _, fo := range folders {
			all[fo] = content(fo, gens[fo])
			for n, sg := range all[fo] {
				t[fo+"/"+n] = source(sg)
			}
		}
		writeBackend(file, t)
		return all
	}
	bindings := []binding{{}, {"v1": "x", "v2": "y"}, {"v1": "y1", "p_v1": "px"}}
	if tier == "thorough" {
		bindings = append(bindings, binding{"v2": "z"}, binding{"v1": "", "v2": "a,b"})
	}
	type req struct {
		folder, name string
	}
	var reqs []req
	for _, fo := range folders {
		for _, n := range names {
			reqs = append(reqs, req{fo, n})
		}
	}
	rel := func(a, b req) string {
		switch {
		case a == b:
			return "same-entry"
		case a.folder == b.folder:
			return "same-folder"
		case a.name == b.name:
			return "other-folder-same-entry-name"
		}
		return "other-folder"
	}
	var calls int64
	ask := func(svc *local.Service, all map[string]map[string][]seg, q req, b binding, what, clausePfx string, prev string) {
		qq, err := componentcfg.NewQuery(q.folder + "/" + q.name)
		if err != nil {
			f.fail("wellformed-query-rejected", "NewQuery(%q): %v", q.folder+"/"+q.name, err)
			return
		}
		in := map[string]string{}
		for k, x := range b {
			in[k] = x
		}
		want := render(all[q.folder][q.name], all[q.folder], b)
		var got string
		var gerr error
		witness := func() string {
			return fmt.Sprintf("%s: entry %s/%s = %q with %v (%s)", what, q.folder, q.name, source(all[q.folder][q.name]), b, prev)
		}
		guard(f, "process-call", witness, func() { got, gerr = svc.GetAndProcessComponentConfiguration(qq, in) })
		calls++
		verdict := "ok"
		if gerr != nil {
			verdict = "error"
			f.fail(clausePfx+"processing-error", "%s: error %v", witness(), gerr)
		} else if got != want {
			verdict = "differs"
			f.fail(clausePfx+"wrong-payload", "%s: got %q, want %q", witness(), got, want)
		}
		r.Count(what + " -> " + verdict)
	}
	for _, q1 := range reqs {
		for _, q2 := range reqs {
			for _, b1 := range bindings {
				for _, b2 := range bindings {
					gens := map[string]int{}
					all := write(gens)
					svc := newService(file)
					ask(svc, all, q1, b1, "first request", "", "fresh service")
					relation := rel(q1, q2)
					ask(svc, all, q2, b2, "second request, "+relation, "second-request:"+relation+":", fmt.Sprintf("after %s/%s with %v", q1.folder, q1.name, b1))
					if b1.String() != bindings[1].String() {
						continue // the change of content is played once per pair of entries and second binding
					}
					// the content of every entry of q2's folder changes (the included sibling too)
					gens[q2.folder] = 1
					all = write(gens)
					svc.InvalidateComponentTemplateCache()
					ask(svc, all, q2, b2, "after content change and cache invalidation, "+relation, "after-invalidation:", fmt.Sprintf("content rewritten, cache invalidated; before: %s/%s", q1.folder, q1.name))
					qq, _ := componentcfg.NewQuery(q2.folder + "/" + q2.name)
					raw, gerr := svc.GetComponentConfiguration(qq)
					r.Count("verbatim after content change")
					if gerr != nil || raw != source(all[q2.folder][q2.name]) {
						f.fail("after-change:verbatim-differs", "GetComponentConfiguration(%s/%s) after the content changed = %q, %v; want %q", q2.folder, q2.name, raw, gerr, source(all[q2.folder][q2.name]))
					}
				}
			}
		}
	}
	r.Notes = append(r.Notes, fmt.Sprintf("grid: all ordered pairs of %d entries (folders %v x names %v; contents carry a folder mark, with-include includes the folder's own part) x ordered pairs of %d bindings on one service; then content of the second entry's folder rewritten + InvalidateComponentTemplateCache + third retrieval; %d processed retrievals", len(reqs), folders, names, len(bindings), calls))
}

// ---- opt-in scenario: corner cases the statement does not clearly cover -----

// edgeScenario is NOT part of the default C20 run (see registry.json: scenarios).
// It documents two behaviours of the unchanged tree that a strict reading of the
// statement would call violations and a lenient one would not:
//
//	(a) variable values containing HTML-special characters are HTML-escaped by the
//	    template engine (autoescape is left on) before they reach the payload;
//	(b) with the file backend a folder counts as "existing", so a folder named like
//	    the entry at a more specific candidate hides a real entry at a later candidate.
func edgeScenario(r *vrt.DirectReport, tier string) {
	f := newFailer(r)
	dir := scratchDir()
	defer os.RemoveAll(dir)
	file := filepath.Join(dir, "backend.yaml")

	// (a)
	segs := []seg{{lit: "A<"}, {varName: "v1"}, {lit: ">B"}}
	writeBackend(file, tree{"c1/PHYSICS/r1/one": source(segs)})
	q, _ := componentcfg.NewQuery("c1/PHYSICS/r1/one")
	for _, c := range []struct{ class, val string }{
		{"plain", "tpc,its"}, {"double-quote", "[\"MCH\",\"MID\"]"}, {"single-quote", "it's"}, {"ampersand", "a&b"}, {"less-than", "a<b"}, {"greater-than", "a>b"},
	} {
		svc := newService(file)
		want := render(segs, nil, binding{"v1": c.val})
		got, err := svc.GetAndProcessComponentConfiguration(q, map[string]string{"v1": c.val})
		verdict := "verbatim"
		if err != nil || got != want {
			verdict = "altered"
			f.fail("variable-value-altered:"+c.class, "entry %q with v1=%q: got %q, %v; want %q", source(segs), c.val, got, err, want)
		}
		r.Count("value class=" + c.class + " -> " + verdict)
	}

	// (b) a folder <entry>/ at candidate k (holding some deeper entry), a real entry at candidate j > k
	cands := [4][2]string{{"PHYSICS", "r1"}, {"ANY", "r1"}, {"PHYSICS", "any"}, {"ANY", "any"}}
	for k := 0; k < 4; k++ {
		for j := k + 1; j <= 4; j++ {
			t := tree{"c1/" + cands[k][0] + "/" + cands[k][1] + "/sub/deeper": "deeper"}
			want, step := "", 0
			if j < 4 {
				want = "c1/" + cands[j][0] + "/" + cands[j][1] + "/sub"
				t[want] = "payload of " + want
				step = j + 1
			}
			writeBackend(file, t)
			svc := newService(file)
			qq, _ := componentcfg.NewQuery("c1/PHYSICS/r1/sub")
			res, err := svc.ResolveComponentQuery(qq)
			verdict := "ok"
			switch {
			case step == 0 && err == nil:
				verdict = "folder-resolved"
				f.fail(fmt.Sprintf("folder-taken-for-entry:folder-at-step%d:no-entry", k+1), "tree %v: query c1/PHYSICS/r1/sub resolved to %s, which is a folder; no entry of that name exists", t.keys(), queryString(res))
			case step != 0 && (err != nil || queryString(res) != want):
				verdict = "folder-resolved"
				f.fail(fmt.Sprintf("folder-taken-for-entry:folder-at-step%d:entry-at-step%d", k+1, step), "tree %v: query c1/PHYSICS/r1/sub resolved to %s, %v; the first existing entry is %s", t.keys(), queryString(res), err, want)
			}
			r.Count(fmt.Sprintf("folder at step %d, entry at step %d -> %s", k+1, step, verdict))
		}
	}
	r.Notes = append(r.Notes, "opt-in corner cases: 6 value classes through one template; folder-vs-entry at every pair of candidate positions")
}

func main() {
	logrus.SetOutput(io.Discard)
	vrt.Main([]*vrt.Scenario{
		{Name: "resolve", Prop: "C20", Direct: resolveScenario, Doc: "every existence pattern of the candidate entries x every query: ResolveComponentQuery / GetComponentConfiguration against the first-existing reference"},
		{Name: "resolve-history", Prop: "C20", Direct: resolveHistoryScenario, Doc: "one service, backend rewritten between requests: every ordered pair of existence patterns, queries before and after the change"},
		{Name: "path-strings", Prop: "C20", Direct: pathStringsScenario, Doc: "all short token strings through NewQuery / NewEntriesQuery against a regex-free reference parser"},
		{Name: "path-product", Prop: "C20", Direct: pathProductScenario, Doc: "product of well- and ill-formed components, run types, roles, entries and surrounding blanks through NewQuery / NewEntriesQuery"},
		{Name: "param-strings", Prop: "C20", Direct: paramStringsScenario, Doc: "all short token strings through NewQueryParameters against a regex-free reference parser"},
		{Name: "param-product", Prop: "C20", Direct: paramProductScenario, Doc: "1..3 well- and ill-formed key=value pairs with every joiner through NewQueryParameters"},
		{Name: "edge", Prop: "C20", Direct: edgeScenario, Doc: "OPT-IN, not in the default run: HTML-special characters in variable values; folders named like the entry"},
		{Name: "payload-history", Prop: "C20", Direct: payloadHistoryScenario, Doc: "two processed retrievals on one service across folders / entries / variables, then a content change with cache invalidation"},
		{Name: "payload", Prop: "C20", Direct: payloadScenario, Doc: "entry contents with 0..2 variables x every ordered pair of supplied-variable sets: GetAndProcessComponentConfiguration against reference substitution"},
	})
}

// Reference models for C20, written from the property statement and the apricot
// documentation (docs/handbook/configuration.md, apricot/docs/*): no regular
// expressions, nothing transcribed from the code under test.
package main

import (
	"sort"
	"strings"
)

// ---- verdicts of the reference parsers -------------------------------------

const (
	vReject = iota // malformed: the real parser must return an error
	vAccept        // well formed: the real parser must accept, with exactly these fields
	vGray          // the statement does not say; if accepted, the fields must still be the ones spelled
)

// blanks that may surround a query string ("surrounding blanks aside")
const blanks = " \t\r\n\v\f"

func isNameChar(c byte) bool {
	return c >= 'a' && c <= 'z' || c >= 'A' && c <= 'Z' || c >= '0' && c <= '9' || c == '-' || c == '_'
}

// badCharClass names the first character of s outside the name alphabet
// (extra lists further admissible bytes). "" = all fine.
func badCharClass(s, extra string) string {
	for i := 0; i < len(s); i++ {
		c := s[i]
		if isNameChar(c) || strings.IndexByte(extra, c) >= 0 {
			continue
		}
		switch {
		case c == ' ':
			return "blank"
		case c == '\t' || c == '\n' || c == '\r':
			return "control"
		case c == '/':
			return "slash"
		case c == '=' || c == '&':
			return "delimiter"
		case c >= 0x80:
			return "non-ascii"
		default:
			return "punct"
		}
	}
	return ""
}

// pathRef is what a path query spells.
type pathRef struct {
	trimmed                         string
	component, runType, role, entry string
	why                             string // reason for vReject / vGray (stable, used in clause strings)
}

// refParsePath: <component>/<RUNTYPE>/<rolename>[/<entry>], entry may contain
// further slashes (entries in sub-folders). runTypes = the names of the run type enum.
func refParsePath(s string, withEntry bool, runTypes map[string]bool) (pathRef, int) {
	p := pathRef{trimmed: strings.Trim(s, blanks)}
	parts := strings.Split(p.trimmed, "/")
	if withEntry {
		if len(parts) < 4 {
			p.why = "too-few-parts"
			return p, vReject
		}
		p.entry = strings.Join(parts[3:], "/")
	} else {
		if len(parts) < 3 {
			p.why = "too-few-parts"
			return p, vReject
		}
		if len(parts) > 3 {
			p.why = "too-many-parts"
			return p, vReject
		}
	}
	p.component, p.runType, p.role = parts[0], parts[1], parts[2]
	verdict := vAccept
	for _, f := range []struct{ name, val, extra string }{
		{"component", p.component, ""}, {"runtype", p.runType, ""}, {"role", p.role, ""}, {"entry", p.entry, "/"},
	} {
		if f.name == "entry" && !withEntry {
			continue
		}
		if f.val == "" {
			p.why = "empty-" + f.name
			return p, vReject
		}
		if c := badCharClass(f.val, f.extra); c != "" {
			p.why = c + "-in-" + f.name
			return p, vReject
		}
	}
	if !runTypes[p.runType] {
		p.why = "unknown-runtype"
		if p.runType != strings.ToUpper(p.runType) {
			p.why = "runtype-not-capitalized"
		}
		return p, vReject
	}
	if p.runType == "NULL" {
		// NULL is a member of the enum but not a run type anybody can store entries under
		p.why = "runtype-NULL"
		verdict = vGray
	}
	if withEntry {
		for _, seg := range strings.Split(p.entry, "/") {
			if seg == "" {
				// "a/ANY/r//e", "a/ANY/r/e/": empty path segments inside the entry key
				p.why = "empty-entry-segment"
				verdict = vGray
			}
		}
	}
	return p, verdict
}

// paramsRef is what a parameter string spells.
type paramsRef struct {
	vars         map[string]string
	hasProcess   bool
	process      bool
	processKnown bool // the literal was "true"/"false"
	why          string
}

var boolLiterals = map[string]bool{"1": true, "t": true, "T": true, "TRUE": true, "True": true, "0": false, "f": false, "F": false, "FALSE": false, "False": false}

// refParseParams: key=value(&key=value)*, one value per key, "process" is the
// boolean template switch, everything else is a template variable.
func refParseParams(s string) (paramsRef, int) {
	p := paramsRef{vars: map[string]string{}}
	t := strings.Trim(s, blanks)
	if t == "" {
		p.why = "empty"
		return p, vGray
	}
	verdict := vAccept
	for _, piece := range strings.Split(t, "&") {
		if piece == "" {
			p.why = "empty-pair"
			return p, vReject
		}
		eq := strings.Count(piece, "=")
		if eq == 0 {
			p.why = "pair-without-equals"
			return p, vReject
		}
		if eq > 1 {
			p.why = "pair-with-several-equals"
			return p, vReject
		}
		i := strings.IndexByte(piece, '=')
		k, v := piece[:i], piece[i+1:]
		if k == "" {
			p.why = "empty-key"
			return p, vReject
		}
		if c := badCharClass(k, ""); c != "" {
			p.why = c + "-in-key"
			return p, vReject
		}
		if c := badCharClass(v, ",\"[]"); c != "" {
			p.why = c + "-in-value"
			return p, vReject
		}
		if _, dup := p.vars[k]; dup || (k == "process" && p.hasProcess) {
			p.why = "duplicate-key"
			return p, vReject
		}
		if k == "process" {
			p.hasProcess = true
			switch v {
			case "true":
				p.process, p.processKnown = true, true
			case "false":
				p.process, p.processKnown = false, true
			default:
				if b, ok := boolLiterals[v]; ok {
					p.process = b
					p.why = "process-bool-alias"
					verdict = vGray
				} else {
					p.why = "process-not-boolean"
					return p, vReject
				}
			}
			continue
		}
		if v == "" {
			p.why = "empty-value"
			verdict = vGray
		}
		p.vars[k] = v
	}
	return p, verdict
}

// ---- reference backend and fallback ----------------------------------------

// tree is the configuration tree the backend file is generated from:
// "<component>/<RUNTYPE>/<role>/<entry>" -> content.
type tree map[string]string

func (t tree) keys() []string {
	out := make([]string, 0, len(t))
	for k := range t {
		out = append(out, k)
	}
	sort.Strings(out)
	return out
}

// refResolve: first existing of exact, ANY/role, runtype/any, ANY/any.
// step is 1..4, 0 = none exists.
func refResolve(t tree, component, runType, role, entry string) (path string, step int) {
	cands := [4][2]string{{runType, role}, {"ANY", role}, {runType, "any"}, {"ANY", "any"}}
	for i, c := range cands {
		k := component + "/" + c[0] + "/" + c[1] + "/" + entry
		if _, ok := t[k]; ok {
			return k, i + 1
		}
	}
	return "", 0
}

// ---- reference templating ----------------------------------------------------

// seg is one piece of an entry's content: a literal, a variable reference or
// an inclusion of a sibling entry.
type seg struct {
	lit, varName, include string
	// override: util.PrefixedOverride(override, "p") (legacy: the bare PrefixedOverride): the value of
	// p_<override> if supplied and not blank / "none", else that of <override>, else nothing
	// (documented in docs/handbook/configuration.md); upper: strings.ToUpper(<upper>)
	override, upper string
	legacy          bool
}

func (s seg) source() string {
	switch {
	case s.varName != "":
		return "{{ " + s.varName + " }}"
	case s.include != "":
		return "{% include \"" + s.include + "\" %}"
	case s.override != "" && s.legacy:
		return "{{ PrefixedOverride(\"" + s.override + "\", \"p\") }}"
	case s.override != "":
		return "{{ util.PrefixedOverride(\"" + s.override + "\", \"p\") }}"
	case s.upper != "":
		return "{{ strings.ToUpper(" + s.upper + ") }}"
	}
	return s.lit
}

func source(segs []seg) string {
	var b strings.Builder
	for _, s := range segs {
		b.WriteString(s.source())
	}
	return b.String()
}

// render: literals verbatim, supplied variables by value, variables that were
// not supplied contribute nothing, inclusions render the sibling with the same variables.
func render(segs []seg, siblings map[string][]seg, vars map[string]string) string {
	var b strings.Builder
	for _, s := range segs {
		switch {
		case s.varName != "":
			b.WriteString(vars[s.varName])
		case s.include != "":
			b.WriteString(render(siblings[s.include], siblings, vars))
		case s.override != "":
			blank := func(v string) bool { return v == "none" || strings.TrimSpace(v) == "" }
			if v, ok := vars["p_"+s.override]; ok && !blank(v) {
				b.WriteString(v)
			} else if v, ok := vars[s.override]; ok && !blank(v) {
				b.WriteString(v)
			}
		case s.upper != "":
			b.WriteString(strings.ToUpper(vars[s.upper]))
		default:
			b.WriteString(s.lit)
		}
	}
	return b.String()
}

// C10: run number and run timestamps bracket every run exactly once.
// Explicit-state BFS over start/stop/error histories of a real Environment
// (real FSM callbacks in core/environment/environment.go), probes at weight -1
// and +1 of every moment snapshot the variables a hook can see.
package main

import (
	"fmt"
	"strconv"
	"strings"
	"time"

	"github.com/AliceO2Group/Control/verif_h/envsim"
	vrt "github.com/AliceO2Group/Control/verif_vrt"
)

type opDef struct {
	name   string
	event  string
	src    string
	failAt string // probe id that fails ("" none)
	body   bool   // task transition fails
}

// the operations of the first version of this harness come first: their indexes appear in recorded replays
var ops = []opDef{
	{"START", "START_ACTIVITY", "CONFIGURED", "", false},
	{"START!before-1", "START_ACTIVITY", "CONFIGURED", "before_START_ACTIVITY-1", false},
	{"START!before+1", "START_ACTIVITY", "CONFIGURED", "before_START_ACTIVITY+1", false},
	{"START!leave+1", "START_ACTIVITY", "CONFIGURED", "leave_CONFIGURED+1", false},
	{"START!tasks", "START_ACTIVITY", "CONFIGURED", "", true},
	{"START!enter+1", "START_ACTIVITY", "CONFIGURED", "enter_RUNNING+1", false},
	{"START!after-1", "START_ACTIVITY", "CONFIGURED", "after_START_ACTIVITY-1", false},
	{"STOP", "STOP_ACTIVITY", "RUNNING", "", false},
	{"STOP!before+1", "STOP_ACTIVITY", "RUNNING", "before_STOP_ACTIVITY+1", false},
	{"STOP!leave-1", "STOP_ACTIVITY", "RUNNING", "leave_RUNNING-1", false},
	{"STOP!tasks", "STOP_ACTIVITY", "RUNNING", "", true},
	{"STOP!after+1", "STOP_ACTIVITY", "RUNNING", "after_STOP_ACTIVITY+1", false},
	{"GO_ERROR", "GO_ERROR", "*", "", false},
	{"RECOVER", "RECOVER", "ERROR", "", false},
	{"CONFIGURE", "CONFIGURE", "DEPLOYED", "", false},
	{"RESET", "RESET", "CONFIGURED", "", false},
}

// every other placement of a failing hook: both weights of every moment of START_ACTIVITY and STOP_ACTIVITY
// (and weight 0 of before_START_ACTIVITY), and the failing hooks of GO_ERROR - a GO_ERROR cancelled by a hook at
// before_/leave_ leaves the run open (with or without its end stamp), one failing later ends it with an error.
func init() {
	have := map[string]bool{}
	for _, o := range ops {
		have[o.name] = true
	}
	add := func(name, event, src, failAt string) {
		if !have[name] {
			have[name] = true
			ops = append(ops, opDef{name, event, src, failAt, false})
		}
	}
	add("START!before+0", "START_ACTIVITY", "CONFIGURED", "before_START_ACTIVITY+0")
	for _, w := range []string{"-1", "+1"} {
		add("START!before"+w, "START_ACTIVITY", "CONFIGURED", "before_START_ACTIVITY"+w)
		add("START!leave"+w, "START_ACTIVITY", "CONFIGURED", "leave_CONFIGURED"+w)
		add("START!enter"+w, "START_ACTIVITY", "CONFIGURED", "enter_RUNNING"+w)
		add("START!after"+w, "START_ACTIVITY", "CONFIGURED", "after_START_ACTIVITY"+w)
		add("STOP!before"+w, "STOP_ACTIVITY", "RUNNING", "before_STOP_ACTIVITY"+w)
		add("STOP!leave"+w, "STOP_ACTIVITY", "RUNNING", "leave_RUNNING"+w)
		add("STOP!enter"+w, "STOP_ACTIVITY", "RUNNING", "enter_CONFIGURED"+w)
		add("STOP!after"+w, "STOP_ACTIVITY", "RUNNING", "after_STOP_ACTIVITY"+w)
		add("GO_ERROR!before"+w, "GO_ERROR", "*", "before_GO_ERROR"+w)
		add("GO_ERROR!leave"+w, "GO_ERROR", "*", "leave_RUNNING"+w+",leave_CONFIGURED"+w)
		add("GO_ERROR!enter"+w, "GO_ERROR", "*", "enter_ERROR"+w)
		add("GO_ERROR!after"+w, "GO_ERROR", "*", "after_GO_ERROR"+w)
	}
}

func probes() []envsim.Hook {
	var hs []envsim.Hook
	for _, m := range []string{
		"before_START_ACTIVITY", "leave_CONFIGURED", "enter_RUNNING", "after_START_ACTIVITY",
		"before_STOP_ACTIVITY", "leave_RUNNING", "enter_CONFIGURED", "after_STOP_ACTIVITY",
		"before_GO_ERROR", "enter_ERROR", "after_GO_ERROR"} {
		for _, w := range []string{"-1", "+1"} {
			hs = append(hs, envsim.Hook{ID: m + w, Trigger: m + w, Critical: true})
		}
		if m == "before_START_ACTIVITY" {
			// weight 0 (the default weight) is the first non-negative one: the set-point lies before it
			hs = append(hs, envsim.Hook{ID: m + "+0", Trigger: m + "+0", Critical: true})
		}
	}
	return hs
}

var stamps = []string{"run_start_time_ms", "run_start_completion_time_ms", "run_end_time_ms", "run_end_completion_time_ms"}

// execHistory runs the history on a fresh environment and evaluates the oracle.
func execHistory(hist []int) (key string, applicable bool, viol []vrt.Violation) {
	envsim.SetupExec()
	var w *envsim.World
	applicable = true
	x := vrt.RunControlled(vrt.Config{Preempt: envsim.InterComponent, NoLockPoints: true}, func() {
		w = envsim.New(probes(), "CONFIGURED")
		for i, oi := range hist {
			o := ops[oi]
			st := w.Env.CurrentState()
			if (o.src != "*" && st != o.src) || (o.src == "*" && (st == "ERROR" || st == "DONE")) {
				applicable = false
				return
			}
			w.FailNow = map[string]bool{}
			if o.failAt != "" {
				for _, id := range strings.Split(o.failAt, ",") {
					w.FailNow[id] = true
				}
			}
			w.Note("op", fmt.Sprintf("%d:%s", i, o.name))
			w.Transition(o.event, fmt.Sprint(i), o.body)
		}
		vrt.Quiesce("settle")
	})
	if !applicable {
		return "", false, nil
	}
	fail := func(clause, f string, a ...any) {
		viol = append(viol, vrt.Violation{Clause: clause, Detail: fmt.Sprintf(f, a...)})
	}
	for _, p := range x.Panics {
		fail("panic", "%s", p)
	}
	if x.Deadlock != "" {
		fail("hang", "%s", x.Deadlock)
	}
	if len(x.Panics) > 0 || x.Deadlock != "" {
		return "broken", true, viol
	}
	viol = append(viol, oracle(w, hist)...)
	// canonical key: FSM state, whether a run number is visible, which stamps are non-empty.
	// Futures depend only on these (all guards in the code test presence/emptiness, never values).
	if len(hist) == 0 {
		return "CONFIGURED|rn=00|0000", true, viol
	}
	last := w.Recs[len(w.Recs)-1]
	for i := len(w.Recs) - 1; i >= 0; i-- {
		if w.Recs[i].Kind == "ret" {
			last = w.Recs[i]
			break
		}
	}
	if last.Kind != "ret" {
		// empty history
		k := "CONFIGURED|rn=0|"
		return k, true, viol
	}
	k := last.Vars["__state"] + "|rn=" + b(last.Vars["run_number"] != "") + b(last.Vars["__rn"] != "0") + "|"
	for _, s := range stamps {
		k += b(last.Vars[s] != "")
	}
	return k, true, viol
}

func b(x bool) string {
	if x {
		return "1"
	}
	return "0"
}

type run struct {
	n       string
	sosor   string
	seen    map[string]string // stamp -> value once non-empty
	running bool              // reached RUNNING
	open    bool
	stopped bool // ended by a completed STOP_ACTIVITY
	startOp string
}

func oracle(w *envsim.World, hist []int) (viol []vrt.Violation) {
	fail := func(clause, f string, a ...any) {
		viol = append(viol, vrt.Violation{Clause: clause, Detail: fmt.Sprintf(f, a...) + "\n  trace: " + w.Summary()})
	}
	var cur *run
	lastN := 0
	opIdx := -1
	var od opDef
	assignedThisOp := false // run number of the current START op has been (should have been) assigned
	preN, preSOSOR := "", ""  // what the negative-weight before_START_ACTIVITY hooks of the current START op saw
	for _, r := range w.Recs {
		switch r.Kind {
		case "op":
			opIdx++
			od = ops[hist[opIdx]]
			assignedThisOp = false
			preN, preSOSOR = "", ""
			continue
		case "spawn", "end":
			continue
		}
		if r.Vars == nil {
			continue
		}
		v := r.Vars
		isStart := od.event == "START_ACTIVITY"
		if r.Kind == "runevt" {
			// every run event carries the number of the run it is about
			if isStart && !assignedThisOp {
				// first event of a new run: announces the number just assigned; verified against probes below
				continue
			}
			if cur != nil && !cur.open && !isStart {
				fail("run-event-after-run-ended:"+od.event, "event %s (run %s) published although run %s is over", r.ID, v["rn"], cur.n)
			}
			if cur != nil && cur.open && v["rn"] != cur.n {
				fail("run-event-number-mismatch:"+od.event, "event %s carries run %s, current run is %s", r.ID, v["rn"], cur.n)
			}
			continue
		}
		if isStart && r.Kind == "start" && strings.HasPrefix(r.ID, "before_START_ACTIVITY-") {
			// negative-weight hooks of before_START: the new run's number / SOSOR are not set yet
			if cur != nil && cur.open && cur.running {
				// cannot happen: START is only legal from CONFIGURED
			}
			// remember what is visible now to compare with what gets assigned
			// ... and nothing of an earlier, completely stopped run is visible any more ("gone afterwards",
			// "values of a previous run are never visible in the next"), under either name
			preN, preSOSOR = v["run_number"], v["run_start_time_ms"]
			if cur != nil && !cur.open && cur.stopped && (v["run_number"] != "" || v["runNumber"] != "") {
				fail("previous-run-number-visible-before-set-point", "at %s:%s run_number=%q runNumber=%q, run %s was stopped", r.Kind, r.ID, v["run_number"], v["runNumber"], cur.n)
			}
			continue
		}
		if isStart && !assignedThisOp && od.failAt != "before_START_ACTIVITY-1" {
			// first observation after the set-point
			assignedThisOp = true
			n := v["run_number"]
			if n == "" || v["runNumber"] != n {
				fail("number-not-set-before-nonnegative-hooks", "at %s:%s run_number=%q runNumber=%q", r.Kind, r.ID, n, v["runNumber"])
			}
			if ni, err := strconv.Atoi(n); err == nil {
				if ni <= lastN {
					fail("run-number-not-increasing", "run number %d after %d", ni, lastN)
				}
				lastN = ni
			}
			if v["run_start_time_ms"] == "" {
				fail("SOSOR-not-set-before-nonnegative-hooks", "at %s:%s", r.Kind, r.ID)
			}
			// set AFTER the negative-weight hooks: they have not seen the new number / start time yet
			if n != "" && preN == n {
				fail("number-already-set-at-negative-weight-hooks", "before_START_ACTIVITY-1 already saw run_number=%q", preN)
			}
			if preSOSOR != "" && preSOSOR == v["run_start_time_ms"] {
				fail("SOSOR-already-set-at-negative-weight-hooks", "before_START_ACTIVITY-1 already saw run_start_time_ms=%q", preSOSOR)
			}
			for _, s := range stamps[1:] {
				if v[s] != "" {
					fail("previous-run-value-visible:"+s, "at %s:%s of the new run %s, %s=%q is left over", r.Kind, r.ID, n, s, v[s])
				}
			}
			if cur != nil && cur.sosor != "" && v["run_start_time_ms"] == cur.sosor && cur.n != n {
				fail("previous-run-value-visible:run_start_time_ms", "run %s shows the start time of run %s", n, cur.n)
			}
			cur = &run{n: n, sosor: v["run_start_time_ms"], seen: map[string]string{}, open: true, startOp: od.name}
		}
		if cur != nil && !cur.open && r.Kind != "runevt" {
			// the run is over: whatever happens next (until a new run is given its number) must not
			// touch the stamps of the finished run - each is set at most / exactly once per run
			for _, s := range stamps {
				if old, ok := cur.seen[s]; ok && v[s] != old {
					fail("stamp-changed-after-run-ended:"+s+":"+od.event, "at %s:%s %s is %q, the finished run %s had %q", r.Kind, r.ID, s, v[s], cur.n, old)
				}
			}
		}
		if cur == nil || !cur.open {
			continue
		}
		// the run is open: number and SOSOR visible unchanged, stamps set at most once, ordered
		stopDone := r.Kind == "ret" && od.event == "STOP_ACTIVITY" && v["__state"] == "CONFIGURED"
		if stopDone {
			// after the end of after_STOP_ACTIVITY the number is gone (checked below)
		} else if v["run_number"] != cur.n || (r.Kind != "ret" && v["runNumber"] != cur.n) {
			fail("run-number-changed-or-hidden:"+od.event, "at %s:%s run_number=%q runNumber=%q, run is %s", r.Kind, r.ID, v["run_number"], v["runNumber"], cur.n)
		}
		if v["run_start_time_ms"] != cur.sosor {
			fail("SOSOR-changed:"+od.event, "at %s:%s %q, was %q", r.Kind, r.ID, v["run_start_time_ms"], cur.sosor)
		}
		var prev int64 = -1
		for _, s := range stamps {
			val := v[s]
			if old, ok := cur.seen[s]; ok && old != val {
				fail("stamp-set-twice:"+s+":"+od.event, "at %s:%s %s changed from %q to %q within run %s", r.Kind, r.ID, s, old, val, cur.n)
			}
			if val != "" {
				cur.seen[s] = val
				t, _ := strconv.ParseInt(val, 10, 64)
				if t < prev {
					fail("stamps-out-of-order:"+s, "at %s:%s %v", r.Kind, r.ID, v)
				}
				prev = t
			}
		}
		if r.Kind == "ret" {
			st := v["__state"]
			switch {
			case isStart && st == "RUNNING":
				cur.running = true
			case od.event == "STOP_ACTIVITY" && st == "CONFIGURED":
				// the run is over: everything stamped, number gone
				for _, s := range stamps {
					if v[s] == "" {
						fail("stamp-missing-after-stop:"+s, "after %s: %v", od.name, v)
					}
				}
				for _, s := range stamps {
					cur.seen[s] = v[s]
				}
				cur.open = false
				cur.stopped = true
			case od.event == "GO_ERROR" && st == "ERROR" && cur.running:
				for _, s := range stamps[2:] {
					if v[s] == "" {
						fail("end-stamp-missing-after-error:"+s, "run %s ended by GO_ERROR: %v", cur.n, v)
					}
				}
				for _, s := range stamps {
					cur.seen[s] = v[s]
				}
				cur.open = false
			case od.event == "GO_ERROR" && st == "ERROR":
				cur.open = false
			}
		}
	}
	// gone afterwards: after a completed STOP nothing of the run number is visible
	for i, r := range w.Recs {
		if r.Kind == "ret" && r.Vars["__state"] == "CONFIGURED" {
			// find the op of this ret
			_ = i
		}
	}
	opIdx = -1
	for _, r := range w.Recs {
		if r.Kind == "op" {
			opIdx++
			continue
		}
		if r.Kind == "ret" && ops[hist[opIdx]].event == "STOP_ACTIVITY" && r.Vars["__state"] == "CONFIGURED" {
			if r.Vars["run_number"] != "" || r.Vars["runNumber"] != "" || r.Vars["__rn"] != "0" {
				fail("run-number-not-gone-after-stop", "after %s: run_number=%q runNumber=%q current=%s", ops[hist[opIdx]].name, r.Vars["run_number"], r.Vars["runNumber"], r.Vars["__rn"])
			}
		}
	}
	return
}

func main() {
	envsim.GlobalSetup()
	vrt.NowStepNS = int64(time.Millisecond) // every timestamp distinct at ms resolution
	names := make([]string, len(ops))
	for i, o := range ops {
		names[i] = o.name
	}
	vrt.Main([]*vrt.Scenario{{
		Name: "runs-bfs", Prop: "C10", Doc: "BFS over start/stop/error histories",
		Direct: func(r *vrt.DirectReport, tier string) {
			depth := 5
			if tier == "thorough" {
				depth = 8
			}
			res := vrt.BFS(vrt.BFSSpec{Ops: names, MaxDepth: depth, Exec: execHistory})
			res.Report(r, "runs")
			r.Notes = append(r.Notes, fmt.Sprintf("alphabet=%v depth<=%d", names, depth))
		}}, {
		Name: "runs-all", Prop: "C10", Doc: "every history up to a small depth, no state merging",
		Direct: func(r *vrt.DirectReport, tier string) {
			// the basic alphabet (one failing placement per moment) deeper, the full one (every placement) one step less
			depth, nBasic := 3, 16
			if tier == "thorough" {
				depth = 4
			}
			unmerged := func(h []int) (string, bool, []vrt.Violation) {
				k, ok, v := execHistory(h)
				return fmt.Sprint(h) + k, ok, v
			}
			res := vrt.BFS(vrt.BFSSpec{Ops: names[:nBasic], MaxDepth: depth, Exec: unmerged})
			res.Report(r, "all")
			res = vrt.BFS(vrt.BFSSpec{Ops: names, MaxDepth: depth - 1, Exec: unmerged})
			res.Report(r, "all-placements")
			r.Notes = append(r.Notes, fmt.Sprintf("unmerged histories: basic alphabet (%d operations) depth<=%d, every placement of a failing hook (%d operations) depth<=%d", nBasic, depth, len(names), depth-1))
		}}})
}

// Package envsim is the narrow seam for the hook / FSM properties (C08, C09,
// C10, C01b): a real Environment (built by its real constructor), a workflow
// tree of call roles injected into it, scripted transition bodies and a probe
// plugin registered through the public integration.RegisterPlugin.
package envsim

import (
	"fmt"
	"io"
	"os"
	"path/filepath"
	"sort"
	"strings"

	"github.com/AliceO2Group/Control/common/event/topic"
	pb "github.com/AliceO2Group/Control/common/protos"
	"github.com/AliceO2Group/Control/common/utils/uid"
	"github.com/AliceO2Group/Control/core/environment"
	"github.com/AliceO2Group/Control/core/integration"
	"github.com/AliceO2Group/Control/core/task"
	"github.com/AliceO2Group/Control/core/the"
	"github.com/AliceO2Group/Control/core/workflow"
	"github.com/AliceO2Group/Control/core/workflow/callable"
	vrt "github.com/AliceO2Group/Control/verif_vrt"
	"github.com/sirupsen/logrus"
	"github.com/spf13/viper"
	"time"
)

// Hook describes one call hook of the injected workflow.
type Hook struct {
	ID       string
	Trigger  string // "before_CONFIGURE-1"
	Await    string // "" = same as trigger
	Critical bool
	Fail     bool
	// SlotGate: the probe waits until every hook of Slot has started (detects
	// "not started together"). Empty = no gate.
	Slot []string
	// ErrKind: how a failing probe fails. 0: it leaves __call_error in the call's var stack (what the
	// integration plugins do); 1: its function returns an error (the call's expression fails to execute).
	ErrKind int
}

// Rec is one observation.
type Rec struct {
	Kind string // spawn | start | end | body | ret | note
	ID   string
	Tid  int
	Vars map[string]string // snapshot for start records (C10)
	Err  string
}

// World is one closed system, rebuilt for every execution.
type World struct {
	Env     *environment.Environment
	Recs    []Rec
	hooks   map[string]*Hook
	started map[string]int
	RunEvts []*pb.Ev_RunEvent
	RunTS   []time.Time
	// FailNow makes the probe with that id fail (set by the driver before an operation).
	FailNow map[string]bool
}

var cur *World

var workDir string

// GlobalSetup is called once per process before any execution.
func GlobalSetup() {
	logrus.SetOutput(io.Discard)
	logrus.SetLevel(logrus.PanicLevel)
	if workDir == "" {
		d, err := os.MkdirTemp(os.Getenv("VERIF_WORK"), "envsim-")
		if err != nil {
			d, _ = os.MkdirTemp("", "envsim-")
		}
		workDir = d
		vrt.AtExit(func() { os.RemoveAll(d) })
	}
	integration.RegisterPlugin("probe", "probeEndpoint", func(string) integration.Plugin { return &plugin{} })
	viper.Set("integrationPlugins", []string{"probe"})
	viper.Set("probeEndpoint", "verif://probe")
	viper.Set("config_endpoint", "mock://")
	viper.Set("coreWorkingDir", workDir)
}

// SetupExec resets per-execution global state (outside the controlled world).
func SetupExec() {
	os.WriteFile(filepath.Join(workDir, "runcounter.txt"), []byte("100"), 0o644)
}

// BreakRunCounter makes NewRunNumber fail (configuration service unavailable).
func BreakRunCounter() {
	os.WriteFile(filepath.Join(workDir, "runcounter.txt"), []byte("not-a-number"), 0o644)
}

type capWriter struct{ w *World }

func (c *capWriter) WriteEvent(e interface{}) { c.WriteEventWithTimestamp(e, vrt.Now()) }
func (c *capWriter) WriteEventWithTimestamp(e interface{}, ts time.Time) {
	if re, ok := e.(*pb.Ev_RunEvent); ok {
		c.w.RunEvts = append(c.w.RunEvts, re)
		c.w.RunTS = append(c.w.RunTS, ts)
		c.w.rec(Rec{Kind: "runevt", ID: re.Transition + "/" + re.TransitionStatus.String(), Vars: map[string]string{"rn": fmt.Sprint(re.RunNumber), "ts": fmt.Sprint(ts.UnixMilli())}})
	}
}
func (c *capWriter) Close() {}

// New builds a fresh world: environment in state DEPLOYED with the given hooks.
func New(hooks []Hook, state string) *World {
	w := &World{hooks: map[string]*Hook{}, started: map[string]int{}, FailNow: map[string]bool{}}
	cur = w
	vrt.OnSpawn = func(site string, tid int) {
		if strings.Contains(site, "callable/call.go") && cur != nil {
			cur.rec(Rec{Kind: "spawn", ID: site, Tid: tid})
		}
	}
	the.ResetEventWritersForVerif()
	the.SetEventWriterForVerif(topic.Run, &capWriter{w})
	var roles []workflow.Role
	for i := range hooks {
		h := &hooks[i]
		w.hooks[h.ID] = h
		aw := h.Await
		if aw == "" {
			aw = h.Trigger
		}
		fn := "P"
		if h.ErrKind == 1 {
			fn = "PE"
		}
		roles = append(roles, workflow.NewCallRole(h.ID,
			task.Traits{Trigger: h.Trigger, Await: aw, Timeout: "5s", Critical: h.Critical},
			fmt.Sprintf("probe.%s(\"%s\")", fn, h.ID), ""))
	}
	root := workflow.NewAggregatorRole("root", roles)
	id, _ := uid.FromString("2oDvieFrVTi")
	env, err := environment.NewEnvironmentForVerif(map[string]string{}, id, root, func(task.Tasks) error { return nil })
	if err != nil {
		panic(err)
	}
	env.ForceStateForVerif(state)
	w.Env = env
	return w
}

func (w *World) rec(r Rec) {
	w.Recs = append(w.Recs, r)
}

// Note appends a free-form record.
func (w *World) Note(kind, id string) { w.rec(Rec{Kind: kind, ID: id}) }

// Transition runs one FSM event with a scripted body through the real
// TryTransition (transition mutex, check, Sm.Event) and records body/return.
func (w *World) Transition(event string, tag string, bodyFail bool) error {
	t := environment.ScriptedTransition{Name: event, Body: func(env *environment.Environment) error {
		w.rec(Rec{Kind: "body", ID: tag, Vars: w.snapshotRoot()})
		if bodyFail {
			return fmt.Errorf("scripted task transition failure")
		}
		return nil
	}}
	err := w.Env.TryTransition(t)
	r := Rec{Kind: "ret", ID: tag, Vars: w.snapshotRoot()}
	if err != nil {
		r.Err = err.Error()
	}
	r.Vars["__state"] = w.Env.CurrentState()
	w.rec(r)
	return err
}

var snapKeys = []string{"run_number", "runNumber", "run_start_time_ms", "run_start_completion_time_ms", "run_end_time_ms", "run_end_completion_time_ms"}

func (w *World) snapshotRoot() map[string]string {
	m := map[string]string{}
	vs, err := w.Env.Workflow().ConsolidatedVarStack()
	if err == nil {
		for _, k := range snapKeys {
			if v, ok := vs[k]; ok {
				m[k] = v
			}
		}
	}
	m["__rn"] = fmt.Sprint(w.Env.GetCurrentRunNumber())
	return m
}

// ---- probe plugin -------------------------------------------------------------

type plugin struct{}

func (p *plugin) GetName() string                                          { return "probe" }
func (p *plugin) GetPrettyName() string                                    { return "verif probe" }
func (p *plugin) GetEndpoint() string                                      { return "verif://probe" }
func (p *plugin) GetConnectionState() string                               { return "READY" }
func (p *plugin) GetData(_ []any) string                                   { return "" }
func (p *plugin) GetEnvironmentsData(_ []uid.ID) map[uid.ID]string         { return nil }
func (p *plugin) GetEnvironmentsShortData(_ []uid.ID) map[uid.ID]string    { return nil }
func (p *plugin) Init(_ string) error                                      { return nil }
func (p *plugin) Destroy() error                                           { return nil }
func (p *plugin) ObjectStack(_, _ map[string]string) map[string]interface{} { return map[string]interface{}{} }

func (p *plugin) CallStack(data interface{}) map[string]interface{} {
	call, ok := data.(*callable.Call)
	if !ok {
		return nil
	}
	// run is the probe: records start/end around a scheduling point (or the slot gate); failing = its hook
	// is configured to fail or the driver asked for it.
	run := func(id string) (failing bool) {
		w := cur
		h := w.hooks[id]
		snap := map[string]string{}
		for _, k := range snapKeys {
			if v, ok := call.VarStack[k]; ok {
				snap[k] = v
			}
		}
		snap["__state"] = w.Env.Sm.Current()
		w.started[id]++
		w.rec(Rec{Kind: "start", ID: id, Vars: snap, Tid: vrt.ThreadID()})
		if h != nil && len(h.Slot) > 0 {
			vrt.WaitUntil("slot-gate:"+id, func() bool {
				for _, o := range h.Slot {
					if w.started[o] == 0 {
						return false
					}
				}
				return true
			})
		} else {
			vrt.Yield("probe-latency:" + id)
		}
		failing = (h != nil && h.Fail) || w.FailNow[id]
		w.rec(Rec{Kind: "end", ID: id, Tid: vrt.ThreadID()})
		return
	}
	return map[string]interface{}{
		"P": func(id string) string {
			if run(id) {
				call.VarStack["__call_error"] = "probe " + id + " failed"
			}
			return ""
		},
		// PE fails by returning an error: the call's expression itself fails to execute
		"PE": func(id string) (string, error) {
			if run(id) {
				return "", fmt.Errorf("probe %s failed", id)
			}
			return "", nil
		},
	}
}

// ---- helpers for oracles ----------------------------------------------------------

// Index returns the position of the n-th (0-based) record of kind/id, -1 if absent.
func (w *World) Index(kind, id string, n int) int {
	for i, r := range w.Recs {
		if r.Kind == kind && r.ID == id {
			if n == 0 {
				return i
			}
			n--
		}
	}
	return -1
}

// instances of hook id ordered by the instant the FSM started (spawned) them:
// returns for the n-th one the record indexes of its spawn, start and end (-1 if absent).
func (w *World) Instance(id string, n int) (spawn, start, end int) {
	type in struct{ sp, st, en int }
	var l []in
	for i, r := range w.Recs {
		if r.Kind == "start" && r.ID == id {
			e := in{-1, i, -1}
			for j, q := range w.Recs {
				if q.Kind == "spawn" && q.Tid == r.Tid {
					e.sp = j
				}
				if q.Kind == "end" && q.ID == id && q.Tid == r.Tid {
					e.en = j
				}
			}
			l = append(l, e)
		}
	}
	sort.Slice(l, func(a, b int) bool { return l[a].sp < l[b].sp })
	if n >= len(l) {
		return -1, -1, -1
	}
	return l[n].sp, l[n].st, l[n].en
}

// SpawnIndex returns the position at which the FSM started the n-th run of hook id.
func (w *World) SpawnIndex(id string, n int) int {
	sp, _, _ := w.Instance(id, n)
	return sp
}

// Count counts records of kind/id.
func (w *World) Count(kind, id string) int {
	n := 0
	for _, r := range w.Recs {
		if r.Kind == kind && r.ID == id {
			n++
		}
	}
	return n
}

// Summary renders the record sequence (for logs and violation details).
func (w *World) Summary() string {
	var b []string
	for _, r := range w.Recs {
		s := r.Kind + ":" + r.ID
		if r.Kind == "spawn" {
			s = fmt.Sprintf("spawn:t%d", r.Tid)
		}
		if r.Kind == "start" {
			s += fmt.Sprintf("(t%d)", r.Tid)
		}
		if r.Err != "" {
			s += "!"
		}
		b = append(b, s)
	}
	return strings.Join(b, " ")
}

// LeakedCalls lists threads spawned by Call.Start (or AwaitAll) that are still blocked.
func LeakedCalls(x *vrt.Exec) []string {
	var out []string
	for _, l := range x.Leaked {
		if strings.Contains(l, "callable/call.go") {
			out = append(out, l)
		}
	}
	sort.Strings(out)
	return out
}

// InterComponent is the point policy of the environment harnesses: a thread is
// voluntarily preempted in front of channel operations, waits, sleeps, yields,
// thread starts and try-locks, but not in front of a *free* fine-grained lock
// (blocking on a held lock is of course still modelled).
func InterComponent(kind vrt.OpKind, site string) bool {
	switch kind {
	case vrt.OpLock, vrt.OpRLock:
		return strings.Contains(site, "environment/environment.go") && false
	}
	return true
}

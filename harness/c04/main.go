// C04: a task or detector belongs to at most one environment.
// (a) explicit-state BFS over API histories on the real core (coresim);
// (b) two concurrent API callers, deviation-bounded schedule exploration.
package main

import (
	"encoding/json"
	"fmt"
	"os"
	"sort"
	"strings"
	"time"

	pb "github.com/AliceO2Group/Control/core/protos"
	"github.com/AliceO2Group/Control/verif_h/coresim"
	vrt "github.com/AliceO2Group/Control/verif_vrt"
	"github.com/spf13/viper"
)

func agents() []*coresim.Agent {
	return []*coresim.Agent{
		{ID: "agentA", Host: "hostA", Attributes: map[string]string{"machine_id": "hostA"}, Cpus: 16, Mem: 16384, PortLo: 9000, PortHi: 40000},
		{ID: "agentB", Host: "hostB", Attributes: map[string]string{"machine_id": "hostB"}, Cpus: 16, Mem: 16384, PortLo: 9000, PortHi: 40000},
		{ID: "agentC", Host: "hostC", Attributes: map[string]string{"machine_id": "hostC"}, Cpus: 16, Mem: 16384, PortLo: 9000, PortHi: 40000},
	}
}

var cfg = vrt.Config{Preempt: coresim.InterComponent, NoLockPoints: true, FreeSwitchCost: true, Horizon: 30 * time.Minute}

// workflows: A uses hostA (detector TST), B uses hostB (ITS), C uses hostA+hostC (TST): C conflicts with A.
// Slot D is a second instance of workflow c04-A (same host hostA, same task classes) whose `detectors` the user
// overrides with TRG: it can live next to A (TST) - two live environments sharing a host, an agent, an executor and
// their task classes (what acquireTasks needs to consider an existing task for an incoming descriptor).
// Slots E and F (concurrent phase only) are workflows on hostA, detector TRG by override, whose DEPLOY is preceded by a
// plugin call that takes a virtual second (a slow integrated service at before_DEPLOY): what another request lets go
// of during that second is in the roster, unlocked, when their acquireTasks looks for existing tasks. E wants one task
// of a class A also has plus one of its own; F wants exactly A's two classes.
var wfOf = map[string]string{"A": "c04-A", "B": "c04-B", "C": "c04-C", "D": "c04-A", "E": "c04-E", "F": "c04-F"}

var slots = []string{"A", "B", "C", "D", "E", "F"}

// detectors an environment includes: what its hosts imply (coresim.Inventory) or, for the "x" variants,
// the list the user passes as `detectors` (TRG has no hosts of its own: only an override can name it)
var detsOf = map[string][]string{"A": {"TST"}, "B": {"ITS"}, "C": {"TST"}, "Ax": {"TST", "TRG"}, "Bx": {"ITS", "TRG"}, "Dx": {"TRG"}, "Ex": {"TRG"}, "Fx": {"TRG"}}

func intersects(a, b []string) bool {
	for _, x := range a {
		for _, y := range b {
			if x == y {
				return true
			}
		}
	}
	return false
}

// ---- monitors ------------------------------------------------------------------------

type sys struct {
	w      *coresim.World
	ids    map[string]string // slot -> env id
	viol   []vrt.Violation
	curOp  string
	curEnv string // env id the current operation is about ("" = none / cleanup)
	// ownership watch (concurrent phase): task -> environment it was last seen locked by, and the
	// environments some caller has asked to destroy
	owned      map[string]string
	dets       map[string][]string // slot -> detectors the environment created in it includes
	others     map[string]string   // sequential phase: snapshots of the environments the current operation is not about
	slow       bool                // concurrent phase: launches take a virtual second to report TASK_RUNNING
	destroying map[string]bool
}

// watchOwned: "control, release and kill operations issued for one environment never affect tasks
// owned by another, and cleanup of unowned tasks never touches owned ones". A task seen locked by
// environment X may leave the roster, or X's ownership, only through X's own release: while X is
// being destroyed on request or torn down after a failure (X then is in ERROR or DONE, or gone).
// Polled at every framework call reaching the master, after every request and at the end.
func (s *sys) watchOwned() {
	if s.w == nil || s.w.Core == nil {
		return
	}
	if s.owned == nil {
		s.owned = map[string]string{}
	}
	now := s.w.TaskOwners()
	var envs map[string]string
	for tid, was := range s.owned {
		if cur, ok := now[tid]; ok && cur == was {
			continue
		}
		delete(s.owned, tid)
		if s.destroying[was] {
			continue
		}
		if envs == nil {
			envs = s.w.Envs()
		}
		switch st := envs[was]; st {
		case "STANDBY", "DEPLOYED", "CONFIGURED", "RUNNING":
			if alive := s.w.M.Tasks[tid]; alive != nil && alive.Alive {
				cur, inRoster := now[tid]
				s.fail("owned-task-taken-from-untouched-environment", "task %s (alive at the master) was locked by environment %s, which is in %s and which nobody asked to destroy; now in roster=%v owner=%q", tid, was, st, inRoster, cur)
			}
		}
	}
	for tid, o := range now {
		if o != "" {
			s.owned[tid] = o
		}
	}
}

func (s *sys) fail(clause, f string, a ...any) {
	s.viol = append(s.viol, vrt.Violation{Clause: clause, Detail: fmt.Sprintf(f, a...) + " [during " + s.curOp + "]"})
}

func newSys() *sys {
	s := &sys{ids: map[string]string{}}
	m := coresim.NewMaster(agents()...)
	m.OnCall = func(c *coresim.CallRec) {
		if s.w == nil || s.w.Core == nil {
			return
		}
		s.watchOwned()
		switch c.Type {
		case "KILL":
			owner := s.w.TaskOwners()[c.Task]
			if owner != "" && owner != s.curEnv {
				s.fail("kill-of-task-owned-by-another-environment:"+opKind(s.curOp), "KILL of task %s which is owned by %s", c.Task, owner)
			}
		case "MESSAGE":
			owner := s.w.TaskOwners()[c.Task]
			if owner != "" && s.curEnv != "" && owner != s.curEnv {
				s.fail("command-to-task-owned-by-another-environment:"+opKind(s.curOp), "%s sent to task %s owned by %s while operating on %s", c.Detail, c.Task, owner, s.curEnv)
			}
		}
	}
	m.Behaviour = func(t *coresim.SimTask, kind string) coresim.Outcome {
		if kind == "launch" && s.slow {
			return coresim.SlowLaunch
		}
		return coresim.OK
	}
	s.w = coresim.NewWorld(m)
	return s
}

func opKind(op string) string {
	if i := strings.IndexAny(op, "ABCDEF"); i > 0 {
		return op[:i]
	}
	return op
}

// invariants evaluated after every operation.
func (s *sys) invariants() {
	envs := s.w.Envs()
	owners := s.w.TaskOwners()
	for tid, o := range owners {
		if o != "" {
			if _, ok := envs[o]; !ok {
				s.fail("task-owned-by-unlisted-environment", "task %s owned by %s, listed: %v", tid, o, envs)
			}
		}
	}
	// every detector of a live environment is reported active (GetActiveDetectors RPC)
	active := map[string]bool{}
	for _, d := range s.w.ActiveDetectors() {
		active[d] = true
	}
	for slot, id := range s.ids {
		if _, ok := envs[id]; !ok {
			continue
		}
		for _, d := range s.dets[slot] {
			if !active[d] {
				s.fail("detector-in-use-not-reported-active:"+d, "environment %s includes %v, GetActiveDetectors says %v", slot, s.dets[slot], s.w.ActiveDetectors())
			}
		}
	}
	// a task that hangs on a role of a live environment and is alive is locked: that is what kill, cleanup and claim
	// look at to leave it alone
	locked := s.w.TaskLocked()
	for slot, id := range s.ids {
		if _, ok := envs[id]; !ok {
			continue
		}
		ts, _ := s.w.EnvTasksAndDetectors(id)
		for _, t := range ts {
			if st := s.w.M.Tasks[t]; st != nil && st.Alive && owners[t] == id && !locked[t] {
				s.fail("owned-task-not-locked", "task %s of live environment %s is attached to its role but no longer counts as locked", t, slot)
			}
		}
	}
	// tasks of live environments' role trees pairwise disjoint
	seen := map[string]string{}
	dets := map[string]string{}
	for slot, id := range s.ids {
		if _, ok := envs[id]; !ok {
			continue
		}
		ts, ds := s.w.EnvTasksAndDetectors(id)
		for _, t := range ts {
			if other, dup := seen[t]; dup {
				s.fail("task-in-two-environments", "task %s is in the role trees of %s and %s", t, other, slot)
			}
			seen[t] = slot
			if o := owners[t]; o != "" && o != id {
				s.fail("role-tree-task-owned-by-other-environment", "task %s in %s's tree is owned by %s", t, slot, o)
			}
		}
		for _, d := range ds {
			if other, dup := dets[d]; dup {
				s.fail("detector-in-two-environments", "detector %s is included in %s and %s", d, other, slot)
			}
			dets[d] = slot
		}
	}
}

func (s *sys) snapshot(id string) string {
	st, _ := s.w.EnvState(id)
	ts, ds := s.w.EnvTasksAndDetectors(id)
	sort.Strings(ts)
	var alive []string
	for _, t := range s.w.M.AliveTasks() {
		if t.EnvID == id {
			alive = append(alive, t.ID+":"+t.State)
		}
	}
	return fmt.Sprintf("state=%s tasks=%v detectors=%v alive=%v", st, ts, ds, alive)
}

// apply executes one operation; returns false if it is not applicable in the current state.
func (s *sys) apply(op string) bool {
	if !s.apply1(op) {
		return false
	}
	s.watchOwned()
	// no operation changes an environment it is not about
	for slot, before := range s.others {
		if after := s.snapshot(s.ids[slot]); after != before {
			s.fail("operation-changed-another-environment:"+opKind(op), "environment %s (not the subject of %s): before %s | after %s", slot, op, before, after)
		}
	}
	s.invariants()
	return true
}

// snapshotOthers records every live environment except the one in slot `except`.
func (s *sys) snapshotOthers(except string) {
	s.others = map[string]string{}
	envs := s.w.Envs()
	for slot, id := range s.ids {
		if _, ok := envs[id]; ok && slot != except {
			s.others[slot] = s.snapshot(id)
		}
	}
}

func (s *sys) apply1(op string) bool {
	s.curOp, s.curEnv = op, ""
	s.others = nil
	s.watchOwned()
	envs := s.w.Envs()
	live := func(slot string) (string, string, bool) {
		id, ok := s.ids[slot]
		if !ok {
			return "", "", false
		}
		st, ok2 := envs[id]
		return id, st, ok2
	}
	switch {
	case strings.HasPrefix(op, "create"):
		slot, variant := op[6:7], op[7:]
		if _, _, ok := live(slot); ok {
			return false
		}
		// who holds a detector this environment needs? (sets: what the hosts imply, or the user's `detectors` override)
		need := detsOf[slot+variant]
		holder := ""
		for _, sl := range slots {
			if id, _, ok := live(sl); ok && intersects(s.dets[sl], need) {
				holder = id
			}
		}
		var vars map[string]string
		if variant == "x" {
			js, _ := json.Marshal(need)
			vars = map[string]string{"detectors": string(js)}
		}
		before := ""
		if holder != "" {
			before = s.snapshot(holder)
		}
		s.snapshotOthers(slot)
		id, _, err := s.w.Create(wfOf[slot], vars)
		vrt.Quiesce("op")
		if err == nil {
			s.ids[slot] = id
			if s.dets == nil {
				s.dets = map[string][]string{}
			}
			s.dets[slot] = need
			if holder != "" {
				s.fail("created-despite-busy-detector", "%s created while %s holds its detector", slot, holder)
			}
		} else if holder != "" {
			if after := s.snapshot(holder); after != before {
				s.fail("holder-disturbed-by-refused-create", "before %s | after %s", before, after)
			}
		}
	case strings.HasPrefix(op, "start"), strings.HasPrefix(op, "stop"), strings.HasPrefix(op, "reset"):
		slot := op[len(op)-1:]
		id, st, ok := live(slot)
		if !ok {
			return false
		}
		var t pb.ControlEnvironmentRequest_Optype
		switch {
		case strings.HasPrefix(op, "start") && st == "CONFIGURED":
			t = pb.ControlEnvironmentRequest_START_ACTIVITY
		case strings.HasPrefix(op, "stop") && st == "RUNNING":
			t = pb.ControlEnvironmentRequest_STOP_ACTIVITY
		case strings.HasPrefix(op, "reset") && st == "CONFIGURED":
			t = pb.ControlEnvironmentRequest_RESET
		default:
			return false
		}
		s.curEnv = id
		s.snapshotOthers(slot)
		s.w.Control(id, t)
		vrt.Quiesce("op")
	case strings.HasPrefix(op, "destroy"):
		slot := op[len(op)-1:]
		id, _, ok := live(slot)
		if !ok {
			return false
		}
		s.curEnv = id
		s.snapshotOthers(slot)
		if s.destroying == nil {
			s.destroying = map[string]bool{}
		}
		s.destroying[id] = true
		s.w.Destroy(id, strings.Contains(op, "Force"), true, strings.Contains(op, "Keep"))
		vrt.Quiesce("op")
	case op == "cleanupAll":
		s.snapshotOthers("")
		s.w.Cleanup(nil)
		vrt.Quiesce("op")
	case op == "reconnect":
		// the master connection drops and comes back while nothing is going on: the core resubscribes and asks for
		// reconciliation; the answers are master-generated updates, which carry no executor id. No environment is
		// the subject of this: all of them must come through unchanged (also in what follows: BFS chains on)
		if len(envs) == 0 {
			return false
		}
		s.snapshotOthers("")
		s.w.M.ReconcileOmitExecutor = true
		s.w.M.Drop()
		vrt.Quiesce("op")
		vrt.Sleep(5 * time.Second)
		vrt.Quiesce("op")
	case strings.HasPrefix(op, "cleanupIds"):
		slot := op[len(op)-1:]
		id, _, ok := live(slot)
		if !ok {
			return false
		}
		ts, _ := s.w.EnvTasksAndDetectors(id)
		if len(ts) == 0 {
			return false
		}
		before := s.snapshot(id)
		s.snapshotOthers("")
		s.w.Cleanup(ts)
		vrt.Quiesce("op")
		if after := s.snapshot(id); after != before {
			s.fail("cleanup-touched-owned-tasks", "before %s | after %s", before, after)
		}
	default:
		panic("unknown op " + op)
	}
	return true
}

// canonical key: per slot the environment state (or absent) and number of alive tasks labelled with it;
// plus the number of alive unowned tasks. Futures depend on these only: the API and the task manager
// address tasks by ownership, liveness and state, never by identity.
func (s *sys) key() string {
	envs := s.w.Envs()
	owners := s.w.TaskOwners()
	var parts []string
	for _, slot := range slots {
		id, ok := s.ids[slot]
		st := "-"
		if ok {
			if e, live := envs[id]; live {
				st = e
			}
		}
		n, orphans := 0, 0
		for _, t := range s.w.M.AliveTasks() {
			if ok && t.EnvID == id {
				if owners[t.ID] == id {
					n++
				} else {
					orphans++
				}
			}
		}
		dk := ""
		if st != "-" {
			dk = strings.Join(s.dets[slot], "+")
		}
		parts = append(parts, fmt.Sprintf("%s=%s/%d/%d/%s", slot, st, n, orphans, dk))
	}
	return strings.Join(parts, " ") + fmt.Sprintf(" roster=%d", len(owners))
}

var ops = []string{"createA", "createB", "createC", "createAx", "createBx", "startA", "stopA", "resetA", "startB", "destroyA", "destroyForceA", "destroyKeepA", "destroyB", "destroyC", "cleanupAll", "cleanupIdsA", "cleanupIdsB", "reconnect"}

func execHistory(hist []int) (key string, applicable bool, viol []vrt.Violation) {
	return execHistoryOn(ops, false)(hist)
}

// opsShared: histories on two instances of one workflow that live side by side on one host (A with detector TST,
// D with the user-supplied detector TRG), with and without the core's reuseUnlockedTasks option: with it,
// acquireTasks looks through the roster for tasks of the wanted class on a satisfying agent before launching
// ("claim only unlocked + ACTIVE + STANDBY tasks") - after resetA the tasks of the live environment A are exactly
// such tasks, except that they are locked.
// E (see wfOf) wants one task of a class A has and one of its own: a claim can satisfy only part of its descriptors.
var opsShared = []string{"createA", "createDx", "createEx", "resetA", "startA", "stopA", "startD", "destroyA", "destroyKeepA", "destroyD", "destroyKeepD", "destroyE", "cleanupAll", "cleanupIdsA", "cleanupIdsD"}

func execHistoryOn(ops []string, reuse bool) func(hist []int) (key string, applicable bool, viol []vrt.Violation) {
	return func(hist []int) (string, bool, []vrt.Violation) { return execHistoryWith(ops, reuse, hist) }
}

func execHistoryWith(ops []string, reuse bool, hist []int) (key string, applicable bool, viol []vrt.Violation) {
	coresim.ResetStore()
	viper.Set("reuseUnlockedTasks", reuse)
	defer viper.Set("reuseUnlockedTasks", false)
	applicable = true
	var s *sys
	x := vrt.RunControlled(cfg, func() {
		s = newSys()
		for _, oi := range hist {
			if !s.apply(ops[oi]) {
				applicable = false
				return
			}
		}
		key = s.key()
	})
	if !applicable {
		return "", false, nil
	}
	for _, p := range x.Panics {
		viol = append(viol, vrt.Violation{Clause: "panic:" + strings.SplitN(p, "\n", 2)[0], Detail: p})
	}
	if x.Deadlock != "" {
		viol = append(viol, vrt.Violation{Clause: "request-hangs", Detail: x.Deadlock})
		return "hung", true, viol
	}
	viol = append(viol, s.viol...)
	return key, true, viol
}

// ---- (b) two concurrent callers ----------------------------------------------------------

type pairSpec struct {
	name   string
	setup  []string
	t1, t2 []string
	slow   bool // tasks launched in the concurrent phase take a virtual second to come up: the other caller's whole request falls into the window in which they are owned but not yet active
	reuse  bool // the core runs with reuseUnlockedTasks
	late   bool // caller2 starts half a virtual second after caller1 (inside the slow before_DEPLOY call of slots E / F)
}

var pairs = []pairSpec{
	{"createA||createC", nil, []string{"createA"}, []string{"createC"}, false, false, false},
	{"createA||destroyB", []string{"createB"}, []string{"createA"}, []string{"destroyB"}, false, false, false},
	{"cleanupAll||createA", []string{"createB", "destroyKeepB"}, []string{"cleanupAll"}, []string{"createA"}, false, false, false},
	{"destroyA||startB", []string{"createA", "createB"}, []string{"destroyA"}, []string{"startB"}, false, false, false},
	{"destroyA||cleanupAll", []string{"createA", "createB"}, []string{"destroyA"}, []string{"cleanupAll"}, false, false, false},
	{"destroyA||createC", []string{"createA"}, []string{"destroyA"}, []string{"createC"}, false, false, false},
	// the same overlaps with the callers in the other order (the default schedule runs caller1 first)
	{"createA||cleanupAll", []string{"createB", "destroyKeepB"}, []string{"createA"}, []string{"cleanupAll"}, false, false, false},
	{"destroyB||createA", []string{"createB"}, []string{"destroyB"}, []string{"createA"}, false, false, false},
	{"createB||destroyA", []string{"createA"}, []string{"createB"}, []string{"destroyA"}, false, false, false},
	// ... and with slow launches
	{"slow:createA||destroyB", []string{"createB"}, []string{"createA"}, []string{"destroyB"}, true, false, false},
	{"slow:createA||cleanupAll", []string{"createB", "destroyKeepB"}, []string{"createA"}, []string{"cleanupAll"}, true, false, false},
	{"slow:createA||createC", nil, []string{"createA"}, []string{"createC"}, true, false, false},
	{"slow:createC||createA", nil, []string{"createC"}, []string{"createA"}, true, false, false},
	{"slow:createA||startB", []string{"createB"}, []string{"createA"}, []string{"startB"}, true, false, false},
	// two instances of one workflow on one host; with reuseUnlockedTasks the tasks one environment lets go
	// (destroy with keepTasks) are candidates for the other one's descriptors at that very moment
	{"shared:destroyA||createDx", []string{"createA"}, []string{"destroyA"}, []string{"createDx"}, false, false, false},
	{"reuse:destroyKeepA||createDx", []string{"createA"}, []string{"destroyKeepA"}, []string{"createDx"}, false, true, false},
	// ... and with the timing that makes the claim happen on the default schedule: the tasks A lets go of (kept, unlocked,
	// ACTIVE, STANDBY after the RESET) while E / F waits in front of its deployment are claimed for E's / F's descriptors
	{"reuse-claim:createEx||destroyKeepA", []string{"createA"}, []string{"createEx"}, []string{"destroyKeepA"}, false, true, true},
	{"reuse-claim-all:createFx||destroyKeepA", []string{"createA"}, []string{"createFx"}, []string{"destroyKeepA"}, false, true, true},
}

func pairScenario(p pairSpec, q, t vrt.Bounds) *vrt.Scenario {
	var s *sys
	done := 0
	claimed := 0
	return &vrt.Scenario{Name: p.name, Prop: "C04", Doc: "two concurrent API callers", Cfg: cfg, Setup: coresim.ResetStore,
		Quick: q, Thorough: t, DeadlockClause: "request-hangs", PanicClause: "panic",
		Body: func() {
			viper.Set("reuseUnlockedTasks", p.reuse)
			coresim.CallDelay["slowdeploy"] = time.Second
			claimed = 0
			s = newSys()
			done = 0
			for _, op := range p.setup {
				s.apply(op)
			}
			s.slow = p.slow
			var wg vrt.WaitGroup
			wg.Add(2)
			run := func(name string, ops []string) {
				vrt.GoFG(name, func() {
					if (p.slow || p.late) && name == "caller2" {
						// the second request arrives half a virtual second after the first: by default
						// inside the second during which the first one's tasks are launched and owned
						// but have not reported TASK_RUNNING yet
						vrt.Sleep(500 * time.Millisecond)
					}
					for _, op := range ops {
						s.applyConcurrent(op)
					}
					done++
					wg.Done()
				})
			}
			run("caller1", p.t1)
			run("caller2", p.t2)
			wg.Wait()
			vrt.Quiesce("settle")
			s.curOp = "final"
			s.invariants()
			s.watchOwned()
			// claims: tasks launched for one environment (label given at launch) that now belong to another
			if p.reuse {
				for tid, o := range s.w.TaskOwners() {
					if t := s.w.M.Tasks[tid]; t != nil && o != "" && t.EnvID != o {
						claimed++
					}
				}
			}
			vrt.Logf("%s -> %s claimed=%d", p.name, s.key(), claimed)
		},
		Check: func(x *vrt.Exec) []vrt.Violation {
			if s == nil {
				return nil
			}
			return s.viol
		},
		NonTrivial: func(*vrt.Exec) bool { return done == 2 }}
}

// applyConcurrent: like apply but without per-operation ownership attribution (two operations overlap).
func (s *sys) applyConcurrent(op string) {
	s.curOp, s.curEnv = "concurrent-phase", ""
	s.watchOwned()
	envs := s.w.Envs()
	slot := op[len(op)-1:]
	variant := ""
	if strings.HasPrefix(op, "create") {
		slot, variant = op[6:7], op[7:]
	}
	id := s.ids[slot]
	_, live := envs[id]
	switch {
	case strings.HasPrefix(op, "create"):
		var vars map[string]string
		if variant == "x" {
			js, _ := json.Marshal(detsOf[slot+variant])
			vars = map[string]string{"detectors": string(js)}
		}
		nid, _, err := s.w.Create(wfOf[slot], vars)
		if err == nil {
			s.ids[slot] = nid
			if s.dets == nil {
				s.dets = map[string][]string{}
			}
			s.dets[slot] = detsOf[slot+variant]
		}
	case strings.HasPrefix(op, "reset") && live:
		s.w.Control(id, pb.ControlEnvironmentRequest_RESET)
	case strings.HasPrefix(op, "start") && live:
		s.w.Control(id, pb.ControlEnvironmentRequest_START_ACTIVITY)
	case strings.HasPrefix(op, "destroy") && live:
		if s.destroying == nil {
			s.destroying = map[string]bool{}
		}
		s.destroying[id] = true
		s.w.Destroy(id, strings.Contains(op, "Force"), true, strings.Contains(op, "Keep"))
	case op == "cleanupAll":
		s.w.Cleanup(nil)
	}
	s.watchOwned()
}

// slowDeploy: a call role at before_DEPLOY whose plugin call takes coresim.CallDelay["slowdeploy"].
const slowDeploy = "  - name: \"slow\"\n    call:\n      func: sim.Call(\"slowdeploy\")\n      trigger: before_DEPLOY\n      timeout: 5s\n      critical: false\n"

func main() {
	t := func(n, c, h string) coresim.TaskSpec {
		return coresim.TaskSpec{Name: n, Class: c, Mode: "direct", Critical: true, Host: h}
	}
	coresim.GlobalSetup(
		coresim.WorkflowSpec{Name: "c04-A", Hosts: []string{"hostA"}, Tasks: []coresim.TaskSpec{t("a1", "c04a1", "hostA"), t("a2", "c04a2", "hostA")}},
		coresim.WorkflowSpec{Name: "c04-B", Hosts: []string{"hostB"}, Tasks: []coresim.TaskSpec{t("b1", "c04b1", "hostB")}},
		coresim.WorkflowSpec{Name: "c04-C", Hosts: []string{"hostA", "hostC"}, Tasks: []coresim.TaskSpec{t("c1", "c04c1", "hostC"), t("c2", "c04c2", "hostA")}},
		coresim.WorkflowSpec{Name: "c04-E", Hosts: []string{"hostA"}, Tasks: []coresim.TaskSpec{t("a1", "c04a1", "hostA"), t("e3", "c04e3", "hostA")}, Calls: []string{slowDeploy}},
		coresim.WorkflowSpec{Name: "c04-F", Hosts: []string{"hostA"}, Tasks: []coresim.TaskSpec{t("a1", "c04a1", "hostA"), t("a2", "c04a2", "hostA")}, Calls: []string{slowDeploy}},
	)
	scs := []*vrt.Scenario{{
		Name: "api-bfs", Prop: "C04", Doc: "BFS over API histories on three environments sharing hosts and a detector",
		Direct: func(r *vrt.DirectReport, tier string) {
			depth := 5
			if tier == "thorough" {
				depth = 8
			}
			res := vrt.BFS(vrt.BFSSpec{Ops: ops, MaxDepth: depth, Exec: execHistory})
			res.Report(r, "api")
			r.Notes = append(r.Notes, fmt.Sprintf("alphabet=%v depth<=%d", ops, depth))
		}}}
	for _, v := range []struct {
		name  string
		reuse bool
	}{{"api-bfs-shared", false}, {"api-bfs-reuse", true}} {
		v := v
		scs = append(scs, &vrt.Scenario{
			Name: v.name, Prop: "C04", Doc: fmt.Sprintf("BFS over API histories on two instances of one workflow living side by side on one host (detectors TST / user-supplied TRG); reuseUnlockedTasks=%v", v.reuse),
			Direct: func(r *vrt.DirectReport, tier string) {
				depth := 6
				if tier == "thorough" {
					depth = 8
				}
				res := vrt.BFS(vrt.BFSSpec{Ops: opsShared, MaxDepth: depth, Exec: execHistoryOn(opsShared, v.reuse)})
				res.Report(r, "api")
				r.Notes = append(r.Notes, fmt.Sprintf("alphabet=%v depth<=%d reuseUnlockedTasks=%v", opsShared, depth, v.reuse))
			}})
	}
	for _, p := range pairs {
		if strings.HasPrefix(p.name, "reuse-claim-all:") && os.Getenv("C04_REUSE_CLAIM_ALL") == "" {
			// Not part of the check: with reuseUnlockedTasks, an environment ALL of whose descriptors are satisfied by
			// claimed tasks makes acquireTasks unlock deployMu without having locked it (it is locked only when something
			// has to be launched): "fatal error: sync: unlock of unlocked mutex", the core dies. Reproducible on the
			// default schedule with C04_REUSE_CLAIM_ALL=1 ... -scenario 'reuse-claim-all:createFx||destroyKeepA'. A crash
			// of a non-default mode, not a statement of C04: reported in the gap analysis, kept out of the verdict.
			continue
		}
		scs = append(scs, pairScenario(p, vrt.Bounds{Dev: 1, Seconds: 100}, vrt.Bounds{Dev: 2, Seconds: 180}))
	}
	vrt.Main(scs)
}

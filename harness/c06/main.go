// C06: destroying or failing to create an environment leaves nothing behind.
// Whole-core simulation (package coresim).
package main

import (
	"fmt"
	"sort"
	"strings"
	"time"

	pb "github.com/AliceO2Group/Control/core/protos"
	"github.com/AliceO2Group/Control/verif_h/coresim"
	vrt "github.com/AliceO2Group/Control/verif_vrt"
	mesos "github.com/mesos/mesos-go/api/v1/lib"
)

func agents() []*coresim.Agent {
	return []*coresim.Agent{
		{ID: "agentA", Host: "hostA", Attributes: map[string]string{"machine_id": "hostA"}, Cpus: 8, Mem: 8192, PortLo: 9000, PortHi: 40000},
		{ID: "agentB", Host: "hostB", Attributes: map[string]string{"machine_id": "hostB"}, Cpus: 8, Mem: 8192, PortLo: 9000, PortHi: 40000},
	}
}

var cfg = vrt.Config{Preempt: coresim.InterComponent, NoLockPoints: true, FreeSwitchCost: true, Horizon: 30 * time.Minute}

// ---- leftovers oracle ---------------------------------------------------------------

type facts struct {
	envID      string
	keepTasks  bool
	rpcErr     error
	killFailed bool // some KILL call was made to fail by the simulator
}

// leftovers checks what must hold after a destroy / failed create returned and the system settled.
func leftovers(w *coresim.World, f facts, ctx string) (out []vrt.Violation) {
	fail := func(clause, format string, a ...any) {
		out = append(out, vrt.Violation{Clause: clause, Detail: fmt.Sprintf(format, a...) + "\n  " + ctx})
	}
	if _, ok := w.Envs()[f.envID]; ok && f.envID != "" {
		fail("still-listed", "environment %s still appears in GetEnvironments: %v", f.envID, w.Envs())
	}
	for tid, owner := range w.TaskOwners() {
		if owner == f.envID && f.envID != "" {
			fail("task-still-owned-by-gone-environment", "task %s is still owned by %s", tid, owner)
		}
	}
	if d := w.ActiveDetectors(); len(d) > 0 {
		fail("detector-not-freed", "active detectors after the only environment is gone: %v", d)
	}
	if !f.keepTasks {
		// "every task it ever owned has been asked to terminate": judged before anybody else cleans up
		w.Poll()
		for _, t := range w.M.AliveTasks() {
			if _, owned := w.EverOwned[t.ID]; owned && (t.EnvID == f.envID || f.envID == "") && t.Kills == 0 {
				seen := "not-active-in-core"
				if w.EverActive[t.ID] {
					seen = "active"
				}
				fail("task-never-asked-to-terminate:"+seen+":"+t.Class, "task %s (%s) was owned by %s, is alive at the master and was never sent a KILL (roster now: %v)", t.ID, t.Class, w.EverOwned[t.ID], w.TaskOwners())
			}
		}
		// "tasks that never became owned stay unowned and fall to the next cleanup"
		_ = w.Cleanup(nil)
		vrt.Quiesce("after-cleanup")
		for _, t := range w.M.AliveTasks() {
			if _, owned := w.EverOwned[t.ID]; !owned && (t.EnvID == f.envID || f.envID == "") && t.Kills == 0 {
				// a deployment is attempted several times: was this instance launched in the last attempt or in an earlier one?
				attempt := "single-launch"
				for _, o := range w.M.Tasks {
					if o != t && o.Class == t.Class && o.EnvID == t.EnvID {
						if o.LaunchOrder > t.LaunchOrder {
							attempt = "launched-in-an-earlier-attempt"
						} else if attempt == "single-launch" {
							attempt = "launched-in-the-last-attempt"
						}
					}
				}
				// ... and did the core ever have it in its roster (then the cleanup dropped it without a KILL), or never?
				how := "never-in-roster"
				if w.EverInRoster[t.ID] {
					how = "dropped-from-roster"
				}
				fail("never-owned-task-out-of-reach-of-cleanup:"+how+":"+attempt+":"+t.Class, "task %s (%s) launched for %s never became owned, is alive at the master and the next CleanupTasks did not ask it to terminate (roster: %v)", t.ID, t.Class, f.envID, w.TaskOwners())
			}
		}
	}
	return
}

// ---- scenario 1: destroy in every state with every flag and kill outcome ---------------

var states = []string{"CONFIGURED", "RUNNING", "DEPLOYED", "ERROR"}
var flagSets = []struct {
	name                  string
	force, allowRun, keep bool
}{{"plain", false, false, false}, {"force", true, false, false}, {"allowInRunning", false, true, false}, {"keepTasks", false, false, true}, {"force+keep", true, false, true}}
var killOutcomes = []coresim.Outcome{coresim.OK, coresim.Undeliverable, coresim.Silent}

func destroyScenario() *vrt.Scenario {
	var w *coresim.World
	var f facts
	var desc string
	var reachedDestroy bool
	var transitionRefused bool
	return &vrt.Scenario{Name: "destroy", Prop: "C06", Doc: "destroy in every state x flags x per-task kill outcome x (where the API first stops / resets) that transition refused by the critical task", Cfg: cfg,
		Setup: coresim.ResetStore, Quick: vrt.Bounds{Dev: 0, Seconds: 100}, Thorough: vrt.Bounds{Dev: 1, Seconds: 500},
		DeadlockClause: "destroy-hangs", PanicClause: "panic",
		NonTrivial: func(*vrt.Exec) bool { return reachedDestroy },
		Body: func() {
			reachedDestroy = false
			st := states[vrt.ChooseFree(len(states), "state")]
			fl := flagSets[vrt.ChooseFree(len(flagSets), "flags")]
			ko := []coresim.Outcome{killOutcomes[vrt.ChooseFree(len(killOutcomes), "kill0")], killOutcomes[vrt.ChooseFree(len(killOutcomes), "kill1")]}
			// something that happened to the environment's tasks before the destroy request
			pre := []string{"none", "executor-failed", "agent-failed", "task-failed", "task-lost"}[vrt.ChooseFree(5, "before-destroy")]
			// the transition the API performs first when it is allowed to (STOP from RUNNING with allowInRunning, RESET from
			// CONFIGURED) is refused by the critical task: the request must then be honoured by a forced teardown
			during := "none"
			switch {
			case st == "RUNNING" && fl.allowRun && !fl.force:
				during = []string{"none", "stop-fails"}[vrt.ChooseFree(2, "stop-during-destroy")]
			case st == "CONFIGURED" && !fl.force:
				during = []string{"none", "reset-fails"}[vrt.ChooseFree(2, "reset-during-destroy")]
			}
			destroying := false
			m := coresim.NewMaster(agents()...)
			f = facts{keepTasks: fl.keep}
			transitionRefused = false
			m.Behaviour = func(t *coresim.SimTask, kind string) coresim.Outcome {
				if destroying && t.Class == "c06a" && (kind == "STOP" && during == "stop-fails" || kind == "RESET" && during == "reset-fails") {
					transitionRefused = true
					return coresim.ErrError
				}
				if kind == "kill" {
					o := ko[0]
					if t.Class == "c06b" {
						o = ko[1]
					}
					if o == coresim.Undeliverable {
						f.killFailed = true
					}
					return o
				}
				if kind == "STOP" && st == "ERROR" {
					return coresim.ErrError // drive the environment to ERROR through a failing STOP
				}
				return coresim.OK
			}
			w = coresim.NewWorld(m)
			id, _, err := w.Create("c06-2", nil)
			if err != nil {
				vrt.Logf("setup failed: %v", err)
				return
			}
			f.envID = id
			switch st {
			case "RUNNING":
				w.Control(id, pb.ControlEnvironmentRequest_START_ACTIVITY)
			case "DEPLOYED":
				w.Control(id, pb.ControlEnvironmentRequest_RESET)
			case "ERROR":
				w.Control(id, pb.ControlEnvironmentRequest_START_ACTIVITY)
				w.Control(id, pb.ControlEnvironmentRequest_STOP_ACTIVITY)
				vrt.Sleep(2 * time.Second)
			}
			switch pre {
			case "executor-failed":
				if ts := m.AliveTasks(); len(ts) > 0 {
					m.FailExecutor(ts[0].AgentID, ts[0].ExecutorID)
				}
			case "agent-failed":
				m.FailAgent("agentA")
			case "task-failed":
				if ts := m.AliveTasks(); len(ts) > 0 {
					m.FailTask(ts[0], mesos.TASK_FAILED)
				}
			case "task-lost":
				if ts := m.AliveTasks(); len(ts) > 1 {
					m.FailTask(ts[1], mesos.TASK_LOST)
				}
			}
			if pre != "none" {
				vrt.Quiesce("after-fault")
				vrt.Sleep(2 * time.Second)
				vrt.Quiesce("after-fault2")
			}
			got, _ := w.EnvState(id)
			reachedDestroy = true
			destroying = true
			f.rpcErr = w.Destroy(id, fl.force, fl.allowRun, fl.keep)
			vrt.Quiesce("after-destroy")
			vrt.Sleep(3 * time.Second)
			vrt.Quiesce("after-destroy2")
			desc = fmt.Sprintf("state=%s(%s) before=%s flags=%s kill=%v err=%v", st, got, pre, fl.name, ko, f.rpcErr)
			if during != "none" {
				// the forced teardown the API falls back to never keeps tasks, whatever the caller asked: the statement lets
				// it ("unless the caller asked to keep tasks" is a licence, not a duty); the oracle follows the request
				desc += fmt.Sprintf(" during-destroy=%s(refused=%v)", during, transitionRefused)
			}
			vrt.Logf("%s", desc)
		},
		Check: func(x *vrt.Exec) (out []vrt.Violation) {
			if x.Deadlock != "" {
				return nil // reported by the engine under destroy-hangs
			}
			if !reachedDestroy {
				return nil // the environment could not be brought up on this schedule: nothing to destroy (counted as trivial)
			}
			if f.rpcErr == nil {
				out = append(out, leftovers(w, f, desc)...)
				if f.killFailed && !f.keepTasks {
					out = append(out, vrt.Violation{Clause: "success-although-kill-request-failed", Detail: desc})
				}
			} else {
				// a destroy that cannot be honoured must say so - and it did; what must still hold is that
				// nothing is half-owned: either the environment is still there or its tasks are not owned by it
				if _, listed := w.Envs()[f.envID]; !listed {
					for tid, owner := range w.TaskOwners() {
						if owner == f.envID {
							out = append(out, vrt.Violation{Clause: "task-still-owned-by-gone-environment", Detail: fmt.Sprintf("task %s owned by %s after failed destroy; %s", tid, owner, desc)})
						}
					}
				}
				if !f.killFailed && !strings.Contains(desc, "silent") && !transitionRefused {
					out = append(out, vrt.Violation{Clause: "destroy-failed-without-cause", Detail: desc})
				}
			}
			return
		}}
}

// ---- scenario 2: creation failing at every stage -----------------------------------------

type createCase struct {
	name     string
	workflow string
	behave   func(t *coresim.SimTask, kind string) coresim.Outcome
	pre      func(w *coresim.World) // e.g. occupy the detector
}

func createCases() []createCase {
	ok := func(*coresim.SimTask, string) coresim.Outcome { return coresim.OK }
	on := func(class, kind string, o coresim.Outcome) func(*coresim.SimTask, string) coresim.Outcome {
		return func(t *coresim.SimTask, k string) coresim.Outcome {
			if t.Class == class && k == kind {
				return o
			}
			return coresim.OK
		}
	}
	return []createCase{
		{"unknown-workflow", "does-not-exist", ok, nil},
		{"bad-yaml", "c06-badyaml", ok, nil},
		{"template-error", "c06-tmplerr", ok, nil},
		{"unknown-task-class", "c06-noclass", ok, nil},
		{"class-name-mismatch", "c06-mismatch", ok, nil},
		{"detector-busy", "c06-2", ok, func(w *coresim.World) { w.Create("c06-2", nil) }},
		{"unplaceable-critical", "c06-unplaceable", ok, nil},
		{"critical-does-not-fit", "c06-toobig", ok, nil},
		{"critical-never-running", "c06-2", on("c06a", "launch", coresim.NeverRunning), nil},
		{"critical-launch-fails", "c06-2", on("c06a", "launch", coresim.LaunchFails), nil},
		{"noncritical-launch-fails", "c06-2", on("c06b", "launch", coresim.LaunchFails), nil},
		{"configure-error", "c06-2", on("c06a", "CONFIGURE", coresim.ErrError), nil},
		{"configure-silent", "c06-2", on("c06a", "CONFIGURE", coresim.Silent), nil},
		{"configure-dies", "c06-2", on("c06a", "CONFIGURE", coresim.Dies), nil},
		{"configure-undeliverable", "c06-2", on("c06b", "CONFIGURE", coresim.Undeliverable), nil},
		// the workflow has DESTROY hooks and / or a call that is still waiting for its await moment when the creation fails:
		// the forced teardown of the failed creation runs the hooks (after the release) and must cancel the call
		{"configure-error:pending-call+hook-tasks", "c06-hooks3", on("c06a", "CONFIGURE", coresim.ErrError), nil},
		{"configure-error:destroy-call+hook-task", "c06-hooks1", on("c06a", "CONFIGURE", coresim.ErrError), nil},
		{"configure-dies:hook-tasks+after-destroy-call", "c06-hooks2", on("c06a", "CONFIGURE", coresim.Dies), nil},
		{"no-fault-schedule-only-b", "c06-hooks0", ok, nil},
		{"no-fault-schedule-only", "c06-2", ok, nil}, // fails only on unlucky schedules (bound >= 1); then nothing may be left behind either
	}
}

func createScenario() *vrt.Scenario {
	cases := createCases()
	var w *coresim.World
	var f facts
	var desc string
	var cc createCase
	var holder string
	var holderBefore, holderAfter string
	var preFailed bool
	var ownedAtHook map[string][]string
	return &vrt.Scenario{Name: "create-fails", Prop: "C06", Doc: "creation failing at every stage", Cfg: cfg,
		Setup: coresim.ResetStore, Quick: vrt.Bounds{Dev: 1, Seconds: 100}, Thorough: vrt.Bounds{Dev: 2, Seconds: 500},
		DeadlockClause: "create-hangs", PanicClause: "panic",
		Body: func() {
			cc = cases[vrt.ChooseFree(len(cases), "case")]
			m := coresim.NewMaster(agents()...)
			active := false
			m.Behaviour = func(t *coresim.SimTask, kind string) coresim.Outcome {
				if !active {
					return coresim.OK
				}
				return cc.behave(t, kind)
			}
			w = coresim.NewWorld(m)
			holder, holderBefore, holderAfter = "", "", ""
			preFailed = false
			// which non-hook tasks are still owned (by the environment being created) when a DESTROY hook runs
			ownedAtHook = map[string][]string{}
			stillOwned := func() (own []string) {
				for tid, o := range w.TaskOwners() {
					if o != "" && o != holder {
						if t := m.Tasks[tid]; t != nil && !strings.HasPrefix(t.Class, "c06hook") {
							own = append(own, t.Class)
						}
					}
				}
				sort.Strings(own)
				return
			}
			coresim.OnPluginCall = func(tag, trigger string) {
				if strings.Contains(trigger, "DESTROY") {
					ownedAtHook[tag] = stillOwned()
				}
			}
			m.OnCall = func(c *coresim.CallRec) {
				if c.Type == "MESSAGE" && c.Detail == "TRIGGER" {
					if t := m.Tasks[c.Task]; t != nil {
						ownedAtHook[t.Class] = stillOwned()
					}
				}
			}
			if cc.pre != nil {
				cc.pre(w)
				for id := range w.Envs() {
					holder = id
				}
				if holder == "" {
					preFailed = true // the holder could not be created on this schedule
					return
				}
				holderBefore = snapshot(w, holder)
			}
			active = true
			id, st, err := w.Create(cc.workflow, nil)
			coresim.OnPluginCall = nil
			vrt.Quiesce("after-create")
			vrt.Sleep(3 * time.Second)
			vrt.Quiesce("after-create2")
			f = facts{envID: id, rpcErr: err}
			if holder != "" {
				holderAfter = snapshot(w, holder)
			}
			desc = fmt.Sprintf("case=%s -> id=%s state=%s err=%v", cc.name, id, st, err != nil)
			vrt.Logf("%s", desc)
		},
		Check: func(x *vrt.Exec) (out []vrt.Violation) {
			if x.Deadlock != "" || preFailed {
				return nil
			}
			if f.rpcErr == nil {
				if cc.name == "noncritical-launch-fails" || cc.name == "configure-undeliverable" || strings.HasPrefix(cc.name, "no-fault-schedule-only") {
					return nil // non-critical failures may let the creation succeed (C02)
				}
				return []vrt.Violation{{Clause: "creation-succeeded:" + cc.name, Detail: desc}}
			}
			if holder != "" {
				// the holder of the detector must be undisturbed; everything else as usual
				if holderBefore != holderAfter {
					out = append(out, vrt.Violation{Clause: "holder-disturbed-by-failed-create", Detail: fmt.Sprintf("before: %s\nafter:  %s\n%s", holderBefore, holderAfter, desc)})
				}
				if _, ok := w.Envs()[f.envID]; ok {
					out = append(out, vrt.Violation{Clause: "still-listed", Detail: desc})
				}
				for tid, owner := range w.TaskOwners() {
					if owner == f.envID && f.envID != "" {
						out = append(out, vrt.Violation{Clause: "task-still-owned-by-gone-environment", Detail: tid + " " + desc})
					}
				}
				return
			}
			for _, v := range leftovers(w, f, desc) {
				v.Clause += ":" + cc.name
				out = append(out, v)
			}
			for hook, own := range ownedAtHook {
				if len(own) > 0 {
					out = append(out, vrt.Violation{Clause: "destroy-hook-ran-before-tasks-released:" + cc.name, Detail: fmt.Sprintf("hook %s ran while %v were still owned; %s", hook, own, desc)})
				}
			}
			if l := leakedCalls(x); len(l) > 0 {
				out = append(out, vrt.Violation{Clause: "pending-call-not-cancelled:" + cc.name, Detail: fmt.Sprintf("%v; %s", l, desc)})
			}
			return
		}}
}

func snapshot(w *coresim.World, id string) string {
	st, _ := w.EnvState(id)
	var own []string
	for tid, o := range w.TaskOwners() {
		if o == id {
			own = append(own, tid)
		}
	}
	sort.Strings(own)
	var alive []string
	for _, t := range w.M.AliveTasks() {
		if t.EnvID == id {
			alive = append(alive, t.ID+":"+t.State)
		}
	}
	return fmt.Sprintf("state=%s owned=%v alive=%v detectors=%v", st, own, alive, w.ActiveDetectors())
}

// ---- scenario 3: DESTROY hooks ---------------------------------------------------------------

func hooksScenario(name string, deadHooks bool, q, t vrt.Bounds) *vrt.Scenario {
	var w *coresim.World
	var f facts
	var desc string
	var ownedAtHook map[string][]string
	var hookTriggered map[string]int
	wfs := []string{"c06-hooks0", "c06-hooks1", "c06-hooks2", "c06-hooks3"}
	var wf, preHook string
	return &vrt.Scenario{Name: name, Prop: "C06", Doc: "DESTROY / after_DESTROY hooks (calls and hook tasks) at several weights; dead-hooks variant: a hook task failed / all hook tasks were lost before the destroy", Cfg: cfg,
		Setup: coresim.ResetStore, Quick: q, Thorough: t,
		DeadlockClause: "destroy-hangs", PanicClause: "panic",
		NonTrivial: func(*vrt.Exec) bool { return f.envID != "" },
		Body: func() {
			f = facts{}
			wf = wfs[vrt.ChooseFree(len(wfs), "workflow")]
			state := vrt.ChooseFree(2, "state") // 0 CONFIGURED, 1 RUNNING+allowInRunning
			m := coresim.NewMaster(agents()...)
			w = coresim.NewWorld(m)
			ownedAtHook, hookTriggered = map[string][]string{}, map[string]int{}
			id, _, err := w.Create(wf, nil)
			if err != nil {
				vrt.Logf("setup failed %v", err)
				return
			}
			f = facts{envID: id}
			coresim.OnPluginCall = func(tag, trigger string) {
				if strings.Contains(trigger, "DESTROY") {
					var own []string
					for tid, o := range w.TaskOwners() {
						if o == id {
							if t := m.Tasks[tid]; t != nil && !strings.HasPrefix(t.Class, "c06hook") {
								own = append(own, t.Class)
							}
						}
					}
					sort.Strings(own)
					ownedAtHook[tag] = own
				}
			}
			m.OnCall = func(c *coresim.CallRec) {
				if c.Type == "MESSAGE" && c.Detail == "TRIGGER" {
					if t := m.Tasks[c.Task]; t != nil {
						hookTriggered[t.Class]++
						var own []string
						for tid, o := range w.TaskOwners() {
							if o == id {
								if tt := m.Tasks[tid]; tt != nil && !strings.HasPrefix(tt.Class, "c06hook") {
									own = append(own, tt.Class)
								}
							}
						}
						sort.Strings(own)
						ownedAtHook[t.Class] = own
					}
				}
			}
			if state == 1 {
				w.Control(id, pb.ControlEnvironmentRequest_START_ACTIVITY)
			}
			// something happened to the DESTROY hook tasks before the destroy was requested
			preHook = "none"
			if deadHooks {
				preHook = []string{"first-hook-task-failed", "all-hook-tasks-lost"}[vrt.ChooseFree(2, "hook-tasks-before-destroy")]
			}
			if preHook != "none" {
				n := 0
				for _, t := range m.AliveTasks() {
					if strings.HasPrefix(t.Class, "c06hook") {
						if preHook == "first-hook-task-failed" && n == 0 {
							m.FailTask(t, mesos.TASK_FAILED)
						} else if preHook == "all-hook-tasks-lost" {
							m.FailTask(t, mesos.TASK_LOST)
						}
						n++
					}
				}
				vrt.Quiesce("after-hook-fault")
				vrt.Sleep(2 * time.Second)
				vrt.Quiesce("after-hook-fault2")
			}
			f.rpcErr = w.Destroy(id, false, state == 1, false)
			coresim.OnPluginCall = nil
			vrt.Quiesce("after-destroy")
			vrt.Sleep(3 * time.Second)
			vrt.Quiesce("after-destroy2")
			desc = fmt.Sprintf("workflow=%s state=%d hook-tasks-before=%s err=%v calls=%v triggered=%v", wf, state, preHook, f.rpcErr, coresim.CallLog, hookTriggered)
			vrt.Logf("%s", desc)
		},
		Check: func(x *vrt.Exec) (out []vrt.Violation) {
			if x.Deadlock != "" {
				return nil
			}
			if f.envID == "" {
				return nil // setup did not succeed on this schedule (counted as trivial)
			}
			if f.rpcErr != nil {
				return []vrt.Violation{{Clause: "destroy-failed-without-cause", Detail: desc}}
			}
			for hook, own := range ownedAtHook {
				if len(own) > 0 {
					out = append(out, vrt.Violation{Clause: "destroy-hook-ran-before-tasks-released", Detail: fmt.Sprintf("hook %s ran while %v were still owned; %s", hook, own, desc)})
				}
			}
			for _, v := range leftovers(w, f, desc) {
				v.Clause += ":" + wf
				out = append(out, v)
			}
			if l := leakedCalls(x); len(l) > 0 {
				out = append(out, vrt.Violation{Clause: "pending-call-not-cancelled", Detail: fmt.Sprintf("%v; %s", l, desc)})
			}
			return
		}}
}

// ---- scenario 3b: DESTROY hooks that misbehave, destroy flags and states the plain hook scenario leaves out ----

// hookFaults: how a DESTROY / after_DESTROY hook misbehaves. The hooks of these workflows are not critical, so none of
// this is a reason for the destroy to fail, and whatever happens to one hook the others still run after the release and
// every hook task is released and asked to terminate in the end.
var hookFaults = []string{"none", "first-trigger-undeliverable", "first-trigger-unanswered", "every-trigger-undeliverable", "destroy-call-fails", "destroy-call-slow"}

func hookFaultsScenario() *vrt.Scenario {
	var w *coresim.World
	var f facts
	var desc, wf, fault, stName string
	var ownedAtHook map[string][]string
	var hookTriggered map[string]int
	var reached bool
	wfs := []string{"c06-hooks0", "c06-hooks1", "c06-hooks2", "c06-hooks3"}
	hookStates := []string{"CONFIGURED", "RUNNING", "ERROR"}
	hookFlags := []struct {
		name        string
		force, keep bool
	}{{"plain", false, false}, {"force", true, false}, {"keepTasks", false, true}}
	reset := func() {
		coresim.OnPluginCall = nil
		for k := range coresim.CallFail {
			delete(coresim.CallFail, k)
		}
		for k := range coresim.CallDelay {
			delete(coresim.CallDelay, k)
		}
	}
	return &vrt.Scenario{Name: "destroy-hooks-faults", Prop: "C06", Doc: "DESTROY / after_DESTROY hook sets x destroy from CONFIGURED / RUNNING / ERROR x plain / force / keepTasks x a hook that misbehaves (trigger command undeliverable or never answered, plugin call failing or slow)", Cfg: cfg,
		Setup: func() { coresim.ResetStore(); reset() }, Quick: vrt.Bounds{Dev: 0, Seconds: 100}, Thorough: vrt.Bounds{Dev: 1, Seconds: 500},
		DeadlockClause: "destroy-hangs", PanicClause: "panic",
		NonTrivial: func(*vrt.Exec) bool { return reached },
		Body: func() {
			f, reached = facts{}, false
			reset()
			wf = wfs[vrt.ChooseFree(len(wfs), "workflow")]
			stName = hookStates[vrt.ChooseFree(len(hookStates), "state")]
			fl := hookFlags[vrt.ChooseFree(len(hookFlags), "flags")]
			fault = hookFaults[vrt.ChooseFree(len(hookFaults), "hook-fault")]
			m := coresim.NewMaster(agents()...)
			first := ""
			m.Behaviour = func(t *coresim.SimTask, kind string) coresim.Outcome {
				if kind == "STOP" && stName == "ERROR" && t.Class == "c06a" {
					return coresim.ErrError // drive the environment to ERROR through a failing STOP
				}
				if kind == "hook" {
					if first == "" {
						first = t.ID
					}
					switch {
					case fault == "every-trigger-undeliverable", fault == "first-trigger-undeliverable" && t.ID == first:
						return coresim.Undeliverable
					case fault == "first-trigger-unanswered" && t.ID == first:
						return coresim.Silent
					}
				}
				return coresim.OK
			}
			w = coresim.NewWorld(m)
			ownedAtHook, hookTriggered = map[string][]string{}, map[string]int{}
			id, _, err := w.Create(wf, nil)
			if err != nil {
				vrt.Logf("setup failed %v", err)
				return
			}
			f = facts{envID: id, keepTasks: fl.keep}
			switch stName {
			case "RUNNING":
				w.Control(id, pb.ControlEnvironmentRequest_START_ACTIVITY)
			case "ERROR":
				w.Control(id, pb.ControlEnvironmentRequest_START_ACTIVITY)
				w.Control(id, pb.ControlEnvironmentRequest_STOP_ACTIVITY)
				vrt.Sleep(2 * time.Second)
			}
			switch fault {
			case "destroy-call-fails":
				coresim.CallFail["d0"], coresim.CallFail["d1"] = true, true
			case "destroy-call-slow":
				coresim.CallDelay["d0"], coresim.CallDelay["d1"] = time.Second, time.Second
			}
			stillOwned := func() (own []string) {
				for tid, o := range w.TaskOwners() {
					if o == id {
						if t := m.Tasks[tid]; t != nil && !strings.HasPrefix(t.Class, "c06hook") {
							own = append(own, t.Class)
						}
					}
				}
				sort.Strings(own)
				return
			}
			coresim.OnPluginCall = func(tag, trigger string) {
				if strings.Contains(trigger, "DESTROY") {
					ownedAtHook[tag] = stillOwned()
				}
			}
			m.OnCall = func(c *coresim.CallRec) {
				if c.Type == "MESSAGE" && c.Detail == "TRIGGER" {
					if t := m.Tasks[c.Task]; t != nil {
						hookTriggered[t.Class]++
						ownedAtHook[t.Class] = stillOwned()
					}
				}
			}
			got, _ := w.EnvState(id)
			reached = true
			f.rpcErr = w.Destroy(id, fl.force, true, fl.keep)
			coresim.OnPluginCall = nil
			vrt.Quiesce("after-destroy")
			vrt.Sleep(3 * time.Second)
			vrt.Quiesce("after-destroy2")
			desc = fmt.Sprintf("workflow=%s state=%s(%s) flags=%s hook-fault=%s err=%v calls=%v triggered=%v", wf, stName, got, fl.name, fault, f.rpcErr, coresim.CallLog, hookTriggered)
			vrt.Logf("%s", desc)
		},
		Check: func(x *vrt.Exec) (out []vrt.Violation) {
			defer reset()
			if x.Deadlock != "" || !reached {
				return nil
			}
			for hook, own := range ownedAtHook {
				if len(own) > 0 {
					out = append(out, vrt.Violation{Clause: "destroy-hook-ran-before-tasks-released", Detail: fmt.Sprintf("hook %s ran while %v were still owned; %s", hook, own, desc)})
				}
			}
			if f.rpcErr != nil {
				if _, listed := w.Envs()[f.envID]; listed {
					// the request was not honoured and says so; but no hook of these workflows is critical
					return append(out, vrt.Violation{Clause: "destroy-failed-because-of-a-noncritical-hook:" + fault, Detail: desc})
				}
				// the environment IS destroyed (no longer listed), only the reply says otherwise: what the statement promises
				// "after an environment is destroyed" is due all the same
				out = append(out, vrt.Violation{Clause: "environment-destroyed-but-failure-reported:hook-fault=" + fault, Detail: desc})
				var running []string
				for _, v := range leftovers(w, f, desc) {
					if strings.HasPrefix(v.Clause, "task-never-asked-to-terminate:active:") {
						running = append(running, strings.TrimPrefix(v.Clause, "task-never-asked-to-terminate:active:"))
						continue
					}
					v.Clause += ":" + wf + ":hook-fault=" + fault + ":after-failure-reply"
					out = append(out, v)
				}
				if len(running) > 0 {
					// one signature per fault: the reply skipped the task cleanup altogether
					out = append(out, vrt.Violation{Clause: "tasks-left-running-after-destroy-reported-failure:hook-fault=" + fault,
						Detail: fmt.Sprintf("environment %s is gone, its tasks %v are alive at the master, were owned by it and were never sent a KILL; %s", f.envID, running, desc)})
				}
				return
			}
			for _, v := range leftovers(w, f, desc) {
				v.Clause += ":" + wf + ":hook-fault=" + fault
				out = append(out, v)
			}
			if l := leakedCalls(x); len(l) > 0 {
				out = append(out, vrt.Violation{Clause: "pending-call-not-cancelled", Detail: fmt.Sprintf("%v; %s", l, desc)})
			}
			return
		}}
}

// ---- scenario 4: two destroy requests for one environment overlap ---------------------------

func twiceScenario() *vrt.Scenario {
	var w *coresim.World
	var f facts
	var desc, wf string
	var errs [2]error
	var done int
	var triggers int
	wfs := []string{"c06-2", "c06-hooks1"}
	return &vrt.Scenario{Name: "destroy-twice", Prop: "C06", Doc: "two overlapping DestroyEnvironment requests for one environment (state x flags of each)", Cfg: cfg,
		Setup: coresim.ResetStore, Quick: vrt.Bounds{Dev: 1, Seconds: 100}, Thorough: vrt.Bounds{Dev: 2, Seconds: 500},
		DeadlockClause: "destroy-hangs", PanicClause: "panic",
		NonTrivial: func(*vrt.Exec) bool { return done == 2 },
		Body: func() {
			f, done, triggers, errs = facts{}, 0, 0, [2]error{}
			wf = wfs[vrt.ChooseFree(len(wfs), "workflow")]
			state := vrt.ChooseFree(2, "state") // 0 CONFIGURED, 1 RUNNING (both requests allow it)
			force := [2]bool{vrt.ChooseFree(2, "force1") == 1, vrt.ChooseFree(2, "force2") == 1}
			m := coresim.NewMaster(agents()...)
			m.HookTerminates = true
			w = coresim.NewWorld(m)
			id, _, err := w.Create(wf, nil)
			if err != nil {
				vrt.Logf("setup failed %v", err)
				return
			}
			f = facts{envID: id}
			m.OnCall = func(c *coresim.CallRec) {
				if c.Type == "MESSAGE" && c.Detail == "TRIGGER" {
					triggers++
				}
			}
			if state == 1 {
				w.Control(id, pb.ControlEnvironmentRequest_START_ACTIVITY)
			}
			var wg vrt.WaitGroup
			wg.Add(2)
			for i := 0; i < 2; i++ {
				i := i
				vrt.GoFG(fmt.Sprintf("destroy%d", i+1), func() {
					errs[i] = w.Destroy(id, force[i], state == 1, false)
					done++
					wg.Done()
				})
			}
			wg.Wait()
			vrt.Quiesce("after-destroy")
			vrt.Sleep(3 * time.Second)
			vrt.Quiesce("after-destroy2")
			desc = fmt.Sprintf("workflow=%s state=%d force=%v errs=[%v | %v] calls=%v hook-task-triggers=%d", wf, state, force, errs[0], errs[1], coresim.CallLog, triggers)
			vrt.Logf("workflow=%s state=%d force=%v ok=[%v %v] calls=%v triggers=%d", wf, state, force, errs[0] == nil, errs[1] == nil, coresim.CallLog, triggers)
		},
		Check: func(x *vrt.Exec) (out []vrt.Violation) {
			if x.Deadlock != "" || f.envID == "" || done != 2 {
				return nil
			}
			// an environment can be destroyed once: the request that finds it gone (or going) cannot be honoured
			if errs[0] == nil && errs[1] == nil {
				out = append(out, vrt.Violation{Clause: "both-destroy-requests-succeeded", Detail: desc})
			}
			n := 0
			for _, c := range coresim.CallLog {
				if strings.Contains(c, "DESTROY") {
					n++
				}
			}
			if n > 1 || triggers > 1 {
				out = append(out, vrt.Violation{Clause: "destroy-hooks-ran-twice", Detail: desc})
			}
			if errs[0] == nil || errs[1] == nil {
				for _, v := range leftovers(w, f, desc) {
					v.Clause += ":" + wf
					out = append(out, v)
				}
			}
			return
		}}
}

// ---- scenario 5: destroy requested while the environment is still being created -----------------

// The environment is listed (and can be named in a destroy request) from the moment its workflow is loaded, long
// before NewEnvironment returns. Timing instead of deviations: launches take a virtual second to report TASK_RUNNING
// (DEPLOY lasts from 0 to 1 s), a before_CONFIGURE plugin call takes another second (1 s to 2 s), CONFIGURE follows;
// the destroy request arrives at 0.5 s (state STANDBY, DEPLOY in progress) or at 1.5 s (DEPLOYED, CONFIGURE in progress).
func destroyWhileCreatingScenario() *vrt.Scenario {
	var w *coresim.World
	var f facts
	var desc string
	var createErr, destroyErr error
	var found, done bool
	return &vrt.Scenario{Name: "destroy-while-creating", Prop: "C06", Doc: "DestroyEnvironment for an environment whose NewEnvironment request is still in its DEPLOY / CONFIGURE transition (plain / force / keepTasks)", Cfg: cfg,
		Setup: coresim.ResetStore, Quick: vrt.Bounds{Dev: 0, Seconds: 100}, Thorough: vrt.Bounds{Dev: 1, Seconds: 500},
		DeadlockClause: "destroy-or-create-hangs", PanicClause: "panic",
		NonTrivial: func(*vrt.Exec) bool { return found && done },
		Body: func() {
			f, createErr, destroyErr, found, done = facts{}, nil, nil, false, false
			for k := range coresim.CallDelay {
				delete(coresim.CallDelay, k)
			}
			coresim.CallDelay["slowcfg"] = time.Second
			at := []time.Duration{500 * time.Millisecond, 1500 * time.Millisecond}[vrt.ChooseFree(2, "destroy-arrives")]
			fl := []struct {
				name        string
				force, keep bool
			}{{"plain", false, false}, {"force", true, false}, {"keepTasks", false, true}}[vrt.ChooseFree(3, "flags")]
			m := coresim.NewMaster(agents()...)
			m.Behaviour = func(t *coresim.SimTask, kind string) coresim.Outcome {
				if kind == "launch" {
					return coresim.SlowLaunch
				}
				return coresim.OK
			}
			w = coresim.NewWorld(m)
			f.keepTasks = fl.keep
			var wg vrt.WaitGroup
			wg.Add(2)
			var createState, seenState string
			vrt.GoFG("creator", func() {
				_, createState, createErr = w.Create("c06-slowcfg", nil)
				wg.Done()
			})
			vrt.GoFG("destroyer", func() {
				vrt.Sleep(at)
				for id, st := range w.Envs() {
					f.envID, seenState, found = id, st, true
				}
				if found {
					destroyErr = w.Destroy(f.envID, fl.force, true, fl.keep)
				}
				wg.Done()
			})
			wg.Wait()
			done = true
			vrt.Quiesce("after-both")
			vrt.Sleep(3 * time.Second)
			vrt.Quiesce("after-both2")
			desc = fmt.Sprintf("destroy at %v (listed as %s) flags=%s -> destroy err=%v | create state=%s err=%v", at, seenState, fl.name, destroyErr, createState, createErr != nil)
			vrt.Logf("%s", desc)
		},
		Check: func(x *vrt.Exec) (out []vrt.Violation) {
			delete(coresim.CallDelay, "slowcfg")
			if x.Deadlock != "" || !found || !done {
				return nil
			}
			_, listed := w.Envs()[f.envID]
			switch {
			case destroyErr == nil:
				// the destroy was honoured: everything the statement promises after a destroy
				for _, v := range leftovers(w, f, desc) {
					v.Clause += ":destroyed-while-being-created"
					out = append(out, v)
				}
			case createErr != nil:
				// the destroy was refused and the creation failed (on its own or because of the attempt): nothing may be left
				for _, v := range leftovers(w, facts{envID: f.envID, rpcErr: createErr}, desc) {
					v.Clause += ":creation-failed-while-destroy-was-refused"
					out = append(out, v)
				}
			case !listed:
				out = append(out, vrt.Violation{Clause: "environment-gone-although-destroy-was-refused-and-creation-succeeded", Detail: desc})
			}
			if l := leakedCalls(x); len(l) > 0 {
				out = append(out, vrt.Violation{Clause: "pending-call-not-cancelled:destroyed-while-being-created", Detail: fmt.Sprintf("%v; %s", l, desc)})
			}
			return
		}}
}

func leakedCalls(x *vrt.Exec) (out []string) {
	for _, l := range x.Leaked {
		if strings.Contains(l, "callable/call.go") {
			out = append(out, l)
		}
	}
	return
}

func callRole(name, tag, trigger, await string) string {
	s := fmt.Sprintf("  - name: %q\n    call:\n      func: sim.Call(%q)\n      trigger: %s\n      timeout: 5s\n      critical: false\n", name, tag, trigger)
	if await != "" {
		s += fmt.Sprintf("      await: %s\n", await)
	}
	return s
}

func main() {
	two := []coresim.TaskSpec{
		{Name: "ta", Class: "c06a", Mode: "direct", Critical: true, Host: "hostA"},
		{Name: "tb", Class: "c06b", Mode: "direct", Critical: false, Host: "hostA"},
	}
	hook := func(n int, trig string) coresim.TaskSpec {
		return coresim.TaskSpec{Name: fmt.Sprintf("hook%d", n), Class: fmt.Sprintf("c06hook%d", n), Mode: "hook", Critical: false, Host: "hostA", Trigger: trig}
	}
	specs := []coresim.WorkflowSpec{
		{Name: "c06-2", Hosts: []string{"hostA"}, Tasks: two},
		{Name: "c06-unplaceable", Hosts: []string{"hostA"}, Tasks: []coresim.TaskSpec{two[0], {Name: "tz", Class: "c06z", Mode: "direct", Critical: true, Host: "hostZ"}}},
		{Name: "c06-noclass", Hosts: []string{"hostA"}, Tasks: []coresim.TaskSpec{two[0]}},
		// the second critical task matches hostA but wants more cpus than any offer has: it stays undeployed (not undeployable)
		{Name: "c06-toobig", Hosts: []string{"hostA"}, Tasks: []coresim.TaskSpec{two[0], {Name: "tbig", Class: "c06big", Mode: "direct", Critical: true, Host: "hostA", Cpu: 100}}},
		{Name: "c06-mismatch", Hosts: []string{"hostA"}, Tasks: []coresim.TaskSpec{{Name: "tm", Class: "c06m", Mode: "direct", Critical: true, Host: "hostA"}}},
		{Name: "c06-tmplerr", Hosts: []string{"hostA"}, Tasks: []coresim.TaskSpec{{Name: "te-{{ undefined_function_xyz() }}", Class: "c06a", Mode: "direct", Critical: true, Host: "hostA"}}},
		{Name: "c06-hooks0", Hosts: []string{"hostA"}, Tasks: two, Calls: []string{callRole("pend", "pending", "before_START_ACTIVITY", "after_NEVERHAPPENS"),
			// calls that the teardown itself starts (it fires leave_<state>) and whose await point never comes
			callRole("pendlc", "pending-leave-configured", "leave_CONFIGURED", "after_NEVERHAPPENS"),
			callRole("pendlr", "pending-leave-running", "leave_RUNNING", "after_NEVERHAPPENS")}},
		{Name: "c06-slowcfg", Hosts: []string{"hostA"}, Tasks: two, Calls: []string{callRole("slowcfg", "slowcfg", "before_CONFIGURE", "")}},
		{Name: "c06-hooks1", Hosts: []string{"hostA"}, Tasks: append(append([]coresim.TaskSpec{}, two...), hook(1, "DESTROY")), Calls: []string{callRole("d0", "d0", "DESTROY", "")}},
		{Name: "c06-hooks2", Hosts: []string{"hostA"}, Tasks: append(append([]coresim.TaskSpec{}, two...), hook(1, "DESTROY-1"), hook(2, "after_DESTROY+1")), Calls: []string{callRole("d1", "d1", "after_DESTROY", "")}},
		{Name: "c06-hooks3", Hosts: []string{"hostA"}, Tasks: append(append([]coresim.TaskSpec{}, two...), hook(1, "DESTROY-5"), hook(2, "DESTROY+0"), hook(3, "DESTROY+5")), Calls: []string{callRole("pend", "pending", "before_CONFIGURE", "after_NEVERHAPPENS")}},
	}
	coresim.GlobalSetup(specs...)
	coresim.BreakFixture()
	vrt.Main([]*vrt.Scenario{destroyScenario(), createScenario(), hooksScenario("destroy-hooks", false, vrt.Bounds{Dev: 1, Seconds: 100}, vrt.Bounds{Dev: 2, Seconds: 500}),
		hooksScenario("destroy-hooks-dead", true, vrt.Bounds{Dev: 0, Seconds: 100}, vrt.Bounds{Dev: 1, Seconds: 500}), twiceScenario(), hookFaultsScenario(), destroyWhileCreatingScenario()})
}

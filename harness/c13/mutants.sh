#!/bin/bash
# Applies every mutants/C13/*.patch to a scratch copy of /repo (never to /repo itself),
# runs the quick tier of the C13 harness on it and prints the violation clauses that the
# unchanged tree does not have. Usage: harness/c13/mutants.sh [patch ...]
set -u
V=$(cd "$(dirname "$0")/../.." && pwd)
SRC=${VERIF_REPO_SRC:-/repo}
S=/tmp/repo-c13
export GOFLAGS=-mod=mod GOPROXY=off GOSUMDB=off GOTOOLCHAIN=local
export VERIF_WORK=${VERIF_WORK_MUT:-/tmp/vw-c13m}
QUICK=pair,fan,alias,precedence,multi,iter,static,reconfigure,twoenv
clauses() { # $1 = repo -> sorted "scenario: clause" list
  local b
  b=$(cd "$V" && VERIF_REPO=$1 python3 tools/vlib.py build c13 | tail -1) || return 1
  [ -x "$b" ] || return 1
  "$b" -tier quick -scenario $QUICK | awk '/^scenario=/{split($1,a,"="); sc=a[2]} /^  FOUND clause=/{match($0,/clause="[^"]*"/); print sc ": " substr($0,RSTART+8,RLENGTH-9)}' | sort -u
}
rm -rf "$S"; cp -r "$SRC" "$S"
clauses "$S" > /tmp/c13-base.txt || { echo "baseline does not build"; exit 3; }
echo "baseline clauses: $(wc -l < /tmp/c13-base.txt)"; sed 's/^/    /' /tmp/c13-base.txt
rc=0
[ $# -gt 0 ] || set -- "$V"/mutants/C13/[0-9]*.patch
for p in "$@"; do
  n=$(basename "$p" .patch)
  (cd "$S" && git checkout -q -- . && git apply "$p") || { echo "$n: PATCH DOES NOT APPLY"; rc=1; continue; }
  clauses "$S" > /tmp/c13-mut.txt || { echo "$n: DOES NOT BUILD"; rc=1; continue; }
  new=$(comm -13 /tmp/c13-base.txt /tmp/c13-mut.txt)
  if [ "${n#0-}" != "$n" ]; then echo "$n: (fix) remaining clauses: $(wc -l < /tmp/c13-mut.txt)"; sed 's/^/    /' /tmp/c13-mut.txt
  elif [ -n "$new" ]; then echo "$n: CAUGHT"; echo "$new" | sed 's/^/    /'
  else echo "$n: NOT CAUGHT"; rc=1; fi
done
rm -rf "$S" /tmp/c13-base.txt /tmp/c13-mut.txt
exit $rc

// C13: outbound channels connect to where the matching inbound channel was bound.
//
// Whole-core simulation (package coresim): for every workflow of a finite grid of
// bind/connect declarations the real NewEnvironment RPC runs DEPLOY + CONFIGURE
// (real workflow loader, role tree, task manager, offer matching with port
// allocation, configureTasks, channel.ToFMQMap, command queue) against a simulated
// Mesos master. Observed: the `arguments` of the CONFIGURE command every simulated
// executor receives and the port resources of every task in the ACCEPT call.
// The oracle is a small model written from the property statement: which inbound
// channel a target names, what "bound at" means, when the configuration must fail.
package main

import (
	"fmt"
	"os"
	"sort"
	"strconv"
	"strings"
	"time"

	pb "github.com/AliceO2Group/Control/core/protos"
	"github.com/AliceO2Group/Control/verif_h/coresim"
	vrt "github.com/AliceO2Group/Control/verif_vrt"
)

// ---------------------------------------------------------------- configurations

// decl is one bind (inbound) or connect (outbound) declaration of a workflow.
type decl struct {
	bind       bool
	level      string // role | group | root | class
	owner      int    // index of the task whose role / group / class carries it (ignored for root)
	name       string
	addressing string // bind only: "" (omitted) | tcp | ipc
	transport  string // "" (omitted) | default | zeromq | shmem
	global     string // bind only: global alias
	target     string // connect: target as written in the YAML; bind: static bind address
	names      string // connect: what the written target denotes once templates are resolved ("" = target)
	form       string // connect: name of the target form (witness in clauses)
}

type tcfg struct{ host, mode string }

type config struct {
	fam, label  string
	idx         int
	tasks       []tcfg
	decls       []decl
	sharedGroup bool // all tasks below one aggregator "g" instead of one aggregator each
	// hand-written workflows (iterator family): the files to generate, and for every task of the
	// model its aggregator, role name and task class
	raw                    []coresim.WorkflowSpec
	groups, roles, classes []string
}

func (c *config) wf() string { return fmt.Sprintf("c13%s%d", c.fam, c.idx) }
func (c *config) class(i int) string {
	if c.classes != nil {
		return c.classes[i]
	}
	return fmt.Sprintf("c13%s%dk%d", c.fam, c.idx, i)
}
func (c *config) group(i int) string {
	if c.groups != nil {
		return c.groups[i]
	}
	if c.sharedGroup {
		return "g"
	}
	return fmt.Sprintf("g%d", i)
}
func (c *config) role(i int) string {
	if c.roles != nil {
		return c.roles[i]
	}
	return fmt.Sprintf("t%d", i)
}
func (c *config) path(i int) string { return c.wf() + "." + c.group(i) + "." + c.role(i) }

func (d decl) yaml(ind string) string {
	typ := "pull"
	if d.bind {
		typ = "push"
	}
	s := ind + "- name: " + d.name + "\n" + ind + "  type: " + typ + "\n"
	if d.addressing != "" {
		s += ind + "  addressing: " + d.addressing + "\n"
	}
	if d.transport != "" {
		s += ind + "  transport: " + d.transport + "\n"
	}
	if d.global != "" {
		s += ind + "  global: \"" + d.global + "\"\n"
	}
	if d.target != "" {
		s += ind + "  target: \"" + d.target + "\"\n"
	}
	return s
}

func block(ds []decl, ind string) string {
	var b, c string
	for _, d := range ds {
		if d.bind {
			b += d.yaml(ind + "  ")
		} else {
			c += d.yaml(ind + "  ")
		}
	}
	s := ""
	if b != "" {
		s += ind + "bind:\n" + b
	}
	if c != "" {
		s += ind + "connect:\n" + c
	}
	return s
}

func (c *config) at(level string, owner int) (out []decl) {
	for _, d := range c.decls {
		if d.level == level && (level == "root" || d.owner == owner) {
			out = append(out, d)
		}
	}
	return
}

func (c *config) specs() []coresim.WorkflowSpec {
	if c.raw != nil {
		return c.raw
	}
	return []coresim.WorkflowSpec{c.spec()}
}

func (c *config) spec() coresim.WorkflowSpec {
	wf := coresim.WorkflowSpec{Name: c.wf(), GroupExtra: map[string]string{}}
	wf.RootExtra = block(c.at("root", -1), "")
	perGroup := map[string][]decl{}
	for i, t := range c.tasks {
		g := c.group(i)
		wf.Tasks = append(wf.Tasks, coresim.TaskSpec{Name: fmt.Sprintf("t%d", i), Class: c.class(i), Mode: t.mode, Critical: true, Host: t.host, Group: g,
			Extra: block(c.at("role", i), "    "), ClassExtra: block(c.at("class", i), "")})
		perGroup[g] = append(perGroup[g], c.at("group", i)...)
	}
	for g, ds := range perGroup {
		wf.GroupExtra[g] = block(ds, "    ")
	}
	return wf
}

// ---------------------------------------------------------------- the model (from the statement)

// effective channels of task i: a channel name declared at several levels is taken from the
// nearest role (task role, then its ancestors), and role-level declarations go over the
// task template's.
func (c *config) effective(i int, bind bool) []decl {
	seen := map[string]bool{}
	var out []decl
	add := func(d decl) {
		if d.bind == bind && !seen[d.name] {
			seen[d.name] = true
			out = append(out, d)
		}
	}
	for _, d := range c.at("role", i) {
		add(d)
	}
	for j := range c.tasks {
		if c.group(j) == c.group(i) {
			for _, d := range c.at("group", j) {
				add(d)
			}
		}
	}
	for _, d := range c.at("root", -1) {
		add(d)
	}
	for _, d := range c.at("class", i) {
		add(d)
	}
	sort.Slice(out, func(a, b int) bool { return out[a].name < out[b].name })
	return out
}

// levels at which a channel name is declared for task i (witness for precedence cases).
func (c *config) levels(i int, bind bool, name string) string {
	var l []string
	for _, lv := range []string{"role", "group", "root", "class"} {
		for j := range c.tasks {
			if lv == "role" || lv == "class" {
				if j != i {
					continue
				}
			} else if lv == "group" && c.group(j) != c.group(i) {
				continue
			}
			hit := false
			for _, d := range c.at(lv, j) {
				if d.bind == bind && d.name == name {
					hit = true
				}
			}
			if hit {
				l = append(l, lv)
				break
			}
		}
	}
	return strings.Join(l, "+")
}

// formKind folds the target forms into what they exercise (clause witnesses stay few).
func formKind(form string) string {
	switch form {
	case "path", "tpath", "sibling", "cross-path":
		return "path"
	case "alias", "alias-it", "cross-alias", "alias-fix":
		return "alias"
	}
	return form
}

// multi returns the levels string when a name is declared at more than one level, else "once".
func multi(lv string) string {
	if strings.Contains(lv, "+") {
		return lv
	}
	return "once"
}

func explicit(t string) bool { return strings.HasPrefix(t, "tcp://") || strings.HasPrefix(t, "ipc://") }
func orDash(s string) string {
	if s == "" {
		return "-"
	}
	return s
}
func declaredTransport(d decl) string {
	if d.transport == "" {
		return "default"
	}
	return d.transport
}
func declaredAddressing(d decl) string {
	if d.addressing == "" {
		return "tcp"
	}
	return d.addressing
}

type inbound struct {
	task int
	d    decl
}

// ---------------------------------------------------------------- observation

type tobs struct {
	launched bool
	host     string
	args     map[string]string // arguments of the CONFIGURE command (nil: never received)
	ports    map[uint64]bool   // port resources of the task in the ACCEPT call
	control  uint64
}

// observe collects what the master saw of the tasks of environment env ("" = any).
func observe(c *config, m *coresim.Master, env string) []tobs {
	out := make([]tobs, len(c.tasks))
	for _, id := range m.TaskOrder {
		t := m.Tasks[id]
		if env != "" && t.EnvID != env {
			continue
		}
		host, machine := "", ""
		for _, a := range m.Agents {
			if a.ID == t.AgentID {
				host, machine = a.Host, a.Attributes["machine_id"]
			}
		}
		for i := range c.tasks {
			if t.Class != c.class(i) {
				continue
			}
			if c.classes != nil && machine != c.tasks[i].host {
				continue // several roles share the class: told apart by the (constrained) machine
			}
			o := tobs{launched: true, ports: map[uint64]bool{}, control: t.Cmd.ControlPort, host: host}
			for _, r := range t.Info.Resources {
				if r.GetName() == "ports" {
					for _, rg := range r.GetRanges().GetRange() {
						for p := rg.Begin; p <= rg.End && p-rg.Begin < 4096; p++ {
							o.ports[p] = true
						}
					}
				}
			}
			if t.Args != nil {
				o.args = t.Args["CONFIGURE"]
			}
			out[i] = o
		}
	}
	return out
}

// ---------------------------------------------------------------- oracle

type judge struct {
	c        *config
	obs      []tobs
	fail     func(clause, format string, a ...any)
	usedPort map[string]string // host:port -> inbound channel told to bind it (may span environments)
	phase    string
}

func tcpPort(addr string) (uint64, bool) {
	if !strings.HasPrefix(addr, "tcp://*:") {
		return 0, false
	}
	p, err := strconv.ParseUint(addr[len("tcp://*:"):], 10, 64)
	return p, err == nil
}

// run applies the statement to one finished NewEnvironment call. configured = the call
// succeeded and the environment is CONFIGURED.
func (j *judge) run(configured bool, errText string) (verdict string) {
	c := j.c
	byPath := map[string]inbound{}
	claims := map[string][]inbound{}
	for i := range c.tasks {
		for _, d := range c.effective(i, true) {
			byPath[c.path(i)+":"+d.name] = inbound{i, d}
			if d.global != "" {
				claims["::"+d.global] = append(claims["::"+d.global], inbound{i, d})
			}
		}
	}
	resolve := func(d decl) (inbound, bool) {
		t := d.names
		if t == "" {
			t = d.target
		}
		if strings.HasPrefix(t, "::") {
			if cl := claims[t]; len(cl) == 1 {
				return cl[0], true
			}
			return inbound{}, false
		}
		in, ok := byPath[t]
		return in, ok
	}
	// must the configuration be refused?
	var aliases []string
	for a := range claims {
		aliases = append(aliases, a)
	}
	sort.Strings(aliases)
	for _, a := range aliases {
		if cl := claims[a]; len(cl) > 1 {
			kind := "cross-task-diff-host"
			if cl[0].task == cl[1].task {
				kind = "same-task"
			} else if c.tasks[cl[0].task].host == c.tasks[cl[1].task].host {
				kind = "cross-task-same-host"
			}
			if configured {
				j.fail("conflicting-global-alias-accepted:"+kind, "%d different endpoints claim alias %s, yet the environment was CONFIGURED\n%s", len(cl), a, j.dump())
				return "alias-conflict-ACCEPTED"
			}
			return "alias-conflict-rejected"
		}
	}
	for i := range c.tasks {
		for _, d := range c.effective(i, false) {
			if explicit(d.target) {
				continue
			}
			if _, ok := resolve(d); !ok {
				if configured {
					j.fail("unmatched-target-accepted:"+formKind(d.form), "outbound %s of t%d targets %q which names no inbound channel, yet the environment was CONFIGURED\n%s", d.name, i, d.target, j.dump())
					return "unmatched-ACCEPTED"
				}
				return "unmatched-rejected"
			}
		}
	}
	if !configured {
		for i := range c.tasks {
			for _, d := range c.effective(i, false) {
				if d.level == "class" && d.target != "" {
					// A task template cannot know role paths: the loader documents that it ignores a
					// target written there. Refusing the configuration is accepted, a wrong address is not.
					return "template-level-target-not-honoured"
				}
			}
		}
		j.fail("valid-configuration-rejected:"+c.fam, "every target matches and no alias is claimed twice, yet NewEnvironment failed: %s\n%s", errText, j.dump())
		return "valid-REJECTED"
	}
	// every task was configured
	for i, o := range j.obs {
		if !o.launched || o.args == nil {
			j.fail("task-not-configured:"+c.tasks[i].mode, "t%d launched=%v received no CONFIGURE although the environment is CONFIGURED\n%s", i, o.launched, j.dump())
			return "not-configured"
		}
	}
	bad := 0
	f := func(clause, format string, a ...any) {
		bad++
		j.fail(clause, format+"\n%s", append(a, j.dump())...)
	}
	// inbound side
	if j.usedPort == nil {
		j.usedPort = map[string]string{}
	}
	usedPort := j.usedPort
	for i, o := range j.obs {
		for _, d := range c.effective(i, true) {
			lv := multi(c.levels(i, true, d.name))
			pre := "chans." + d.name + ".0."
			addr, told := o.args[pre+"address"]
			if !told {
				f("inbound-not-told:declared="+lv, "t%d is not told to bind its inbound channel %s", i, d.name)
				continue
			}
			if o.args[pre+"method"] != "bind" {
				f("inbound-method:"+o.args[pre+"method"], "t%d inbound %s has method %q", i, d.name, o.args[pre+"method"])
			}
			switch {
			case d.target != "":
				if addr != d.target {
					f("explicit-inbound-target-changed:"+d.target[:3], "t%d inbound %s has the static address %q but is told %q", i, d.name, d.target, addr)
				}
			case declaredAddressing(d) == "ipc":
				if !strings.HasPrefix(addr, "ipc://") || len(addr) <= len("ipc://") {
					f("inbound-address:addressing=ipc,declared="+lv, "t%d inbound %s (ipc addressing) is told to bind %q", i, d.name, addr)
					break
				}
				k := o.host + ":" + addr
				if who, dup := usedPort[k]; dup {
					f("inbound-ipc-path-allocated-twice", "%s and %st%d.%s are both told to bind %s", who, j.phase, i, d.name, k)
				}
				usedPort[k] = fmt.Sprintf("%st%d.%s", j.phase, i, d.name)
			default:
				p, ok := tcpPort(addr)
				if !ok {
					f("inbound-address:addressing=tcp,declared="+lv, "t%d inbound %s (tcp addressing) is told to bind %q", i, d.name, addr)
					break
				}
				if !o.ports[p] {
					f("inbound-port-not-in-accept", "t%d inbound %s is told to bind port %d, the ACCEPT call gives the task ports %v", i, d.name, p, keys(o.ports))
				}
				if p == o.control {
					f("inbound-port-is-control-port", "t%d inbound %s is told to bind its own control port %d", i, d.name, p)
				}
				k := fmt.Sprintf("%s:%d", o.host, p)
				if who, dup := usedPort[k]; dup {
					kind := "cross-task"
					if strings.HasPrefix(who, fmt.Sprintf("%st%d.", j.phase, i)) {
						kind = "same-task"
					} else if !strings.HasPrefix(who, j.phase+"t") {
						kind = "cross-environment"
					}
					f("inbound-port-allocated-twice:"+kind, "%s and %st%d.%s are both told to bind %s", who, j.phase, i, d.name, k)
				}
				usedPort[k] = fmt.Sprintf("%st%d.%s", j.phase, i, d.name)
			}
			{
				if got, want := o.args[pre+"transport"], declaredTransport(d); got != want {
					f("inbound-transport:declared="+lv, "t%d inbound %s declares transport %q, is told %q", i, d.name, want, got)
				}
			}
		}
	}
	// outbound side
	for i, o := range j.obs {
		for _, d := range c.effective(i, false) {
			lv := multi(c.levels(i, false, d.name))
			pre := "chans." + d.name + ".0."
			addr, told := o.args[pre+"address"]
			if !told {
				f("outbound-not-told:target="+formKind(d.form)+",declared="+lv, "t%d is not told where to connect its outbound channel %s (target %q)", i, d.name, d.target)
				continue
			}
			if o.args[pre+"method"] != "connect" {
				f("outbound-method:"+o.args[pre+"method"], "t%d outbound %s has method %q", i, d.name, o.args[pre+"method"])
			}
			if explicit(d.target) {
				if addr != d.target {
					f("explicit-target-changed:"+d.target[:3], "t%d outbound %s has the explicit target %q but is told %q", i, d.name, d.target, addr)
				}
				continue
			}
			in, _ := resolve(d)
			bo := j.obs[in.task]
			bound, ok := bo.args["chans."+in.d.name+".0.address"]
			if !ok {
				continue // reported on the inbound side
			}
			hosts := "diff"
			if in.task == i {
				hosts = "self"
			} else if bo.host == o.host {
				hosts = "same"
			}
			w := fmt.Sprintf("target=%s,addressing=%s,hosts=%s", formKind(d.form), declaredAddressing(in.d), hosts)
			if in.d.target != "" {
				// The inbound side has a static bind address; the statement defines "bound at"
				// through the allocated endpoint only, so the outbound address is not judged here.
				vrt.Logf("note: t%d.%s names statically bound t%d.%s (told %s), is told %s", i, d.name, in.task, in.d.name, bound, addr)
			} else {
				want := bound
				if p, isTcp := tcpPort(bound); isTcp {
					want = fmt.Sprintf("tcp://%s:%d", bo.host, p)
				}
				if addr != want {
					f("outbound-address:"+w, "t%d outbound %s targets %q = inbound %s of t%d, which runs on %s and was told to bind %s: expected %s, is told %s", i, d.name, d.target, in.d.name, in.task, bo.host, bound, want, addr)
				}
			}
			if got, want := o.args[pre+"transport"], declaredTransport(in.d); got != want {
				told := "neither"
				if got == declaredTransport(d) {
					told = "the-outbound's-own"
				}
				f("outbound-transport:told="+told, "t%d outbound %s is matched to inbound %s of t%d with transport %q, but is told transport %q", i, d.name, in.d.name, in.task, want, got)
			}
		}
	}
	// nothing undeclared
	for i, o := range j.obs {
		declared := map[string]bool{}
		for _, d := range append(c.effective(i, true), c.effective(i, false)...) {
			declared[d.name] = true
		}
		var ks []string
		for k := range o.args {
			ks = append(ks, k)
		}
		sort.Strings(ks)
		for _, k := range ks {
			if strings.HasPrefix(k, "chans.") {
				if n := strings.Split(k, "."); len(n) > 1 && !declared[n[1]] {
					f("undeclared-channel-told", "t%d is told %s=%s but declares no channel %s", i, k, o.args[k], n[1])
					break
				}
			}
		}
	}
	if bad > 0 {
		return "configured-WRONG"
	}
	return "configured-ok"
}

func keys(m map[uint64]bool) []uint64 {
	var out []uint64
	for k := range m {
		out = append(out, k)
	}
	sort.Slice(out, func(a, b int) bool { return out[a] < out[b] })
	return out
}

// told renders what every task was told, with allocated IPC paths (random) replaced by stable tokens.
func (j *judge) told() string {
	ipc := map[string]string{}
	var parts []string
	for i, o := range j.obs {
		var ch []string
		for _, bind := range []bool{true, false} {
			for _, d := range j.c.effective(i, bind) {
				pre := "chans." + d.name + ".0."
				a, ok := o.args[pre+"address"]
				if !ok {
					ch = append(ch, d.name+"=<none>")
					continue
				}
				if strings.HasPrefix(a, "ipc://@o2ipc-") {
					if _, seen := ipc[a]; !seen {
						ipc[a] = fmt.Sprintf("ipc://<allocated#%d>", len(ipc)+1)
					}
					a = ipc[a]
				}
				ch = append(ch, fmt.Sprintf("%s=%s %s %s", d.name, o.args[pre+"method"], a, o.args[pre+"transport"]))
			}
		}
		parts = append(parts, fmt.Sprintf("t%d@%s{%s}", i, o.host, strings.Join(ch, "; ")))
	}
	return strings.Join(parts, " ")
}

func (j *judge) dump() string {
	var b strings.Builder
	fmt.Fprintf(&b, "configuration %s/%d: %s\n", j.c.fam, j.c.idx, j.c.label)
	for _, d := range j.c.decls {
		kind := "connect"
		if d.bind {
			kind = "bind"
		}
		own := fmt.Sprintf("t%d", d.owner)
		if d.level == "root" {
			own = "-"
		}
		fmt.Fprintf(&b, "  %s at %s(%s): name=%s addressing=%s transport=%s global=%s target=%s\n", kind, d.level, own, d.name, orDash(d.addressing), orDash(d.transport), orDash(d.global), orDash(d.target))
	}
	for i, o := range j.obs {
		fmt.Fprintf(&b, "  t%d path=%s wanted-host=%s ran-on=%s ports(ACCEPT)=%v control=%d\n", i, j.c.path(i), j.c.tasks[i].host, o.host, keys(o.ports), o.control)
	}
	fmt.Fprintf(&b, "  told: %s", j.told())
	return b.String()
}

// ---------------------------------------------------------------- scenario

func agents() []*coresim.Agent {
	return []*coresim.Agent{
		{ID: "agentA", Host: "hostA", Attributes: map[string]string{"machine_id": "hostA"}, Cpus: 8, Mem: 8192, PortLo: 9000, PortHi: 40000},
		{ID: "agentB", Host: "hostB", Attributes: map[string]string{"machine_id": "hostB"}, Cpus: 8, Mem: 8192, PortLo: 9000, PortHi: 40000},
	}
}

// agentsFQDN: the same two machines, but Mesos knows them by their fully qualified host names while the
// workflows keep selecting them through the machine_id attribute (hostA / hostB): "the host of the task that
// binds it" is the name the agent is reachable by, not the value of the attribute the role was placed with.
func agentsFQDN() []*coresim.Agent {
	a := agents()
	for _, ag := range a {
		ag.Host = "node-" + strings.ToLower(strings.TrimPrefix(ag.Host, "host")) + ".example.org"
	}
	return a
}

// scenario explores every configuration of cfgs once. mode: "create" = NewEnvironment (DEPLOY +
// CONFIGURE); "reconfigure" = additionally RESET and CONFIGURE again and judge what the second
// CONFIGURE tells; "twoenv" = the same workflow is created twice, each environment is judged on its own.
func scenario(name, doc, mode string, cfgs []*config, seconds int) *vrt.Scenario {
	return scenarioDev(name, doc, mode, cfgs, seconds, 0)
}

func scenarioDev(name, doc, mode string, cfgs []*config, seconds, dev int) *vrt.Scenario {
	return scenarioOn(name, doc, mode, cfgs, seconds, dev, agents)
}

func scenarioOn(name, doc, mode string, cfgs []*config, seconds, dev int, agents func() []*coresim.Agent) *vrt.Scenario {
	reached := false
	b := vrt.Bounds{Dev: dev, Seconds: seconds}
	return &vrt.Scenario{Name: name, Prop: "C13", Doc: fmt.Sprintf("%s (%d configurations)", doc, len(cfgs)),
		Setup: coresim.ResetStore,
		Cfg:   vrt.Config{Preempt: coresim.InterComponent, FreeSwitchCost: true, Horizon: 30 * time.Minute},
		Quick: b, Thorough: b,
		DeadlockClause: "configuration-request-hangs", PanicClause: "panic",
		NonTrivial: func(x *vrt.Exec) bool { return reached },
		Body: func() {
			reached = false
			c := cfgs[vrt.ChooseFree(len(cfgs), "configuration")]
			specs := c.specs()
			for _, sp := range specs {
				coresim.WriteWorkflow(sp)
			}
			defer func() {
				for _, sp := range specs {
					coresim.RemoveWorkflow(sp)
				}
			}()
			m := coresim.NewMaster(agents()...)
			w := coresim.NewWorld(m)
			used := map[string]string{}
			judged := 0
			create := func(phase string) (string, bool) {
				evFrom := len(w.EnvEvents)
				id, st, err := w.Create(c.wf(), nil)
				vrt.Quiesce("after-create")
				if !(err == nil && st == "CONFIGURED") {
					// The property speaks about configuring an environment. If the creation already failed in
					// DEPLOY (a deployment problem, nothing to do with channels) there is nothing to judge.
					began := false
					for _, e := range w.EnvEvents[evFrom:] {
						if e.Transition == "CONFIGURE" {
							began = true
						}
					}
					if !began {
						vrt.Logf("%s%s/%d %s -> not judged: creation failed before CONFIGURE began (%v)", phase, c.fam, c.idx, c.label, err)
						return id, false
					}
				}
				judged++
				j := &judge{c: c, obs: observe(c, m, id), fail: vrt.Fail, usedPort: used, phase: phase}
				if id == "" {
					j.obs = make([]tobs, len(c.tasks))
				}
				errText := ""
				if err != nil {
					errText = err.Error()
				}
				ok := err == nil && st == "CONFIGURED"
				verdict := j.run(ok, errText)
				vrt.Logf("%s%s/%d %s -> %s state=%s err=%v | %s", phase, c.fam, c.idx, c.label, verdict, st, err != nil, j.told())
				if os.Getenv("C13_EVENTS") != "" {
					for _, e := range w.EnvEvents {
						vrt.Logf("  event %+v", e)
					}
				}
				return id, ok
			}
			switch mode {
			case "create":
				create("")
			case "twoenv":
				create("env1:")
				create("env2:")
			case "reconfigure":
				id, ok := create("")
				if ok {
					for _, t := range m.Tasks {
						t.Args = nil // only what the second CONFIGURE tells is judged below
					}
					st, err := w.Control(id, pb.ControlEnvironmentRequest_RESET)
					if err != nil || st != "DEPLOYED" {
						vrt.Fail("setup-step-failed:RESET", "state=%s err=%v", st, err)
						break
					}
					st, err = w.Control(id, pb.ControlEnvironmentRequest_CONFIGURE)
					vrt.Quiesce("after-reconfigure")
					j := &judge{c: c, obs: observe(c, m, id), fail: vrt.Fail, phase: "again:"}
					errText := ""
					if err != nil {
						errText = err.Error()
					}
					verdict := j.run(err == nil && st == "CONFIGURED", errText)
					vrt.Logf("again:%s/%d -> %s state=%s err=%v | %s", c.fam, c.idx, verdict, st, err != nil, j.told())
				}
			}
			reached = judged > 0
		}}
}

// redeclared: the task template of a running environment's binder is changed in the repository (its class-level
// `bind` now names another transport) and the core re-reads it - it refreshes the classes a deployment needs, here
// for a second environment of the same workflow. When the first environment is then RESET and CONFIGUREd again,
// whatever the core settles on, both ends of the channel must be told one endpoint: the address the inbound task
// is told to bind, with one transport (the second environment, deployed from the new template, likewise).
func redeclaredScenario(name string, seconds int) *vrt.Scenario {
	type variant struct{ pl, addressing, x, y, form string }
	var vs []variant
	for _, pl := range []string{"AA", "AB"} {
		for _, ad := range []string{"", "ipc"} {
			for _, xy := range [][2]string{{"zeromq", "shmem"}, {"shmem", "zeromq"}, {"", "shmem"}, {"shmem", ""}, {"shmem", "shmem"}} {
				for _, form := range []string{"path", "alias"} {
					vs = append(vs, variant{pl, ad, xy[0], xy[1], form})
				}
			}
		}
	}
	reached := false
	return &vrt.Scenario{Name: name, Prop: "C13", Doc: fmt.Sprintf("the class-level bind of a deployed binder is redeclared with another transport and re-read by the core (second environment of the same workflow); RESET + CONFIGURE of the first environment: both ends are told one endpoint (%d variants)", len(vs)),
		Setup: coresim.ResetStore,
		Cfg:   vrt.Config{Preempt: coresim.InterComponent, FreeSwitchCost: true, Horizon: 30 * time.Minute},
		Quick: vrt.Bounds{Dev: 0, Seconds: seconds}, Thorough: vrt.Bounds{Dev: 0, Seconds: seconds},
		DeadlockClause: "configuration-request-hangs", PanicClause: "panic",
		NonTrivial: func(x *vrt.Exec) bool { return reached },
		Body: func() {
			reached = false
			k := vrt.ChooseFree(len(vs), "variant")
			v := vs[k]
			mk := func(tr string) *config {
				c := &config{fam: "rd", idx: k, tasks: tasksFor(v.pl, "df")}
				c.decls = []decl{{bind: true, level: "class", owner: 0, name: "data", addressing: v.addressing, transport: tr, global: "g1"}}
				c.decls = append(c.decls, connectTo(c, "in", "role", 1, v.form, 0, "data", "g1", ""))
				return c
			}
			c1, c2 := mk(v.x), mk(v.y)
			coresim.WriteWorkflow(c1.spec())
			defer coresim.RemoveWorkflow(c2.spec())
			m := coresim.NewMaster(agents()...)
			w := coresim.NewWorld(m)
			id1, st, err := w.Create(c1.wf(), nil)
			vrt.Quiesce("after-create-1")
			if err != nil || st != "CONFIGURED" {
				vrt.Logf("redeclared %d %+v -> not judged: first environment %s (%v)", k, v, st, err)
				return
			}
			coresim.WriteWorkflow(c2.spec()) // same workflow and class names, the binder's template now says v.y
			id2, st, err := w.Create(c2.wf(), nil)
			vrt.Quiesce("after-create-2")
			if err != nil || st != "CONFIGURED" {
				vrt.Logf("redeclared %d %+v -> not judged: second environment %s (%v)", k, v, st, err)
				return
			}
			ends := func(what, id string) {
				obs := observe(c2, m, id)
				in, out := obs[0].args, obs[1].args
				bound, okI := in["chans.data.0.address"]
				addr, okO := out["chans.in.0.address"]
				if !okI || !okO {
					vrt.Fail("redeclared:channel-not-told:"+what, "variant %+v: inbound told=%v outbound told=%v (inbound args %v, outbound args %v)", v, okI, okO, in, out)
					return
				}
				want := bound
				if p, isTcp := tcpPort(bound); isTcp {
					want = fmt.Sprintf("tcp://%s:%d", obs[0].host, p)
					if !obs[0].ports[p] {
						vrt.Fail("redeclared:inbound-port-not-in-accept:"+what, "variant %+v: inbound is told to bind port %d, the task holds %v", v, p, keys(obs[0].ports))
					}
				}
				if addr != want {
					vrt.Fail("redeclared:outbound-address:"+what, "variant %+v: inbound on %s is told to bind %s, outbound is told %s (expected %s)", v, obs[0].host, bound, addr, want)
				}
				ti, to := in["chans.data.0.transport"], out["chans.in.0.transport"]
				if ti != to {
					vrt.Fail("redeclared:ends-told-different-transports:"+what, "variant %+v (template said %q at deployment, says %q now): the inbound task is told transport %q, the outbound task connecting to it %q", v, v.x, v.y, ti, to)
				}
				vrt.Logf("redeclared %d %+v %s -> inbound %s/%s outbound %s/%s", k, v, what, bound, ti, addr, to)
			}
			ends("second-environment", id2)
			for _, t := range m.Tasks {
				t.Args = nil // only what the second CONFIGURE of the first environment tells is judged below
			}
			if st, err := w.Control(id1, pb.ControlEnvironmentRequest_RESET); err != nil || st != "DEPLOYED" {
				vrt.Fail("setup-step-failed:RESET", "state=%s err=%v", st, err)
				return
			}
			st, err = w.Control(id1, pb.ControlEnvironmentRequest_CONFIGURE)
			vrt.Quiesce("after-reconfigure")
			if err != nil || st != "CONFIGURED" {
				vrt.Logf("redeclared %d %+v -> not judged: second CONFIGURE of the first environment %s (%v)", k, v, st, err)
				return
			}
			reached = true
			ends("first-environment-again", id1)
		}}
}

// ---------------------------------------------------------------- families of configurations

type grid struct {
	fam  string
	cfgs []*config
}

func (g *grid) add(label string, tasks []tcfg, shared bool, decls ...decl) {
	g.cfgs = append(g.cfgs, &config{fam: g.fam, idx: len(g.cfgs), label: label, tasks: tasks, decls: decls, sharedGroup: shared})
}

func hostOf(b byte) string { return "host" + string(b) }

func tasksFor(pl string, modes string) []tcfg {
	var t []tcfg
	for i := range pl {
		md := "direct"
		if i < len(modes) && modes[i] == 'f' {
			md = "fairmq"
		}
		t = append(t, tcfg{hostOf(pl[i]), md})
	}
	return t
}

// connectTo builds a connect declaration of task `owner` at `level` with the given target form
// aimed at inbound channel `ch` of task `to` (alias: its global alias g).
func connectTo(c *config, name, level string, owner int, form string, to int, ch, alias, transport string) decl {
	d := decl{level: level, owner: owner, name: name, transport: transport, form: form}
	p := c.path(to)
	switch form {
	case "path":
		d.target = p + ":" + ch
	case "tpath": // the handbook's way of writing a path: relative to an ancestor
		up := map[string]int{"role": 2, "group": 1}[level]
		d.target = fmt.Sprintf("{{ Up(%d).Path }}.%s.t%d:%s", up, c.group(to), to, ch)
		d.names = p + ":" + ch
	case "alias":
		d.target = "::" + alias
	case "tcpx":
		d.target = "tcp://some-other-host:5555"
	case "ipcx":
		d.target = "ipc://@some-pipe"
	case "wrongchan":
		d.target = p + ":nochan"
	case "wrongrole":
		d.target = c.wf() + "." + c.group(to) + ".t9:" + ch
	case "noalias":
		d.target = "::nosuchalias"
	case "notarget": // declared without a target
		d.target = ""
	default:
		panic("unknown target form " + form)
	}
	return d
}

// pair: binder t0, connector t1; every combination of the listed dimension values.
func pairGrid(fam string, placements, bindLevels, addressings, inTr, globals, connLevels, outTr, forms, modes []string) *grid {
	g := &grid{fam: fam}
	for _, pl := range placements {
		for _, md := range modes {
			for _, bl := range bindLevels {
				for _, ad := range addressings {
					for _, it := range inTr {
						for _, gl := range globals {
							for _, cl := range connLevels {
								for _, ot := range outTr {
									for _, tf := range forms {
										if tf == "tpath" && cl == "root" {
											continue
										}
										c := &config{fam: fam, idx: len(g.cfgs), tasks: tasksFor(pl, md)}
										c.label = fmt.Sprintf("hosts=%s modes=%s bind@%s addressing=%s transport=%s global=%s connect@%s transport=%s target=%s", pl, md, bl, orDash(ad), orDash(it), orDash(gl), cl, orDash(ot), tf)
										c.decls = []decl{{bind: true, level: bl, owner: 0, name: "data", addressing: ad, transport: it, global: gl}}
										c.decls = append(c.decls, connectTo(c, "in", cl, 1, tf, 0, "data", "g1", ot))
										g.cfgs = append(g.cfgs, c)
									}
								}
							}
						}
					}
				}
			}
		}
	}
	return g
}

// fan: binders t0 and t1 both bind a channel called "data", connector t2 has one outbound per binder.
func fanGrid(fam string, placements []string, binderLevels [][2]string) *grid {
	g := &grid{fam: fam}
	for _, pl := range placements {
		for _, bl := range binderLevels {
			for _, a0 := range []string{"", "ipc"} {
				for _, a1 := range []string{"tcp", "ipc"} {
					for _, g0 := range []string{"", "g1"} {
						for _, g1 := range []string{"", "g1", "g2"} {
							for _, f0 := range []string{"path", "alias"} {
								for _, f1 := range []string{"path", "alias", "alias-of-t0"} {
									c := &config{fam: fam, idx: len(g.cfgs), tasks: tasksFor(pl, "dff")}
									c.label = fmt.Sprintf("hosts=%s t0:bind@%s addressing=%s global=%s t1:bind@%s addressing=%s global=%s t2:out0->%s(t0) out1->%s(t1)", pl, bl[0], orDash(a0), orDash(g0), bl[1], a1, orDash(g1), f0, f1)
									c.decls = []decl{
										{bind: true, level: bl[0], owner: 0, name: "data", addressing: a0, transport: "shmem", global: g0},
										{bind: true, level: bl[1], owner: 1, name: "data", addressing: a1, transport: "zeromq", global: g1},
										connectTo(c, "out0", "role", 2, f0, 0, "data", "g1", ""),
									}
									if f1 == "alias-of-t0" {
										d := connectTo(c, "out1", "role", 2, "alias", 0, "data", "g1", "shmem")
										c.decls = append(c.decls, d)
									} else {
										c.decls = append(c.decls, connectTo(c, "out1", "role", 2, f1, 1, "data", "g2", "shmem"))
									}
									g.cfgs = append(g.cfgs, c)
								}
							}
						}
					}
				}
			}
		}
	}
	return g
}

// alias: who may claim a global alias.
func aliasGrid(fam string, full bool) *grid {
	g := &grid{fam: fam}
	addrs := [][2]string{{"", ""}, {"ipc", "ipc"}}
	if full {
		addrs = append(addrs, [2]string{"tcp", "ipc"}, [2]string{"ipc", "tcp"})
	}
	for _, ad := range addrs {
		for _, withConn := range []bool{false, true} {
			for _, second := range []string{"g1", "g2"} { // g1: the alias is claimed twice; g2: control, two different aliases
				lab := func(kind, pl string) string {
					return fmt.Sprintf("%s hosts=%s addressing=%s+%s aliases=g1+%s connector=%v", kind, pl, orDash(ad[0]), orDash(ad[1]), second, withConn)
				}
				// (a) one task, two channels
				for _, lv := range []string{"role", "class"} {
					for _, pl := range []string{"AA", "AB"} {
						c := &config{fam: fam, idx: len(g.cfgs), tasks: tasksFor(pl, "df"), label: lab("same-task-two-channels@"+lv, pl)}
						c.decls = []decl{
							{bind: true, level: lv, owner: 0, name: "a", addressing: ad[0], global: "g1"},
							{bind: true, level: lv, owner: 0, name: "b", addressing: ad[1], global: second},
						}
						if withConn {
							c.decls = append(c.decls, connectTo(c, "in", "role", 1, "alias", 0, "a", "g1", ""))
						}
						g.cfgs = append(g.cfgs, c)
					}
				}
				// (b) two tasks, one channel each, third task connects
				for _, pl := range []string{"AAA", "ABA", "ABB", "AAB"} {
					for _, lv := range []string{"role", "class", "group"} {
						c := &config{fam: fam, idx: len(g.cfgs), tasks: tasksFor(pl, "dfd"), label: lab("two-tasks@"+lv, pl)}
						c.decls = []decl{
							{bind: true, level: lv, owner: 0, name: "data", addressing: ad[0], global: "g1"},
							{bind: true, level: lv, owner: 1, name: "data", addressing: ad[1], global: second},
						}
						if withConn {
							c.decls = append(c.decls, connectTo(c, "in", "role", 2, "alias", 0, "data", "g1", ""))
						}
						g.cfgs = append(g.cfgs, c)
					}
				}
			}
			// (c) an ancestor declares the aliased channel: every task below it claims the alias
			for _, pl := range []string{"A", "AA", "AB"} {
				for _, lv := range []string{"root", "group"} {
					c := &config{fam: fam, idx: len(g.cfgs), tasks: tasksFor(pl, "df"), sharedGroup: true,
						label: fmt.Sprintf("ancestor-declares@%s hosts=%s addressing=%s connector=%v", lv, pl, orDash(ad[0]), withConn)}
					c.decls = []decl{{bind: true, level: lv, owner: 0, name: "data", addressing: ad[0], global: "g1"}}
					if withConn {
						c.decls = append(c.decls, connectTo(c, "in", "role", 0, "alias", 0, "data", "g1", ""))
					}
					g.cfgs = append(g.cfgs, c)
				}
			}
		}
	}
	return g
}

// precedence: one channel name declared at two levels with different content.
func precedenceGrid(fam string, placements []string) *grid {
	g := &grid{fam: fam}
	order := []string{"role", "group", "root", "class"}
	variants := [][2]string{{"ipc", "shmem"}, {"tcp", "zeromq"}}
	for _, pl := range placements {
		// inbound declared twice
		for hi := 0; hi < len(order); hi++ {
			for lo := hi + 1; lo < len(order); lo++ {
				for v := 0; v < 2; v++ {
					for _, tf := range []string{"path", "alias"} {
						ga, gb := "ga", "gb"
						if order[hi] == "root" || order[lo] == "root" {
							// a root-level declaration reaches both tasks: no alias on it (see the alias scenario)
							if tf == "alias" {
								continue
							}
							ga, gb = "", ""
						}
						c := &config{fam: fam, idx: len(g.cfgs), tasks: tasksFor(pl, "fd")}
						h, l := variants[v], variants[1-v]
						c.label = fmt.Sprintf("hosts=%s inbound data declared at %s(%s/%s/%s) and %s(%s/%s/%s), connector target=%s", pl, order[hi], h[0], h[1], orDash(ga), order[lo], l[0], l[1], orDash(gb), tf)
						c.decls = []decl{
							{bind: true, level: order[hi], owner: 0, name: "data", addressing: h[0], transport: h[1], global: ga},
							{bind: true, level: order[lo], owner: 0, name: "data", addressing: l[0], transport: l[1], global: gb},
							connectTo(c, "in", "role", 1, tf, 0, "data", "ga", ""),
						}
						g.cfgs = append(g.cfgs, c)
					}
				}
			}
		}
		// outbound declared twice (role tree only: a task template cannot know paths)
		ro := []string{"role", "group", "root"}
		for hi := 0; hi < len(ro); hi++ {
			for lo := hi + 1; lo < len(ro); lo++ {
				for _, pair := range [][2]string{{"path", "tcpx"}, {"tcpx", "path"}, {"path", "noalias"}, {"alias", "path2"}} {
					c := &config{fam: fam, idx: len(g.cfgs), tasks: tasksFor(pl, "dd")}
					c.label = fmt.Sprintf("hosts=%s outbound in declared at %s(target=%s) and %s(target=%s)", pl, ro[hi], pair[0], ro[lo], pair[1])
					c.decls = []decl{
						{bind: true, level: "class", owner: 0, name: "data", addressing: "tcp", transport: "zeromq", global: "g1"},
						{bind: true, level: "class", owner: 0, name: "data2", addressing: "ipc", transport: "shmem"},
					}
					mk := func(level, form string) decl {
						if form == "path2" {
							d := connectTo(c, "in", level, 1, "path", 0, "data2", "", "")
							return d
						}
						return connectTo(c, "in", level, 1, form, 0, "data", "g1", "")
					}
					c.decls = append(c.decls, mk(ro[hi], pair[0]), mk(ro[lo], pair[1]))
					g.cfgs = append(g.cfgs, c)
				}
			}
		}
	}
	for _, pl := range placements {
		for _, lv := range []string{"role", "group"} {
			for _, tf := range []string{"path", "alias", "tcpx", "wrongchan"} {
				// the template declares the outbound channel's properties, the role tree supplies the target
				c := &config{fam: fam, idx: len(g.cfgs), tasks: tasksFor(pl, "df")}
				c.label = fmt.Sprintf("hosts=%s outbound in declared at class(no target, shmem) and %s(target=%s)", pl, lv, tf)
				c.decls = []decl{
					{bind: true, level: "role", owner: 0, name: "data", addressing: "tcp", transport: "zeromq", global: "g1"},
					{level: "class", owner: 1, name: "in", transport: "shmem", form: "notarget"},
					connectTo(c, "in", lv, 1, tf, 0, "data", "g1", ""),
				}
				g.cfgs = append(g.cfgs, c)
			}
		}
		for _, tf := range []string{"path", "alias", "tcpx", "notarget"} {
			c := &config{fam: fam, idx: len(g.cfgs), tasks: tasksFor(pl, "df")}
			c.label = fmt.Sprintf("hosts=%s outbound in declared in the task template only (target=%s)", pl, tf)
			c.decls = []decl{
				{bind: true, level: "role", owner: 0, name: "data", addressing: "tcp", transport: "zeromq", global: "g1"},
				connectTo(c, "in", "class", 1, tf, 0, "data", "g1", ""),
			}
			g.cfgs = append(g.cfgs, c)
		}
	}
	return g
}

// multi: several inbound channels per task, two binders on one host, a connector to all of them.
func multiGrid(fam string, ks []int, placements []string) *grid {
	g := &grid{fam: fam}
	for _, pl := range placements {
		for _, k := range ks {
			for pat := 0; pat < 1<<k; pat++ {
				for _, k1 := range []int{1, 2} {
					c := &config{fam: fam, idx: len(g.cfgs), tasks: tasksFor(pl, "dfd")}
					var ads []string
					for n := 0; n < k; n++ {
						ad := ""
						if pat>>n&1 == 1 {
							ad = "ipc"
						}
						ads = append(ads, orDash(ad))
						lv := []string{"class", "role", "group"}[n%3]
						c.decls = append(c.decls, decl{bind: true, level: lv, owner: 0, name: fmt.Sprintf("c%d", n), addressing: ad, transport: []string{"", "shmem", "zeromq"}[n%3]})
						c.decls = append(c.decls, connectTo(c, fmt.Sprintf("o%d", n), "role", 2, "path", 0, fmt.Sprintf("c%d", n), "", ""))
					}
					for n := 0; n < k1; n++ {
						c.decls = append(c.decls, decl{bind: true, level: []string{"role", "class"}[n%2], owner: 1, name: fmt.Sprintf("c%d", n), addressing: "tcp", global: fmt.Sprintf("q%d", n)})
						c.decls = append(c.decls, connectTo(c, fmt.Sprintf("p%d", n), "group", 2, "alias", 1, fmt.Sprintf("c%d", n), fmt.Sprintf("q%d", n), ""))
					}
					c.label = fmt.Sprintf("hosts=%s t0 binds %v, t1 binds %d tcp channels, t2 connects to all", pl, ads, k1)
					g.cfgs = append(g.cfgs, c)
				}
			}
		}
	}
	return g
}

// static: inbound channels with an explicit (static) bind address.
func staticGrid(fam string) *grid {
	g := &grid{fam: fam}
	for _, pl := range []string{"AA", "AB"} {
		for _, lv := range []string{"role", "class", "group"} {
			for _, tg := range []string{"tcp://*:5555", "ipc://@static-pipe"} {
				for _, tr := range []string{"", "shmem"} {
					for _, tf := range []string{"none", "path", "tcpx"} {
						c := &config{fam: fam, idx: len(g.cfgs), tasks: tasksFor(pl, "df")}
						c.label = fmt.Sprintf("hosts=%s inbound at %s with static address %s transport=%s, connector target=%s", pl, lv, tg, orDash(tr), tf)
						c.decls = []decl{{bind: true, level: lv, owner: 0, name: "data", transport: tr, target: tg}}
						if tf != "none" {
							c.decls = append(c.decls, connectTo(c, "in", "role", 1, tf, 0, "data", "", ""))
						}
						g.cfgs = append(g.cfgs, c)
					}
				}
			}
		}
	}
	return g
}

// iter: the handbook's shape - an iterator over the hosts, below it a binder role "b" and a
// connector role "c"; aliases and targets are written with templates. The model works on the
// expansion: t0 = flp-hostA.b, t1 = flp-hostA.c, t2 = flp-hostB.b, t3 = flp-hostB.c.
func iterGrid(fam string, bindLevels, addrs []string) *grid {
	g := &grid{fam: fam}
	hosts := []string{"hostA", "hostB"}
	for _, bl := range bindLevels {
		for _, ad := range addrs {
			for _, gl := range []string{"", "g-{{ it }}", "gfix"} {
				if bl == "class" && strings.Contains(gl, "{{") {
					continue // a task template is not instantiated per iteration
				}
				for _, tf := range []string{"sibling", "alias-it", "cross-path", "cross-alias", "alias-fix"} {
					c := &config{fam: fam, idx: len(g.cfgs)}
					wf := c.wf()
					clsB, clsC := wf+"kb", wf+"kc"
					tmplTarget := map[string]string{"sibling": "{{ Up(1).Path }}.b:data", "alias-it": "::g-{{ it }}", "cross-path": wf + ".flp-hostA.b:data", "cross-alias": "::g-hostB", "alias-fix": "::gfix"}[tf]
					bindDecl := decl{bind: true, name: "data", addressing: ad, transport: "shmem", global: gl}
					connDecl := decl{name: "in", target: tmplTarget}
					var b strings.Builder
					fmt.Fprintf(&b, "  - name: \"flp-{{ it }}\"\n    for:\n      range: \"{{ hosts }}\"\n      var: it\n    constraints:\n      - attribute: machine_id\n        value: \"{{ it }}\"\n")
					if bl == "group" {
						b.WriteString(block([]decl{bindDecl}, "    "))
					}
					b.WriteString("    roles:\n      - name: \"b\"\n")
					if bl == "role" {
						b.WriteString(block([]decl{bindDecl}, "        "))
					}
					fmt.Fprintf(&b, "        task:\n          load: %s\n          critical: true\n", clsB)
					b.WriteString("      - name: \"c\"\n")
					b.WriteString(block([]decl{connDecl}, "        "))
					fmt.Fprintf(&b, "        task:\n          load: %s\n          critical: true\n", clsC)
					classExtra := ""
					if bl == "class" {
						classExtra = block([]decl{bindDecl}, "")
					}
					c.raw = []coresim.WorkflowSpec{
						{Name: wf + "-classes", Hosts: hosts, Tasks: []coresim.TaskSpec{{Name: "b", Class: clsB, Mode: "direct", Critical: true, ClassExtra: classExtra}, {Name: "c", Class: clsC, Mode: "fairmq", Critical: true}}},
						{Name: wf, Hosts: hosts, Calls: []string{b.String()}},
					}
					for _, h := range hosts {
						c.tasks = append(c.tasks, tcfg{h, "direct"}, tcfg{h, "fairmq"})
						c.groups = append(c.groups, "flp-"+h, "flp-"+h)
						c.roles = append(c.roles, "b", "c")
						c.classes = append(c.classes, clsB, clsC)
					}
					for k, h := range hosts {
						bd := bindDecl
						bd.level, bd.owner, bd.global = bl, 2*k, strings.ReplaceAll(gl, "{{ it }}", h)
						cd := connDecl
						cd.level, cd.owner, cd.form = "role", 2*k+1, tf
						cd.names = strings.ReplaceAll(strings.ReplaceAll(tmplTarget, "{{ it }}", h), "{{ Up(1).Path }}", wf+".flp-"+h)
						c.decls = append(c.decls, bd, cd)
					}
					c.label = fmt.Sprintf("iterator over hostA,hostB: bind@%s addressing=%s global=%s, connector target=%s (%s)", bl, orDash(ad), orDash(gl), tf, tmplTarget)
					g.cfgs = append(g.cfgs, c)
				}
			}
		}
	}
	return g
}

func main() {
	coresim.GlobalSetup()
	defer os.RemoveAll(coresim.Dir()) // every (worker) process has its own fixture directory
	S := func(s string) []string { return strings.Split(s, " ") }
	omitted := ""
	pairQ := pairGrid("p", S("AA AB"), S("role class group root"), []string{omitted, "ipc"}, []string{omitted, "shmem"}, []string{omitted, "g1"},
		S("role group root"), []string{omitted, "zeromq"}, S("path tpath alias tcpx ipcx wrongchan wrongrole noalias notarget"), S("df"))
	pairT := pairGrid("P", S("AA AB BA"), S("role class group root"), []string{omitted, "tcp", "ipc"}, []string{omitted, "default", "zeromq", "shmem"}, []string{omitted, "g1"},
		S("role group root"), []string{omitted, "zeromq", "shmem"}, S("path tpath alias tcpx ipcx wrongchan wrongrole noalias notarget"), S("df fd"))
	small := func(fam string) []*config {
		return pairGrid(fam, S("AA AB"), S("role class"), []string{omitted, "ipc"}, []string{"shmem"}, []string{"g1"}, S("role root"), []string{omitted}, S("path alias ipcx wrongchan"), S("df")).cfgs
	}
	fanQ := fanGrid("f", S("AAB ABA"), [][2]string{{"role", "class"}})
	fanT := fanGrid("F", S("AAA AAB ABA ABB BAA"), [][2]string{{"role", "class"}, {"class", "group"}, {"root", "root"}})
	vrt.Main([]*vrt.Scenario{
		// quick tier
		scenario("pair", "binder + connector: placement x bind level x addressing x transport x alias x connect level x transport x target form", "create", pairQ.cfgs, 150),
		scenario("fan", "two binders of a same-named channel + one connector with two outbound channels: placement x addressing x aliases x target forms", "create", fanQ.cfgs, 150),
		scenario("alias", "who may claim a global alias: one task twice, two tasks, an ancestor above several tasks; controls with distinct aliases", "create", aliasGrid("a", false).cfgs, 100),
		scenario("precedence", "one channel name declared at two levels of the tree with different content", "create", precedenceGrid("r", S("AB")).cfgs, 100),
		scenario("multi", "2 inbound channels on one task (tcp/ipc mixes), a second binder on the same host, a connector to all", "create", multiGrid("m", []int{2}, S("AAB AAA")).cfgs, 100),
		scenario("iter", "iterator over two hosts with templated aliases and targets (handbook shape), 4 tasks", "create", iterGrid("i", S("role group"), []string{omitted, "ipc"}).cfgs, 100),
		scenario("static", "inbound channels with a static tcp:// or ipc:// bind address", "create", staticGrid("s").cfgs, 100),
		scenario("reconfigure", "RESET + second CONFIGURE tells the same as the first", "reconfigure", small("c"), 100),
		scenario("twoenv", "the same workflow deployed twice: each environment connects to its own endpoints", "twoenv", small("e"), 100),
		scenarioDev("sched", "every schedule with one deviation for 12 configurations: what is told does not depend on the schedule", "create",
			pairGrid("x", S("AB"), S("role class"), []string{omitted, "ipc"}, []string{"shmem"}, []string{"g1"}, S("role"), []string{omitted}, S("path alias wrongchan"), S("df")).cfgs, 150, 1),
		scenarioOn("fqdn", "agents known to Mesos by a host name that differs from the machine_id the roles select them with: the outbound address carries the agent's host name", "create",
			append(pairGrid("q", S("AA AB"), S("role class"), []string{omitted, "ipc"}, []string{"shmem"}, []string{omitted, "g1"}, S("role root"), []string{omitted}, S("path tpath alias tcpx wrongchan"), S("df")).cfgs,
				iterGrid("j", S("role"), []string{omitted}).cfgs...), 100, 0, agentsFQDN),
		redeclaredScenario("redeclared", 100),
		// thorough tier
		scenario("pair-full", "binder + connector, full grid", "create", pairT.cfgs, 900),
		scenario("fan-full", "two binders + connector, full grid", "create", fanT.cfgs, 600),
		scenario("alias-full", "global alias claims, full grid", "create", aliasGrid("A", true).cfgs, 300),
		scenario("precedence-full", "two-level declarations, three placements", "create", precedenceGrid("R", S("AA AB BA")).cfgs, 300),
		scenario("multi-full", "2-3 inbound channels per task", "create", multiGrid("M", []int{2, 3}, S("AAA AAB ABA ABB")).cfgs, 300),
		scenario("iter-full", "iterator shape, all bind levels", "create", iterGrid("I", S("role group class"), []string{omitted, "tcp", "ipc"}).cfgs, 300),
		scenario("reconfigure-full", "RESET + second CONFIGURE over the quick pair grid", "reconfigure", pairGrid("C", S("AA AB"), S("role class group"), []string{omitted, "ipc"}, []string{omitted, "shmem"}, []string{omitted, "g1"},
			S("role group"), []string{omitted, "zeromq"}, S("path alias tcpx ipcx wrongchan noalias"), S("df")).cfgs, 300),
		scenarioDev("sched-full", "every schedule with one deviation (preemption / non-default select arm or timer order) for a small grid: what is told does not depend on the schedule", "create", small("S"), 600, 1),
		scenario("twoenv-full", "two environments over the quick pair grid", "twoenv", pairGrid("E", S("AA AB"), S("role class group"), []string{omitted, "ipc"}, []string{omitted, "shmem"}, []string{omitted, "g1"},
			S("role group"), []string{omitted, "zeromq"}, S("path alias tcpx ipcx wrongchan noalias"), S("df")).cfgs, 300),
	})
}

// C10 on the whole-core simulator: however a run ends (stop, failing stop, critical task dies,
// teardown while running), its end is stamped exactly once - observed on the published run events.
package main

import (
	"fmt"
	"strings"
	"time"

	pb "github.com/AliceO2Group/Control/core/protos"
	"github.com/AliceO2Group/Control/verif_h/coresim"
	vrt "github.com/AliceO2Group/Control/verif_vrt"
	mesos "github.com/mesos/mesos-go/api/v1/lib"
)

var cfg = vrt.Config{Preempt: coresim.InterComponent, NoLockPoints: true, FreeSwitchCost: true, Horizon: 30 * time.Minute}

// how the run ends
var endings = []string{"stop", "stop-fails", "task-dies", "destroy-force", "destroy-allow-running", "stop-then-start-stop", "stop-fails-then-destroy", "task-dies-then-destroy", "start-fails", "start-fails-then-destroy"}

func scenario() *vrt.Scenario {
	var w *coresim.World
	var ending string
	var ok bool
	var finalState string
	return &vrt.Scenario{Name: "run-endings", Prop: "C10", Cfg: cfg, Setup: coresim.ResetStore,
		Quick: vrt.Bounds{Dev: 1, Seconds: 100}, Thorough: vrt.Bounds{Dev: 2, Seconds: 600},
		DeadlockClause: "request-hangs", PanicClause: "panic", NonTrivial: func(*vrt.Exec) bool { return ok },
		Body: func() {
			ok = false
			ending = endings[vrt.ChooseFree(len(endings), "ending")]
			failStop := false
			m := coresim.NewMaster(&coresim.Agent{ID: "agentA", Host: "hostA", Attributes: map[string]string{"machine_id": "hostA"}, Cpus: 16, Mem: 16384, PortLo: 9000, PortHi: 40000})
			m.Behaviour = func(t *coresim.SimTask, kind string) coresim.Outcome {
				if kind == "STOP" && failStop {
					return coresim.ErrError
				}
				if kind == "START" && strings.HasPrefix(ending, "start-fails") {
					return coresim.ErrError // the run exists already (number, start stamp, before_START hooks): the API's GO_ERROR has to close it
				}
				return coresim.OK
			}
			w = coresim.NewWorld(m)
			id, _, err := w.Create("c10t", nil)
			if err != nil {
				return
			}
			if _, err = w.Control(id, pb.ControlEnvironmentRequest_START_ACTIVITY); err != nil && !strings.HasPrefix(ending, "start-fails") {
				return
			}
			settle := func() {
				vrt.Quiesce("s1")
				vrt.Sleep(3 * time.Second)
				vrt.Quiesce("s2")
			}
			switch ending {
			case "stop":
				w.Control(id, pb.ControlEnvironmentRequest_STOP_ACTIVITY)
			case "stop-fails", "stop-fails-then-destroy":
				failStop = true
				w.Control(id, pb.ControlEnvironmentRequest_STOP_ACTIVITY)
				failStop = false
			case "task-dies", "task-dies-then-destroy":
				m.FailTask(m.AliveTasks()[0], mesos.TASK_FAILED)
				settle()
			case "destroy-force":
				w.Destroy(id, true, false, false)
			case "destroy-allow-running":
				w.Destroy(id, false, true, false)
			case "stop-then-start-stop":
				w.Control(id, pb.ControlEnvironmentRequest_STOP_ACTIVITY)
				w.Control(id, pb.ControlEnvironmentRequest_START_ACTIVITY)
				w.Control(id, pb.ControlEnvironmentRequest_STOP_ACTIVITY)
			}
			settle()
			if strings.HasSuffix(ending, "-then-destroy") || ending == "stop" || ending == "stop-then-start-stop" {
				w.Destroy(id, true, false, false)
				settle()
			}
			finalState, _ = w.EnvState(id)
			ok = true
			var evs []string
			for _, e := range w.RunEvents {
				evs = append(evs, fmt.Sprintf("%d:%s/%s", e.RunNumber, e.Transition, e.TransitionStatus))
			}
			vrt.Logf("%s -> %v", ending, evs)
		},
		Check: func(x *vrt.Exec) (out []vrt.Violation) {
			if !ok || x.Deadlock != "" {
				return nil
			}
			type acc struct {
				start, startDone, end, endDone int
				ts                             []time.Time
			}
			runs := map[uint32]*acc{}
			var order []uint32
			var evs []string
			teardownSeen := map[uint32]int{}
			for i, e := range w.RunEvents {
				evs = append(evs, fmt.Sprintf("%d:%s/%s", e.RunNumber, e.Transition, e.TransitionStatus))
				rn := e.RunNumber
				if rn == 0 && len(order) > 0 && strings.HasPrefix(ending, "start-fails") {
					// a START whose task transition fails gives the current run number back at once
					// (transition_startactivity.go), so the GO_ERROR that closes that run publishes its events
					// with run number 0: they are about the run opened last. (Whether events should carry the
					// number is not part of the statement; the stamps are.)
					rn = order[len(order)-1]
				}
				a := runs[rn]
				if a == nil {
					a = &acc{}
					runs[rn] = a
					order = append(order, rn)
				}
				a.ts = append(a.ts, w.RunEventTS[i])
				st := e.TransitionStatus.String()
				switch {
				case e.Transition == "START_ACTIVITY" && st == "STARTED":
					a.start++
				case e.Transition == "START_ACTIVITY":
					a.startDone++
				case (e.Transition == "STOP_ACTIVITY" || e.Transition == "GO_ERROR") && st == "STARTED":
					a.end++
				case e.Transition == "STOP_ACTIVITY" || e.Transition == "GO_ERROR":
					a.endDone++
				case e.Transition == "TEARDOWN":
					teardownSeen[e.RunNumber]++
					if teardownSeen[e.RunNumber] == 1 {
						a.end++
					} else {
						a.endDone++
					}
				}
			}
			ctx := fmt.Sprintf("ending=%s events=%v", ending, evs)
			for _, n := range order {
				a := runs[n]
				if n == 0 {
					out = append(out, vrt.Violation{Clause: "run-event-without-run-number:" + ending, Detail: ctx})
					continue
				}
				if a.start != 1 {
					out = append(out, vrt.Violation{Clause: fmt.Sprintf("start-stamped-%d-times:%s", a.start, ending), Detail: ctx})
				}
				stillRunning := finalState == "RUNNING" && n == order[len(order)-1]
				if stillRunning {
					continue // the run has not ended (whether it should have is C03's question)
				}
				if a.end != 1 {
					out = append(out, vrt.Violation{Clause: fmt.Sprintf("end-of-run-stamped-%d-times:%s", a.end, ending), Detail: fmt.Sprintf("run %d; %s", n, ctx)})
				}
				if a.endDone != 1 {
					out = append(out, vrt.Violation{Clause: fmt.Sprintf("end-completion-stamped-%d-times:%s", a.endDone, ending), Detail: fmt.Sprintf("run %d; %s", n, ctx)})
				}
				for i := 1; i < len(a.ts); i++ {
					if a.ts[i].Before(a.ts[i-1]) {
						out = append(out, vrt.Violation{Clause: "run-stamps-out-of-order:" + ending, Detail: ctx})
						break
					}
				}
			}
			for i := 1; i < len(order); i++ {
				if order[i] <= order[i-1] && order[i] != 0 {
					out = append(out, vrt.Violation{Clause: "run-numbers-not-increasing", Detail: ctx})
				}
			}
			return
		}}
}

func main() {
	coresim.GlobalSetup(coresim.WorkflowSpec{Name: "c10t", Hosts: []string{"hostA"}, Tasks: []coresim.TaskSpec{
		{Name: "t1", Class: "c10tt1", Mode: "direct", Critical: true, Host: "hostA"},
		{Name: "t2", Class: "c10tt2", Mode: "direct", Critical: false, Host: "hostA"}}})
	vrt.NowStepNS = int64(time.Millisecond)
	vrt.Main([]*vrt.Scenario{scenario()})
}

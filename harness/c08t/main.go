// C08 on the whole-core simulator: "each started call is collected exactly once, or cancelled at
// teardown if its await point is never reached" - judged on the core's OWN teardown
// (RpcServer.DestroyEnvironment -> Manager.TeardownEnvironment, and the teardown that follows a
// failed creation), not on a clean-up the harness performs (harness c08 calls the manager's
// cancellation function itself).
//
// A workflow with one task and three calls: one whose await point belongs to no transition at all,
// one started in CONFIGURE and awaited at before_RESET, one started when the run starts and awaited
// at after_STOP_ACTIVITY. The environment is destroyed at every point of its life {right after
// creation, after RESET, RUNNING (forced / allowInRunning), after a STOP, in ERROR after a failed
// START, creation itself fails at CONFIGURE}. Oracle: when the destroy request has returned and the
// environment is gone, no goroutine of callable.Call is left blocked (a call that was started is
// either collected or cancelled), and no call ran more often than its trigger was reached.
package main

import (
	"fmt"
	"sort"
	"strings"
	"time"

	pb "github.com/AliceO2Group/Control/core/protos"
	"github.com/AliceO2Group/Control/verif_h/coresim"
	vrt "github.com/AliceO2Group/Control/verif_vrt"
)

var cfg = vrt.Config{Preempt: coresim.InterComponent, NoLockPoints: true, FreeSwitchCost: true, Horizon: 30 * time.Minute}

var lives = []string{"created", "reset", "running-force", "running-allow", "stopped", "start-fails", "create-fails"}

func call(name, trigger, await string) string {
	return fmt.Sprintf("  - name: %q\n    call:\n      func: sim.Call(%q)\n      trigger: %s\n      await: %s\n      timeout: 5s\n      critical: false\n", name, name, trigger, await)
}

func scenario() *vrt.Scenario {
	var (
		life    string
		ok      bool
		gone    bool
		derr    error
		calls   []string
		wantRun map[string]int
	)
	return &vrt.Scenario{Name: "teardown-cancels", Prop: "C08", Cfg: cfg, Setup: coresim.ResetStore,
		Doc:   "calls whose await point is not reached before the environment is destroyed, at every point of its life",
		Quick: vrt.Bounds{Dev: 0, Seconds: 100}, Thorough: vrt.Bounds{Dev: 1, Seconds: 600},
		DeadlockClause: "request-hangs", PanicClause: "panic", NonTrivial: func(*vrt.Exec) bool { return ok },
		Body: func() {
			ok, gone, derr, calls = false, false, nil, nil
			life = lives[vrt.ChooseFree(len(lives), "life")]
			fail := ""
			m := coresim.NewMaster(&coresim.Agent{ID: "agentA", Host: "hostA", Attributes: map[string]string{"machine_id": "hostA"}, Cpus: 16, Mem: 16384, PortLo: 9000, PortHi: 40000})
			m.Behaviour = func(t *coresim.SimTask, kind string) coresim.Outcome {
				if kind == fail {
					return coresim.ErrError
				}
				return coresim.OK
			}
			coresim.OnPluginCall = func(tag, trigger string) { calls = append(calls, tag) }
			defer func() { coresim.OnPluginCall = nil }()
			w := coresim.NewWorld(m)
			settle := func() {
				vrt.Quiesce("s1")
				vrt.Sleep(3 * time.Second)
				vrt.Quiesce("s2")
			}
			wantRun = map[string]int{"never": 1, "until-reset": 1, "during-run": 0}
			if life == "create-fails" {
				wantRun["until-reset"] = 0 // enter_CONFIGURED is never reached
				fail = "CONFIGURE"
				if _, _, err := w.Create("c08t", nil); err == nil {
					return // the fixture did not fail the creation: nothing to judge
				}
				settle()
				gone = len(w.Envs()) == 0
				ok = true
				vrt.Logf("%s -> calls=%v", life, calls)
				return
			}
			id, _, err := w.Create("c08t", nil)
			if err != nil {
				return
			}
			force, allow := false, false
			switch life {
			case "reset":
				if _, err = w.Control(id, pb.ControlEnvironmentRequest_RESET); err != nil {
					return
				}
			case "running-force", "running-allow", "stopped":
				if _, err = w.Control(id, pb.ControlEnvironmentRequest_START_ACTIVITY); err != nil {
					return
				}
				wantRun["during-run"] = 1
				force, allow = life == "running-force", life == "running-allow"
				if allow {
					wantRun["until-reset"] = 2 // the destroy request stops the run first: enter_CONFIGURED is reached again
				}
				if life == "stopped" {
					wantRun["until-reset"] = 2 // enter_CONFIGURED is reached again by STOP_ACTIVITY
					if _, err = w.Control(id, pb.ControlEnvironmentRequest_STOP_ACTIVITY); err != nil {
						return
					}
				}
			case "start-fails":
				fail = "START"
				if _, err = w.Control(id, pb.ControlEnvironmentRequest_START_ACTIVITY); err == nil {
					return
				}
				fail = ""
				force = true // an environment in ERROR can only be destroyed by force
			}
			derr = w.Destroy(id, force, allow, false)
			settle()
			_, gerr := w.EnvState(id)
			gone = gerr != nil
			ok = true
			vrt.Logf("%s -> destroy-error=%v gone=%v calls=%v", life, derr != nil, gone, calls)
		},
		Check: func(x *vrt.Exec) (out []vrt.Violation) {
			if !ok || x.Deadlock != "" {
				return nil
			}
			ctx := fmt.Sprintf("life=%s destroy-error=%v environment-gone=%v calls=%v", life, derr, gone, calls)
			if !gone {
				return nil // whether the destroy request succeeds is C06's question; the clause below is about a completed teardown
			}
			var blocked []string
			for _, l := range x.Leaked {
				if strings.Contains(l, "callable/call.go") {
					blocked = append(blocked, l)
				}
			}
			sort.Strings(blocked)
			if len(blocked) > 0 {
				out = append(out, vrt.Violation{Clause: "call-neither-collected-nor-cancelled-at-teardown:" + life,
					Detail: fmt.Sprintf("%d call goroutine(s) still blocked after the environment was torn down: %v\n  %s", len(blocked), blocked, ctx)})
			}
			n := map[string]int{}
			for _, c := range calls {
				n[c]++
			}
			for _, c := range []string{"never", "until-reset", "during-run"} {
				// not more often than its trigger was reached (under a non-default schedule a request may fail earlier
				// than planned, so fewer is not judged here: that a triggered call is started is the subject of harness c08)
				if n[c] > wantRun[c] {
					out = append(out, vrt.Violation{Clause: fmt.Sprintf("call-ran-%d-times-want-at-most-%d:%s:%s", n[c], wantRun[c], c, life), Detail: ctx})
				}
			}
			return
		}}
}

func main() {
	coresim.GlobalSetup(coresim.WorkflowSpec{Name: "c08t", Hosts: []string{"hostA"},
		Tasks: []coresim.TaskSpec{{Name: "t1", Class: "c08tt1", Mode: "direct", Critical: true, Host: "hostA"}},
		Calls: []string{
			call("never", "before_CONFIGURE", "after_NEVERHAPPENS"),
			call("until-reset", "enter_CONFIGURED", "before_RESET"),
			call("during-run", "enter_RUNNING-1", "after_STOP_ACTIVITY+1"),
		}})
	vrt.Main([]*vrt.Scenario{scenario()})
}

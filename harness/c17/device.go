package main

// Simulated OCC device: a pb.OccClient whose life is tied to a simulated
// process (simproc.Proc). Written from occ/README.md (OCC state machine for
// controlmode.DIRECT), occ/protos/occ.proto (GetState reports state and pid,
// Transition is rejected when the source state does not match, EventStream ends
// with END_OF_STREAM) and gRPC's documented behaviour towards a server that is
// not (or no longer) there (codes.Unavailable). It knows nothing about how the
// executor uses it.

import (
	"context"
	"io"
	"time"

	pb "github.com/AliceO2Group/Control/executor/protos"
	"github.com/AliceO2Group/Control/verif_h/simproc"
	vrt "github.com/AliceO2Group/Control/verif_vrt"
	"google.golang.org/grpc"
	"google.golang.org/grpc/codes"
	"google.golang.org/grpc/status"
)

// OCC state machine (occ/README.md, OCCStateMachine-controlmode.DIRECT.png)
var occMachine = map[string]map[string]string{
	"STANDBY":    {"CONFIGURE": "CONFIGURED", "EXIT": "DONE"},
	"CONFIGURED": {"START": "RUNNING", "RESET": "STANDBY", "EXIT": "DONE"},
	"RUNNING":    {"STOP": "CONFIGURED"},
	"ERROR":      {"RECOVER": "STANDBY", "EXIT": "DONE"},
	"DONE":       {},
}

type device struct {
	proc       *simproc.Proc // the process the OCC server lives in
	listening  bool          // control port open
	state      string        // "" until the state machine is up
	stuck      bool          // the OCC server accepts calls but never answers Transition
	noPid      bool          // GetState leaves the pid field at its default (occ.proto: int32 pid = 2; proto3 default 0)
	doneOnKill bool          // the device was sent to DONE after a KILL request had been handed to the executor
	events     []pb.DeviceEventType
	streamEnd  bool // the device closed its event stream (after END_OF_STREAM)
	calls      []string
	doneAt     time.Duration
}

func (d *device) up() bool { return d.proc != nil && d.proc.Alive() && d.listening }

func unavailable() error {
	return status.Error(codes.Unavailable, "connection error: desc = \"transport: error while dialing: connection refused\"")
}

// rpc is the round trip of one unary call: a scheduling point before the server acts.
func (d *device) rpc(name string) error {
	vrt.Yield("occ-rpc:" + name)
	if !d.up() {
		return unavailable()
	}
	return nil
}

func (d *device) GetState(ctx context.Context, in *pb.GetStateRequest, opts ...grpc.CallOption) (*pb.GetStateReply, error) {
	if err := d.rpc("GetState"); err != nil {
		return nil, err
	}
	if d.noPid {
		return &pb.GetStateReply{State: d.state}, nil
	}
	return &pb.GetStateReply{State: d.state, Pid: int32(d.proc.Pid)}, nil
}

func (d *device) Transition(ctx context.Context, in *pb.TransitionRequest, opts ...grpc.CallOption) (*pb.TransitionReply, error) {
	if err := d.rpc("Transition"); err != nil {
		return nil, err
	}
	evt, src := in.GetTransitionEvent(), in.GetSrcState()
	d.calls = append(d.calls, evt+"@"+d.state)
	if d.stuck {
		// the server never answers; the call ends when the caller gives up or the server dies
		vrt.WaitUntil("occ-rpc:Transition(stuck)", func() bool { return !d.up() || (ctx != nil && ctx.Err() != nil) })
		if !d.up() {
			return nil, unavailable()
		}
		return nil, status.FromContextError(ctx.Err()).Err()
	}
	if src != d.state {
		return nil, status.Error(codes.InvalidArgument, "transition not possible: state mismatch: source: "+src+" current: "+d.state)
	}
	target, ok := occMachine[d.state][evt]
	if !ok {
		return &pb.TransitionReply{Trigger: pb.StateChangeTrigger_DEVICE_INTENTIONAL, State: d.state, TransitionEvent: evt, Ok: false}, nil
	}
	d.state = target
	if target == "DONE" {
		d.doneAt = vrt.VNow()
		d.doneOnKill = R != nil && R.killFedAt >= 0
		d.events = append(d.events, pb.DeviceEventType_END_OF_STREAM)
		d.streamEnd = true
	}
	return &pb.TransitionReply{Trigger: pb.StateChangeTrigger_EXECUTOR, State: d.state, TransitionEvent: evt, Ok: true}, nil
}

func (d *device) StateStream(ctx context.Context, in *pb.StateStreamRequest, opts ...grpc.CallOption) (pb.Occ_StateStreamClient, error) {
	return nil, status.Error(codes.Unimplemented, "not used by the executor")
}

func (d *device) EventStream(ctx context.Context, in *pb.EventStreamRequest, opts ...grpc.CallOption) (pb.Occ_EventStreamClient, error) {
	if err := d.rpc("EventStream"); err != nil {
		return nil, err
	}
	return &eventStream{d: d}, nil
}

type eventStream struct {
	grpc.ClientStream // never called by the executor
	d                 *device
	pos               int
}

func (s *eventStream) Recv() (*pb.EventStreamReply, error) {
	d := s.d
	vrt.WaitUntil("occ-stream:Recv", func() bool { return s.pos < len(d.events) || d.streamEnd || !d.up() })
	if s.pos < len(d.events) {
		t := d.events[s.pos]
		s.pos++
		return &pb.EventStreamReply{Event: &pb.DeviceEvent{Type: t}}, nil
	}
	if d.streamEnd && d.up() {
		return nil, io.EOF
	}
	return nil, status.Error(codes.Unavailable, "error reading from server: EOF")
}

// C17: every launched task ends with at most one terminal status and no survivors;
// no stop / kill / transition request crashes or hangs the executor.
//
// Seam: the REAL executor event loop (eventLoop + buildEventHandler:
// handleLaunchEvent, handleKillEvent, handleMessageEvent, performStatusUpdate,
// sendOutgoingMessage) on an internalState whose agent connection is a recording
// calls.Sender and whose event source is fed by the driver, on top of the REAL
// executable.NewTask / BasicTask / HookTask / ControllableTask (Launch,
// Transition, Trigger, Kill, the reaper goroutines, doTermIntKill, pidExists).
//
// Simulated, inside the cooperative scheduler: the OS process layer (package
// simproc stands in for os/exec, syscall.Kill, os.FindProcess) and the OCC device
// behind executorcmd.NewClient (device.go, a pb.OccClient living in a simulated
// process). Time is virtual.
//
// The oracle is written from the property statement only; its ground truth is
// the simulated kernel (which processes exist, how they died) and the list of
// calls the executor made to the agent.
package main

import (
	"context"
	"encoding/json"
	"errors"
	"fmt"
	"io"
	"os"
	"sort"
	"strings"
	"syscall"
	"time"

	"github.com/AliceO2Group/Control/common"
	"github.com/AliceO2Group/Control/common/controlmode"
	"github.com/AliceO2Group/Control/common/utils/uid"
	"github.com/AliceO2Group/Control/core/controlcommands"
	aliexec "github.com/AliceO2Group/Control/executor"
	"github.com/AliceO2Group/Control/executor/executorcmd"
	pb "github.com/AliceO2Group/Control/executor/protos"
	"github.com/AliceO2Group/Control/verif_h/simproc"
	vrt "github.com/AliceO2Group/Control/verif_vrt"
	mesos "github.com/mesos/mesos-go/api/v1/lib"
	"github.com/mesos/mesos-go/api/v1/lib/executor"
	"github.com/mesos/mesos-go/api/v1/lib/executor/calls"
	"github.com/sirupsen/logrus"
)

// ---------------------------------------------------------------------------
// alphabet
// ---------------------------------------------------------------------------

type kind int

const (
	kBasic kind = iota
	kHook
	kCtl
)

func (k kind) String() string { return [...]string{"basic", "hook", "ctl"}[k] }

// behaviour of the child (and, for controllable tasks, of the OCC device in it)
type behaviour struct {
	name          string
	startFails    bool          // fork/exec fails: never started
	exitAfter     time.Duration // >0: ends on its own that long after it started
	exitCode      int
	ignoreTermInt bool // SIGTERM and SIGINT are ignored
	forks         bool // forks a helper in its process group that outlives it
	// controllable only
	wrapped     bool // the device is a child of the /bin/sh -c leader, not the leader itself
	neverListen bool // the control port never opens
	neverReady  bool // the port opens but the state machine never reaches STANDBY
	lingers     bool // stays alive after reaching DONE
	stuck       bool // accepts Transition calls but never answers them
	// --- added in the gap pass
	crashes      bool   // ends (after exitAfter) by a signal nobody asked for: SIGSEGV, the OOM killer, ... instead of exiting
	doneExitCode int    // controllable: exit code of the process when it ends by itself after reaching DONE
	startState   string // controllable: the state machine comes up in this state instead of STANDBY (ERROR: start-up failed inside the device)
	noPid        bool   // controllable: GetState does not report the pid (field left at its proto3 default)
	firstRunOnly bool   // basic: only the first child behaves as scripted, the later ones run until signalled
	user         string // the task template names a user to run the command as (the executor then sets credentials on the child)
	// the helper the child forks ignores SIGTERM and SIGINT while the leader itself dies of them (a shell with a
	// stubborn job: the group only goes away at SIGKILL)
	helperIgnoresTermInt bool
}

func (b behaviour) exits() bool { return b.exitAfter > 0 }

var (
	bExit0     = behaviour{name: "exit0", exitAfter: time.Second}
	bExit1     = behaviour{name: "exit1", exitAfter: time.Second, exitCode: 1}
	bRuns      = behaviour{name: "runs"}
	bStubborn  = behaviour{name: "stubborn", ignoreTermInt: true, lingers: true}
	bForks     = behaviour{name: "forks", forks: true, exitAfter: time.Second}
	bForksRuns = behaviour{name: "forksruns", forks: true}
	bStartFail = behaviour{name: "startfail", startFails: true}
	// the leader dies of SIGTERM, what it forked only of SIGKILL
	bForksStubbornHelper = behaviour{name: "forksstubbornhelper", forks: true, helperIgnoresTermInt: true}
	// the template sets `user`: the child still has to get its own process group
	bRunsUser      = behaviour{name: "runsuser", user: "root"}
	bForksRunsUser = behaviour{name: "forksrunsuser", forks: true, user: "root"}
	cGoodUser      = behaviour{name: "gooduser", user: "root"}
	// controllable
	cGood     = behaviour{name: "good"}
	cExit0    = behaviour{name: "exit0", exitAfter: 5 * time.Second}
	cExit1    = behaviour{name: "exit1", exitAfter: 5 * time.Second, exitCode: 1}
	cWrapped  = behaviour{name: "wrapped", wrapped: true}
	cNoListen = behaviour{name: "nolisten", neverListen: true}
	cNotReady = behaviour{name: "notready", neverReady: true}
	cStuck    = behaviour{name: "stuck", stuck: true}
	// gap pass: killed by a signal that is not the executor's; non-zero exit after an orderly walk to DONE;
	// start-up ending in ERROR; OCC servers that do not tell their pid
	bCrash         = behaviour{name: "crash", exitAfter: time.Second, crashes: true}
	bForksCrash    = behaviour{name: "forkscrash", forks: true, exitAfter: time.Second, crashes: true}
	bCrashOnce     = behaviour{name: "crashonce", exitAfter: time.Second, crashes: true, firstRunOnly: true}
	cCrash         = behaviour{name: "crash", exitAfter: 5 * time.Second, crashes: true}
	cDoneExit1     = behaviour{name: "doneexit1", doneExitCode: 1}
	cErrStart      = behaviour{name: "errstart", startState: "ERROR"}
	cNoPid         = behaviour{name: "nopid", noPid: true}
	cNoPidStubborn = behaviour{name: "nopidstubborn", noPid: true, ignoreTermInt: true, lingers: true}
	cNoPidStuck    = behaviour{name: "nopidstuck", noPid: true, stuck: true}
	cNoPidErrStart = behaviour{name: "nopiderrstart", noPid: true, startState: "ERROR"}
	deviceBoot     = 300 * time.Millisecond // process start -> control port open
	deviceInit     = 400 * time.Millisecond // port open -> STANDBY
	doneLinger     = 100 * time.Millisecond // DONE -> the process exits by itself
	dialLimit      = 30 * time.Second       // executorcmd.GRPC_DIAL_TIMEOUT
	horizon        = 120 * time.Second      // > dial/startup timeout + soft-kill walk + TERM+INT+KILL escalation
	// controlcommands.defaultResponseTimeout: how long the core waits for an answer
	responseTimeout = 90 * time.Second
)

// instants at which the driver issues a request
type when int

const (
	wNow       when = iota // right after the previous request was handed over
	wSettled               // when nothing else can run at this virtual instant
	wListening             // ctl: the control port has just opened (executor is polling for STANDBY)
	wRunning               // TASK_RUNNING has been reported, system settled
	wChildExit             // the moment the child ends by itself (racing with the reaper)
	wLater                 // one virtual minute later
)

func (w when) String() string {
	return [...]string{"now", "settled", "listening", "running", "childexit", "later"}[w]
}

type step struct {
	req   string // START STOP CONFIGURE KILL TRIGGER
	whens []when
}

type scen struct {
	name  string
	kind  kind
	beh   behaviour
	steps []step
}

// ---------------------------------------------------------------------------
// one execution
// ---------------------------------------------------------------------------

type bttRec struct {
	state     string
	exitCode  int
	voluntary bool
}

type run struct {
	sc       *scen
	ex       *aliexec.VerifExecutor
	envId    uid.ID
	taskID   mesos.TaskID
	finished bool

	// what the executor told the agent, in order
	updates   []string // task status names
	sentLog   []string // everything, abbreviated
	btt       []bttRec
	responses []string // "<command>/<event>: ok|error"
	afterTerm []string // things sent after the first terminal status

	// requests
	reqs       []string
	lastReq    string
	startsFed  int                      // START / TRIGGER requests handed over so far (ctl: the launch itself)
	killFedAt  int                      // startsFed when the first KILL was handed over; -1 = none
	stopFedAt  int                      // startsFed when the last STOP was handed over; -1 = none
	aliveAtReq []map[*simproc.Proc]bool // for every KILL/STOP handed over: the processes dead by then
	sawRunning bool
	cmdEvent   map[string]string // command id -> event name
	pendingCmd string            // id of the last transition / trigger command handed over
	answered   map[string]bool   // command ids for which a response was sent
	leaders    []*simproc.Proc
	dev        *device
}

var R *run

var terminal = map[string]bool{"TASK_FINISHED": true, "TASK_FAILED": true, "TASK_KILLED": true}

func (r *run) terminalSeen() bool {
	for _, u := range r.updates {
		if terminal[u] {
			return true
		}
	}
	return false
}

// send is the injected calls.Sender: the agent side of the executor's HTTP API.
func (r *run) send(ctx context.Context, rq calls.Request) (mesos.Response, error) {
	vrt.Yield("agent-call")
	c := rq.Call()
	switch c.GetType() {
	case executor.Call_UPDATE:
		status := c.GetUpdate().GetStatus()
		st := status.GetState().String()
		if r.terminalSeen() {
			r.afterTerm = append(r.afterTerm, "status "+st)
		}
		r.updates = append(r.updates, st)
		r.sentLog = append(r.sentLog, st)
		if st == "TASK_RUNNING" {
			r.sawRunning = true
		}
	case executor.Call_MESSAGE:
		r.message(c.GetMessage().GetData())
	}
	return nil, nil
}

func (r *run) message(data []byte) {
	var m struct {
		MessageType string             `json:"_messageType"`
		Name        string             `json:"name"`
		Id          string             `json:"id"`
		Error       string             `json:"error"`
		State       string             `json:"state"`
		Type        pb.DeviceEventType `json:"type"`
		ExitCode    int                `json:"exitCode"`
		Voluntary   bool               `json:"voluntaryTermination"`
		Final       mesos.TaskState    `json:"finalMesosState"`
	}
	if err := json.Unmarshal(data, &m); err != nil {
		r.sentLog = append(r.sentLog, "undecodable-message")
		return
	}
	switch m.MessageType {
	case "MesosCommandResponse":
		res := "ok"
		if m.Error != "" {
			res = "error"
		}
		r.answered[m.Id] = true
		s := fmt.Sprintf("%s/%s: %s", strings.TrimPrefix(m.Name, "MesosCommand_"), r.cmdEvent[m.Id], res)
		r.responses = append(r.responses, s)
		r.sentLog = append(r.sentLog, "response "+s)
	case "DeviceEvent":
		if m.Type == pb.DeviceEventType_BASIC_TASK_TERMINATED {
			b := bttRec{state: m.Final.String(), exitCode: m.ExitCode, voluntary: m.Voluntary}
			r.btt = append(r.btt, b)
			r.sentLog = append(r.sentLog, fmt.Sprintf("BASIC_TASK_TERMINATED{%s exit=%d voluntary=%v}", b.state, b.exitCode, b.voluntary))
			if r.terminalSeen() {
				r.afterTerm = append(r.afterTerm, "BASIC_TASK_TERMINATED")
			}
		} else {
			r.sentLog = append(r.sentLog, "device-event "+m.Type.String())
		}
	default:
		r.sentLog = append(r.sentLog, m.MessageType)
	}
}

// startHook is the simulated fork+exec: it decides what the new process does.
func (r *run) startHook(c *simproc.Cmd) (simproc.Program, error) {
	b := r.sc.beh
	if b.firstRunOnly && lastRoot() != nil {
		b = bRuns
	}
	if b.startFails {
		return nil, &simproc.Error{Name: c.Path, Err: errors.New("fork/exec " + c.Path + ": operation not permitted")}
	}
	return func(p *simproc.Proc) {
		p.Name = "leader"
		if r.sc.kind == kCtl {
			r.ctlProgram(p, b)
			return
		}
		p.IgnoreTermInt = b.ignoreTermInt
		if b.forks {
			h := p.Fork("helper", func(h *simproc.Proc) { h.WaitDeath() })
			h.IgnoreTermInt = b.helperIgnoresTermInt
		}
		if b.exits() {
			if p.Sleep(b.exitAfter) {
				if b.crashes {
					p.Crash(syscall.SIGSEGV)
				} else {
					p.Exit(b.exitCode)
				}
			}
			return
		}
		p.WaitDeath()
	}, nil
}

// ctlProgram: a process hosting an OCC device (directly, or as the child of the shell leader).
func (r *run) ctlProgram(leader *simproc.Proc, b behaviour) {
	d := &device{}
	r.dev = d
	host := func(p *simproc.Proc) {
		d.proc = p
		d.stuck, d.noPid = b.stuck, b.noPid
		p.IgnoreTermInt = b.ignoreTermInt
		if !p.Sleep(deviceBoot) {
			return
		}
		if b.neverListen {
			p.WaitDeath()
			return
		}
		d.listening = true
		if !p.Sleep(deviceInit) {
			return
		}
		if b.neverReady {
			d.state = "INITIALIZING"
			p.WaitDeath()
			return
		}
		d.state = "STANDBY"
		if b.startState != "" {
			d.state = b.startState
		}
		if b.forks {
			p.Fork("helper", func(h *simproc.Proc) { h.WaitDeath() })
		}
		if b.exits() {
			// ends on its own (exit code as scripted) unless it reaches DONE or is terminated first
			deadline := vrt.VNow() + b.exitAfter
			_ = vrt.After(b.exitAfter)
			if !p.WaitFor(func() bool { return d.state == "DONE" || vrt.VNow() >= deadline }) {
				return
			}
			if d.state != "DONE" {
				if b.crashes {
					p.Crash(syscall.SIGSEGV)
				} else {
					p.Exit(b.exitCode)
				}
				return
			}
		} else if !p.WaitFor(func() bool { return d.state == "DONE" }) {
			return
		}
		// DONE: the device closes its event stream and the process ends by itself shortly after
		if b.lingers {
			p.WaitDeath()
			return
		}
		if p.Sleep(doneLinger) {
			p.Exit(b.doneExitCode)
		}
	}
	if !b.wrapped {
		host(leader)
		return
	}
	// /bin/sh -c "<several commands>": the shell stays, the device is its child in the same group
	leader.Name = "sh"
	child := leader.Fork("device", host)
	if leader.WaitFor(func() bool { return !child.Alive() }) {
		code := child.ExitCode()
		if code < 0 {
			code = 143 // the shell reports 128+signal
		}
		leader.Exit(code)
	}
}

// dial stands in for grpc.DialContext(WithBlock) in executorcmd.NewClient:
// blocks until the control port is open, gives up after GRPC_DIAL_TIMEOUT.
func (r *run) dial(port uint64, mode controlmode.ControlMode, tr executorcmd.ControlTransport, log *logrus.Entry) *executorcmd.RpcClient {
	deadline := vrt.VNow() + dialLimit
	_ = vrt.After(dialLimit)
	vrt.WaitUntil("grpc-dial", func() bool { return (r.dev != nil && r.dev.up()) || vrt.VNow() >= deadline })
	if r.dev == nil || !r.dev.up() {
		return nil
	}
	return executorcmd.NewClientForVerif(r.dev, mode, log)
}

func (r *run) feed(e executor.Event) { r.ex.Feed(e) }

func (r *run) wait(w when) {
	switch w {
	case wNow:
	case wSettled:
		vrt.Quiesce("driver-settled")
	case wListening:
		vrt.WaitUntil("driver-wait-listening", func() bool { return r.dev != nil && r.dev.listening })
		vrt.Quiesce("driver-settled")
	case wRunning:
		vrt.WaitUntil("driver-wait-running", func() bool { return r.sawRunning })
		vrt.Quiesce("driver-settled")
	case wChildExit:
		vrt.WaitUntil("driver-wait-childexit", func() bool {
			l := lastRoot()
			return l != nil && !l.Alive()
		})
	case wLater:
		vrt.Sleep(time.Minute)
	}
}

func (r *run) target() []controlcommands.MesosCommandTarget {
	return []controlcommands.MesosCommandTarget{{AgentId: mesos.AgentID{Value: "agent"}, ExecutorId: mesos.ExecutorID{Value: "executor"}, TaskId: r.taskID}}
}

// awaitPrevious: the core sends a transition or a hook trigger to a task only after the
// previous one was answered or its response timeout (90 s) has passed.
func (r *run) awaitPrevious() {
	if id := r.pendingCmd; id != "" {
		deadline := vrt.VNow() + responseTimeout
		_ = vrt.After(responseTimeout)
		vrt.WaitUntil("driver-await-response", func() bool { return r.answered[id] || vrt.VNow() >= deadline })
	}
}

func (r *run) transition(evt, src, dst string) {
	cmd := controlcommands.NewMesosCommand_Transition(r.envId, r.target(), src, evt, dst, nil)
	r.cmdEvent[cmd.Id.String()] = evt
	r.pendingCmd = cmd.Id.String()
	data, err := json.Marshal(cmd)
	if err != nil {
		panic(err)
	}
	r.feed(executor.Event{Type: executor.Event_MESSAGE, Message: &executor.Event_Message{Data: data}})
}

func (r *run) request(req string) {
	r.reqs = append(r.reqs, req)
	r.lastReq = req
	if req == "KILL" || req == "STOP" {
		dead := map[*simproc.Proc]bool{}
		for _, p := range simproc.W.Procs {
			if !p.Alive() {
				dead[p] = true
			}
		}
		r.aliveAtReq = append(r.aliveAtReq, dead)
	}
	switch req {
	case "CONFIGURE":
		r.transition("CONFIGURE", "STANDBY", "CONFIGURED")
	case "START":
		r.startsFed++
		r.transition("START", "CONFIGURED", "RUNNING")
	case "STOP":
		r.stopFedAt = r.startsFed
		r.transition("STOP", "RUNNING", "CONFIGURED")
	case "TRIGGER":
		r.startsFed++
		cmd := controlcommands.NewMesosCommand_TriggerHook(r.envId, r.target())
		r.cmdEvent[cmd.Id.String()] = "TRIGGER"
		r.pendingCmd = cmd.Id.String()
		data, _ := json.Marshal(cmd)
		r.feed(executor.Event{Type: executor.Event_MESSAGE, Message: &executor.Event_Message{Data: data}})
	case "KILL":
		if r.killFedAt < 0 {
			r.killFedAt = r.startsFed
		}
		r.feed(executor.Event{Type: executor.Event_KILL, Kill: &executor.Event_Kill{TaskID: r.taskID}})
	}
}

func (s *scen) body() {
	r := &run{sc: s, killFedAt: -1, stopFedAt: -1, cmdEvent: map[string]string{}, answered: map[string]bool{}, taskID: mesos.TaskID{Value: "task-1"}}
	R = r
	simproc.Reset(r.startHook)
	executorcmd.NewClientHook = r.dial
	r.envId = uid.NewForVerif()
	r.ex = aliexec.NewForVerif(calls.SenderFunc(r.send))
	r.ex.Start()

	execInfo := mesos.ExecutorInfo{ExecutorID: mesos.ExecutorID{Value: "executor"}}
	r.feed(executor.Event{Type: executor.Event_SUBSCRIBED, Subscribed: &executor.Event_Subscribed{
		ExecutorInfo: execInfo, FrameworkInfo: mesos.FrameworkInfo{Name: "aliecs"}, AgentInfo: mesos.AgentInfo{Hostname: "flp"}}})

	shell, value, none := true, "o2-task --run", "none"
	tci := &common.TaskCommandInfo{ControlPort: 47100}
	tci.Shell, tci.Value, tci.Stdout, tci.Stderr = &shell, &value, &none, &none
	if s.beh.user != "" {
		u := s.beh.user
		tci.User = &u
	}
	switch s.kind {
	case kBasic:
		tci.ControlMode = controlmode.BASIC
	case kHook:
		tci.ControlMode = controlmode.HOOK
	case kCtl:
		tci.ControlMode = controlmode.DIRECT
	}
	data, err := json.Marshal(tci)
	if err != nil {
		panic(err)
	}
	envS := r.envId.String()
	ti := mesos.TaskInfo{Name: "task-c17", TaskID: r.taskID, AgentID: mesos.AgentID{Value: "agent"}, Executor: &execInfo, Data: data,
		Labels: &mesos.Labels{Labels: []mesos.Label{{Key: "environmentId", Value: &envS}}}}
	r.reqs = append(r.reqs, "LAUNCH")
	r.lastReq = "LAUNCH"
	if s.kind == kCtl {
		r.startsFed = 1 // a controllable task's process is started by the launch
	}
	r.feed(executor.Event{Type: executor.Event_LAUNCH, Launch: &executor.Event_Launch{Task: ti}})

	var ws []string
	for _, st := range s.steps {
		w := st.whens[vrt.ChooseFree(len(st.whens), "when:"+st.req)]
		ws = append(ws, st.req+"@"+w.String())
		if st.req != "KILL" {
			r.awaitPrevious()
		}
		r.wait(w)
		r.request(st.req)
	}
	vrt.Sleep(horizon)
	r.finished = true

	// observable outcome
	vrt.Logf("requests %v", ws)
	vrt.Logf("sent %v", r.sentLog)
	var ps []string
	for _, p := range simproc.W.Procs {
		ps = append(ps, p.Name+":"+p.Status())
	}
	vrt.Logf("processes %v", ps)
	vrt.Logf("signals %v", simproc.W.Signals)
	vrt.Logf("subscriptions %d %v", r.ex.Subscriptions, r.ex.LoopErrs)
}

// ---------------------------------------------------------------------------
// oracle (from the property statement)
// ---------------------------------------------------------------------------

func stripLine(s string) string {
	// "chan send ... @executable/basictaskcommon.go:258" -> without the line number
	if i := strings.LastIndex(s, ":"); i >= 0 && i > strings.LastIndex(s, "@") {
		return s[:i]
	}
	return s
}

func (s *scen) check(x *vrt.Exec) (out []vrt.Violation) {
	r := R
	fail := func(clause, format string, a ...any) {
		out = append(out, vrt.Violation{Clause: clause, Detail: fmt.Sprintf(format, a...) + fmt.Sprintf("\nrequests=%v\nsent=%v\nsignals=%v", r.reqs, r.sentLog, simproc.W.Signals)})
	}
	if !r.finished {
		return nil // the driver itself is stuck: reported by the engine under the hang clause
	}
	// (1) at most one terminal status, nothing after it
	var terms []string
	for _, u := range r.updates {
		if terminal[u] {
			terms = append(terms, u)
		}
	}
	if len(terms) > 1 {
		fail("more-than-one-terminal-status:"+s.kind.String()+":"+strings.Join(terms, "+"), "task reported %v", r.updates)
	}
	for i, u := range r.updates {
		if terminal[u] && i+1 < len(r.updates) {
			for _, v := range r.updates[i+1:] {
				if !terminal[v] {
					fail("status-after-terminal-status:"+s.kind.String()+":"+u+"-then-"+v, "task reported %v", r.updates)
				}
			}
			break
		}
	}
	// (2) killed on request => KILLED or FINISHED, not FAILED.
	// Ground truth: a process that was terminated by a signal after a KILL/STOP request was
	// handed to the executor was killed on request (signals come from the executor only).
	// Only judged for children that do not fail by themselves (a child whose start-up fails is
	// terminated by the executor for that reason, whether or not a kill is pending).
	killedOnRequest := false
	for _, p := range simproc.W.Procs {
		if s.beh.startFails || s.beh.neverListen || s.beh.neverReady {
			break
		}
		if p.Root() != p || !p.Signaled() || p.Crashed() {
			continue // (a crash is a signal nobody asked for)
		}
		for _, dead := range r.aliveAtReq {
			if !dead[p] {
				killedOnRequest = true
			}
		}
	}
	if killedOnRequest {
		for _, u := range terms {
			if u == "TASK_FAILED" {
				fail("killed-on-request-reported-failed:"+s.kind.String()+":status", "the child was terminated by the executor after a kill/stop request, status %v", r.updates)
			}
		}
		crashedRoots := 0 // their BASIC_TASK_TERMINATED{FAILED, -1} is the truth
		for _, p := range simproc.W.Procs {
			if p.Root() == p && p.Crashed() {
				crashedRoots++
			}
		}
		for _, b := range r.btt {
			if b.state == "TASK_FAILED" && b.exitCode == -1 {
				if crashedRoots > 0 {
					crashedRoots--
					continue
				}
				fail("killed-on-request-reported-failed:"+s.kind.String()+":BASIC_TASK_TERMINATED", "the child was terminated by the executor after a kill/stop request, event %+v", b)
			}
		}
	}
	// (2b) killed on request, the orderly way: after a KILL request the executor walked the device to DONE and
	// the process then ended by itself. That it leaves with a non-zero exit code does not make the task one
	// that failed: it was told to go.
	if r.dev != nil && r.dev.doneOnKill && !s.beh.startFails && !s.beh.neverListen && !s.beh.neverReady {
		if l := lastRoot(); l != nil && !l.Alive() && !l.Signaled() && l.ExitCode() != 0 {
			for _, u := range terms {
				if u == "TASK_FAILED" {
					fail("killed-on-request-reported-failed:"+s.kind.String()+":status:exit-code-after-DONE", "after the KILL request the executor sent the device to DONE, the process then ended by itself (%s); status %v", l.Status(), r.updates)
				}
			}
		}
	}
	// (3) no survivors after STOP (basic) / KILL (any): every process of a group that existed
	// when the request was handed over, and everything forked from it, is gone at the horizon
	ordinal := func(root *simproc.Proc) int { // how many processes the executor had started before this one
		n := 0
		for _, p := range simproc.W.Procs {
			if p == root {
				break
			}
			if p.Root() == p {
				n++
			}
		}
		return n
	}
	survivors := func(limit int) []string {
		var names []string
		for _, p := range simproc.W.Running() {
			if ordinal(p.Root()) < limit {
				names = append(names, p.Name)
			}
		}
		sort.Strings(names)
		return names
	}
	if r.killFedAt >= 0 {
		if sv := survivors(r.killFedAt); len(sv) > 0 {
			clause := "survivors-after-KILL:" + s.kind.String() + ":" + strings.Join(sv, "+")
			clause += s.mechanism()
			fail(clause, "still running %v at the horizon (%s after the last request)", sv, horizon)
		}
	}
	if s.kind == kBasic && r.stopFedAt >= 0 {
		if sv := survivors(r.stopFedAt); len(sv) > 0 {
			fail("survivors-after-STOP:"+s.kind.String()+":"+strings.Join(sv, "+")+s.mechanism(), "still running %v at the horizon (%s after the last request)", sv, horizon)
		}
	}
	// (3b) kill(0, sig) and kill(-1, sig) address the caller's own process group / every process: the executor
	// would be signalling itself (the simulated kernel refuses with EINVAL instead of ending the execution)
	for _, sg := range simproc.W.Signals {
		if strings.Contains(sg, "->0=") || strings.Contains(sg, "->-1=") {
			fail("executor-crashes:signal-sent-to-its-own-process-group:"+s.kind.String()+s.mechanism(), "kill(2) call %s", sg)
			break
		}
	}
	// (4) no request makes the executor hang: every goroutine spawned by a request handler returned
	// (x.Leaked: background threads still blocked when the execution ended, "<spawn site>: <where>")
	for _, l := range x.Leaked {
		if !strings.HasPrefix(l, "executor/handlers.go:") {
			continue
		}
		where := l[strings.Index(l, ": ")+2:]
		fail("request-handler-never-returns:"+s.kind.String()+":"+stripLine(where)+s.mechanism(), "a goroutine spawned by a request handler is still blocked at the horizon: %s", l)
	}
	return out
}

// mechanism: for the child behaviours added in the gap pass the survivor clauses name the circumstance, so that a
// known-findings glob written for another defect (e.g. "*:survivors-after-STOP:basic:helper") cannot absorb them
func (s *scen) mechanism() string {
	switch {
	case s.beh.noPid:
		return ":device-reports-no-pid"
	case s.beh.crashes:
		return ":child-died-by-signal"
	case s.beh.helperIgnoresTermInt:
		return ":helper-ignores-TERM-and-INT"
	}
	return ""
}

// panicSig: panic message class + the first frame inside the executor + the last request.
func panicSig(p string) string {
	lines := strings.Split(p, "\n")
	msg := lines[0]
	if i := strings.Index(msg, "): "); i >= 0 {
		msg = msg[i+3:]
	}
	switch {
	case strings.Contains(msg, "nil pointer dereference"):
		msg = "nil-dereference"
	case len(msg) > 60:
		msg = msg[:60]
	}
	fn, src := "?", ""
	for k, l := range lines[1:] {
		l = strings.TrimSpace(l)
		if strings.Contains(l, "/Control/executor") && !strings.HasPrefix(l, "/") {
			if i := strings.LastIndex(l, "/"); i >= 0 {
				l = l[i+1:]
			}
			if i := strings.LastIndex(l, "("); i > 0 {
				l = l[:i]
			}
			fn = l
			if k+2 < len(lines) {
				src = sourceLine(strings.TrimSpace(lines[k+2]))
			}
			break
		}
	}
	if src != "" {
		fn += "{" + src + "}"
	}
	return msg + "@" + fn + "/child-" + childState()
}

var overlayMap map[string]string

// sourceLine: the text of the statement a stack frame ("<file>:<line> +0x..") points at, read from the file the
// binary was built from (the instrumented copy named by the build overlay, VERIF_OVERLAY), squeezed and cut: two
// crashes in one function are different findings when they happen at different statements.
func sourceLine(frame string) string {
	if i := strings.Index(frame, " "); i > 0 {
		frame = frame[:i]
	}
	i := strings.LastIndex(frame, ":")
	if i < 0 {
		return ""
	}
	file, ln := frame[:i], 0
	fmt.Sscanf(frame[i+1:], "%d", &ln)
	if overlayMap == nil {
		overlayMap = map[string]string{}
		if b, err := os.ReadFile(os.Getenv("VERIF_OVERLAY")); err == nil {
			var o struct{ Replace map[string]string }
			if json.Unmarshal(b, &o) == nil {
				overlayMap = o.Replace
			}
		}
	}
	if r, ok := overlayMap[file]; ok {
		file = r
	}
	b, err := os.ReadFile(file)
	if err != nil || ln <= 0 {
		return ""
	}
	ls := strings.Split(string(b), "\n")
	if ln > len(ls) {
		return ""
	}
	t := strings.Join(strings.Fields(ls[ln-1]), "")
	if len(t) > 40 {
		t = t[:40]
	}
	return strings.NewReplacer(":", ";", ",", ";", "*", "x", "?", "q", "[", "(", "]", ")").Replace(t)
}

// lastRoot is the last process the executor itself started.
func lastRoot() (last *simproc.Proc) {
	if simproc.W != nil {
		for _, p := range simproc.W.Procs {
			if p.Root() == p {
				last = p
			}
		}
	}
	return
}

// childState: ground truth about the (last) process the executor started for the task.
func childState() string {
	last := lastRoot()
	switch {
	case last == nil:
		return "never-started"
	case last.Alive():
		return "running"
	case last.Zombie():
		return "exited-unreaped"
	}
	return "gone"
}

// ---------------------------------------------------------------------------
// scenarios
// ---------------------------------------------------------------------------

func mk(k kind, b behaviour, name string, steps ...step) *vrt.Scenario {
	s := &scen{name: fmt.Sprintf("%s-%s-%s", k, b.name, name), kind: k, beh: b, steps: steps}
	var doc []string
	for _, st := range steps {
		var ws []string
		for _, w := range st.whens {
			ws = append(ws, w.String())
		}
		doc = append(doc, st.req+"@{"+strings.Join(ws, ",")+"}")
	}
	quick, thorough := vrt.Bounds{Dev: 1, Seconds: 60}, vrt.Bounds{Dev: 2, Seconds: 600}
	if deep[s.name] {
		quick, thorough = vrt.Bounds{Dev: 2, Seconds: 60}, vrt.Bounds{Dev: 3, Seconds: 600}
	}
	return &vrt.Scenario{
		Name: s.name, Prop: "C17", Doc: "LAUNCH " + strings.Join(doc, " "),
		// every thread switch that is not forced costs a deviation, also when the running thread
		// blocks (otherwise bound 0 alone is the full product of all wake-up orders); the lock of
		// activeTasks is held over map accesses only: no preemption in front of lock operations
		Cfg: vrt.Config{FreeSwitchCost: true, Preempt: func(k vrt.OpKind, site string) bool {
			return k != vrt.OpLock && k != vrt.OpRLock
		}},
		Setup: func() { logrus.SetOutput(io.Discard); logrus.SetLevel(logrus.PanicLevel) },
		Body:  s.body, Check: s.check,
		Quick: quick, Thorough: thorough,
		DeadlockClause: "executor-hangs", PanicClause: "executor-crashes", PanicSig: panicSig,
		NonTrivial: func(x *vrt.Exec) bool { return R != nil && R.finished && len(R.sentLog) > 0 },
	}
}

// scenarios explored one deviation deeper than the others (quick: 2 instead of 1, thorough: 3 instead of 2)
var deep = map[string]bool{
	"basic-runs-stop": true, "basic-exit0-stop": true, "basic-runs-kill": true, "hook-exit0-trigger-kill": true,
	"ctl-good-kill": true, "ctl-exit1-kill": true, "ctl-good-run-kill": true, "ctl-good-kill-kill": true,
}

func st(req string, ws ...when) step { return step{req: req, whens: ws} }

func withExit(b behaviour, ws ...when) []when {
	if b.exits() {
		ws = append(ws, wChildExit)
	}
	return ws
}

func scenarios() (out []*vrt.Scenario) {
	// ---- basic tasks
	for _, b := range []behaviour{bExit0, bExit1, bRuns, bStubborn, bForks, bForksRuns, bStartFail} {
		ws := withExit(b, wNow, wSettled, wLater)
		if b.startFails {
			ws = []when{wSettled}
		}
		out = append(out, mk(kBasic, b, "stop", st("START", wRunning), st("STOP", ws...)))
		out = append(out, mk(kBasic, b, "kill", st("START", wRunning), st("KILL", ws...)))
	}
	for _, b := range []behaviour{bExit0, bRuns} {
		out = append(out, mk(kBasic, b, "stop-kill", st("START", wRunning), st("STOP", withExit(b, wSettled)...), st("KILL", wNow, wSettled, wLater)))
		out = append(out, mk(kBasic, b, "kill-kill", st("START", wRunning), st("KILL", withExit(b, wSettled)...), st("KILL", wNow, wSettled)))
		out = append(out, mk(kBasic, b, "restart", st("START", wRunning), st("STOP", wSettled, wLater), st("START", wSettled), st("STOP", withExit(b, wSettled, wLater)...)))
	}
	// gap pass: a child that dies by a signal the executor did not send (os/exec: ProcessState.Exited() is false for it)
	for _, b := range []behaviour{bCrash, bForksCrash} {
		ws := withExit(b, wNow, wSettled, wLater)
		out = append(out, mk(kBasic, b, "stop", st("START", wRunning), st("STOP", ws...)))
		out = append(out, mk(kBasic, b, "kill", st("START", wRunning), st("KILL", ws...)))
	}
	for _, b := range []behaviour{bCrash, bCrashOnce} {
		last := []when{wSettled, wLater}
		if !b.firstRunOnly {
			last = withExit(b, last...)
		}
		out = append(out, mk(kBasic, b, "restart", st("START", wRunning), st("STOP", wSettled, wLater), st("START", wSettled), st("STOP", last...)))
	}
	// round 5: the escalation has to end with the whole group gone, not with the leader gone
	out = append(out, mk(kBasic, bForksStubbornHelper, "stop", st("START", wRunning), st("STOP", wNow, wSettled, wLater)))
	out = append(out, mk(kBasic, bForksStubbornHelper, "kill", st("START", wRunning), st("KILL", wNow, wSettled, wLater)))
	out = append(out, mk(kHook, bForksStubbornHelper, "trigger-kill", st("TRIGGER", wRunning), st("KILL", wNow, wSettled, wLater)))
	for _, b := range []behaviour{bRunsUser, bForksRunsUser} {
		out = append(out, mk(kBasic, b, "stop", st("START", wRunning), st("STOP", wNow, wSettled, wLater)))
		out = append(out, mk(kBasic, b, "kill", st("START", wRunning), st("KILL", wNow, wSettled, wLater)))
	}
	out = append(out, mk(kBasic, bRuns, "idle-stop", st("STOP", wNow, wSettled, wRunning)))
	out = append(out, mk(kBasic, bRuns, "idle-kill", st("KILL", wNow, wSettled, wRunning)))
	// ---- hooks
	for _, b := range []behaviour{bExit0, bExit1, bRuns, bForks, bStartFail} {
		ws := withExit(b, wNow, wSettled, wLater)
		if b.startFails {
			ws = []when{wSettled}
		}
		out = append(out, mk(kHook, b, "trigger-kill", st("TRIGGER", wRunning), st("KILL", ws...)))
	}
	out = append(out, mk(kHook, bCrash, "trigger-kill", st("TRIGGER", wRunning), st("KILL", withExit(bCrash, wNow, wSettled, wLater)...)))
	out = append(out, mk(kHook, bExit0, "idle-kill", st("KILL", wNow, wSettled, wRunning)))
	out = append(out, mk(kHook, bExit0, "kill-trigger", st("KILL", wRunning), st("TRIGGER", wNow, wSettled)))
	out = append(out, mk(kHook, bExit0, "kill-kill", st("TRIGGER", wRunning), st("KILL", wSettled, wChildExit), st("KILL", wNow, wSettled)))
	// ---- controllable tasks
	for _, b := range []behaviour{cGood, cExit0, cExit1, bStubborn, bForksRuns, cWrapped, cStuck} {
		out = append(out, mk(kCtl, b, "kill", st("KILL", withExit(b, wNow, wListening, wRunning, wLater)...)))
	}
	// gap pass
	for _, b := range []behaviour{cCrash, cDoneExit1, cNoPid, cNoPidStubborn, cNoPidStuck} {
		out = append(out, mk(kCtl, b, "kill", st("KILL", withExit(b, wNow, wListening, wRunning, wLater)...)))
	}
	out = append(out, mk(kCtl, cErrStart, "kill", st("KILL", wNow, wListening, wSettled, wLater)))
	out = append(out, mk(kCtl, cNoPidErrStart, "kill", st("KILL", wListening, wLater)))
	out = append(out, mk(kCtl, cErrStart, "transition", st("CONFIGURE", wListening, wSettled, wLater)))
	out = append(out, mk(kCtl, cCrash, "transition", st("CONFIGURE", withExit(cCrash, wNow, wListening, wRunning, wLater)...)))
	for _, b := range []behaviour{cDoneExit1, cNoPidStubborn} {
		out = append(out, mk(kCtl, b, "run-kill", st("CONFIGURE", wRunning), st("START", wSettled), st("KILL", wSettled)))
	}
	out = append(out, mk(kCtl, cNoListen, "kill", st("KILL", wNow, wSettled, wLater)))
	out = append(out, mk(kCtl, cNotReady, "kill", st("KILL", wNow, wListening, wLater)))
	out = append(out, mk(kCtl, cGoodUser, "kill", st("KILL", wNow, wListening, wRunning, wLater)))
	out = append(out, mk(kCtl, bStartFail, "kill", st("KILL", wNow, wSettled)))
	for _, b := range []behaviour{cGood, cExit1, bStubborn} {
		out = append(out, mk(kCtl, b, "run-kill", st("CONFIGURE", wRunning), st("START", wSettled), st("KILL", withExit(b, wSettled)...)))
	}
	out = append(out, mk(kCtl, cGood, "kill-kill", st("KILL", wRunning), st("KILL", wNow, wSettled, wLater)))
	for _, b := range []behaviour{cGood, cExit0, cExit1, cNoListen} {
		ws := withExit(b, wNow, wListening, wRunning, wLater)
		if b.neverListen {
			ws = []when{wNow, wLater}
		}
		out = append(out, mk(kCtl, b, "transition", st("CONFIGURE", ws...)))
	}
	return
}

func main() {
	_ = syscall.SIGTERM
	vrt.Main(scenarios())
}

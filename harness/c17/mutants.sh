#!/bin/bash
# Detection demo for C17: applies every mutants/C17/*.patch to a scratch copy of the
# repository (never to /repo), runs ./check C17 on it and prints the violation
# signatures (scenario:clause) that do not occur on the unchanged tree.
#   usage: harness/c17/mutants.sh [tier] [also-on-fixed]
# With a second argument the same is repeated on top of mutants/C17/candidate-fix.diff
# where that still applies (the unchanged tree already fails C17; on the repaired
# tree the base line is empty).
set -u
V=$(cd "$(dirname "$0")/../.." && pwd)
SRC=${VERIF_REPO_SRC:-/repo}
SCRATCH=${SCRATCH:-/tmp/repo-c17}
TIER=${1:-quick}
export GOFLAGS=-mod=mod GOPROXY=off GOSUMDB=off GOTOOLCHAIN=local
export VERIF_REPO="$SCRATCH" VERIF_WORK=/tmp/vw-c17m
sigs() { # signatures from the report of the last run
  python3 - "$VERIF_WORK/reports/C17-$TIER.json" <<'PY'
import json, sys
rep = json.load(open(sys.argv[1]))
out = set()
for st in rep.get("scenarios") or []:
    for f in st.get("violations") or []:
        out.add(f["scenario"] + ":" + f["clause"])
print("\n".join(sorted(out)))
PY
}
rm -rf "$SCRATCH"; mkdir -p "$SCRATCH"
(cd "$SRC" && tar --exclude=.git -cf - .) | (cd "$SCRATCH" && tar xf -)
(cd "$SCRATCH" && git init -q && git add -A >/dev/null 2>&1 && git -c user.name=v -c user.email=v@v commit -qm base)
cd "$V"
./check C17 --tier "$TIER" >/dev/null; sigs > /tmp/c17-base-sigs.txt
echo "unchanged tree: $(grep -c . /tmp/c17-base-sigs.txt) signatures"
for p in "$V"/mutants/C17/*.patch; do
  (cd "$SCRATCH" && git checkout -q . && git apply "$p") || { echo "cannot apply $p"; continue; }
  ./check C17 --tier "$TIER" >/dev/null; sigs > /tmp/c17-mut-sigs.txt
  echo "== $(basename "$p"): new signatures:"
  comm -13 /tmp/c17-base-sigs.txt /tmp/c17-mut-sigs.txt | sed 's/^/     /'
done
if [ $# -ge 2 ]; then
  (cd "$SCRATCH" && git checkout -q . && git apply "$V/mutants/C17/candidate-fix.diff" && git -c user.name=v -c user.email=v@v commit -qam fixed)
  ./check C17 --tier "$TIER" >/dev/null; sigs > /tmp/c17-base-sigs.txt
  echo "repaired tree (candidate-fix.diff): $(grep -c . /tmp/c17-base-sigs.txt) signatures"
  for p in "$V"/mutants/C17/*.patch; do
    (cd "$SCRATCH" && git checkout -q . && git apply -3 "$p" 2>/dev/null) || { echo "== $(basename "$p"): does not apply on the repaired tree"; (cd "$SCRATCH" && git checkout -q . 2>/dev/null; git reset -q --hard); continue; }
    ./check C17 --tier "$TIER" >/dev/null; sigs > /tmp/c17-mut-sigs.txt
    echo "== $(basename "$p") on the repaired tree: new signatures:"
    comm -13 /tmp/c17-base-sigs.txt /tmp/c17-mut-sigs.txt | sed 's/^/     /'
    (cd "$SCRATCH" && git reset -q --hard)
  done
fi
rm -rf "$SCRATCH" "$VERIF_WORK"

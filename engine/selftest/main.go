package main

import (
	"fmt"
	"sort"
	"strings"

	"verif/engine/vrt"
)

// micro-programs whose full outcome sets are known
func main() {
	var scs []*vrt.Scenario
	add := func(name string, dev int, body func(), want ...string) {
		scs = append(scs, &vrt.Scenario{Name: name, Prop: "SELF", Body: body, Quick: vrt.Bounds{Dev: dev, Seconds: 60}, Doc: strings.Join(want, "|"), DeadlockOK: true,
			Check: func(x *vrt.Exec) []vrt.Violation {
				if x.Deadlock != "" {
					vrt.Logf("DEADLOCK")
				}
				return nil
			}})
	}
	// lost update: two threads read-modify-write with a lock only around each half
	add("lostupdate", 3, func() {
		var mu vrt.Mutex
		n := 0
		var wg vrt.WaitGroup
		wg.Add(2)
		for i := 0; i < 2; i++ {
			vrt.Go("w", func() {
				mu.Lock()
				v := n
				mu.Unlock()
				mu.Lock()
				n = v + 1
				mu.Unlock()
				wg.Done()
			})
		}
		wg.Wait()
		vrt.Logf("n=%d", n)
	}, "n=1", "n=2")
	add("abba", 3, func() {
		var a, b vrt.Mutex
		var wg vrt.WaitGroup
		wg.Add(2)
		vrt.Go("1", func() { a.Lock(); b.Lock(); b.Unlock(); a.Unlock(); wg.Done() })
		vrt.Go("2", func() { b.Lock(); a.Lock(); a.Unlock(); b.Unlock(); wg.Done() })
		wg.Wait()
		vrt.Logf("ok")
	}, "ok", "DEADLOCK")
	add("unbuffered", 3, func() {
		c := make(chan int)
		vrt.Go("s1", func() { vrt.Send(c, 1) })
		vrt.Go("s2", func() { vrt.Send(c, 2) })
		a := vrt.Recv(c)
		b := vrt.Recv(c)
		vrt.Logf("%d%d", a, b)
	}, "12", "21")
	add("selectdefault", 3, func() {
		c := make(chan int, 1)
		vrt.Go("s", func() { vrt.Send(c, 1) })
		rc := vrt.RecvCase(c)
		switch vrt.Select(true, rc) {
		case 0:
			vrt.Logf("got%d", rc.Val())
		default:
			vrt.Logf("default")
		}
	}, "got1", "default")
	add("closerange", 2, func() {
		c := make(chan int, 2)
		vrt.Go("s", func() { vrt.Send(c, 1); vrt.Send(c, 2); vrt.Close(c) })
		s := 0
		for {
			v, ok := vrt.Recv2(c)
			if !ok {
				break
			}
			s += v
		}
		vrt.Logf("sum=%d", s)
	}, "sum=3")
	add("rwreentrant", 3, func() {
		var m vrt.RWMutex
		var wg vrt.WaitGroup
		wg.Add(2)
		vrt.Go("r", func() { m.RLock(); m.RLock(); m.RUnlock(); m.RUnlock(); wg.Done() })
		vrt.Go("w", func() { m.Lock(); m.Unlock(); wg.Done() })
		wg.Wait()
		vrt.Logf("ok")
	}, "ok", "DEADLOCK")
	add("condmissed", 3, func() {
		var mu vrt.Mutex
		c := vrt.NewCond(&mu)
		ready := false
		var wg vrt.WaitGroup
		wg.Add(2)
		vrt.Go("waiter", func() {
			// buggy: checks the flag outside the lock
			if !ready {
				mu.Lock()
				c.Wait()
				mu.Unlock()
			}
			wg.Done()
		})
		vrt.Go("sig", func() { mu.Lock(); ready = true; c.Broadcast(); mu.Unlock(); wg.Done() })
		wg.Wait()
		vrt.Logf("ok")
	}, "ok", "DEADLOCK")
	add("timeout", 2, func() {
		c := make(chan int)
		vrt.Go("late", func() { vrt.Sleep(2e9); vrt.Send(c, 1) })
		rc := vrt.RecvCase(c)
		tc := vrt.RecvCase(vrt.After(1e9))
		switch vrt.Select(false, rc, tc) {
		case 0:
			vrt.Logf("value")
		case 1:
			vrt.Logf("timeout at %v", vrt.VNow())
		}
	}, "timeout at 1s")
	add("once", 3, func() {
		var o vrt.Once
		n := 0
		var wg vrt.WaitGroup
		wg.Add(2)
		for i := 0; i < 2; i++ {
			vrt.Go("o", func() { o.Do(func() { vrt.Yield("in"); n++ }); wg.Done() })
		}
		wg.Wait()
		vrt.Logf("n=%d", n)
	}, "n=1")

	// kill -9 of everything but the caller: frozen threads never run again, are no channel partners,
	// their timers are dropped, they are neither deadlocked nor awaited by Quiesce; a lock they hold stays held
	add("freeze", 3, func() {
		c := make(chan int)
		var held vrt.Mutex
		n := 0
		vrt.Go("old-receiver", func() { n += vrt.Recv(c) })
		vrt.Go("old-sleeper", func() { held.Lock(); vrt.Sleep(1e9); n += 100; held.Unlock() })
		vrt.GoFG("old-fg", func() { vrt.WaitUntil("never", func() bool { return false }) })
		vrt.Quiesce("before")
		k := vrt.FreezeOthers()
		got := -1
		vrt.Go("new-receiver", func() { got = vrt.Recv(c) })
		vrt.Send(c, 7)
		vrt.Sleep(5e9)
		vrt.Quiesce("after")
		vrt.Logf("frozen=%d n=%d got=%d locked=%v", k, n, got, !held.TryLock())
	}, "frozen=3 n=0 got=7 locked=true")

	fail := false
	for _, sc := range scs {
		outcomes := map[string]bool{}
		sc.Check2 = nil
		st := vrt.ExploreCollect(sc, sc.Quick.Dev, func(x *vrt.Exec) {
			l := strings.Join(x.Log, ";")
			if x.Deadlock != "" {
				l = "DEADLOCK"
			}
			outcomes[l] = true
		})
		var got []string
		for k := range outcomes {
			got = append(got, k)
		}
		sort.Strings(got)
		want := strings.Split(sc.Doc, "|")
		sort.Strings(want)
		ok := strings.Join(got, "|") == strings.Join(want, "|")
		fmt.Printf("%-14s execs=%-6d outcomes=%v want=%v ok=%v\n", sc.Name, st.Execs, got, want, ok)
		if !ok {
			fail = true
		}
	}
	if fail {
		fmt.Println("SELFTEST FAILED")
	} else {
		fmt.Println("SELFTEST OK")
	}
}

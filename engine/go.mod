module verif/engine

go 1.22

// goinstr: type-aware source rewriter. It reads packages of the repository
// under test from its *current working tree*, rewrites goroutine spawns,
// channel operations, select statements, sync/time/context primitives into
// calls to the vrt runtime, writes the instrumented files to a scratch
// directory and emits a `go build -overlay` file. The repository is never
// modified.
package main

import (
	"bytes"
	"encoding/json"
	"flag"
	"fmt"
	"go/ast"
	"go/format"
	"go/token"
	"go/types"
	"os"
	"path/filepath"
	"sort"
	"strconv"
	"strings"

	"golang.org/x/tools/go/ast/astutil"
	"golang.org/x/tools/go/packages"
)

const (
	vrtPath = "github.com/AliceO2Group/Control/verif_vrt"
	fsmOrig = "github.com/looplab/fsm"
	fsmNew  = "github.com/AliceO2Group/Control/verif_fsm"
	modPath = "github.com/AliceO2Group/Control"
)

type config struct {
	Repo     string            `json:"repo"`
	Out      string            `json:"out"`
	Packages []string          `json:"packages"`  // import paths relative to module, e.g. "common/event"
	Inject   map[string]string `json:"inject"`    // repo-relative virtual path -> real file (added to packages, instrumented)
	Virtual  map[string]string `json:"virtual"`   // repo-relative virtual path -> real file (added verbatim, not instrumented)
	StmtYield []string         `json:"stmt_yield"` // repo-relative files: yield before every statement inside go-func literals
	MapMon   []string          `json:"map_monitor"` // repo-relative files: bracket map accesses inside go-func literals and on struct fields
	Subst    map[string]string `json:"subst"`     // "pkgpath.Func" -> "vrt-qualified replacement expr" (call-site substitution)
	SubstImports map[string]string `json:"subst_imports"` // local name -> import path, added to files where a substitution happened
	FSM      bool              `json:"fsm"`
	ImportSubst map[string]map[string]string `json:"import_subst"` // module-relative package dir -> {import path -> replacement import path} (the replacement must offer the same names)
	TypecheckVirtual map[string]string `json:"typecheck_virtual"` // virtual files needed only to type-check inject files (vrt itself)
	// EntryHooks: repo-relative file -> {function or method name -> name of a function of the same package (from an
	// injected hook file)}: a call of that function with the instrumented function's parameters is put in front of its body
	EntryHooks map[string]map[string]string `json:"entry_hooks"`
}

var report []string

func main() {
	cfgPath := flag.String("config", "", "config JSON")
	flag.Parse()
	b, err := os.ReadFile(*cfgPath)
	must(err)
	var cfg config
	must(json.Unmarshal(b, &cfg))
	overlay := map[string]string{}
	pkgOverlay := map[string][]byte{}
	for virt, real := range cfg.Inject {
		src, err := os.ReadFile(real)
		must(err)
		pkgOverlay[filepath.Join(cfg.Repo, virt)] = src
	}
	for virt, real := range cfg.TypecheckVirtual {
		src, err := os.ReadFile(real)
		must(err)
		pkgOverlay[filepath.Join(cfg.Repo, virt)] = src
	}
	// go.mod / go.sum served from memory: package loading can never modify the repository
	for _, f := range []string{"go.mod", "go.sum"} {
		if src, err := os.ReadFile(filepath.Join(cfg.Repo, f)); err == nil {
			pkgOverlay[filepath.Join(cfg.Repo, f)] = src
		}
	}
	var patterns []string
	for _, p := range cfg.Packages {
		patterns = append(patterns, modPath+"/"+p)
	}
	if cfg.FSM {
		patterns = append(patterns, fsmOrig)
	}
	pc := &packages.Config{
		Mode:       packages.NeedName | packages.NeedFiles | packages.NeedCompiledGoFiles | packages.NeedSyntax | packages.NeedTypes | packages.NeedTypesInfo | packages.NeedImports | packages.NeedDeps,
		Dir:        cfg.Repo,
		BuildFlags: []string{"-tags=verif", "-mod=mod"},
		Overlay:    pkgOverlay,
		Env:        append(os.Environ(), "GOFLAGS=-mod=mod", "GOPROXY=off", "GOSUMDB=off"),
	}
	pkgs, err := packages.Load(pc, patterns...)
	must(err)
	bad := false
	for _, p := range pkgs {
		for _, e := range p.Errors {
			fmt.Fprintf(os.Stderr, "load error: %s: %v\n", p.PkgPath, e)
			bad = true
		}
	}
	if bad {
		os.Exit(1)
	}
	stmtYield := map[string]bool{}
	for _, f := range cfg.StmtYield {
		stmtYield[filepath.Join(cfg.Repo, f)] = true
	}
	mapMon := map[string]bool{}
	for _, f := range cfg.MapMon {
		mapMon[filepath.Join(cfg.Repo, f)] = true
	}
	must(os.MkdirAll(cfg.Out, 0o755))
	for _, p := range pkgs {
		isFSM := p.PkgPath == fsmOrig
		for i, f := range p.Syntax {
			name := p.CompiledGoFiles[i]
			if strings.HasSuffix(name, "_test.go") {
				continue
			}
			rw := &rewriter{fset: p.Fset, info: p.TypesInfo, file: f, filename: name, repo: cfg.Repo,
				stmtYield: stmtYield[name], mapMon: mapMon[name], cfg: &cfg, pkg: p.Types}
			rw.rewrite()
			var buf bytes.Buffer
			if err := format.Node(&buf, p.Fset, f); err != nil {
				must(fmt.Errorf("%s: %v", name, err))
			}
			var rel, virt string
			if isFSM {
				rel = filepath.Join("verif_fsm", filepath.Base(name))
				virt = filepath.Join(cfg.Repo, rel)
			} else {
				r, err := filepath.Rel(cfg.Repo, name)
				must(err)
				rel = r
				virt = name
			}
			out := filepath.Join(cfg.Out, rel)
			must(os.MkdirAll(filepath.Dir(out), 0o755))
			must(os.WriteFile(out, buf.Bytes(), 0o644))
			overlay[virt] = out
		}
	}
	for virt, real := range cfg.Virtual {
		overlay[filepath.Join(cfg.Repo, virt)] = real
	}
	js, _ := json.MarshalIndent(map[string]any{"Replace": overlay}, "", " ")
	must(os.WriteFile(filepath.Join(cfg.Out, "overlay.json"), js, 0o644))
	sort.Strings(report)
	must(os.WriteFile(filepath.Join(cfg.Out, "instr-report.txt"), []byte(strings.Join(report, "\n")+"\n"), 0o644))
	fmt.Printf("goinstr: %d packages, %d files, %d rewrites\n", len(pkgs), len(overlay), len(report))
}

func must(err error) {
	if err != nil {
		fmt.Fprintln(os.Stderr, "goinstr:", err)
		os.Exit(1)
	}
}

type rewriter struct {
	fset      *token.FileSet
	info      *types.Info
	pkg       *types.Package
	file      *ast.File
	filename  string
	repo      string
	stmtYield bool
	litFrom, litTo token.Pos // the go-func literal whose body is being given statement yields
	mapMon    bool
	cfg       *config
	n         int
	usedVrt   bool
	usedSubst bool

	recv2     map[*ast.UnaryExpr]bool
	chanRange map[*ast.RangeStmt]bool
	mapRange  map[*ast.RangeStmt]bool
	chanLen   map[*ast.CallExpr]bool
	genRecv   map[*ast.CallExpr]ast.Expr // generated vrt.Recv(ch) -> ch
	genRecv2  map[*ast.CallExpr]bool
	genSend   map[*ast.ExprStmt][2]ast.Expr
	goDepth   int
}

func (r *rewriter) site(pos token.Pos) string {
	p := r.fset.Position(pos)
	rel, err := filepath.Rel(r.repo, p.Filename)
	if err != nil || strings.HasPrefix(rel, "..") {
		rel = filepath.Base(filepath.Dir(p.Filename)) + "/" + filepath.Base(p.Filename)
	}
	return rel + ":" + strconv.Itoa(p.Line)
}

func (r *rewriter) note(pos token.Pos, what string) {
	report = append(report, r.site(pos)+" "+what)
}

func vrtSel(name string) *ast.SelectorExpr {
	return &ast.SelectorExpr{X: ast.NewIdent("vrt"), Sel: ast.NewIdent(name)}
}

func call(fun ast.Expr, args ...ast.Expr) *ast.CallExpr {
	return &ast.CallExpr{Fun: fun, Args: args}
}

func strLit(s string) *ast.BasicLit {
	return &ast.BasicLit{Kind: token.STRING, Value: strconv.Quote(s)}
}

func (r *rewriter) isPkg(e ast.Expr, path string) bool {
	id, ok := e.(*ast.Ident)
	if !ok {
		return false
	}
	if pn, ok := r.info.Uses[id].(*types.PkgName); ok {
		return pn.Imported().Path() == path
	}
	return false
}

func (r *rewriter) isChan(e ast.Expr) bool {
	t := r.info.TypeOf(e)
	if t == nil {
		return false
	}
	_, ok := t.Underlying().(*types.Chan)
	if ok {
		return true
	}
	// type parameter with chan core type: not supported
	return false
}

func (r *rewriter) isBuiltin(e ast.Expr, name string) bool {
	id, ok := e.(*ast.Ident)
	if !ok || id.Name != name {
		return false
	}
	_, ok = r.info.Uses[id].(*types.Builtin)
	return ok
}

var timeFuncs = map[string]bool{"Now": true, "Since": true, "Until": true, "Sleep": true, "After": true, "AfterFunc": true, "NewTimer": true, "Timer": true, "NewTicker": true, "Ticker": true, "Tick": true}
var timeUnsupported = map[string]bool{}
var syncNames = map[string]bool{"Mutex": true, "RWMutex": true, "WaitGroup": true, "Once": true, "Cond": true, "NewCond": true, "Locker": true}
var ctxFuncs = map[string]bool{"WithTimeout": true, "WithDeadline": true}

func (r *rewriter) rewrite() {
	r.recv2 = map[*ast.UnaryExpr]bool{}
	r.chanRange = map[*ast.RangeStmt]bool{}
	r.mapRange = map[*ast.RangeStmt]bool{}
	r.chanLen = map[*ast.CallExpr]bool{}
	r.genRecv = map[*ast.CallExpr]ast.Expr{}
	r.genRecv2 = map[*ast.CallExpr]bool{}
	r.genSend = map[*ast.ExprStmt][2]ast.Expr{}

	// keep only the comments that precede the package clause (build constraints) and directives
	var keep []*ast.CommentGroup
	for _, cg := range r.file.Comments {
		if cg.End() < r.file.Package {
			keep = append(keep, cg)
		}
	}
	r.file.Comments = keep
	r.file.Doc = nil
	ast.Inspect(r.file, func(n ast.Node) bool {
		switch d := n.(type) {
		case *ast.FuncDecl:
			d.Doc = nil
			if rel, err := filepath.Rel(r.repo, r.filename); err == nil && d.Body != nil {
				if hook, ok := r.cfg.EntryHooks[rel][d.Name.Name]; ok {
					var args []ast.Expr
					for _, f := range d.Type.Params.List {
						for _, n := range f.Names {
							args = append(args, ast.NewIdent(n.Name))
						}
					}
					d.Body.List = append([]ast.Stmt{&ast.ExprStmt{X: &ast.CallExpr{Fun: ast.NewIdent(hook), Args: args}}}, d.Body.List...)
					report = append(report, fmt.Sprintf("entry hook %s in %s:%s", hook, rel, d.Name.Name))
				}
			}
		case *ast.GenDecl:
			d.Doc = nil
		case *ast.Field:
			d.Doc, d.Comment = nil, nil
		case *ast.TypeSpec:
			d.Doc, d.Comment = nil, nil
		case *ast.ValueSpec:
			d.Doc, d.Comment = nil, nil
		case *ast.ImportSpec:
			d.Doc, d.Comment = nil, nil
		}
		return true
	})

	pre := func(c *astutil.Cursor) bool {
		switch n := c.Node().(type) {
		case *ast.AssignStmt:
			if len(n.Lhs) == 2 && len(n.Rhs) == 1 {
				if u, ok := n.Rhs[0].(*ast.UnaryExpr); ok && u.Op == token.ARROW {
					r.recv2[u] = true
				}
			}
		case *ast.ValueSpec:
			if len(n.Names) == 2 && len(n.Values) == 1 {
				if u, ok := n.Values[0].(*ast.UnaryExpr); ok && u.Op == token.ARROW {
					r.recv2[u] = true
				}
			}
		case *ast.RangeStmt:
			if r.isChan(n.X) {
				r.chanRange[n] = true
			} else if t := r.info.TypeOf(n.X); t != nil {
				if _, ok := t.Underlying().(*types.Map); ok {
					r.mapRange[n] = true
				}
			}
		case *ast.CallExpr:
			if r.isBuiltin(n.Fun, "len") && len(n.Args) == 1 && r.isChan(n.Args[0]) {
				r.chanLen[n] = true
			}
		case *ast.GoStmt:
			r.goDepth++
		}
		return true
	}
	post := func(c *astutil.Cursor) bool {
		switch n := c.Node().(type) {
		case *ast.SelectorExpr:
			r.rewriteSelector(c, n)
		case *ast.SendStmt:
			r.usedVrt = true
			es := &ast.ExprStmt{X: call(call(vrtSel("SendTo"), n.Chan), n.Value)}
			r.genSend[es] = [2]ast.Expr{n.Chan, n.Value}
			r.note(n.Pos(), "send")
			c.Replace(es)
		case *ast.UnaryExpr:
			if n.Op == token.ARROW {
				r.usedVrt = true
				name := "Recv"
				if r.recv2[n] {
					name = "Recv2"
				}
				ce := call(vrtSel(name), n.X)
				r.genRecv[ce] = n.X
				r.genRecv2[ce] = r.recv2[n]
				r.note(n.Pos(), "recv")
				c.Replace(ce)
			}
		case *ast.CallExpr:
			if r.isBuiltin(n.Fun, "close") && len(n.Args) == 1 {
				r.usedVrt = true
				n.Fun = vrtSel("Close")
				r.note(n.Pos(), "close")
			} else if r.chanLen[n] {
				r.usedVrt = true
				n.Fun = vrtSel("Len")
				r.note(n.Pos(), "len(chan)")
			} else {
				r.substCall(n)
			}
		case *ast.AssignStmt:
			if r.mapMon && r.goDepth > 0 && len(n.Lhs) == 1 {
				if ix, ok := n.Lhs[0].(*ast.IndexExpr); ok {
					if t := r.info.TypeOf(ix.X); t != nil {
						if _, isMap := t.Underlying().(*types.Map); isMap {
							r.usedVrt = true
							r.note(n.Pos(), "map write (monitored)")
							en := r.fresh("m")
							c.Replace(&ast.BlockStmt{List: []ast.Stmt{
								&ast.AssignStmt{Lhs: []ast.Expr{ast.NewIdent(en)}, Tok: token.DEFINE, Rhs: []ast.Expr{call(vrtSel("MapW"), ix.X, strLit(r.site(n.Pos())))}},
								n,
								&ast.ExprStmt{X: call(ast.NewIdent(en))},
							}})
						}
					}
				}
			}
		case *ast.RangeStmt:
			if r.chanRange[n] {
				c.Replace(r.rewriteChanRange(n))
			} else if r.mapRange[n] {
				c.Replace(r.rewriteMapRange(n))
			}
		case *ast.SelectStmt:
			c.Replace(r.rewriteSelect(n))
		case *ast.GoStmt:
			r.goDepth--
			c.Replace(r.rewriteGo(n))
		case *ast.ImportSpec:
			if p, _ := strconv.Unquote(n.Path.Value); r.importSubst()[p] != "" {
				if n.Name == nil {
					if pn, ok := r.info.Implicits[n].(*types.PkgName); ok {
						n.Name = ast.NewIdent(pn.Name())
					}
				}
				r.note(n.Pos(), "import "+p+" -> "+r.importSubst()[p])
				n.Path.Value = strconv.Quote(r.importSubst()[p])
			} else if p == fsmOrig && r.cfg.FSM {
				n.Path.Value = strconv.Quote(fsmNew)
				if n.Name == nil {
					n.Name = ast.NewIdent("fsm")
				}
			}
		}
		return true
	}
	astutil.Apply(r.file, pre, post)
	if r.filenameIsFSM() {
		r.file.Name = ast.NewIdent("fsm")
	}
	r.fixImports()
}

// importSubst returns the import replacements configured for this file's package.
func (r *rewriter) importSubst() map[string]string {
	if r.pkg == nil {
		return nil
	}
	rel := strings.TrimPrefix(r.pkg.Path(), modPath+"/")
	return r.cfg.ImportSubst[rel]
}

func (r *rewriter) filenameIsFSM() bool { return r.pkg != nil && r.pkg.Path() == fsmOrig }

func (r *rewriter) rewriteSelector(c *astutil.Cursor, n *ast.SelectorExpr) {
	switch {
	case r.isPkg(n.X, "sync"):
		if syncNames[n.Sel.Name] {
			r.usedVrt = true
			n.X = ast.NewIdent("vrt")
			r.note(n.Pos(), "sync."+n.Sel.Name)
		} else {
			// sync.Map, sync.Pool, sync.OnceFunc ... never block: the real ones are fine under a cooperative scheduler
			r.note(n.Pos(), "sync."+n.Sel.Name+" left as is")
		}
	case r.isPkg(n.X, "time"):
		if timeFuncs[n.Sel.Name] {
			r.usedVrt = true
			n.X = ast.NewIdent("vrt")
			r.note(n.Pos(), "time."+n.Sel.Name)
		} else if timeUnsupported[n.Sel.Name] {
			must(fmt.Errorf("%s: unsupported time.%s", r.site(n.Pos()), n.Sel.Name))
		}
	case r.isPkg(n.X, "context"):
		if ctxFuncs[n.Sel.Name] {
			r.usedVrt = true
			n.X = ast.NewIdent("vrt")
			r.note(n.Pos(), "context."+n.Sel.Name)
		}
	case r.isPkg(n.X, "sync/atomic"):
		// atomics are single steps; no scheduling point needed for the properties at hand
	}
}

// substCall applies the call-site substitution table.
func (r *rewriter) substCall(n *ast.CallExpr) {
	if len(r.cfg.Subst) == 0 || strings.HasPrefix(filepath.Base(r.filename), "verif_") {
		return // hook files call the originals
	}
	var obj types.Object
	switch f := n.Fun.(type) {
	case *ast.SelectorExpr:
		obj = r.info.Uses[f.Sel]
	case *ast.Ident:
		obj = r.info.Uses[f]
	}
	fn, ok := obj.(*types.Func)
	if !ok || fn.Pkg() == nil {
		return
	}
	key := fn.Pkg().Path() + "." + fn.Name()
	if sig, ok := fn.Type().(*types.Signature); ok && sig.Recv() != nil {
		rt := sig.Recv().Type()
		if p, ok := rt.(*types.Pointer); ok {
			rt = p.Elem()
		}
		if nt, ok := rt.(*types.Named); ok {
			key = fn.Pkg().Path() + "." + nt.Obj().Name() + "." + fn.Name()
			if repl, ok := r.cfg.Subst[key]; ok {
				// method: replacement is a function taking the receiver first
				sel := n.Fun.(*ast.SelectorExpr)
				parts := strings.SplitN(repl, ".", 2)
				n.Args = append([]ast.Expr{sel.X}, n.Args...)
				n.Fun = &ast.SelectorExpr{X: ast.NewIdent(parts[0]), Sel: ast.NewIdent(parts[1])}
				r.usedSubst = true
				r.note(n.Pos(), "subst "+key)
			}
			return
		}
	}
	if repl, ok := r.cfg.Subst[key]; ok {
		parts := strings.SplitN(repl, ".", 2)
		if parts[0] == "vrt" {
			r.usedVrt = true
		}
		if r.pkg != nil && r.pkg.Name() == parts[0] && r.pkg.Path() == fn.Pkg().Path() {
			n.Fun = ast.NewIdent(parts[1]) // same package: unqualified
		} else {
			n.Fun = &ast.SelectorExpr{X: ast.NewIdent(parts[0]), Sel: ast.NewIdent(parts[1])}
		}
		r.usedSubst = true
		r.note(n.Pos(), "subst "+key)
	}
}

func (r *rewriter) fresh(prefix string) string {
	r.n++
	return fmt.Sprintf("_v%s%d", prefix, r.n)
}

func (r *rewriter) rewriteChanRange(n *ast.RangeStmt) ast.Stmt {
	r.usedVrt = true
	r.note(n.Pos(), "range chan")
	okName := r.fresh("ok")
	var lhs ast.Expr = ast.NewIdent("_")
	tok := token.DEFINE
	if n.Key != nil {
		lhs = n.Key
		if n.Tok == token.ASSIGN {
			// v = range ch : v, ok = Recv2 needs ok declared
			tok = token.ASSIGN
		}
	}
	var recvStmt ast.Stmt
	if tok == token.ASSIGN {
		recvStmt = &ast.BlockStmt{}
		// var ok bool; v, ok = vrt.Recv2(ch)
		decl := &ast.DeclStmt{Decl: &ast.GenDecl{Tok: token.VAR, Specs: []ast.Spec{&ast.ValueSpec{Names: []*ast.Ident{ast.NewIdent(okName)}, Type: ast.NewIdent("bool")}}}}
		as := &ast.AssignStmt{Lhs: []ast.Expr{lhs, ast.NewIdent(okName)}, Tok: token.ASSIGN, Rhs: []ast.Expr{call(vrtSel("Recv2"), n.X)}}
		brk := &ast.IfStmt{Cond: &ast.UnaryExpr{Op: token.NOT, X: ast.NewIdent(okName)}, Body: &ast.BlockStmt{List: []ast.Stmt{&ast.BranchStmt{Tok: token.BREAK}}}}
		body := append([]ast.Stmt{decl, as, brk}, n.Body.List...)
		return &ast.ForStmt{Body: &ast.BlockStmt{List: body}}
	}
	_ = recvStmt
	as := &ast.AssignStmt{Lhs: []ast.Expr{lhs, ast.NewIdent(okName)}, Tok: token.DEFINE, Rhs: []ast.Expr{call(vrtSel("Recv2"), n.X)}}
	brk := &ast.IfStmt{Cond: &ast.UnaryExpr{Op: token.NOT, X: ast.NewIdent(okName)}, Body: &ast.BlockStmt{List: []ast.Stmt{&ast.BranchStmt{Tok: token.BREAK}}}}
	body := append([]ast.Stmt{as, brk}, n.Body.List...)
	return &ast.ForStmt{Body: &ast.BlockStmt{List: body}}
}

// rewriteMapRange makes map iteration order deterministic (sorted keys):
//   for k, v := range m {B}  =>
//   for _vs, _vi := vrt.MapSnap(m, site), 0; _vi < _vs.Len(); _vi++ { k, v, ok := _vs.At(_vi); if !ok {continue}; B }
func (r *rewriter) rewriteMapRange(n *ast.RangeStmt) ast.Stmt {
	r.usedVrt = true
	r.note(n.Pos(), "range map")
	vs, vi, vok := r.fresh("s"), r.fresh("i"), r.fresh("ok")
	init := &ast.AssignStmt{Lhs: []ast.Expr{ast.NewIdent(vs), ast.NewIdent(vi)}, Tok: token.DEFINE,
		Rhs: []ast.Expr{call(vrtSel("MapSnap"), n.X, strLit(r.site(n.Pos()))), &ast.BasicLit{Kind: token.INT, Value: "0"}}}
	cond := &ast.BinaryExpr{X: ast.NewIdent(vi), Op: token.LSS, Y: call(&ast.SelectorExpr{X: ast.NewIdent(vs), Sel: ast.NewIdent("Len")})}
	post := &ast.IncDecStmt{X: ast.NewIdent(vi), Tok: token.INC}
	at := call(&ast.SelectorExpr{X: ast.NewIdent(vs), Sel: ast.NewIdent("At")}, ast.NewIdent(vi))
	var k, v ast.Expr = ast.NewIdent("_"), ast.NewIdent("_")
	if n.Key != nil {
		k = n.Key
	}
	if n.Value != nil {
		v = n.Value
	}
	var head []ast.Stmt
	cont := &ast.IfStmt{Cond: &ast.UnaryExpr{Op: token.NOT, X: ast.NewIdent(vok)}, Body: &ast.BlockStmt{List: []ast.Stmt{&ast.BranchStmt{Tok: token.CONTINUE}}}}
	if n.Tok == token.ASSIGN {
		tk, tv := r.fresh("k"), r.fresh("v")
		head = append(head, &ast.AssignStmt{Lhs: []ast.Expr{ast.NewIdent(tk), ast.NewIdent(tv), ast.NewIdent(vok)}, Tok: token.DEFINE, Rhs: []ast.Expr{at}})
		head = append(head, cont)
		head = append(head, &ast.AssignStmt{Lhs: []ast.Expr{k, v}, Tok: token.ASSIGN, Rhs: []ast.Expr{ast.NewIdent(tk), ast.NewIdent(tv)}})
	} else {
		head = append(head, &ast.AssignStmt{Lhs: []ast.Expr{k, v, ast.NewIdent(vok)}, Tok: token.DEFINE, Rhs: []ast.Expr{at}})
		head = append(head, cont)
	}
	return &ast.ForStmt{Init: init, Cond: cond, Post: post, Body: &ast.BlockStmt{List: append(head, n.Body.List...)}}
}

func (r *rewriter) rewriteSelect(n *ast.SelectStmt) ast.Stmt {
	r.usedVrt = true
	r.note(n.Pos(), "select")
	if len(n.Body.List) == 0 {
		return &ast.ExprStmt{X: call(vrtSel("BlockForever"))}
	}
	hasDefault := false
	var initL, initR []ast.Expr
	var selArgs []ast.Expr
	var clauses []ast.Stmt
	idx := 0
	for _, cl := range n.Body.List {
		cc := cl.(*ast.CommClause)
		if cc.Comm == nil {
			hasDefault = true
			clauses = append(clauses, &ast.CaseClause{List: nil, Body: cc.Body})
			continue
		}
		var body []ast.Stmt
		switch cm := cc.Comm.(type) {
		case *ast.ExprStmt:
			if sv, ok := r.genSend[cm]; ok {
				selArgs = append(selArgs, call(call(vrtSel("SendCaseTo"), sv[0]), sv[1]))
			} else if ce, ok := cm.X.(*ast.CallExpr); ok && r.genRecv[ce] != nil {
				selArgs = append(selArgs, call(vrtSel("RecvCase"), r.genRecv[ce]))
			} else {
				must(fmt.Errorf("%s: unsupported select comm", r.site(cm.Pos())))
			}
		case *ast.AssignStmt:
			ce, ok := cm.Rhs[0].(*ast.CallExpr)
			if !ok || r.genRecv[ce] == nil {
				must(fmt.Errorf("%s: unsupported select assign", r.site(cm.Pos())))
			}
			name := r.fresh("c")
			initL = append(initL, ast.NewIdent(name))
			initR = append(initR, call(vrtSel("RecvCase"), r.genRecv[ce]))
			selArgs = append(selArgs, ast.NewIdent(name))
			allBlank := true
			for _, l := range cm.Lhs {
				if id, ok := l.(*ast.Ident); !ok || id.Name != "_" {
					allBlank = false
				}
			}
			if !allBlank {
				rhs := []ast.Expr{call(&ast.SelectorExpr{X: ast.NewIdent(name), Sel: ast.NewIdent("Val")})}
				if len(cm.Lhs) == 2 {
					rhs = append(rhs, call(&ast.SelectorExpr{X: ast.NewIdent(name), Sel: ast.NewIdent("Ok")}))
				}
				body = append(body, &ast.AssignStmt{Lhs: cm.Lhs, Tok: cm.Tok, Rhs: rhs})
				// silence "declared and not used" for := when the body ignores the value (cannot happen in valid Go)
			}
		default:
			must(fmt.Errorf("%s: unsupported select comm %T", r.site(cc.Pos()), cm))
		}
		body = append(body, cc.Body...)
		clauses = append(clauses, &ast.CaseClause{List: []ast.Expr{&ast.BasicLit{Kind: token.INT, Value: strconv.Itoa(idx)}}, Body: body})
		idx++
	}
	hd := "false"
	if hasDefault {
		hd = "true"
	}
	args := append([]ast.Expr{ast.NewIdent(hd)}, selArgs...)
	sw := &ast.SwitchStmt{Tag: call(vrtSel("Select"), args...), Body: &ast.BlockStmt{List: clauses}}
	if len(initL) > 0 {
		sw.Init = &ast.AssignStmt{Lhs: initL, Tok: token.DEFINE, Rhs: initR}
	}
	if !hasDefault {
		// a switch without matching case silently falls through; make it loud
		sw.Body.List = append(sw.Body.List, &ast.CaseClause{List: nil, Body: []ast.Stmt{&ast.ExprStmt{X: call(ast.NewIdent("panic"), strLit("vrt: select returned no case"))}}})
	}
	return sw
}

func (r *rewriter) rewriteGo(n *ast.GoStmt) ast.Stmt {
	r.usedVrt = true
	site := r.site(n.Pos())
	r.note(n.Pos(), "go")
	var pre []ast.Stmt
	c := n.Call
	// hoist arguments
	for i, a := range c.Args {
		tv, ok := r.info.Types[a]
		if ok && (tv.Value != nil || tv.IsNil()) {
			continue
		}
		if id, ok := a.(*ast.Ident); ok && id.Name == "nil" {
			continue
		}
		if ok {
			if _, isTuple := tv.Type.(*types.Tuple); isTuple {
				r.note(n.Pos(), "go: multi-value argument evaluated in the new thread")
				continue
			}
		}
		if _, isLit := a.(*ast.FuncLit); isLit {
			continue
		}
		name := r.fresh("a")
		pre = append(pre, &ast.AssignStmt{Lhs: []ast.Expr{ast.NewIdent(name)}, Tok: token.DEFINE, Rhs: []ast.Expr{a}})
		c.Args[i] = ast.NewIdent(name)
	}
	// hoist function value unless literal or plain function
	switch f := c.Fun.(type) {
	case *ast.FuncLit:
		if r.stmtYield {
			r.litFrom, r.litTo = f.Pos(), f.End()
			r.addStmtYields(f.Body)
			r.litFrom, r.litTo = token.NoPos, token.NoPos
		}
	case *ast.Ident:
		// local func variable or package func: evaluating later is equivalent unless reassigned; hoist variables
		if _, isFunc := r.info.Uses[f].(*types.Func); !isFunc {
			if _, isVar := r.info.Uses[f].(*types.Var); isVar {
				name := r.fresh("f")
				pre = append(pre, &ast.AssignStmt{Lhs: []ast.Expr{ast.NewIdent(name)}, Tok: token.DEFINE, Rhs: []ast.Expr{f}})
				c.Fun = ast.NewIdent(name)
			}
		}
	case *ast.SelectorExpr:
		if sel, ok := r.info.Selections[f]; ok && (sel.Kind() == types.MethodVal || sel.Kind() == types.FieldVal) {
			name := r.fresh("f")
			pre = append(pre, &ast.AssignStmt{Lhs: []ast.Expr{ast.NewIdent(name)}, Tok: token.DEFINE, Rhs: []ast.Expr{f}})
			c.Fun = ast.NewIdent(name)
		}
	default:
		name := r.fresh("f")
		pre = append(pre, &ast.AssignStmt{Lhs: []ast.Expr{ast.NewIdent(name)}, Tok: token.DEFINE, Rhs: []ast.Expr{c.Fun}})
		c.Fun = ast.NewIdent(name)
	}
	lit := &ast.FuncLit{Type: &ast.FuncType{Params: &ast.FieldList{}}, Body: &ast.BlockStmt{List: []ast.Stmt{&ast.ExprStmt{X: c}}}}
	goCall := &ast.ExprStmt{X: call(vrtSel("Go"), strLit(site), lit)}
	if len(pre) == 0 {
		return goCall
	}
	return &ast.BlockStmt{List: append(pre, goCall)}
}

// splitSharedRMW: `v = f(..., v, ...)` in a go-func body, v declared outside of it (a variable the sibling
// threads share), is a read and a later write of v, not one step: the read is moved into a statement of its own
// and a yield put between the two, so that the explorer can interleave another thread there.
func (r *rewriter) splitSharedRMW(s ast.Stmt) []ast.Stmt {
	as, ok := s.(*ast.AssignStmt)
	if !ok || as.Tok != token.ASSIGN || len(as.Lhs) != 1 || len(as.Rhs) != 1 || r.litFrom == token.NoPos {
		return nil
	}
	id, ok := as.Lhs[0].(*ast.Ident)
	if !ok {
		return nil
	}
	obj, isVar := r.info.Uses[id].(*types.Var)
	if !isVar || (obj.Pos() >= r.litFrom && obj.Pos() < r.litTo) {
		return nil
	}
	c, ok := as.Rhs[0].(*ast.CallExpr)
	if !ok {
		return nil
	}
	for i, a := range c.Args {
		if aid, ok := a.(*ast.Ident); ok && r.info.Uses[aid] == types.Object(obj) {
			tmp := r.fresh("rmw")
			c.Args[i] = ast.NewIdent(tmp)
			r.note(s.Pos(), "shared read-modify-write of "+id.Name+" split")
			return []ast.Stmt{
				&ast.AssignStmt{Lhs: []ast.Expr{ast.NewIdent(tmp)}, Tok: token.DEFINE, Rhs: []ast.Expr{ast.NewIdent(id.Name)}},
				&ast.ExprStmt{X: call(vrtSel("Yield"), strLit(r.site(s.Pos())+" between the read and the write of "+id.Name))},
			}
		}
	}
	return nil
}

// addStmtYields inserts vrt.Yield before every statement of a go-func body (recursively into blocks).
func (r *rewriter) addStmtYields(b *ast.BlockStmt) {
	if b == nil {
		return
	}
	var out []ast.Stmt
	for _, s := range b.List {
		switch st := s.(type) {
		case *ast.BlockStmt:
			r.addStmtYields(st)
		case *ast.IfStmt:
			r.addStmtYields(st.Body)
			if eb, ok := st.Else.(*ast.BlockStmt); ok {
				r.addStmtYields(eb)
			}
		case *ast.ForStmt:
			r.addStmtYields(st.Body)
		case *ast.RangeStmt:
			r.addStmtYields(st.Body)
		}
		if _, isDecl := s.(*ast.DeclStmt); !isDecl {
			out = append(out, &ast.ExprStmt{X: call(vrtSel("Yield"), strLit(r.site(s.Pos())))})
		}
		out = append(out, r.splitSharedRMW(s)...)
		out = append(out, s)
	}
	b.List = out
}

func (r *rewriter) fixImports() {
	// which import names are still referenced?
	used := map[string]bool{}
	ast.Inspect(r.file, func(n ast.Node) bool {
		if se, ok := n.(*ast.SelectorExpr); ok {
			if id, ok := se.X.(*ast.Ident); ok {
				used[id.Name] = true
			}
		}
		return true
	})
	for _, is := range r.file.Imports {
		p, _ := strconv.Unquote(is.Path.Value)
		if p != "sync" && p != "time" && p != "context" && !r.usedSubst {
			continue
		}
		name := ""
		if is.Name != nil {
			name = is.Name.Name
		} else if pn, ok := r.info.Implicits[is].(*types.PkgName); ok {
			name = pn.Name()
		}
		if name == "" {
			continue
		}
		if name == "_" || name == "." {
			continue
		}
		if !used[name] {
			is.Name = ast.NewIdent("_")
		}
	}
	add := map[string]string{}
	if r.usedVrt {
		add["vrt"] = vrtPath
	}
	if r.usedSubst {
		for n, p := range r.cfg.SubstImports {
			if used[n] { // only where a substitution actually introduced the name
				add[n] = p
			}
		}
	}
	if len(add) == 0 {
		return
	}
	var names []string
	for n := range add {
		names = append(names, n)
	}
	sort.Strings(names)
	for _, n := range names {
		// skip if already imported under that name
		dup := false
		for _, is := range r.file.Imports {
			p, _ := strconv.Unquote(is.Path.Value)
			if p == add[n] && (is.Name == nil || is.Name.Name == n) {
				dup = true // (the same path under another local name, e.g. via import_subst, does not count)
			}
		}
		if dup {
			continue
		}
		spec := &ast.ImportSpec{Name: ast.NewIdent(n), Path: strLit(add[n])}
		gd := &ast.GenDecl{Tok: token.IMPORT, Specs: []ast.Spec{spec}}
		// insert after the last import decl (or first)
		pos := 0
		for i, d := range r.file.Decls {
			if g, ok := d.(*ast.GenDecl); ok && g.Tok == token.IMPORT {
				pos = i + 1
			}
		}
		r.file.Decls = append(r.file.Decls[:pos], append([]ast.Decl{gd}, r.file.Decls[pos:]...)...)
		r.file.Imports = append(r.file.Imports, spec)
	}
}

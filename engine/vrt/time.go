package vrt

import (
	"context"
	"sort"
	"time"
)

// NowStepNS is how much virtual time every Now() call consumes (distinct, ordered timestamps).
var NowStepNS int64 = 1000

var baseTime = time.Date(2026, 1, 1, 0, 0, 0, 0, time.UTC)

type timerEnt struct {
	at      int64
	seq     int
	fire    func()
	stopped bool
	fired   bool
}

// Timer replaces time.Timer.
type Timer struct {
	C   <-chan time.Time
	c   chan time.Time
	ent *timerEnt
	f   func()
	x   *Exec
	rt  *time.Timer
}

func (x *Exec) addTimer(d time.Duration, fire func()) *timerEnt {
	if d < 0 {
		d = 0
	}
	x.timerSeq++
	e := &timerEnt{at: x.clockNS + int64(d), seq: x.timerSeq, fire: fire}
	x.timers = append(x.timers, e)
	return e
}

func (x *Exec) nextTimer() *timerEnt {
	var best *timerEnt
	live := x.timers[:0]
	for _, e := range x.timers {
		if e.stopped || e.fired {
			continue
		}
		live = append(live, e)
		if best == nil || e.at < best.at || (e.at == best.at && e.seq < best.seq) {
			best = e
		}
	}
	x.timers = live
	return best
}

func (x *Exec) haveDueableTimer() bool {
	e := x.nextTimer()
	return e != nil && e.at <= int64(x.cfg.Horizon)
}

// fireNextTimers advances the clock to the earliest pending deadline and
// fires every timer due then (in creation order, or in an explorer-chosen
// order when several share the deadline).
func (x *Exec) fireNextTimers() bool {
	e := x.nextTimer()
	if e == nil || e.at > int64(x.cfg.Horizon) {
		return false
	}
	if e.at > x.clockNS {
		x.clockNS = e.at
	}
	var due []*timerEnt
	for _, t := range x.timers {
		if !t.stopped && !t.fired && t.at <= x.clockNS {
			due = append(due, t)
		}
	}
	sort.Slice(due, func(i, j int) bool { return due[i].seq < due[j].seq })
	if len(due) > 1 {
		k := x.choose(len(due), true, "timer-order", false)
		due[0], due[k] = due[k], due[0]
	}
	// fire one; the others stay due and fire at the next idle moment (or race)
	due[0].fired = true
	due[0].fire()
	return true
}

// Now replaces time.Now: virtual, strictly increasing.
func Now() time.Time {
	x := cur
	if x == nil || x.finished {
		return time.Now()
	}
	x.clockNS += NowStepNS
	return baseTime.Add(time.Duration(x.clockNS))
}

// VNow returns the virtual time without advancing it.
func VNow() time.Duration {
	if cur == nil {
		return 0
	}
	return time.Duration(cur.clockNS)
}

func Since(t time.Time) time.Duration { return Now().Sub(t) }
func Until(t time.Time) time.Duration { return t.Sub(Now()) }

// Sleep replaces time.Sleep.
func Sleep(d time.Duration) {
	x := cur
	if x == nil || x.finished {
		time.Sleep(d)
		return
	}
	if x.aborting {
		panic(abortSentinel{})
	}
	if d <= 0 {
		x.point(&op{kind: OpYield, site: caller(2)})
		return
	}
	woke := false
	x.addTimer(d, func() { woke = true })
	x.point(&op{kind: OpSleep, site: caller(2), desc: d.String(), enabled: func() bool { return woke }})
}

func (x *Exec) timerSend(c chan time.Time) {
	cs := x.chanOf(c)
	cs.modelUsed = true
	now := baseTime.Add(time.Duration(x.clockNS))
	if len(cs.buf) < cs.cap {
		cs.buf = append(cs.buf, now)
	}
}

// After replaces time.After.
func After(d time.Duration) <-chan time.Time {
	x := cur
	if x == nil || x.finished {
		return time.After(d)
	}
	c := make(chan time.Time, 1)
	x.chanOf(c).modelUsed = true
	x.addTimer(d, func() { x.timerSend(c) })
	return c
}

// NewTimer replaces time.NewTimer.
func NewTimer(d time.Duration) *Timer {
	x := cur
	if x == nil || x.finished {
		rt := time.NewTimer(d)
		return &Timer{C: rt.C, rt: rt}
	}
	c := make(chan time.Time, 1)
	x.chanOf(c).modelUsed = true
	t := &Timer{C: c, c: c, x: x}
	t.ent = x.addTimer(d, func() { x.timerSend(c) })
	return t
}

// AfterFunc replaces time.AfterFunc.
func AfterFunc(d time.Duration, f func()) *Timer {
	x := cur
	if x == nil || x.finished {
		return &Timer{rt: time.AfterFunc(d, f)}
	}
	t := &Timer{f: f, x: x}
	site := caller(2)
	t.ent = x.addTimer(d, func() { x.newThread("timer:"+site, false, f) })
	return t
}

func (t *Timer) Stop() bool {
	if t.rt != nil {
		return t.rt.Stop()
	}
	if t.x != cur || t.x.finished {
		return false
	}
	was := !t.ent.stopped && !t.ent.fired
	t.ent.stopped = true
	return was
}

func (t *Timer) Reset(d time.Duration) bool {
	if t.rt != nil {
		return t.rt.Reset(d)
	}
	x := t.x
	if x != cur || x.finished {
		return false
	}
	was := !t.ent.stopped && !t.ent.fired
	t.ent.stopped = true
	if t.f != nil {
		f := t.f
		t.ent = x.addTimer(d, func() { x.newThread("timer", false, f) })
	} else {
		c := t.c
		t.ent = x.addTimer(d, func() { x.timerSend(c) })
	}
	return was
}

// WithTimeout replaces context.WithTimeout (virtual deadline).
func WithTimeout(parent context.Context, d time.Duration) (context.Context, context.CancelFunc) {
	x := cur
	if x == nil || x.finished {
		return context.WithTimeout(parent, d)
	}
	ctx, cancel := context.WithCancelCause(parent)
	e := x.addTimer(d, func() { cancel(context.DeadlineExceeded) })
	dl := baseTime.Add(time.Duration(x.clockNS) + d)
	return &deadlineCtx{Context: ctx, dl: dl}, func() { e.stopped = true; cancel(context.Canceled) }
}

// WithDeadline replaces context.WithDeadline.
func WithDeadline(parent context.Context, t time.Time) (context.Context, context.CancelFunc) {
	x := cur
	if x == nil || x.finished {
		return context.WithDeadline(parent, t)
	}
	return WithTimeout(parent, t.Sub(baseTime.Add(time.Duration(x.clockNS))))
}

type deadlineCtx struct {
	context.Context
	dl time.Time
}

func (c *deadlineCtx) Deadline() (time.Time, bool) { return c.dl, true }
func (c *deadlineCtx) Err() error {
	if err := c.Context.Err(); err != nil {
		if cause := context.Cause(c.Context); cause == context.DeadlineExceeded {
			return context.DeadlineExceeded
		}
		return err
	}
	return nil
}

// Ticker replaces time.Ticker (periodic virtual timer; ticks are dropped when the channel is full, as in Go).
type Ticker struct {
	C       <-chan time.Time
	c       chan time.Time
	x       *Exec
	d       time.Duration
	ent     *timerEnt
	stopped bool
	rt      *time.Ticker
}

func (t *Ticker) arm() {
	x := t.x
	t.ent = x.addTimer(t.d, func() {
		if t.stopped {
			return
		}
		x.timerSend(t.c)
		t.arm()
	})
}

// NewTicker replaces time.NewTicker.
func NewTicker(d time.Duration) *Ticker {
	x := cur
	if x == nil || x.finished {
		rt := time.NewTicker(d)
		return &Ticker{C: rt.C, rt: rt}
	}
	if d <= 0 {
		panic("non-positive interval for NewTicker")
	}
	c := make(chan time.Time, 1)
	x.chanOf(c).modelUsed = true
	t := &Ticker{C: c, c: c, x: x, d: d}
	t.arm()
	return t
}

func (t *Ticker) Stop() {
	if t.rt != nil {
		t.rt.Stop()
		return
	}
	t.stopped = true
	if t.ent != nil {
		t.ent.stopped = true
	}
}

func (t *Ticker) Reset(d time.Duration) {
	if t.rt != nil {
		t.rt.Reset(d)
		return
	}
	if t.ent != nil {
		t.ent.stopped = true
	}
	t.d, t.stopped = d, false
	t.arm()
}

// Tick replaces time.Tick.
func Tick(d time.Duration) <-chan time.Time {
	if d <= 0 {
		return nil
	}
	return NewTicker(d).C
}
